/-
Lemmas about `makeTable` (model of `_make_wfs_table`): distinct unit ids, candidates, the sorted index list
`wfIdx`, the rows and the per-unit counts.
-/
import IblVerif.Lemmas.WaveformsSort
import IblVerif.Model.Waveforms
namespace IblVerif.Waveforms

/-! ### `np.unique` -/

theorem mem_insertU (x y : Int) : ∀ l : List Int, y ∈ insertU x l ↔ y = x ∨ y ∈ l
  | [] => by simp [insertU]
  | z :: zs => by
    unfold insertU
    split
    · simp
    · split
      · rename_i h; subst h; simp
      · simp only [List.mem_cons, mem_insertU x y zs]
        constructor
        · rintro (h | h | h) <;> simp [h]
        · rintro (h | h | h) <;> simp [h]

theorem insertU_sorted (x : Int) : ∀ l : List Int, l.Pairwise (· < ·) → (insertU x l).Pairwise (· < ·)
  | [], _ => by simp [insertU]
  | z :: zs, h => by
    unfold insertU
    rw [List.pairwise_cons] at h
    split
    · rename_i hxz
      rw [List.pairwise_cons]
      refine ⟨fun y hy => ?_, List.pairwise_cons.mpr h⟩
      rcases List.mem_cons.mp hy with rfl | hy
      · exact hxz
      · exact Int.lt_trans hxz (h.1 y hy)
    · split
      · exact List.pairwise_cons.mpr h
      · rename_i h1 h2
        rw [List.pairwise_cons]
        refine ⟨fun y hy => ?_, insertU_sorted x zs h.2⟩
        rcases (mem_insertU x y zs).mp hy with rfl | hy
        · omega
        · exact h.1 y hy

theorem mem_unique (y : Int) : ∀ l : List Int, y ∈ unique l ↔ y ∈ l
  | [] => by simp [unique]
  | x :: xs => by
    have ih := mem_unique y xs
    unfold unique at ih ⊢
    rw [List.foldr_cons, mem_insertU, ih, List.mem_cons]

theorem unique_sorted : ∀ l : List Int, (unique l).Pairwise (· < ·)
  | [] => by simp [unique]
  | x :: xs => by
    have ih := unique_sorted xs
    unfold unique at ih ⊢
    rw [List.foldr_cons]
    exact insertU_sorted x _ ih

theorem unique_nodup (l : List Int) : (unique l).Nodup :=
  (unique_sorted l).imp (fun h => Int.ne_of_lt h)

/-! ### candidates -/

theorem mem_candidates (sp : List Spike) (ns off len : Nat) (u : Int) (j : Nat) :
    j ∈ candidates sp ns off len u ↔
      ∃ s, sp[j]? = some s ∧ s.cluster = u ∧ allowed ns off len s.sample = true := by
  unfold candidates
  rw [List.mem_filter, List.mem_range]
  constructor
  · rintro ⟨hj, h⟩
    rw [List.getElem?_eq_getElem hj] at h
    exact ⟨sp[j], List.getElem?_eq_getElem hj, by simpa using h⟩
  · rintro ⟨s, hs, hc, ha⟩
    have hj : j < sp.length := by
      by_cases h : j < sp.length
      · exact h
      · rw [List.getElem?_eq_none (Nat.le_of_not_lt h)] at hs; cases hs
    refine ⟨hj, ?_⟩
    rw [hs]; simp [hc, ha]

theorem candidates_sorted (sp : List Spike) (ns off len : Nat) (u : Int) :
    (candidates sp ns off len u).Pairwise (· < ·) :=
  List.Pairwise.sublist List.filter_sublist List.pairwise_lt_range

/-! ### the law of the random choice, unpacked -/

theorem lawfulChoice_iff (cand : List Nat) (k : Nat) (c : List Nat) :
    lawfulChoice cand k c = true ↔ c.length = k ∧ (∀ i ∈ c, i ∈ cand) ∧ c.Nodup := by
  unfold lawfulChoice
  simp [Bool.and_eq_true, List.all_eq_true, and_assoc]

theorem lawfulAll_iff (choose : Choose) (sp : List Spike) (ns off len maxWf : Nat) :
    lawfulAll choose sp ns off len maxWf = true ↔ Lawful choose sp ns off len maxWf := by
  unfold lawfulAll Lawful
  rw [List.all_eq_true]

/-! ### `wf_idx` -/

theorem leInt_trans (a b c : Int) : leInt a b = true → leInt b c = true → leInt a c = true := by
  unfold leInt; simp only [decide_eq_true_eq]; omega

theorem leInt_total (a b : Int) : (leInt a b || leInt b a) = true := by
  unfold leInt; simp only [Bool.or_eq_true, decide_eq_true_eq]; omega

theorem unitRow_nonneg (m : Nat) (c : List Nat) :
    ((unitRow m c).filter (fun x => decide (x ≥ 0))).map Int.toNat = c := by
  unfold unitRow
  rw [List.filter_append]
  have h1 : (c.map Int.ofNat).filter (fun x => decide (x ≥ 0)) = c.map Int.ofNat := by
    apply List.filter_eq_self.mpr
    intro x hx
    rw [List.mem_map] at hx
    obtain ⟨n, _, rfl⟩ := hx
    simp
  have h2 : (List.replicate (m - c.length) (-1 : Int)).filter (fun x => decide (x ≥ 0)) = [] := by
    apply List.filter_eq_nil_iff.mpr
    intro x hx
    rw [List.mem_replicate] at hx
    simp [hx.2]
  rw [h1, h2, List.append_nil, List.map_map]
  have : (Int.toNat ∘ Int.ofNat) = id := by funext n; simp
  rw [this, List.map_id]

/-- the chosen spikes of all units, unit after unit -/
def allChosen (choose : Choose) (sp : List Spike) (ns off len maxWf : Nat) : List Nat :=
  ((unitIds sp).map fun u => chosen choose sp ns off len maxWf u).flatten

theorem wfIdx_perm (choose : Choose) (sp : List Spike) (ns off len maxWf : Nat) :
    (wfIdx choose sp ns off len maxWf).Perm (allChosen choose sp ns off len maxWf) := by
  unfold wfIdx allChosen
  simp only
  refine ((List.wvSort_perm _ leInt).filter _ |>.map Int.toNat).trans ?_
  rw [List.filter_flatten, List.map_flatten, List.map_map, List.map_map]
  apply List.Perm.of_eq
  congr 1
  apply List.map_congr_left
  intro u _
  simp only [Function.comp]
  exact unitRow_nonneg maxWf _

theorem mem_allChosen (choose : Choose) (sp : List Spike) (ns off len maxWf : Nat) (j : Nat) :
    j ∈ allChosen choose sp ns off len maxWf ↔ ∃ u ∈ unitIds sp, j ∈ chosen choose sp ns off len maxWf u := by
  unfold allChosen
  simp only [List.mem_flatten, List.mem_map]
  constructor
  · rintro ⟨l, ⟨u, hu, rfl⟩, hj⟩; exact ⟨u, hu, hj⟩
  · rintro ⟨u, hu, hj⟩; exact ⟨_, ⟨u, hu, rfl⟩, hj⟩

theorem allChosen_nodup (choose : Choose) (sp : List Spike) (ns off len maxWf : Nat)
    (hlaw : Lawful choose sp ns off len maxWf) : (allChosen choose sp ns off len maxWf).Nodup := by
  unfold allChosen
  unfold List.Nodup
  rw [List.pairwise_flatten]
  constructor
  · intro l hl
    rw [List.mem_map] at hl
    obtain ⟨u, hu, rfl⟩ := hl
    exact ((lawfulChoice_iff _ _ _).mp (hlaw u hu)).2.2
  · rw [List.pairwise_map]
    apply List.Pairwise.imp_of_mem _ (unique_sorted _)
    intro u v hu hv huv
    intro j hj1 j' hj2 hjj
    subst hjj
    have h1 := ((lawfulChoice_iff _ _ _).mp (hlaw u hu)).2.1 j hj1
    have h2 := ((lawfulChoice_iff _ _ _).mp (hlaw v hv)).2.1 j hj2
    rw [mem_candidates] at h1 h2
    obtain ⟨s1, hs1, hc1, _⟩ := h1
    obtain ⟨s2, hs2, hc2, _⟩ := h2
    rw [hs1] at hs2
    cases hs2
    omega

theorem wfIdx_sorted (choose : Choose) (sp : List Spike) (ns off len maxWf : Nat)
    (hlaw : Lawful choose sp ns off len maxWf) : (wfIdx choose sp ns off len maxWf).Pairwise (· < ·) := by
  apply pairwise_lt_of_le_nodup
  · unfold wfIdx
    simp only
    rw [List.pairwise_map]
    apply List.Pairwise.sublist List.filter_sublist
    apply (List.pairwise_wvSort leInt_trans leInt_total _).imp
    intro a b h
    unfold leInt at h
    simp only [decide_eq_true_eq] at h
    omega
  · exact (wfIdx_perm choose sp ns off len maxWf).nodup_iff.mpr (allChosen_nodup choose sp ns off len maxWf hlaw)

theorem mem_wfIdx (choose : Choose) (sp : List Spike) (ns off len maxWf : Nat) (j : Nat) :
    j ∈ wfIdx choose sp ns off len maxWf ↔ ∃ u ∈ unitIds sp, j ∈ chosen choose sp ns off len maxWf u := by
  rw [(wfIdx_perm choose sp ns off len maxWf).mem_iff, mem_allChosen]

theorem wfIdx_lt (choose : Choose) (sp : List Spike) (ns off len maxWf : Nat)
    (hlaw : Lawful choose sp ns off len maxWf) : ∀ j ∈ wfIdx choose sp ns off len maxWf, j < sp.length := by
  intro j hj
  rw [mem_wfIdx] at hj
  obtain ⟨u, hu, hj⟩ := hj
  have := ((lawfulChoice_iff _ _ _).mp (hlaw u hu)).2.1 j hj
  rw [mem_candidates] at this
  obtain ⟨s, hs, _⟩ := this
  by_cases h : j < sp.length
  · exact h
  · rw [List.getElem?_eq_none (Nat.le_of_not_lt h)] at hs; cases hs

/-! ### the rows of `wf_flat` -/

/-- what `makeTable` returns for the sorted index list `idx` -/
def tableRows (sp : List Spike) (idx : List Nat) : List Row :=
  let spk := fun (k : Nat) => sp.getD (idx.getD k 0) default
  let order := (List.range idx.length).wvSort (leCluster fun a => (spk a).cluster)
  (List.range idx.length).map fun k =>
    { index := k, sample := (spk k).sample, cluster := (spk k).cluster, peak := (spk k).chan,
      wi := order.idxOf k, iwc := 0 }

theorem makeTable_ok (choose : Choose) (sp : List Spike) (ns off len maxWf : Nat)
    (hlaw : Lawful choose sp ns off len maxWf) :
    makeTable choose sp ns off len maxWf = .ok (tableRows sp (wfIdx choose sp ns off len maxWf)) := by
  unfold makeTable
  have h1 : (unitIds sp).all (fun u =>
      decide ((chosen choose sp ns off len maxWf u).length = min maxWf (candidates sp ns off len u).length)) = true := by
    rw [List.all_eq_true]
    intro u hu
    simp only [decide_eq_true_eq]
    exact ((lawfulChoice_iff _ _ _).mp (hlaw u hu)).1
  have h2 : (wfIdx choose sp ns off len maxWf).all (fun j => decide (j < sp.length)) = true := by
    rw [List.all_eq_true]
    intro j hj
    simp only [decide_eq_true_eq]
    exact wfIdx_lt choose sp ns off len maxWf hlaw j hj
  simp only [h1, h2, not_true_eq_false, if_false]
  rfl

theorem tableRows_length (sp : List Spike) (idx : List Nat) : (tableRows sp idx).length = idx.length := by
  simp [tableRows]

theorem tableRows_getElem (sp : List Spike) (idx : List Nat) (k : Nat) (hk : k < (tableRows sp idx).length) :
    ((tableRows sp idx)[k]).index = k ∧
    ((tableRows sp idx)[k]).sample = (sp.getD (idx.getD k 0) default).sample ∧
    ((tableRows sp idx)[k]).cluster = (sp.getD (idx.getD k 0) default).cluster ∧
    ((tableRows sp idx)[k]).peak = (sp.getD (idx.getD k 0) default).chan := by
  simp [tableRows]

theorem tableRows_proj (sp : List Spike) (idx : List Nat) :
    (tableRows sp idx).map (fun r => (r.sample, r.cluster, r.peak)) =
      idx.map (fun j => ((sp.getD j default).sample, (sp.getD j default).cluster, (sp.getD j default).chan)) := by
  apply List.ext_getElem
  · simp [tableRows]
  · intro k h1 h2
    have hk : k < idx.length := by simpa using h2
    simp [tableRows, List.getD_eq_getElem?_getD, List.getElem?_eq_getElem hk]

/-! ### every unit gets `min(max_wf, #valid)` distinct valid spikes -/

theorem candidates_map (sp : List Spike) (ns off len : Nat) (u : Int) :
    (candidates sp ns off len u).map (fun j => sp.getD j default) =
      sp.filter (fun s => decide (s.cluster = u) && allowed ns off len s.sample) := by
  have hsp : sp = (List.range sp.length).map (fun j => sp.getD j default) := by
    apply List.ext_getElem
    · simp
    · intro k h1 h2
      simp [List.getD_eq_getElem?_getD, List.getElem?_eq_getElem h1]
  conv => rhs; rw [hsp]
  rw [List.filter_map]
  congr 1
  unfold candidates
  apply List.filter_congr
  intro j hj
  rw [List.mem_range] at hj
  simp [List.getElem?_eq_getElem hj, List.getD_eq_getElem?_getD]

theorem unit_idx_perm (choose : Choose) (sp : List Spike) (ns off len maxWf : Nat)
    (hlaw : Lawful choose sp ns off len maxWf) (u : Int) (hu : u ∈ unitIds sp) :
    ((wfIdx choose sp ns off len maxWf).filter (fun j => decide ((sp.getD j default).cluster = u))).Perm
      (chosen choose sp ns off len maxWf u) := by
  rw [List.perm_ext_iff_of_nodup]
  · intro j
    rw [List.mem_filter, mem_wfIdx]
    simp only [decide_eq_true_eq]
    constructor
    · rintro ⟨⟨v, hv, hj⟩, hc⟩
      have := ((lawfulChoice_iff _ _ _).mp (hlaw v hv)).2.1 j hj
      rw [mem_candidates] at this
      obtain ⟨s, hs, hcs, _⟩ := this
      have : (sp.getD j default).cluster = v := by
        rw [List.getD_eq_getElem?_getD, hs]; exact hcs
      have : v = u := by omega
      subst this; exact hj
    · intro hj
      refine ⟨⟨u, hu, hj⟩, ?_⟩
      have := ((lawfulChoice_iff _ _ _).mp (hlaw u hu)).2.1 j hj
      rw [mem_candidates] at this
      obtain ⟨s, hs, hcs, _⟩ := this
      rw [List.getD_eq_getElem?_getD, hs]; exact hcs
  · exact ((wfIdx_sorted choose sp ns off len maxWf hlaw).imp (fun h => Nat.ne_of_lt h)).sublist List.filter_sublist
      |> fun h => h
  · exact ((lawfulChoice_iff _ _ _).mp (hlaw u hu)).2.2

end IblVerif.Waveforms
