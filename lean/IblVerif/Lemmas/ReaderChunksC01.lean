/-
C01 ↔ chunk-level model of mtscomp (`Model/ChunkRead.lean`, owned by C02, imported read-only).

`Model/Reader.lean` transcribes the sample axis of `mtscomp.Reader.__getitem__` WITHOUT chunks (`rowsCbin`: the
positions of the whole recording a selector visits).  `Model/ChunkRead.lean` transcribes the same function WITH its
chunk machinery (`mtsSlice`: validate the bounds, find the chunks `first..last` by bisection on `chunk_bounds`,
concatenate them, sub-select).  Here the two are proved to agree for EVERY chunk layout (any number of non-empty chunks
of any sizes, uniform or not) and every slice with a positive step: the chunked read returns exactly the rows at the
positions `rowsCbin` names, so what a `.cbin` read returns does not depend on how the file was cut into chunks.
Core Lean only.
-/
import IblVerif.Lemmas.ChunkRead
import IblVerif.Lemmas.Reader

namespace IblVerif.Reader
open IblVerif.PySlice

theorem validateIndex_cast (n : Nat) (v : Option Int) (d : Nat) (hd : d = 0 ∨ d = n) :
    ((ChunkRead.validateIndex n v d : Nat) : Int) = cbinValidate v d n := by
  cases v with
  | none =>
    simp only [ChunkRead.validateIndex, cbinValidate]
    rcases hd with h | h <;> subst h <;> (repeat' split) <;> omega
  | some v =>
    simp only [ChunkRead.validateIndex, cbinValidate]
    (repeat' split) <;> omega

theorem rangeLen_nat (a b st : Nat) (hst : 0 < st) (hab : a < b) :
    rangeLen (a : Int) (b : Int) (st : Int) = (b - a + st - 1) / st := by
  unfold rangeLen
  rw [if_neg (by omega), if_pos (by omega)]
  have e : ((b : Int) - (a : Int) - 1) = ((b - a - 1 : Nat) : Int) := by omega
  have h : (((b - a - 1 : Nat) : Int) / (st : Int)) = (((b - a - 1) / st : Nat) : Int) := by
    exact (Int.natCast_ediv _ _).symm
  have h2 : b - a + st - 1 = (b - a - 1) + st := by omega
  rw [e, h, h2, Nat.add_div_right _ hst]
  clear e h h2
  generalize (b - a - 1) / st = x
  omega

theorem axisSel_int (i : Int) (n : Nat) (hlo : -(n : Int) ≤ i) (hhi : i < n) :
    axisSel (.int i) n = .ok (.one (if i < 0 then i + (n : Int) else i).toNat) := by
  unfold axisSel normIndex
  by_cases h0 : i < 0
  · simp [h0, liftIdx, Except.map, show ¬ (0 ≤ i) by omega, hlo]
  · simp [h0, liftIdx, Except.map, show 0 ≤ i by omega, hhi]

/-- Every chunk layout, every slice with a positive step: the chunk-level read of mtscomp returns the rows at the
positions the chunk-free model `rowsCbin` visits (all of them valid positions, none lost). -/
theorem mtsSlice_eq_rowsCbin {ρ : Type} (chunks : List (List ρ)) (hne : ∀ c ∈ chunks, c ≠ []) (s : Slice)
    (hst : 0 < s.stepVal) :
    ∃ pos : List Nat, rowsCbin (.slice s) chunks.flatten.length = .ok (.many pos) ∧
      (∀ p ∈ pos, p < chunks.flatten.length) ∧
      ChunkRead.mtsSlice chunks s.start s.stop s.step = .ok (pos.filterMap fun p => chunks.flatten[p]?) := by
  have hstep : (0 : Int) < s.step.getD 1 := hst
  rw [ChunkRead.mtsSlice_eq_npSlice chunks hne s.start s.stop s.step hstep, ChunkRead.npSlice_pos _ _ _ _ hstep]
  generalize hn : chunks.flatten.length = n
  have hv0 := validateIndex_cast n s.start 0 (Or.inl rfl)
  have hv1 := validateIndex_cast n s.stop n (Or.inr rfl)
  rw [← ChunkRead.validateIndex_eq n s.start 0 (Nat.zero_le _), ← ChunkRead.validateIndex_eq n s.stop n (Nat.le_refl _)]
  have hi1n : ChunkRead.validateIndex n s.stop n ≤ n := by
    have : cbinValidate s.stop n n ≤ n := by
      simp only [cbinValidate]; (repeat' split) <;> omega
    omega
  generalize ChunkRead.validateIndex n s.start 0 = i0 at hv0 ⊢
  generalize ChunkRead.validateIndex n s.stop n = i1 at hv1 hi1n ⊢
  replace hv0 : (i0 : Int) = cbinValidate s.start 0 n := by simpa using hv0
  obtain ⟨k, hk⟩ : ∃ k : Nat, s.stepVal = (k : Int) := ⟨s.stepVal.toNat, by omega⟩
  have hk0 : 0 < k := by omega
  have hgd : s.step.getD 1 = (k : Int) := hk
  simp only [hgd, Int.toNat_natCast]
  by_cases hle : i1 ≤ i0
  · refine ⟨[], ?_, by simp, ?_⟩
    · simp only [rowsCbin, ← hv0, ← hv1]
      rw [if_pos (by omega)]
    · have : (i1 - i0 + k - 1) / k = 0 := Nat.div_eq_of_lt (by omega)
      simp [this]
  · have hlt : i0 < i1 := by omega
    refine ⟨(List.range ((i1 - i0 + k - 1) / k)).map (fun j => i0 + j * k), ?_, ?_, ?_⟩
    · simp only [rowsCbin, ← hv0, ← hv1]
      rw [if_neg (by omega), if_neg (by omega), if_neg (by omega)]
      rw [hk, pyRange_eq_map _ _ _ (by omega), rangeLen_nat i0 i1 k hk0 hlt]
      simp only [List.map_map]
      congr 2
    · intro p hp
      simp only [List.mem_map, List.mem_range] at hp
      obtain ⟨j, hj, rfl⟩ := hp
      have := (Nat.lt_div_iff_mul_lt hk0).mp hj
      omega
    · rw [List.filterMap_map]
      rfl

/-- Integer sample indices in `[-n, n)`: the chunk-level read returns the row at the position `rowsCbin` names. -/
theorem mtsIndex_eq_rowsCbin {ρ : Type} (chunks : List (List ρ)) (hne : ∀ c ∈ chunks, c ≠ []) (i : Int)
    (hlo : -(chunks.flatten.length : Int) ≤ i) (hhi : i < chunks.flatten.length) :
    ∃ p : Nat, rowsCbin (.int i) chunks.flatten.length = .ok (.one p) ∧
      ∃ hp : p < chunks.flatten.length, ChunkRead.mtsIndex chunks i = .ok (chunks.flatten[p]) := by
  rw [ChunkRead.mtsIndex_eq_npIndex chunks hne i hlo]
  have hsup : CbinSupported (.int i) chunks.flatten.length := by simpa [CbinSupported] using hlo
  rw [rowsCbin_eq_axisSel _ _ hsup]
  have hp : (if i < 0 then i + (chunks.flatten.length : Int) else i).toNat < chunks.flatten.length := by
    split <;> omega
  refine ⟨_, axisSel_int i _ hlo hhi, hp, ?_⟩
  · unfold ChunkRead.npIndex
    simp only [show ¬ (i < -(chunks.flatten.length : Int) ∨ i ≥ (chunks.flatten.length : Int)) by omega, if_false]
    rw [List.getElem?_eq_getElem hp]

end IblVerif.Reader
