/-
C15, `detect_bad_channels.detrend`: index arithmetic of the edge padding and of the median window (core Lean only).
`detrend(x, nmed)[k] = x[k] - median{ x[clamp(k + q - nmed/2)] : q < nmed }`: the window is centred on `k`, the vector is
continued by its first / last value, and the zero padding of `scipy.signal.medfilt` never reaches a kept sample.
-/
import IblVerif.Model.BadChannels

namespace IblVerif.BadChannels
variable {α : Type} [Inhabited α]

theorem edgePad_length (ntap : Nat) (x : List α) : (edgePad ntap x).length = x.length + 2 * ntap := by
  simp [edgePad]; omega

omit [Inhabited α] in
theorem getLast?_getD_cons (a : α) (r : List α) : r.getLast?.getD a = (a :: r)[r.length]'(by simp) := by
  induction r generalizing a with
  | nil => rfl
  | cons b s ih =>
    rw [List.getLast?_cons]
    simp only [Option.getD_some, List.length_cons, List.getElem_cons_succ]
    exact ih b

/-- Entry `p` of the padded vector is entry `clamp(p - ntap)` of `x`. -/
theorem edgePad_getD (ntap : Nat) (x : List α) (hx : x ≠ []) (p : Nat) (hp : p < x.length + 2 * ntap) (d : α) :
    (edgePad ntap x).getD p d = x.getD (min (x.length - 1) (p - ntap)) d := by
  have hn : 0 < x.length := List.length_pos_iff.mpr hx
  unfold edgePad
  by_cases h1 : p < ntap
  · -- left replica: x[0]
    have h0 : min (x.length - 1) (p - ntap) = 0 := by omega
    rw [h0, List.getD_eq_getElem?_getD, List.append_assoc, List.getElem?_append_left (by simp; omega)]
    cases x with
    | nil => exact absurd rfl hx
    | cons a r => simp [h1]
  · by_cases h2 : p < ntap + x.length
    · have hm : min (x.length - 1) (p - ntap) = p - ntap := by omega
      rw [hm, List.getD_eq_getElem?_getD, List.append_assoc, List.getElem?_append_right (by simp; omega),
        List.getElem?_append_left (by simp; omega)]
      simp [List.getD_eq_getElem?_getD]
    · have hm : min (x.length - 1) (p - ntap) = x.length - 1 := by omega
      rw [hm, List.getD_eq_getElem?_getD, List.getElem?_append_right (by simp; omega)]
      have hl : x.getLastD default = x.getD (x.length - 1) d := by
        cases x with
        | nil => exact absurd rfl hx
        | cons a r =>
          rw [List.getLastD_cons, List.getD_eq_getElem?_getD]
          simp only [List.length_cons, Nat.add_sub_cancel]
          rw [List.getElem?_eq_getElem (by simp)]
          simp only [Option.getD_some]
          rw [← getLast?_getD_cons a r]
          cases r <;> simp [List.getLastD, List.getLast?_eq_some_getLast]
      rw [List.getElem?_replicate]
      simp only [List.length_append, List.length_replicate]
      rw [if_pos (by omega), hl]
      rfl

theorem detrendTaps_ge (nmed : Nat) : nmed / 2 ≤ detrendTaps nmed := by
  unfold detrendTaps; omega

end IblVerif.BadChannels
