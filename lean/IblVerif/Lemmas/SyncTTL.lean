/-
Helper lemmas for C10: trains written into sync words are decoded back, and front detection on the decoded
matrix finds their change points.  Core Lean only.
-/
import IblVerif.Lemmas.SyncRead
namespace IblVerif.Sync

theorem absV_int (v : Int) : absV v = (v.natAbs : Int) := by
  unfold absV; split <;> omega

theorem splitSync_eq_bits (w : Nat) : splitSync w = (List.range 16).map fun k => w / 2 ^ k % 2 := by
  apply List.ext_getElem?
  intro i
  by_cases hi : i < 16
  · rw [splitSync_getElem w i hi, List.getElem?_map, List.getElem?_range hi]; rfl
  · have h1 : (splitSync w)[i]? = none := by
      rw [List.getElem?_eq_none_iff, splitSync_length]; omega
    have h2 : ((List.range 16).map fun k => w / 2 ^ k % 2)[i]? = none := by
      rw [List.getElem?_eq_none_iff]; simp; omega
    rw [h1, h2]

theorem wordOfInt_int16OfWord (w : Nat) (hw : w < 65536) : wordOfInt (int16OfWord w) = w := by
  unfold wordOfInt int16OfWord
  split <;> omega

theorem encodeWord_lt (line : Nat → Bool) : encodeWord line < 65536 := by
  have := encodeBits_lt ((List.range 16).map line)
  simpa [encodeWord] using this

theorem encodeWord_bit (line : Nat → Bool) (k : Nat) (hk : k < 16) :
    encodeWord line / 2 ^ k % 2 = (line k).toNat := by
  have h := encodeBits_testBit ((List.range 16).map line) k
  rw [Nat.testBit_eq_decide_div_mod_eq] at h
  have hg : ((List.range 16).map line).getD k false = line k := by
    rw [List.getD_eq_getElem?_getD, List.getElem?_map, List.getElem?_range hk]; rfl
  rw [hg] at h
  unfold encodeWord
  cases hl : line k with
  | false => rw [hl] at h; simp at h; simp; omega
  | true => rw [hl] at h; simp at h; simp; omega

theorem decode_encode (line : Nat → Bool) :
    splitSync (wordOfInt (int16OfWord (encodeWord line))) = (List.range 16).map fun k => (line k).toNat := by
  rw [wordOfInt_int16OfWord _ (encodeWord_lt line), splitSync_eq_bits]
  apply List.map_congr_left
  intro k hk
  exact encodeWord_bit line k (by simpa using hk)

theorem recordTTL_length (n : Nat) (train : Nat → Nat → Bool) : (recordTTL n train).length = n := by
  simp [recordTTL]

/-- Decoding the recorded samples returns the trains. -/
theorem splitSyncArr_recordTTL (n : Nat) (train : Nat → Nat → Bool) :
    splitSyncArr (recordTTL n train) =
      (List.range n).map fun t => (List.range 16).map fun k => (train k t).toNat := by
  unfold splitSyncArr recordTTL
  rw [List.map_map]
  apply List.map_congr_left
  intro t _
  simp only [Function.comp_apply]
  rw [decode_encode]

/-- Entry `(t, k)`, `k < 16`, of a sync matrix whose rows start with the 16 decoded digital lines. -/
theorem at2_sync (n ntr : Nat) (train : Nat → Nat → Bool) (rows : List (List Int)) (extra : List Int → List Int)
    (hsync : rows.map (fun r => r.getD (ntr - 1) 0) = recordTTL n train) (t k : Nat) (hk : k < 16) :
    at2 (rows.map fun r => digitalLines ntr r ++ extra r) (t, k) =
      if t < n then some ((train k t).toNat : Int) else none := by
  have hlen : rows.length = n := by
    have := congrArg List.length hsync
    simpa [recordTTL_length] using this
  unfold at2
  simp only [List.getElem?_map]
  by_cases ht : t < n
  · have htl : t < rows.length := by omega
    simp only [ht, if_true, List.getElem?_eq_getElem htl, Option.map_some]
    have hval : (rows[t]).getD (ntr - 1) 0 = int16OfWord (encodeWord fun k => train k t) := by
      have h1 := congrArg (fun l => l[t]?) hsync
      simp only [List.getElem?_map, List.getElem?_eq_getElem htl, Option.map_some, recordTTL,
        List.getElem?_range ht] at h1
      exact Option.some.inj h1
    have hd : digitalLines ntr rows[t] = (List.range 16).map fun k => ((train k t).toNat : Int) := by
      unfold digitalLines
      rw [hval, decode_encode]
      simp [List.map_map, Function.comp]
    rw [hd, List.getElem?_append_left (by simpa using hk), List.getElem?_map, List.getElem?_range hk]
    rfl
  · have : rows[t]? = none := by rw [List.getElem?_eq_none_iff]; omega
    simp [ht, this]

section
variable (n ntr : Nat) (train : Nat → Nat → Bool) (rows : List (List Int)) (extra : List Int → List Int)
  (hsync : rows.map (fun r => r.getD (ntr - 1) 0) = recordTTL n train)
include hsync

theorem ttl_fronts2 (t k : Nat) (s : Int) (hk : k < 16) :
    ((t, k), s) ∈ fronts2 0 (rows.map fun r => digitalLines ntr r ++ extra r) 1 ↔
      1 ≤ t ∧ t < n ∧ train k t ≠ train k (t - 1) ∧ s = if train k t then 1 else -1 := by
  unfold fronts2
  rw [shifted_where2_mem]
  simp only [coord, prevPos, Nat.zero_ne_one, if_false, at2_sync n ntr train rows extra hsync _ k hk,
    decide_eq_true_eq, absV_int]
  constructor
  · rintro ⟨h1, a, b, ha, hb, hs, hp⟩
    by_cases ht : t < n
    · have ht' : t - 1 < n := by omega
      simp only [ht, ht', if_true, Option.some.injEq] at ha hb
      subst ha hb hs
      refine ⟨h1, ht, ?_, ?_⟩
      · intro h; rw [h] at hp; simp at hp
      · generalize train k t = b at hp ⊢
        generalize train k (t - 1) = a at hp ⊢
        cases a <;> cases b <;> simp at hp ⊢
    · simp [ht] at hb
  · rintro ⟨h1, ht, hne, hs⟩
    have ht' : t - 1 < n := by omega
    refine ⟨h1, ((train k (t - 1)).toNat : Int), ((train k t).toNat : Int), by simp [ht'], by simp [ht], ?_, ?_⟩
    · subst hs; cases h : train k t <;> cases h' : train k (t - 1) <;> simp_all
    · subst hs; cases h : train k t <;> cases h' : train k (t - 1) <;> simp_all

theorem ttl_rises2 (t k : Nat) (hk : k < 16) :
    (t, k) ∈ rises2 0 (rows.map fun r => digitalLines ntr r ++ extra r) 1 false ↔
      1 ≤ t ∧ t < n ∧ train k (t - 1) = false ∧ train k t = true := by
  unfold rises2
  simp only [Bool.false_eq_true, if_false]
  rw [shifted_where2_mem_fst]
  simp only [coord, prevPos, Nat.zero_ne_one, if_false,
    at2_sync n ntr train rows extra hsync _ k hk, decide_eq_true_eq]
  constructor
  · rintro ⟨h1, a, b, ha, hb, hp⟩
    by_cases ht : t < n
    · have ht' : t - 1 < n := by omega
      simp only [ht, ht', if_true, Option.some.injEq] at ha hb
      subst ha hb
      refine ⟨h1, ht, ?_⟩
      generalize train k t = b at hp ⊢
      generalize train k (t - 1) = a at hp ⊢
      cases a <;> cases b <;> simp at hp ⊢
    · simp [ht] at hb
  · rintro ⟨h1, ht, h0, h1'⟩
    have ht' : t - 1 < n := by omega
    exact ⟨h1, 0, 1, by simp [ht', h0], by simp [ht, h1'], by omega⟩

theorem ttl_falls2 (t k : Nat) (hk : k < 16) :
    (t, k) ∈ falls2 0 (rows.map fun r => digitalLines ntr r ++ extra r) (-1) false ↔
      1 ≤ t ∧ t < n ∧ train k (t - 1) = true ∧ train k t = false := by
  unfold falls2 rises2
  simp only [Bool.false_eq_true, if_false]
  rw [shifted_where2_mem_fst]
  simp only [coord, prevPos, Nat.zero_ne_one, if_false, at2_map_map,
    at2_sync n ntr train rows extra hsync _ k hk, decide_eq_true_eq]
  constructor
  · rintro ⟨h1, a, b, ha, hb, hp⟩
    by_cases ht : t < n
    · have ht' : t - 1 < n := by omega
      simp only [ht, ht', if_true, Option.map_some, Option.some.injEq] at ha hb
      subst ha hb
      refine ⟨h1, ht, ?_⟩
      generalize train k t = b at hp ⊢
      generalize train k (t - 1) = a at hp ⊢
      cases a <;> cases b <;> simp at hp ⊢
    · simp [ht] at hb
  · rintro ⟨h1, ht, h0, h1'⟩
    have ht' : t - 1 < n := by omega
    exact ⟨h1, -1, 0, by simp [ht', h0], by simp [ht, h1'], by omega⟩
end

end IblVerif.Sync
