/-
Helper lemmas for C14: everything that is known about the features of one waveform, in the
vocabulary of the property theorems (`smp`, `IsPeakLoc`, `IsFirstExtremum`, `WithinHalf`, …).
-/
import IblVerif.Lemmas.FeaturesTail

namespace IblVerif.Features

theorem within_iff (pv x : ℚ) : 0 < flipSign pv * x - pv / 2 * invertSign pv ↔ WithinHalf pv x := by
  unfold flipSign invertSign qsign WithinHalf
  by_cases h : 0 < pv
  · simp only [h, if_true]; constructor <;> intro h' <;> linarith
  · by_cases h2 : pv < 0
    · simp only [h, h2, if_false, if_true]; constructor <;> intro h' <;> linarith
    · have : pv = 0 := le_antisymm (not_lt.mp h) (not_lt.mp h2)
      subst this
      simp

theorem flip_val {pv : ℚ} (h : pv ≠ 0) (x : ℚ) : flipSign pv * x * invertSign pv = x := by
  have := flipSign_mul_invertSign h
  calc flipSign pv * x * invertSign pv = (flipSign pv * invertSign pv) * x := by ring
    _ = x := by rw [this]; ring

/-- the half-peak facts, on samples -/
structure HalfSpec (T : Nat) (w : Wave) (c : Nat) (f : Feat) : Prop where
  post_some : (∃ t, f.peakTime ≤ t ∧ t < T ∧ WithinHalf f.peakVal (smp w c t)) →
      f.peakTime ≤ f.halfPost ∧ f.halfPost < T ∧ WithinHalf f.peakVal (smp w c f.halfPost) ∧
      ∀ u, f.peakTime ≤ u → u < f.halfPost → ¬ WithinHalf f.peakVal (smp w c u)
  post_none : (¬ ∃ t, f.peakTime ≤ t ∧ t < T ∧ WithinHalf f.peakVal (smp w c t)) → f.halfPost = 0
  pre_some : (∃ t, t < f.peakTime ∧ WithinHalf f.peakVal (smp w c t)) →
      f.halfPre < f.peakTime ∧ WithinHalf f.peakVal (smp w c f.halfPre) ∧
      ∀ u, f.halfPre < u → u < f.peakTime → ¬ WithinHalf f.peakVal (smp w c u)
  pre_none : (¬ ∃ t, t < f.peakTime ∧ WithinHalf f.peakVal (smp w c t)) → f.halfPre = T - 1

/-- the columns read from `arr_peak` after the swap block -/
structure GoodSpec (T : Nat) (w : Wave) (c : Nat) (f : Feat) : Prop where
  tip : IsFirstExtremum w c (flipSign f.peakVal) 0 f.peakTime f.tipTime
  tipv : f.tipVal = smp w c f.tipTime
  postv : f.halfPostVal = smp w c f.halfPost
  prev : f.halfPreVal = smp w c f.halfPre
  recv : f.recVal = smp w c f.recTime
  half : HalfSpec T w c f

/-- everything known about a successful extraction on one waveform -/
structure RowSpec (k T : Nat) (w : Wave) (c p0 : Nat) (f : Feat) : Prop where
  kT : k < T
  trace : f.peakTrace = c
  p_ge : p0 ≤ f.peakTime
  p_pos : 0 < f.peakTime
  p_lt : f.peakTime < T
  pv : f.peakVal = smp w c f.peakTime
  pv_ne : f.peakVal ≠ 0
  swap : (f.peakTime = p0 ∧ ¬ ∃ q, WeaklyPositive T w c p0 q) ∨ WeaklyPositive T w c p0 f.peakTime
  sgn : f.invertSign = invertSign f.peakVal
  tr : IsFirstExtremum w c (flipSign f.peakVal) f.peakTime T f.troughTime
  trv : f.troughVal = smp w c f.troughTime
  tip_lt : f.tipTime < f.peakTime
  recT : f.recTime = if f.troughTime + k < T then f.troughTime + k else T - 1
  halfPost_lt : f.halfPost < T
  halfPre_lt : f.halfPre < T
  good : GoodSpec T w c f

theorem row_master (k T : Nat) (w : Wave) (hR : Rect T w) (hT : 0 < T) (hw : w ≠ []) :
    ∃ c p0 row s, IsPeakLoc T w c p0 ∧ w[c]? = some row ∧ HeadOK T w c p0 row s ∧
      rowFeatures k T w = rowTail k T s := by
  obtain ⟨c, p0, row, s, hloc, hrow, hhead, H⟩ := head_spec T w hR hT hw
  refine ⟨c, p0, row, s, hloc, hrow, H, ?_⟩
  rw [rowFeatures_eq]
  have : (initRow w >>= fun s0 => findTroughRow s0 >>= fun s1 => swapStep s1 >>= rowTail k T)
      = ((initRow w >>= fun s0 => findTroughRow s0 >>= swapStep) >>= rowTail k T) := by
    simp only [bind_assoc]
  rw [this, hhead]
  rfl

theorem headOK_arr_length {T : Nat} {w : Wave} {c p0 : Nat} {row : Row} {s : St} (hl : row.length = T)
    (H : HeadOK T w c p0 row s) : s.arr.length = T := by
  rw [H.arr, invertRow_length, hl]

theorem row_spec_of_tail {k T : Nat} {w : Wave} {c p0 : Nat} {row : Row} {s : St} {f : Feat}
    (hrow : w[c]? = some row) (hl : row.length = T) (H : HeadOK T w c p0 row s)
    (hf : rowTail k T s = .ok f) : RowSpec k T w c p0 f := by
  have hal := headOK_arr_length hl H
  have hT : 0 < T := by have := H.p_lt; omega
  have hp0 : 0 < s.p := by
    by_contra h
    rw [rowTail_err_first k T s (by omega)] at hf; cases hf
  have hkT : k < T := by
    by_contra h
    rw [rowTail_err_offset k T s hal hp0 (le_of_lt H.p_lt) (by omega)] at hf; cases hf
  obtain ⟨f', mtip, ypost, ypre, yrec, hf', e1, e2, e3, e4, e5, e6, hFtip, e7, e8, h8, e9, e10, h10, e11, e12, h12, e13⟩ :=
    rowTail_ok k T s hal hp0 (le_of_lt H.p_lt) hkT
  rw [hf] at hf'; cases hf'
  have hpvne : f.peakVal ≠ 0 := by rw [e3]; exact H.pv_ne hp0
  have htipT : f.tipTime < s.p := hFtip.1
  refine ⟨hkT, by rw [e1, H.trace], by rw [e2]; exact H.p_ge, by rw [e2]; exact hp0, by rw [e2]; exact H.p_lt,
    by rw [e2, e3]; exact H.pv, hpvne, by rw [e2]; exact H.swap, by rw [e4, e3]; exact H.sgn,
    by rw [e2, e3, e5]; exact H.tr, ?_, by rw [e2]; exact htipT, ?_, ?_, ?_, ?_⟩
  · rw [e6, e5, H.trv, H.sgn, flip_val (by rw [← e3]; exact hpvne)]
  · rw [e12, e5]; unfold recIdx
    by_cases h : s.tr + k < T
    · have : ¬ s.tr + k ≥ T := by omega
      simp [h, this]
    · have : s.tr + k ≥ T := by omega
      simp [h, this]
  · rw [e8, ← hal]; exact halfPostIdx_lt s (by omega)
  · rw [e10, ← hal]; exact halfPreIdx_lt s (by omega)
  · have harr : s.arr = invertRow row s.pv := H.arr
    have hval : ∀ t y, s.arr[t]? = some y → t < T ∧ y = flipSign s.pv * smp w c t := by
      intro t y hy
      have ht : t < T := by
        have := (List.getElem?_eq_some_iff.mp hy).1; omega
      have hx : row[t]? = some (row[t]'(by omega)) := List.getElem?_eq_getElem (by omega)
      rw [harr, invertRow_getElem?, hx] at hy
      simp [inv_eq] at hy
      exact ⟨ht, by rw [smp_of_getElem? hrow hx, hy]⟩
    have hvalmul : ∀ t y, s.arr[t]? = some y → y * s.sgn = smp w c t := by
      intro t y hy
      obtain ⟨_, rfl⟩ := hval t y hy
      rw [H.sgn, flip_val (H.pv_ne hp0)]
    rw [harr] at hFtip
    obtain ⟨hEtip, hmtip⟩ := firstMaxOn_to_spec hrow hl (· < s.p) 0 s.p (fun t _ => by simp) (le_of_lt H.p_lt) hFtip
    -- the Boolean rows of half_peak_point
    have hsub : ∀ t, t < T → (subRow s)[t]? = some (flipSign s.pv * smp w c t - s.pv / 2 * s.sgn) := by
      intro t ht
      have hx : s.arr[t]? = some (s.arr[t]'(by omega)) := List.getElem?_eq_getElem (by omega)
      obtain ⟨_, hy⟩ := hval t _ hx
      unfold subRow
      rw [List.getElem?_map, hx, hy]; rfl
    have hsub' : ∀ t y, (subRow s)[t]? = some y → t < T ∧ y = flipSign s.pv * smp w c t - s.pv / 2 * s.sgn := by
      intro t y hy
      have ht : t < T := by
        have := (List.getElem?_eq_some_iff.mp hy).1; rw [subRow_length] at this; omega
      rw [hsub t ht] at hy
      exact ⟨ht, (Option.some.inj hy).symm⟩
    have hw_iff : ∀ x, 0 < flipSign s.pv * x - s.pv / 2 * s.sgn ↔ WithinHalf s.pv x := by
      intro x; rw [H.sgn]; exact within_iff _ _
    obtain ⟨hpost1, hpost2⟩ := halfPost_spec (subRow s) s.p (halfPostIdx s) rfl
    obtain ⟨hpre1, hpre2⟩ := halfPre_spec (subRow s) s.p (halfPreIdx s) (halfPreFlip s)
      (by rw [subRow_length]; omega) rfl rfl
    refine ⟨by rw [e2, e3]; exact hEtip, by rw [e7, hmtip, H.sgn, flip_val (H.pv_ne hp0)],
      by rw [e9]; exact hvalmul _ _ h8, by rw [e11]; exact hvalmul _ _ h10, by rw [e13]; exact hvalmul _ _ h12, ?_⟩
    rw [← e8] at hpost1 hpost2
    rw [← e10] at hpre1 hpre2
    refine ⟨?_, ?_, ?_, ?_⟩
    · rintro ⟨t, h1, h2, h3⟩
      rw [e2] at h1; rw [e3] at h3
      obtain ⟨a1, ⟨y, a2, a3⟩, a4⟩ := hpost1 t _ h1 (hsub t h2) ((hw_iff _).mpr h3)
      obtain ⟨b1, rfl⟩ := hsub' _ _ a2
      refine ⟨by rw [e2]; exact a1, b1, by rw [e3]; exact (hw_iff _).mp a3, ?_⟩
      intro u h4 h5 h6
      rw [e2] at h4; rw [e3] at h6
      exact a4 u _ h4 h5 (hsub u (by omega)) ((hw_iff _).mpr h6)
    · intro hno
      apply hpost2
      intro t x h1 h2 h3
      obtain ⟨b1, rfl⟩ := hsub' _ _ h2
      exact hno ⟨t, by rw [e2]; exact h1, b1, by rw [e3]; exact (hw_iff _).mp h3⟩
    · rintro ⟨t, h1, h3⟩
      rw [e2] at h1; rw [e3] at h3
      obtain ⟨a1, ⟨y, a2, a3⟩, a4⟩ := hpre1 t _ h1 (hsub t (by have := H.p_lt; omega)) ((hw_iff _).mpr h3)
      obtain ⟨b1, rfl⟩ := hsub' _ _ a2
      refine ⟨by rw [e2]; exact a1, by rw [e3]; exact (hw_iff _).mp a3, ?_⟩
      intro u h4 h5 h6
      rw [e2] at h5; rw [e3] at h6
      exact a4 u _ h4 h5 (hsub u (by have := H.p_lt; omega)) ((hw_iff _).mpr h6)
    · intro hno
      have := hpre2 (by
        intro t x h1 h2 h3
        obtain ⟨b1, rfl⟩ := hsub' _ _ h2
        exact hno ⟨t, by rw [e2]; exact h1, by rw [e3]; exact (hw_iff _).mp h3⟩)
      rw [this, subRow_length, hal]


theorem row_spec {k T : Nat} {w : Wave} {f : Feat} (hR : Rect T w) (hT : 0 < T) (hw : w ≠ [])
    (hf : rowFeatures k T w = .ok f) : ∃ c p0, IsPeakLoc T w c p0 ∧ RowSpec k T w c p0 f := by
  obtain ⟨c, p0, row, s, hloc, hrow, H, heq⟩ := row_master k T w hR hT hw
  rw [heq] at hf
  exact ⟨c, p0, hloc, row_spec_of_tail hrow (rect_row hR hrow) H hf⟩

theorem row_succeeds {k T : Nat} {w : Wave} (hR : Rect T w) (hw : w ≠ []) (hk : k < T)
    (hfirst : ∀ c t, IsPeakLoc T w c t → 0 < t) : ∃ f, rowFeatures k T w = .ok f := by
  have hT : 0 < T := by omega
  obtain ⟨c, p0, row, s, hloc, hrow, H, heq⟩ := row_master k T w hR hT hw
  have hp0 := hfirst c p0 hloc
  have hal := headOK_arr_length (rect_row hR hrow) H
  obtain ⟨f, _, _, _, _, hf, _⟩ := rowTail_ok k T s hal (lt_of_lt_of_le hp0 H.p_ge) (le_of_lt H.p_lt) hk
  exact ⟨f, by rw [heq, hf]⟩

theorem row_fails_first {k T : Nat} {w : Wave} {c : Nat} (hR : Rect T w) (hw : w ≠ [])
    (hloc : IsPeakLoc T w c 0) (hneg : smp w c 0 ≤ 0) : rowFeatures k T w = .error .allNaN := by
  have hT : 0 < T := hloc.2.1
  obtain ⟨c', p0, row, s, hloc', hrow, H, heq⟩ := row_master k T w hR hT hw
  obtain ⟨rfl, rfl⟩ := hloc.unique hloc'
  rw [heq]
  apply rowTail_err_first
  rcases H.swap with ⟨h, _⟩ | h
  · exact h
  · exact absurd h.1 (not_lt.mpr hneg)

theorem row_fails_offset {k T : Nat} {w : Wave} (hR : Rect T w) (hT : 0 < T) (hw : w ≠ []) (hk : T ≤ k) :
    ∀ f, rowFeatures k T w ≠ .ok f := by
  intro f hf
  obtain ⟨c, p0, _, hs⟩ := row_spec hR hT hw hf
  have := hs.kT
  omega

end IblVerif.Features
