/-
Helper lemmas for C14: from the batch to one waveform and back (everything the property file needs).
-/
import IblVerif.Lemmas.FeaturesRowSpec
import IblVerif.Lemmas.FeaturesBatch
import IblVerif.Lemmas.FeaturesScale
import IblVerif.Lemmas.FeaturesPerm

namespace IblVerif.Features

theorem batch_row {k T : Nat} {ws : List Wave} {fs : List Feat} (hne : ws ≠ []) (h : batch k T ws = .ok fs)
    {i : Nat} {w : Wave} {f : Feat} (hw : ws[i]? = some w) (hf : fs[i]? = some f) : rowFeatures k T w = .ok f :=
  ((batch_ok_iff k T ws hne fs).mp h).2 i w f hw hf

theorem batch_row_spec {k T : Nat} {ws : List Wave} {fs : List Feat} (hB : RectBatch T ws) (h : batch k T ws = .ok fs)
    {i : Nat} {w : Wave} {f : Feat} (hw : ws[i]? = some w) (hf : fs[i]? = some f) :
    ∃ c p0, IsPeakLoc T w c p0 ∧ RowSpec k T w c p0 f := by
  obtain ⟨hne, hT, hws⟩ := hB
  obtain ⟨hwne, hR⟩ := hws w (List.mem_of_getElem? hw)
  exact row_spec hR hT hwne (batch_row hne h hw hf)

theorem batch_length {k T : Nat} {ws : List Wave} {fs : List Feat} (hne : ws ≠ []) (h : batch k T ws = .ok fs) :
    fs.length = ws.length := ((batch_ok_iff k T ws hne fs).mp h).1

/-- the waveform a feature row belongs to -/
theorem batch_wave_of_feat {k T : Nat} {ws : List Wave} {fs : List Feat} (hne : ws ≠ []) (h : batch k T ws = .ok fs)
    {i : Nat} {f : Feat} (hf : fs[i]? = some f) : ∃ w, ws[i]? = some w := by
  have hl := batch_length hne h
  have : i < ws.length := by have := (List.getElem?_eq_some_iff.mp hf).1; omega
  exact ⟨ws[i], List.getElem?_eq_getElem this⟩

theorem toOption_congr {α} {a b : Except Err α} (h : ∀ x, a = .ok x ↔ b = .ok x) : a.toOption = b.toOption := by
  cases a with
  | ok x => have := (h x).mp rfl; rw [this]
  | error e =>
    cases b with
    | ok y => have := (h y).mpr rfl; cases this
    | error e' => rfl

theorem toOption_map {α β} (a : Except Err α) (g : α → β) : (a.map g).toOption = a.toOption.map g := by
  cases a <;> rfl

end IblVerif.Features
