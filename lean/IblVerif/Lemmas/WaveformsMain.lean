/-
`extractBin` on the input domain of C13 returns one fixed record (`specOutput`) that mentions neither the
chunk size nor the execution order.
-/
import IblVerif.Lemmas.WaveformsFinish
namespace IblVerif.Waveforms

/-- The input domain of C13 at the file level. -/
structure Domain (choose : Choose) (rec : Arr) (cn : List (List Nat)) (sp : List Spike)
    (off len maxWf cs : Nat) (sched : List Nat) : Prop where
  /-- the random generator returned `min(max_wf, #valid)` distinct valid spikes of each unit -/
  law : Lawful choose sp rec.ns off len maxWf
  /-- spike trains are sorted in time -/
  sortedInTime : sp.Pairwise (fun a b => a.sample ≤ b.sample)
  /-- peak channels lie on the probe -/
  peaks : ∀ s ∈ sp, 0 ≤ s.chan ∧ s.chan < cn.length
  /-- the neighbour table points at channel rows or at the NaN row -/
  table : ∀ row ∈ cn, ∀ c ∈ row, c < rec.nrows + 1
  offLen : off ≤ len
  offCs : off ≤ cs
  csPos : 0 < cs
  maxWfPos : 0 < maxWf
  /-- at least one spike is farther than the window margins from both ends -/
  someValid : ∃ s ∈ sp, allowed rec.ns off len s.sample = true
  /-- joblib runs every chunk exactly once, in some order -/
  sched : sched.Perm (List.range (chunkStarts rec.ns cs).length)

/-- what `extract_wfs_cbin` saves, as a function of the inputs other than chunk size and schedule:
`traces = table.map (waveform cut from the whole recording)`, `chans = table.map (neighbour row of the peak)` -/
def specOutput (choose : Choose) (rec : Arr) (cn : List (List Nat)) (sp : List Spike)
    (off len maxWf : Nat) : Output :=
  let S := (tableRows sp (wfIdx choose sp rec.ns off len maxWf)).wvSort leRow
  let table := (S.zip (cumsumM1 0 (stepsOf S))).map fun (r, v) => { r with iwc := v }
  let traces := table.map (gw rec cn off len)
  { table := table, traces := traces,
    chans := table.map (fun r => cn.getD (pyIdx cn.length r.peak) []),
    templates2 := templatesOf (cn.headD []).length len (unitIds sp).length (aggregate S) traces,
    clusters := aggregate S }

theorem tableRows_mem (sp : List Spike) (idx : List Nat) (r : Row) (hr : r ∈ tableRows sp idx) :
    ∃ j ∈ idx, r.sample = (sp.getD j default).sample ∧ r.cluster = (sp.getD j default).cluster ∧
      r.peak = (sp.getD j default).chan := by
  unfold tableRows at hr
  simp only [List.mem_map, List.mem_range] at hr
  obtain ⟨k, hk, rfl⟩ := hr
  refine ⟨idx[k], List.getElem_mem hk, ?_⟩
  simp [List.getD_eq_getElem?_getD, List.getElem?_eq_getElem hk]

theorem wfIdx_ne_nil (choose : Choose) (sp : List Spike) (ns off len maxWf : Nat)
    (hlaw : Lawful choose sp ns off len maxWf) (hmax : 0 < maxWf)
    (hv : ∃ s ∈ sp, allowed ns off len s.sample = true) : wfIdx choose sp ns off len maxWf ≠ [] := by
  obtain ⟨s, hs, ha⟩ := hv
  obtain ⟨j, hj⟩ := List.mem_iff_getElem?.mp hs
  have hu : s.cluster ∈ unitIds sp := (mem_unique _ _).mpr (List.mem_map_of_mem (f := (·.cluster)) hs)
  have hc : j ∈ candidates sp ns off len s.cluster := (mem_candidates _ _ _ _ _ _).mpr ⟨s, hj, rfl, ha⟩
  have hl := ((lawfulChoice_iff _ _ _).mp (hlaw s.cluster hu)).1
  have hpos : 0 < (candidates sp ns off len s.cluster).length := List.length_pos_of_mem hc
  have : 0 < (chosen choose sp ns off len maxWf s.cluster).length := by rw [hl]; omega
  obtain ⟨j', hj'⟩ := List.exists_mem_of_length_pos this
  intro hnil
  have := (mem_wfIdx choose sp ns off len maxWf j').mpr ⟨s.cluster, hu, hj'⟩
  rw [hnil] at this
  simp at this

theorem row_facts (choose : Choose) (rec : Arr) (cn : List (List Nat)) (sp : List Spike)
    (off len maxWf : Nat) (hlaw : Lawful choose sp rec.ns off len maxWf)
    (hpk : ∀ s ∈ sp, 0 ≤ s.chan ∧ s.chan < cn.length) :
    ∀ r ∈ tableRows sp (wfIdx choose sp rec.ns off len maxWf),
      allowed rec.ns off len r.sample = true ∧ 0 ≤ r.peak ∧ r.peak < cn.length ∧ r.cluster ∈ unitIds sp := by
  intro r hr
  obtain ⟨j, hj, h1, h2, h3⟩ := tableRows_mem sp _ r hr
  obtain ⟨u, hu, hju⟩ := (mem_wfIdx _ _ _ _ _ _ j).mp hj
  have := ((lawfulChoice_iff _ _ _).mp (hlaw u hu)).2.1 j hju
  obtain ⟨s, hs, hcs, ha⟩ := (mem_candidates _ _ _ _ _ _).mp this
  have hget : sp.getD j default = s := by rw [List.getD_eq_getElem?_getD, hs]; rfl
  rw [hget] at h1 h2 h3
  have hmem : s ∈ sp := List.mem_of_getElem? hs
  refine ⟨by rw [h1]; exact ha, by rw [h3]; exact (hpk s hmem).1, by rw [h3]; exact (hpk s hmem).2, ?_⟩
  rw [h2]
  exact (mem_unique _ _).mpr (List.mem_map_of_mem (f := (·.cluster)) hmem)

theorem chunkRows_sublist (rows : List Row) (ns cs nchunks i : Nat) :
    (chunkRows rows ns cs nchunks i).Sublist rows := by
  unfold chunkRows
  exact (List.take_sublist _ _).trans (List.drop_sublist _ _)

/-- **main lemma**: on the domain, `extractBin` returns `specOutput`, whatever the chunk size and the order in
which the chunks are executed. -/
theorem extractBin_spec (choose : Choose) (rec : Arr) (cn : List (List Nat)) (sp : List Spike)
    (off len maxWf cs : Nat) (sched : List Nat) (d : Domain choose rec cn sp off len maxWf cs sched) :
    extractBin choose rec cn sp off len maxWf cs sched = .ok (specOutput choose rec cn sp off len maxWf) := by
  obtain ⟨s0, hs0, ha0⟩ := d.someValid
  have hns : 0 < rec.ns := by
    rw [allowed_iff] at ha0; have := d.offLen; omega
  generalize hrows : tableRows sp (wfIdx choose sp rec.ns off len maxWf) = rows
  have hidx_sorted := wfIdx_sorted choose sp rec.ns off len maxWf d.law
  have hidx_lt := wfIdx_lt choose sp rec.ns off len maxWf d.law
  have g := tableRows_good sp _ hidx_sorted hidx_lt d.sortedInTime
  rw [hrows] at g
  generalize (fun a => (sp.getD ((wfIdx choose sp rec.ns off len maxWf).getD a 0) default).cluster) = cl at g
  have hfacts := row_facts choose rec cn sp off len maxWf d.law d.peaks
  rw [hrows] at hfacts
  have hne : rows ≠ [] := by
    intro h
    have := tableRows_length sp (wfIdx choose sp rec.ns off len maxWf)
    rw [hrows, h] at this
    exact wfIdx_ne_nil choose sp rec.ns off len maxWf d.law d.maxWfPos d.someValid
      (List.length_eq_zero_iff.mp this.symm)
  have hsample : ∀ r ∈ rows, (off : Int) < r.sample ∧ r.sample < (rec.ns : Int) - ((len : Int) - off) :=
    fun r hr => (allowed_iff _ _ _ _).mp (hfacts r hr).1
  -- the parallel section
  let F : Row → Nat × Wf := fun r => (r.wi, gw rec cn off len r)
  have hm : (chunkStarts rec.ns cs).length = (rec.ns + cs - 1) / cs := nchunks_eq _ _
  have hwrites : allWrites rec cn off len cs rows sched
      = .ok ((sched.map fun i => (chunkRows rows rec.ns cs ((rec.ns + cs - 1) / cs) i).map F).flatten) := by
    unfold allWrites
    simp only [hm]
    apply runSched_ok
    intro i hi
    have hi' : i < (rec.ns + cs - 1) / cs := by
      have := d.sched.mem_iff.mp hi
      rw [hm] at this; exact List.mem_range.mp this
    apply writeChunk_eq_global rec cn off len cs _ i _ d.offLen d.offCs
      ((lt_nchunks_iff rec.ns cs i d.csPos).mp hi') d.table
    intro r hr
    have hr' : r ∈ rows := (chunkRows_sublist rows _ _ _ _).subset hr
    rw [chunkRows_eq rows _ _ _ _ hi'] at hr
    have hb := mem_slice rows g.hmono _ _ r hr
    have hf := hfacts r hr'
    refine ⟨?_, ?_, hf.1, hf.2.1, hf.2.2.1⟩
    · have : cutv rec.ns cs ((rec.ns + cs - 1) / cs) i = ((i * cs : Nat) : Int) := by
        unfold cutv; rw [if_neg (by omega)]
      rw [← this]; exact hb.1
    · rw [chunkEnd_eq_cutv]; exact hb.2
  have hperm : ((sched.map fun i => (chunkRows rows rec.ns cs ((rec.ns + cs - 1) / cs) i).map F).flatten).Perm
      (rows.map F) := by
    have h1 := ((hm ▸ d.sched).map fun i => (chunkRows rows rec.ns cs ((rec.ns + cs - 1) / cs) i).map F).flatten
    refine h1.trans (List.Perm.of_eq ?_)
    have h2 := chunks_partition rows rec.ns cs d.csPos hns
      (fun r hr => by have := hsample r hr; omega) (fun r hr => by have := hsample r hr; have := d.offLen; omega)
    conv => rhs; rw [← h2]
    rw [List.map_flatten, List.map_map]
    rfl
  -- the final stage
  have hfin := finish_ok g hne ((sched.map fun i => (chunkRows rows rec.ns cs ((rec.ns + cs - 1) / cs) i).map F).flatten)
    cn (cn.headD []).length len (unitIds sp).length
    (fun r hr => by have := hsample r hr; omega) (fun r hr => ⟨(hfacts r hr).2.1, (hfacts r hr).2.2.1⟩)
    (unitIds sp) rfl (fun r hr => (hfacts r hr).2.2.2)
  unfold extractBin
  rw [if_neg (by omega), makeTable_ok choose sp rec.ns off len maxWf d.law, hrows]
  simp only [hwrites, hfin.2]
  -- the record is `specOutput`
  congr 1
  unfold specOutput mkOutput
  rw [hrows]
  simp only
  generalize hS : rows.wvSort leRow = S at hfin
  have hSlen : S.length = rows.length := by rw [← hS]; exact (List.wvSort_perm _ _).length_eq
  have hSeq : S = (orderOf cl rows.length).map (fun k => rows.getD k default) := by rw [← hS]; exact g.sorted_eq
  have htr : (List.range rows.length).map (mmRow (cn.headD []).length len
        ((sched.map fun i => (chunkRows rows rec.ns cs ((rec.ns + cs - 1) / cs) i).map F).flatten))
      = ((S.zip (cumsumM1 0 (stepsOf S))).map fun (r, v) => { r with iwc := v }).map (gw rec cn off len) := by
    apply List.ext_getElem
    · simp [cumsumM1_length, hfin.1, hSlen]
    · intro k h1 h2
      have hk : k < rows.length := by simpa using h1
      have hkS : k < S.length := by omega
      rw [List.getElem_map, List.getElem_range, mmRow_of_perm g (gw rec cn off len) _ hperm _ _ k hk]
      simp only [List.getElem_map, List.getElem_zip, gw]
      have hko : k < (orderOf cl rows.length).length := by rw [orderOf_length]; exact hk
      have : S[k] = rows.getD ((orderOf cl rows.length).getD k 0) default := by
        simp only [hSeq, List.getElem_map, List.getD_eq_getElem?_getD, List.getElem?_eq_getElem hko, Option.getD_some]
      rw [this]
  rw [htr]

end IblVerif.Waveforms
