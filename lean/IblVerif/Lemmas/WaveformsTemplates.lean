/-
Templates: the index range `first_index … last_index` of a cluster covers exactly the rows of that cluster.
-/
import IblVerif.Lemmas.WaveformsSpec
namespace IblVerif.Waveforms

/-! ### a list ordered by a key splits into `< c`, `= c`, `> c` -/

theorem split_by_key (key : Row → Int) (c : Int) : ∀ (l : List Row), (l.map key).Pairwise (· ≤ ·) →
    l = l.filter (fun r => decide (key r < c)) ++ l.filter (fun r => decide (key r = c))
        ++ l.filter (fun r => decide (c < key r))
  | [], _ => by simp
  | x :: xs, hp => by
    simp only [List.map_cons, List.pairwise_cons] at hp
    have ih := split_by_key key c xs hp.2
    have hge : ∀ y ∈ xs, key x ≤ key y := fun y hy => hp.1 (key y) (List.mem_map_of_mem (f := key) hy)
    by_cases h1 : key x < c
    · have d1 : decide (key x < c) = true := by simp [h1]
      have d2 : decide (key x = c) = false := by simp; omega
      have d3 : decide (c < key x) = false := by simp; omega
      simp only [List.filter_cons, d1, d2, d3, if_true, Bool.false_eq_true, if_false, List.cons_append]
      rw [← ih]
    · have hnil : xs.filter (fun r => decide (key r < c)) = [] :=
        List.filter_eq_nil_iff.mpr (fun y hy => by have := hge y hy; simp only [decide_eq_true_eq]; omega)
      have d1 : decide (key x < c) = false := by simp [h1]
      by_cases h2 : key x = c
      · have d2 : decide (key x = c) = true := by simp [h2]
        have d3 : decide (c < key x) = false := by simp; omega
        simp only [List.filter_cons, d1, d2, d3, if_true, Bool.false_eq_true, if_false]
        rw [hnil] at ih ⊢
        simp only [List.nil_append, List.cons_append] at ih ⊢
        rw [← ih]
      · have d2 : decide (key x = c) = false := by simp [h2]
        have d3 : decide (c < key x) = true := by simp; omega
        have hnil2 : xs.filter (fun r => decide (key r = c)) = [] :=
          List.filter_eq_nil_iff.mpr (fun y hy => by have := hge y hy; simp only [decide_eq_true_eq]; omega)
        simp only [List.filter_cons, d1, d2, d3, if_true, Bool.false_eq_true, if_false]
        rw [hnil, hnil2] at ih ⊢
        simp only [List.nil_append] at ih ⊢
        rw [← ih]

/-! ### min and max of a run of consecutive numbers -/

theorem foldl_min_range' : ∀ (m a b : Nat), b ≤ a → (List.range' a m).foldl min b = b
  | 0, _, _, _ => rfl
  | m + 1, a, b, h => by
    rw [List.range'_succ, List.foldl_cons, Nat.min_eq_left h]
    exact foldl_min_range' m (a + 1) b (by omega)

theorem foldl_max_range' : ∀ (m a b : Nat), b ≤ a → 0 < m → (List.range' a m).foldl max b = a + m - 1
  | 0, _, _, _, h => by omega
  | m + 1, a, b, h, _ => by
    rw [List.range'_succ, List.foldl_cons, Nat.max_eq_right h]
    by_cases hm : m = 0
    · subst hm; simp
    · rw [foldl_max_range' m (a + 1) a (by omega) (by omega)]; omega

theorem range_split (n a m : Nat) (X Y Z : List Nat) (h : List.range n = X ++ Y ++ Z)
    (hX : X.length = a) (hY : Y.length = m) : Y = List.range' a m := by
  have hlen : n = a + m + Z.length := by
    have := congrArg List.length h
    simp only [List.length_range, List.length_append] at this; omega
  have h2 : List.range n = List.range' 0 a ++ List.range' a m ++ List.range' (a + m) Z.length := by
    rw [List.range_eq_range', hlen, ← List.range'_append_1, ← List.range'_append_1]
    simp
  rw [h2, List.append_assoc, List.append_assoc] at h
  have h3 := List.append_inj h (by simp [hX])
  have h4 := List.append_inj h3.2 (by simp [hY])
  exact h4.1.symm

/-! ### filter-then-map through the `index_within_clusters` update -/

theorem filter_map_as_filterMap {β} (p : Row → Bool) (f : Row → β) : ∀ l : List Row,
    (l.filter p).map f = (l.map fun r => (p r, f r)).filterMap fun q => if q.1 then some q.2 else none
  | [] => rfl
  | x :: xs => by
    simp only [List.filter_cons, List.map_cons, List.filterMap_cons]
    cases hp : p x <;> simp [filter_map_as_filterMap p f xs]

theorem tbl_filter_map {β} (S : List Row) (h : (stepsOf S).length = S.length) (p : Row → Bool) (f : Row → β)
    (hp : ∀ r v, p { r with iwc := v } = p r) (hf : ∀ r v, f { r with iwc := v } = f r) :
    ((tbl S).filter p).map f = (S.filter p).map f := by
  rw [filter_map_as_filterMap, filter_map_as_filterMap,
    tbl_map S h (fun r => (p r, f r)) (fun r v => by rw [hp, hf])]

theorem zip_map_self {α β} (f : α → β) : ∀ l : List α, l.zip (l.map f) = l.map fun a => (a, f a)
  | [] => rfl
  | x :: xs => by simp [zip_map_self f xs]

/-! ### the templates of `specOutput` -/

theorem spec_templates (choose : Choose) (rec : Arr) (cn : List (List Nat)) (sp : List Spike)
    (off len maxWf cs : Nat) (sched : List Nat) (d : Domain choose rec cn sp off len maxWf cs sched) :
    (specOutput choose rec cn sp off len maxWf).templates2.length = (unitIds sp).length ∧
    (specOutput choose rec cn sp off len maxWf).clusters.map (·.cluster)
      = unique ((specOutput choose rec cn sp off len maxWf).table.map (·.cluster)) ∧
    (∀ (i : Nat) (a : ClusterAgg), (specOutput choose rec cn sp off len maxWf).clusters[i]? = some a →
      (specOutput choose rec cn sp off len maxWf).templates2[i]? = some (template2 (cn.headD []).length len
        ((((specOutput choose rec cn sp off len maxWf).table.zip (specOutput choose rec cn sp off len maxWf).traces).filter
          fun p => decide (p.1.cluster = a.cluster)).map (·.2)))) ∧
    (∀ i : Nat, (specOutput choose rec cn sp off len maxWf).clusters.length ≤ i → i < (unitIds sp).length →
      (specOutput choose rec cn sp off len maxWf).templates2[i]?
        = some (List.replicate (cn.headD []).length (List.replicate len none))) := by
  obtain ⟨cl, g, _, hfacts, hsteps⟩ := domain_rows choose rec cn sp off len maxWf cs sched d
  have hwi := spec_table_wi choose rec cn sp off len maxWf cs sched d
  rw [spec_table] at hwi
  have e1 : (specOutput choose rec cn sp off len maxWf).templates2
      = templatesOf (cn.headD []).length len (unitIds sp).length
          (aggregate ((tableRows sp (wfIdx choose sp rec.ns off len maxWf)).wvSort leRow))
          ((tbl ((tableRows sp (wfIdx choose sp rec.ns off len maxWf)).wvSort leRow)).map (gw rec cn off len)) := rfl
  have e2 : (specOutput choose rec cn sp off len maxWf).clusters
      = aggregate ((tableRows sp (wfIdx choose sp rec.ns off len maxWf)).wvSort leRow) := rfl
  rw [e1, e2, spec_traces, spec_table]
  generalize hS : (tableRows sp (wfIdx choose sp rec.ns off len maxWf)).wvSort leRow = S at hwi hsteps
  have hperm : S.Perm (tableRows sp (wfIdx choose sp rec.ns off len maxWf)) := by
    rw [← hS]; exact List.wvSort_perm _ _
  have hSlen : S.length = (wfIdx choose sp rec.ns off len maxWf).length := by
    rw [hperm.length_eq, tableRows_length]
  have hst : (stepsOf S).length = S.length := by rw [hsteps, hSlen]
  have hS0 : ∀ r ∈ S, 0 ≤ r.sample := by
    intro r hr
    have := (allowed_iff _ _ _ _).mp (hfacts r (hperm.mem_iff.mp hr)).1
    omega
  have hlive : S.filter (fun r => decide (r.sample ≥ 0)) = S :=
    List.filter_eq_self.mpr (fun r hr => by simp [hS0 r hr])
  have hsorted : (S.map (·.cluster)).Pairwise (· ≤ ·) := by
    rw [← hS, List.pairwise_map]
    apply (List.pairwise_wvSort leRow_trans leRow_total _).imp
    intro a b h; rw [leRow_iff] at h; omega
  have hSwi : S.map (·.wi) = List.range S.length := by
    rw [← tbl_map S hst (·.wi) (fun _ _ => rfl), hwi, hSlen]
  have htr : (tbl S).map (gw rec cn off len) = S.map (gw rec cn off len) :=
    tbl_map S hst _ (fun _ _ => rfl)
  refine ⟨by simp [templatesOf], ?_, ?_, ?_⟩
  · -- cluster list
    rw [tbl_map S hst (·.cluster) (fun _ _ => rfl)]
    simp [aggregate, hlive, Function.comp_def]
  · intro i a hia
    have hi : i < (aggregate S).length := by
      by_cases h : i < (aggregate S).length
      · exact h
      · rw [List.getElem?_eq_none (Nat.le_of_not_lt h)] at hia; cases hia
    have hinu : i < (unitIds sp).length := by
      -- number of clusters with waveforms ≤ number of units
      have h1 := aggregate_length S hS0
      have : (unique (S.map (·.cluster))).length ≤ (unitIds sp).length := by
        apply List.Nodup.length_le_of_subset (unique_nodup _)
        intro x hx
        have := (mem_unique x _).mp hx
        rw [List.mem_map] at this
        obtain ⟨r, hr, rfl⟩ := this
        exact (hfacts r (hperm.mem_iff.mp hr)).2.2.2
      omega
    simp only [templatesOf, List.getElem?_map, List.getElem?_range hinu, Option.map_some, hia]
    congr 2
    -- the cluster and its rows
    have hamem : a ∈ aggregate S := List.mem_of_getElem? hia
    simp only [aggregate, hlive, List.mem_map] at hamem
    obtain ⟨c, hc, rfl⟩ := hamem
    simp only
    have hsplit := split_by_key (·.cluster) c S hsorted
    generalize hA : S.filter (fun r => decide (r.cluster < c)) = A at hsplit
    generalize hB : S.filter (fun r => decide (r.cluster = c)) = B at hsplit
    generalize hC : S.filter (fun r => decide (c < r.cluster)) = C at hsplit
    have hBne : B ≠ [] := by
      have := (mem_unique c _).mp hc
      rw [List.mem_map] at this
      obtain ⟨r, hr, hrc⟩ := this
      have : r ∈ B := by rw [← hB, List.mem_filter]; exact ⟨hr, by simp [hrc]⟩
      exact List.ne_nil_of_mem this
    have hBwi : B.map (·.wi) = List.range' A.length B.length := by
      apply range_split S.length A.length B.length (A.map (·.wi)) (B.map (·.wi)) (C.map (·.wi))
      · rw [← hSwi]; conv => lhs; rw [hsplit]
        simp
      · simp
      · simp
    have hBpos : 0 < B.length := List.length_pos_iff.mpr hBne
    have hfirst : (B.map (·.wi)).foldl min ((B.map (·.wi)).headD 0) = A.length := by
      rw [hBwi]
      have : (List.range' A.length B.length).headD 0 = A.length := by
        cases hb : B.length with
        | zero => omega
        | succ m => simp [List.range'_succ]
      rw [this]
      exact foldl_min_range' _ _ _ (Nat.le_refl _)
    have hlast : (B.map (·.wi)).foldl max 0 = A.length + B.length - 1 := by
      rw [hBwi]; exact foldl_max_range' _ _ _ (Nat.zero_le _) hBpos
    rw [hfirst, hlast, htr]
    have h1 : A.length + B.length - 1 + 1 - A.length = B.length := by omega
    rw [h1]
    -- left: the slice of the traces
    have hL : ((S.map (gw rec cn off len)).drop A.length).take B.length = B.map (gw rec cn off len) := by
      conv => lhs; rw [hsplit]
      rw [List.map_append, List.map_append, List.append_assoc]
      rw [List.drop_left' (by simp), List.take_left' (by simp)]
    rw [hL]
    -- right: the rows of the cluster
    rw [← htr, zip_map_self, List.filter_map, List.map_map]
    have : ((tbl S).filter ((fun p : Row × Wf => decide (p.1.cluster = c)) ∘ fun a => (a, gw rec cn off len a))).map
        (((·.2) : Row × Wf → Wf) ∘ fun a => (a, gw rec cn off len a))
        = ((tbl S).filter (fun r => decide (r.cluster = c))).map (gw rec cn off len) := rfl
    rw [this, tbl_filter_map S hst _ _ (fun _ _ => rfl) (fun _ _ => rfl), hB]
  · intro i hi hinu
    have : (aggregate S)[i]? = none := List.getElem?_eq_none hi
    simp only [templatesOf, List.getElem?_map, List.getElem?_range hinu, Option.map_some, this]

/-- when every unit has a valid spike the clusters that have waveforms are all the units -/
theorem spec_clusters_all (choose : Choose) (rec : Arr) (cn : List (List Nat)) (sp : List Spike)
    (off len maxWf cs : Nat) (sched : List Nat) (d : Domain choose rec cn sp off len maxWf cs sched)
    (hall : ∀ u ∈ unitIds sp, ∃ s ∈ sp, s.cluster = u ∧ allowed rec.ns off len s.sample = true) :
    (specOutput choose rec cn sp off len maxWf).clusters.map (·.cluster) = unitIds sp := by
  rw [(spec_templates choose rec cn sp off len maxWf cs sched d).2.1]
  have hperm := spec_table_perm choose rec cn sp off len maxWf cs sched d
  apply List.Perm.eq_of_pairwise (le := (· < ·))
  · intro a b _ _ h1 h2; omega
  · exact unique_sorted _
  · exact unique_sorted _
  · refine (List.perm_ext_iff_of_nodup (unique_nodup _) (unique_nodup (sp.map (·.cluster)))).mpr ?_
    intro x
    show x ∈ unique _ ↔ x ∈ unitIds sp
    rw [mem_unique]
    constructor
    · intro hx
      rw [List.mem_map] at hx
      obtain ⟨r, hr, rfl⟩ := hx
      have : (r.sample, r.cluster, r.peak) ∈ (specOutput choose rec cn sp off len maxWf).table.map
          (fun r => (r.sample, r.cluster, r.peak)) := List.mem_map_of_mem (f := fun r : Row => (r.sample, r.cluster, r.peak)) hr
      have := hperm.mem_iff.mp this
      rw [List.mem_map] at this
      obtain ⟨j, hj, hjeq⟩ := this
      obtain ⟨u, hu, hju⟩ := (mem_wfIdx _ _ _ _ _ _ j).mp hj
      have := ((lawfulChoice_iff _ _ _).mp (d.law u hu)).2.1 j hju
      obtain ⟨s, hs, hcs, _⟩ := (mem_candidates _ _ _ _ _ _).mp this
      have hget : sp.getD j default = s := by rw [List.getD_eq_getElem?_getD, hs]; rfl
      rw [hget] at hjeq
      have : r.cluster = s.cluster := by
        have := congrArg (fun t : Int × Int × Int => t.2.1) hjeq; simpa using this.symm
      rw [this, hcs]; exact hu
    · intro hx
      obtain ⟨s, hs, hcs, ha⟩ := hall x hx
      obtain ⟨j, hj⟩ := List.mem_iff_getElem?.mp hs
      have hc : j ∈ candidates sp rec.ns off len x := (mem_candidates _ _ _ _ _ _).mpr ⟨s, hj, hcs, ha⟩
      have hl := (lawfulChoice_iff _ _ _).mp (d.law x hx)
      have hpos : 0 < (candidates sp rec.ns off len x).length := List.length_pos_of_mem hc
      have : 0 < (chosen choose sp rec.ns off len maxWf x).length := by
        rw [hl.1]; have := d.maxWfPos; omega
      obtain ⟨j', hj'⟩ := List.exists_mem_of_length_pos this
      have hj'w := (mem_wfIdx choose sp rec.ns off len maxWf j').mpr ⟨x, hx, hj'⟩
      obtain ⟨s', hs', hcs', _⟩ := (mem_candidates _ _ _ _ _ _).mp (hl.2.1 j' hj')
      have hget : sp.getD j' default = s' := by rw [List.getD_eq_getElem?_getD, hs']; rfl
      have hm : ((sp.getD j' default).sample, (sp.getD j' default).cluster, (sp.getD j' default).chan) ∈
          (wfIdx choose sp rec.ns off len maxWf).map fun j =>
            ((sp.getD j default).sample, (sp.getD j default).cluster, (sp.getD j default).chan) :=
        List.mem_map_of_mem (f := fun j => ((sp.getD j default).sample, (sp.getD j default).cluster, (sp.getD j default).chan)) hj'w
      have := hperm.mem_iff.mpr hm
      rw [List.mem_map] at this
      obtain ⟨r, hr, hreq⟩ := this
      rw [List.mem_map]
      refine ⟨r, hr, ?_⟩
      have := congrArg (fun t : Int × Int × Int => t.2.1) hreq
      simp only [hget] at this
      rw [this, hcs']

end IblVerif.Waveforms
