/-
Helper lemmas for C10 (growth round): 2-D detection = row-wise / column-wise 1-D detection; detection over
consecutive windows that re-read one sample (a seam event is found exactly once); sorted lists count each member
once.  Core Lean only.
-/
import IblVerif.Lemmas.SyncC10Array
namespace IblVerif.Sync

section
variable {α : Type}

/-! ### the detector skeletons shared by fronts / rises / falls -/

/-- 1-D: `where(p(diff x))`, positions shifted by one, each with the difference found there. -/
def sw1 [Sub α] (p : α → Bool) (x : List α) : List (Nat × α) :=
  (whereFrom p 0 (diff x)).map fun q => (idxShift q.1, q.2)

/-- 2-D: the same along `axis`. -/
def sw2 [Sub α] (p : α → Bool) (axis : Nat) (x : List (List α)) : List ((Nat × Nat) × α) :=
  (where2From p 0 (diff2 axis x)).map fun q => (bump axis q.1, q.2)

/-! ### `np.where` over concatenations and offsets -/

theorem whereFrom_shift (p : α → Bool) (l : List α) (i k : Nat) :
    whereFrom p (i + k) l = (whereFrom p i l).map fun q => (q.1 + k, q.2) := by
  induction l generalizing i with
  | nil => simp [whereFrom]
  | cons a t ih =>
    unfold whereFrom
    have h : i + k + 1 = (i + 1) + k := by omega
    split <;> simp [h, ih (i + 1)]

theorem whereFrom_append (p : α → Bool) (l m : List α) (i : Nat) :
    whereFrom p i (l ++ m) = whereFrom p i l ++ whereFrom p (i + l.length) m := by
  induction l generalizing i with
  | nil => simp [whereFrom]
  | cons a t ih =>
    simp only [List.cons_append, whereFrom, List.length_cons]
    have h : i + (t.length + 1) = (i + 1) + t.length := by omega
    split <;> simp [ih (i + 1), h]

theorem where2From_shift (p : α → Bool) (m : List (List α)) (i k : Nat) :
    where2From p (i + k) m = (where2From p i m).map fun q => ((q.1.1 + k, q.1.2), q.2) := by
  induction m generalizing i with
  | nil => simp [where2From]
  | cons r t ih =>
    unfold where2From
    have h : i + k + 1 = (i + 1) + k := by omega
    simp [h, ih (i + 1), List.map_map, Function.comp_def]

theorem where2From_append (p : α → Bool) (m m' : List (List α)) (i : Nat) :
    where2From p i (m ++ m') = where2From p i m ++ where2From p (i + m.length) m' := by
  induction m generalizing i with
  | nil => simp [where2From]
  | cons r t ih =>
    simp only [List.cons_append, where2From, List.length_cons, List.append_assoc]
    have h : i + (t.length + 1) = (i + 1) + t.length := by omega
    rw [ih (i + 1), h]

/-! ### differences of adjacent elements over a seam -/

/-- adjacent pairs: `diff` and `diff2 0` are instances. -/
def adj {β : Type} (g : α → α → β) : List α → List β
  | a :: b :: t => g a b :: adj g (b :: t)
  | _ => []

theorem diff_eq_adj [Sub α] (l : List α) : diff l = adj (fun a b => b - a) l := by
  induction l with
  | nil => rfl
  | cons a t ih =>
    cases t with
    | nil => rfl
    | cons b t' => simp only [diff, adj]; rw [ih]

theorem diff2_zero_eq_adj [Sub α] (x : List (List α)) :
    diff2 0 x = adj (fun r0 r1 => List.zipWith (fun a b => b - a) r0 r1) x := by
  unfold diff2
  simp only [Nat.zero_ne_one, if_false]
  induction x with
  | nil => rfl
  | cons a t ih =>
    cases t with
    | nil => rfl
    | cons b t' =>
      simp only [List.tail_cons, List.zipWith_cons_cons, adj]
      rw [← ih]; rfl

theorem adj_seam {β : Type} (g : α → α → β) (l1 l2 : List α) (a : α) :
    adj g (l1 ++ a :: l2) = adj g (l1 ++ [a]) ++ adj g (a :: l2) := by
  induction l1 with
  | nil => simp [adj]
  | cons b t ih =>
    cases t with
    | nil => simp [adj]
    | cons c t' =>
      simp only [List.cons_append, adj] at ih ⊢
      rw [ih]

theorem adj_length_snoc {β : Type} (g : α → α → β) (l1 : List α) (a : α) :
    (adj g (l1 ++ [a])).length = l1.length := by
  induction l1 with
  | nil => simp [adj]
  | cons b t ih =>
    cases t with
    | nil => simp [adj]
    | cons c t' => simp only [List.cons_append, adj, List.length_cons] at ih ⊢; omega

/-- **Seam, 1-D**: detection on a trace cut after sample `a` = detection on the first part (up to and including
`a`) followed by detection on the second part read again from `a`, shifted by the position of `a`. -/
theorem sw1_seam [Sub α] (p : α → Bool) (l1 l2 : List α) (a : α) :
    sw1 p (l1 ++ a :: l2) = sw1 p (l1 ++ [a]) ++ (sw1 p (a :: l2)).map fun q => (q.1 + l1.length, q.2) := by
  unfold sw1
  rw [diff_eq_adj, diff_eq_adj, diff_eq_adj, adj_seam, whereFrom_append, adj_length_snoc, List.map_append]
  congr 1
  have := whereFrom_shift p (adj (fun a b => b - a) (a :: l2)) 0 l1.length
  rw [this]
  simp [List.map_map, Function.comp_def, idxShift]
  intro a b _; omega

/-- **Seam, 2-D along the first axis** (rows = samples). -/
theorem sw2_seam [Sub α] (p : α → Bool) (m1 m2 : List (List α)) (r : List α) :
    sw2 p 0 (m1 ++ r :: m2) =
      sw2 p 0 (m1 ++ [r]) ++ (sw2 p 0 (r :: m2)).map fun q => ((q.1.1 + m1.length, q.1.2), q.2) := by
  unfold sw2
  rw [diff2_zero_eq_adj, diff2_zero_eq_adj, diff2_zero_eq_adj, adj_seam, where2From_append, adj_length_snoc,
    List.map_append]
  congr 1
  have := where2From_shift p (adj (fun r0 r1 => List.zipWith (fun a b => b - a) r0 r1) (r :: m2)) 0 m1.length
  rw [this]
  simp [List.map_map, Function.comp_def, bump, idxShift]
  intro a b c _; omega

theorem sw1_nil [Sub α] (p : α → Bool) : sw1 p ([] : List α) = [] := by simp [sw1, diff, whereFrom]
theorem sw1_one [Sub α] (p : α → Bool) (a : α) : sw1 p [a] = [] := by simp [sw1, diff, whereFrom]
theorem sw2_nil [Sub α] (p : α → Bool) : sw2 p 0 ([] : List (List α)) = [] := by simp [sw2, diff2, where2From]
theorem sw2_one [Sub α] (p : α → Bool) (r : List α) : sw2 p 0 [r] = [] := by simp [sw2, diff2, where2From]

/-! ### detection window by window -/

theorem getLast?_append_window {ρ : Type} (pre w : List ρ) :
    (pre ++ w).getLast? = (match w.getLast? with | some r => some r | none => pre.getLast?) := by
  rw [List.getLast?_append]
  cases w.getLast? <;> rfl

/-- **Window independence**: for every detector with the seam property, running it window by window (each window
re-reading one sample) gives exactly the events of the whole trace, in the same order, each exactly once. -/
theorem chunked_of_seam {ρ ε : Type} (D : List ρ → List ε) (sh : Nat → ε → ε) (hnil : D [] = [])
    (hsh0 : ∀ e, sh 0 e = e)
    (hseam : ∀ l1 a l2, D (l1 ++ a :: l2) = D (l1 ++ [a]) ++ (D (a :: l2)).map (sh l1.length))
    (ws : List (List ρ)) (pre : List ρ) :
    D (pre ++ ws.flatten) = D pre ++ chunked D sh pre.length pre.getLast? ws := by
  induction ws generalizing pre with
  | nil => simp [chunked]
  | cons w ws ih =>
    have hstep : D (pre ++ w) = D pre ++ (match pre.getLast? with
        | some r => (D (r :: w)).map (sh (pre.length - 1))
        | none => (D w).map (sh pre.length)) := by
      rcases List.eq_nil_or_concat pre with h | ⟨p, a, h⟩
      · subst h
        have : (D w).map (sh 0) = D w := by
          rw [List.map_congr_left (g := id) (fun e _ => hsh0 e), List.map_id]
        simp [hnil, this]
      · subst h
        simp only [List.concat_eq_append, List.getLast?_concat, List.length_append, List.length_cons, List.length_nil]
        rw [List.append_assoc, List.singleton_append, hseam]
        simp
    simp only [List.flatten_cons, chunked]
    rw [← List.append_assoc, ih (pre ++ w), hstep, getLast?_append_window, List.length_append, List.append_assoc]
    cases pre.getLast? <;> cases w.getLast? <;> rfl

/-! ### a sorted list counts each member once -/

theorem count_of_sorted (l : List Nat) (h : l.Pairwise (· < ·)) (t : Nat) :
    l.count t = if t ∈ l then 1 else 0 := by
  induction l with
  | nil => simp
  | cons a l ih =>
    rw [List.pairwise_cons] at h
    rw [List.count_cons, ih h.2]
    by_cases hat : a = t
    · subst hat
      have : a ∉ l := fun hm => Nat.lt_irrefl _ (h.1 a hm)
      simp [this]
    · have hne : ¬ t = a := fun h' => hat h'.symm
      simp [hat, hne]

/-! ### 2-D along the last axis = the 1-D detector on every row -/

theorem sw2_axis1_rowwise [Sub α] (p : α → Bool) (x : List (List α)) (i0 : Nat) :
    (where2From p i0 (diff2 1 x)).map (fun q => (bump 1 q.1, q.2)) =
      (x.zipIdx i0).flatMap fun ri => (sw1 p ri.1).map fun q => ((ri.2, q.1), q.2) := by
  induction x generalizing i0 with
  | nil => simp [diff2, where2From]
  | cons r t ih =>
    have ih' := ih (i0 + 1)
    simp only [diff2, if_true, List.map_cons, where2From, List.map_append, List.zipIdx_cons, List.flatMap_cons] at ih' ⊢
    rw [ih']
    simp [sw1, bump, List.map_map, Function.comp_def]

/-- 2-D along the first axis: position `(i, j)` is an event iff `i` is an event of column `j`
(`col` = any list whose entries are the entries of column `j`). -/
theorem sw2_axis0_col [Sub α] (p : α → Bool) (x : List (List α)) (col : List α) (j : Nat)
    (hcol : ∀ i, col[i]? = at2 x (i, j)) (i : Nat) (v : α) :
    ((i, j), v) ∈ sw2 p 0 x ↔ (i, v) ∈ sw1 p col := by
  unfold sw2 sw1
  rw [shifted_where2_mem, shifted_where_mem]
  simp only [coord, prevPos, Nat.zero_ne_one, if_false, hcol]

end

/-- Column `j` of a rectangular integer matrix. -/
theorem col_getD (x : List (List Int)) (c j : Nat) (hrect : ∀ r ∈ x, r.length = c) (hj : j < c) (i : Nat) :
    (x.map fun r => r.getD j 0)[i]? = at2 x (i, j) := by
  unfold at2
  simp only [List.getElem?_map]
  cases hx : x[i]? with
  | none => simp
  | some r =>
    have hr := hrect r (List.mem_of_getElem? hx)
    have : j < r.length := by omega
    simp [List.getD_eq_getElem?_getD, List.getElem?_eq_getElem this]

/-! ### the detectors of the model in terms of the skeletons -/

section
variable {α : Type} [Sub α] [Neg α] [LT α] [DecidableLT α] [LE α] [DecidableLE α] [OfNat α 0] [OfNat α 1]

theorem frontsPairs_eq_sw1 (x : List α) (step : α) : frontsPairs x step = sw1 (frontsPred step) x := rfl

theorem fronts2_eq_sw2 (axis : Nat) (x : List (List α)) (step : α) : fronts2 axis x step = sw2 (frontsPred step) axis x := rfl

/-- `rises` in either mode: the skeleton on `x.map h` (`h` = identity, or the binarisation of analog mode). -/
theorem rises_eq_sw1 (x : List α) (step : α) (analog : Bool) :
    rises x step analog =
      (sw1 (risesPred (if analog then 1 else step)) (x.map (if analog then binOne step else id))).map (·.1) := by
  cases analog <;> simp [rises, sw1, binarize, List.map_map, Function.comp_def]

theorem rises2_eq_sw2 (axis : Nat) (x : List (List α)) (step : α) (analog : Bool) :
    rises2 axis x step analog =
      (sw2 (risesPred (if analog then 1 else step)) axis
        (x.map fun r => r.map (if analog then binOne step else id))).map (·.1) := by
  cases analog <;> simp [rises2, sw2, binarize, List.map_map, Function.comp_def]

end

/-- `chunked` only evaluates the detector on lists made of samples of the windows (and of the carried sample): two
detectors that agree on such lists give the same result. -/
theorem chunked_congr {ρ ε : Type} (D D' : List ρ → List ε) (sh : Nat → ε → ε) (P : ρ → Prop)
    (hD : ∀ l, (∀ r ∈ l, P r) → D l = D' l) (ws : List (List ρ)) (hws : ∀ w ∈ ws, ∀ r ∈ w, P r)
    (off : Nat) (prev : Option ρ) (hprev : ∀ r, prev = some r → P r) :
    chunked D sh off prev ws = chunked D' sh off prev ws := by
  induction ws generalizing off prev with
  | nil => rfl
  | cons w ws ih =>
    have hw : ∀ r ∈ w, P r := hws w (by simp)
    simp only [chunked]
    congr 1
    · cases prev with
      | none => simp only; rw [hD w hw]
      | some r =>
        simp only
        rw [hD (r :: w) (by
          intro r' hr'
          rcases List.mem_cons.mp hr' with h | h
          · subst h; exact hprev _ rfl
          · exact hw r' h)]
    · apply ih (fun w' hw' => hws w' (by simp [hw']))
      intro r hr
      cases hl : w.getLast? with
      | none => rw [hl] at hr; exact hprev r hr
      | some r' =>
        rw [hl] at hr
        have : r' = r := by simpa using hr
        subst this
        exact hw r' (List.mem_of_getLast? hl)

end IblVerif.Sync
