/-
Helper lemma: reconstructing the files written by the splitter gives back the original frames.
Core Lean only.
-/
import IblVerif.Lemmas.SplitMeta

namespace IblVerif.Split

/-- What `_prepare_files` must find for shank `sh`. -/
def expectIn (M : Mat) (ns : Nat) (smap : List Nat) (sh : Nat) : ShankIn :=
  { chns := apChans smap sh ++ [smap.length],
    rows := ((List.range ns).map (fun t => (apChans smap sh ++ [smap.length]).map (fun c => M t c))).toArray }

/-- The per-shank step of `splitFiles` succeeds, with a known result. -/
theorem splitOne_eq (conv : Nat → Int → Int) (M : Mat) (ns w ov taper : Nat) (smap : List Nat)
    (m : Meta) (a b : Int) (t1 t2 : List Int)
    (hov : ov < w) (ht : taper * 4 = ov) (hns : taper ≤ ns)
    (hconv : ∀ t c, conv c (M t c) = M t c)
    (h1 : m.get "acqApLfSy" = some (.ints (a :: t1))) (h2 : m.get "snsApLfSy" = some (.ints (b :: t2)))
    (sh : Nat) :
    ∃ tk, parseToks tk = apChans smap sh ++ [smap.length] ∧
      splitOne conv M ns (smap.length + 1) w ov taper smap 1 m sh
        = .ok { sh := sh,
                md := splitMetaVal m (apChans smap sh ++ [smap.length]).length sh
                  (2 * (apChans smap sh ++ [smap.length]).length *
                    ((List.range ns).map (fun t => (apChans smap sh ++ [smap.length]).map (fun c => M t c))).length)
                  t1 t2 tk,
                rows := ((List.range ns).map (fun t => (apChans smap sh ++ [smap.length]).map (fun c => M t c))).toArray } := by
  have hch : shankChans smap sh (smap.length + 1) 1 = apChans smap sh ++ [smap.length] := by
    simp [shankChans, syncIdx_one]
  have hlt : ∀ c ∈ apChans smap sh ++ [smap.length], c < smap.length + 1 := by
    intro c hc
    rcases List.mem_append.mp hc with hc | hc
    · have := ((mem_apChans smap sh c).mp hc).1; omega
    · simp at hc; omega
  obtain ⟨tk, e1, e2⟩ := parse_subsetToks (apChans smap sh ++ [smap.length]) (by simp)
  refine ⟨tk, e2, ?_⟩
  unfold splitOne
  rw [hch, splitShank_ok conv M ns _ w ov taper _ hov ht hns hlt]
  simp only [hconv]
  rw [splitMeta_eq m _ sh _ a b t1 t2 tk h1 h2 e1]

theorem recon_of_split (conv : Nat → Int → Int) (M : Mat) (ns w ov taper W : Nat) (smap : List Nat)
    (m : Meta) (a b : Int) (t1 t2 : List Int)
    (hov : ov < w) (ht : taper * 4 = ov) (hns : taper ≤ ns) (hW : 0 < W)
    (hne : smap ≠ []) (hdig : ∀ s ∈ smap, s < 10)
    (hconv : ∀ t c, conv c (M t c) = M t c)
    (h1 : m.get "acqApLfSy" = some (.ints (a :: t1))) (h2 : m.get "snsApLfSy" = some (.ints (b :: t2))) :
    ∃ files, splitFiles conv M ns (smap.length + 1) w ov taper smap 1 m = .ok files ∧
      files.map (·.sh) = shankIds smap ∧
      reconstruct smap files W = .ok (origRows M ns (smap.length + 1)) := by
  have hap : ∀ sh c, c ∈ apChans smap sh → c < smap.length := fun sh c hc => ((mem_apChans smap sh c).mp hc).1
  have hlt : ∀ sh, ∀ c ∈ apChans smap sh ++ [smap.length], c < smap.length + 1 := by
    intro sh c hc
    rcases List.mem_append.mp hc with hc | hc
    · have := hap sh c hc; omega
    · simp at hc; omega
  have hstep := splitOne_eq conv M ns w ov taper smap m a b t1 t2 hov ht hns hconv h1 h2
  obtain ⟨files, hfiles⟩ : ∃ files, splitFiles conv M ns (smap.length + 1) w ov taper smap 1 m = .ok files := by
    unfold splitFiles
    apply mapE_exists
    intro sh _
    obtain ⟨tk, _, e⟩ := hstep sh
    exact ⟨_, e⟩
  have hall := mapE_forall₂ _ _ _ (by unfold splitFiles at hfiles; exact hfiles)
  -- facts about every produced file
  have hfile : ∀ sh f, sh ∈ shankIds smap →
      splitOne conv M ns (smap.length + 1) w ov taper smap 1 m sh = .ok f →
      f.sh = sh ∧ prepareOne smap f = .ok (expectIn M ns smap sh) := by
    intro sh f hsh hf
    obtain ⟨tk, e2, e⟩ := hstep sh
    rw [e] at hf
    simp only [Except.ok.injEq] at hf
    subst hf
    refine ⟨rfl, ?_⟩
    have hs10 : sh % 10 = sh := Nat.mod_eq_of_lt (hdig sh ((mem_shankIds smap sh).mp hsh))
    unfold prepareOne getChans
    simp only [splitMetaVal_shank, splitMetaVal_subset, e2, List.dropLast_concat]
    have : ((sh : Int) % 10).toNat = sh := by omega
    simp only [this, if_true, expectIn]
  refine ⟨files, hfiles, all₂_map hall (·.sh) (fun sh f hr => ?_), ?_⟩
  · -- the recorded shank number
    obtain ⟨tk, e2, e⟩ := hstep sh
    rw [e] at hr
    simp only [Except.ok.injEq] at hr
    subst hr; rfl
  · -- reconstruction
    have hprep : prepareFiles smap files = .ok ((shankIds smap).map (expectIn M ns smap)) := by
      unfold prepareFiles
      have hl := all₂_length hall
      simp only [hl, ne_eq, not_true_eq_false, if_false]
      exact all₂_mapE hall (prepareOne smap) (expectIn M ns smap) (fun sh f hsh hr => (hfile sh f hsh hr).2)
    -- at least one shank
    obtain ⟨s0, hs0⟩ : ∃ s0, s0 ∈ smap := List.exists_mem_of_ne_nil smap hne
    have hids : shankIds smap ≠ [] := List.ne_nil_of_mem ((mem_shankIds smap s0).mpr hs0)
    obtain ⟨i0, irest, hi⟩ := List.exists_cons_of_ne_nil hids
    unfold reconstruct
    simp only [hprep, hi, List.map_cons]
    have hmax : maxOf (expectIn M ns smap i0).chns = some smap.length := by
      simp only [expectIn]
      exact maxOf_concat _ _ (fun x hx => Nat.le_of_lt (hap i0 x hx))
    have hsize : (expectIn M ns smap i0).rows.size = ns := by simp [expectIn]
    have hW0 : ¬ (W = 0) := by omega
    simp only [hmax, hW0, if_false, hsize, wholeRows_eq_range ns W hW]
    unfold origRows
    apply mapE_ok
    intro t htm
    have htn : t < ns := List.mem_range.mp htm
    have hins : ∀ s ∈ expectIn M ns smap i0 :: irest.map (expectIn M ns smap),
        s.rows[t]? = some (s.chns.map (fun c => M t c)) ∧ ∀ c ∈ s.chns, c < smap.length + 1 := by
      intro s hs
      rw [← List.map_cons, ← hi] at hs
      obtain ⟨sh, _, rfl⟩ := List.mem_map.mp hs
      refine ⟨?_, hlt sh⟩
      simp [expectIn, htn]
    obtain ⟨row', e, hsz, hcov⟩ := assignShanks_spec (fun c => M t c) t _ true
      (Array.replicate (smap.length + 1) 0) (fun s hs => (hins s hs).1)
      (fun s hs c hc => by simpa using (hins s hs).2 c hc)
    rw [e]
    simp only [Except.ok.injEq]
    apply frame_eq (fun c => M t c) (smap.length + 1) row' (by simpa using hsz)
    intro c hc
    apply (hcov c).1
    by_cases hcl : c = smap.length
    · -- the sync column comes from the first folder
      left
      simp [expectIn, hcl]
    · -- an AP column belongs to the shank it is mapped to
      have hc' : c < smap.length := by omega
      apply covered_of_mem_dropLast
      refine ⟨expectIn M ns smap smap[c], ?_, ?_⟩
      · rw [← List.map_cons, ← hi]
        exact List.mem_map.mpr ⟨smap[c], (mem_shankIds smap _).mpr (List.getElem_mem hc'), rfl⟩
      · simp only [expectIn, List.dropLast_concat]
        exact (mem_apChans smap _ c).mpr ⟨hc', by simp [hc']⟩

/-- The metadata the reconstructor writes for the files of the splitter: the original fields plus
`original_meta`. -/
theorem recon_meta_of_split (conv : Nat → Int → Int) (M : Mat) (ns w ov taper : Nat) (smap : List Nat)
    (m : Meta) (t1 t2 : List Int) (rows : List (List Int))
    (hov : ov < w) (ht : taper * 4 = ov) (hns : taper ≤ ns) (hne : smap ≠ [])
    (hconv : ∀ t c, conv c (M t c) = M t c) (hrows : rows.length = ns)
    (h1 : m.get "acqApLfSy" = some (.ints ((((smap.length + 1 : Nat) : Int) - 1) :: t1)))
    (h2 : m.get "snsApLfSy" = some (.ints ((((smap.length + 1 : Nat) : Int) - 1) :: t2)))
    (h3 : m.get "nSavedChans" = some (.int (smap.length + 1 : Nat)))
    (h4 : m.get "fileSizeBytes" = some (.int (2 * (smap.length + 1) * ns : Nat)))
    (h5 : m.get "snsSaveChanSubset" = some (.subset [Grp.range 0 (smap.length + 1 - 1)]))
    (h6 : m.get "NP2.4_shank" = none) (h7 : m.get "snsSaveChanSubset_orig" = none)
    (files : List ShankFile)
    (hfiles : splitFiles conv M ns (smap.length + 1) w ov taper smap 1 m = .ok files) :
    ∃ mr, reconstructMeta files rows = .ok mr ∧
      ∀ k, mr.get k = if k = "original_meta" then some (.atom "False") else m.get k := by
  obtain ⟨s0, hs0⟩ : ∃ s0, s0 ∈ smap := List.exists_mem_of_ne_nil smap hne
  have hids : shankIds smap ≠ [] := List.ne_nil_of_mem ((mem_shankIds smap s0).mpr hs0)
  obtain ⟨i0, irest, hi⟩ := List.exists_cons_of_ne_nil hids
  obtain ⟨tk, e2, e⟩ := splitOne_eq conv M ns w ov taper smap m _ _ t1 t2 hov ht hns hconv h1 h2 i0
  have hall := mapE_forall₂ _ _ _ (by unfold splitFiles at hfiles; exact hfiles)
  rw [hi] at hall
  cases hall with
  | cons hab _ =>
    rename_i f0 frest
    rw [e] at hab
    simp only [Except.ok.injEq] at hab
    subst hab
    have hmax : maxOf (apChans smap i0 ++ [smap.length]) = some smap.length :=
      maxOf_concat _ _ (fun x hx => Nat.le_of_lt ((mem_apChans smap i0 x).mp hx).1)
    unfold reconstructMeta getChans
    simp only [splitMetaVal_subset, e2, hmax, hrows]
    exact recon_split_meta m _ i0 _ (smap.length + 1) (2 * (smap.length + 1) * ns) t1 t2 tk
      h1 h2 h3 h4 h5 h6 h7

end IblVerif.Split
