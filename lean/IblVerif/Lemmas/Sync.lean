/-
Helper lemmas for C10 (sync decoding, front detection).  Core Lean only.
-/
import IblVerif.Model.Sync
namespace IblVerif.Sync

/-! ### bit layout of `splitSync` -/
theorem splitSync_length (w : Nat) : (splitSync w).length = 16 := by
  simp [splitSync, roll, viewBytes, unpackByte, List.range, List.range.loop]

theorem splitSync_getElem (w : Nat) (k : Nat) (hk : k < 16) :
    (splitSync w)[k]? = some (w / 2 ^ k % 2) := by
  have h : k = 0 ∨ k = 1 ∨ k = 2 ∨ k = 3 ∨ k = 4 ∨ k = 5 ∨ k = 6 ∨ k = 7 ∨ k = 8 ∨ k = 9 ∨ k = 10 ∨
      k = 11 ∨ k = 12 ∨ k = 13 ∨ k = 14 ∨ k = 15 := by omega
  rcases h with h | h | h | h | h | h | h | h | h | h | h | h | h | h | h | h <;> subst h <;>
    simp [splitSync, roll, viewBytes, unpackByte, List.range, List.range.loop, Nat.shiftRight_eq_div_pow] <;> omega
/-! ### the acquisition-side encoder -/

theorem encodeBits_testBit (l : List Bool) (k : Nat) : (encodeBits l).testBit k = l.getD k false := by
  induction l generalizing k with
  | nil => simp [encodeBits]
  | cons b t ih =>
    cases k with
    | zero => cases b <;> simp [encodeBits, Nat.testBit_zero] <;> omega
    | succ k =>
      rw [Nat.testBit_succ]
      have : (encodeBits (b :: t)) / 2 = encodeBits t := by cases b <;> simp [encodeBits] <;> omega
      rw [this, ih]; simp

theorem encodeBits_lt (l : List Bool) : encodeBits l < 2 ^ l.length := by
  induction l with
  | nil => simp [encodeBits]
  | cons b t ih => cases b <;> simp [encodeBits, Nat.pow_succ] <;> omega
/-! ### `np.where`, `np.diff` (1-D) -/

section
variable {α : Type}

theorem whereFrom_mem (p : α → Bool) (l : List α) (i j : Nat) (v : α) :
    (j, v) ∈ whereFrom p i l ↔ i ≤ j ∧ l[j - i]? = some v ∧ p v = true := by
  induction l generalizing i with
  | nil => simp [whereFrom]
  | cons a t ih =>
    unfold whereFrom
    by_cases hj : j = i
    · subst hj
      split
      · rename_i hp
        simp only [List.mem_cons, Prod.mk.injEq, true_and, ih, Nat.le_refl, Nat.sub_self,
          List.getElem?_cons_zero, Option.some.injEq]
        constructor
        · rintro (h | h)
          · subst h; exact ⟨rfl, hp⟩
          · omega
        · rintro ⟨h, _⟩; exact Or.inl h.symm
      · rename_i hp
        simp only [ih, Nat.le_refl, Nat.sub_self, List.getElem?_cons_zero, Option.some.injEq, true_and]
        constructor
        · intro h; omega
        · rintro ⟨h, h2⟩; subst h; exact absurd h2 hp
    · have hstep : i + 1 ≤ j → (a :: t)[j - i]? = t[j - (i + 1)]? := by
        intro h
        have : j - i = (j - (i + 1)) + 1 := by omega
        rw [this, List.getElem?_cons_succ]
      split
      · simp only [List.mem_cons, Prod.mk.injEq, ih]
        constructor
        · rintro (⟨h, _⟩ | ⟨h1, h2, h3⟩)
          · exact absurd h hj
          · exact ⟨by omega, by rw [hstep h1]; exact h2, h3⟩
        · rintro ⟨h1, h2, h3⟩
          have : i + 1 ≤ j := by omega
          exact Or.inr ⟨this, by rw [← hstep this]; exact h2, h3⟩
      · simp only [ih]
        constructor
        · rintro ⟨h1, h2, h3⟩
          exact ⟨by omega, by rw [hstep h1]; exact h2, h3⟩
        · rintro ⟨h1, h2, h3⟩
          have : i + 1 ≤ j := by omega
          exact ⟨this, by rw [← hstep this]; exact h2, h3⟩

theorem whereFrom_ge (p : α → Bool) (l : List α) (i : Nat) : ∀ q ∈ whereFrom p i l, i ≤ q.1 := by
  intro q hq
  have := (whereFrom_mem p l i q.1 q.2).mp hq
  exact this.1

theorem whereFrom_sorted (p : α → Bool) (l : List α) (i : Nat) :
    (whereFrom p i l).Pairwise (fun a b => a.1 < b.1) := by
  induction l generalizing i with
  | nil => simp [whereFrom]
  | cons a t ih =>
    unfold whereFrom
    split
    · refine List.Pairwise.cons ?_ (ih (i + 1))
      intro q hq
      have := whereFrom_ge p t (i + 1) q hq
      simp only; omega
    · exact ih (i + 1)

theorem diff_getElem? [Sub α] (l : List α) (j : Nat) (v : α) :
    (diff l)[j]? = some v ↔ ∃ a b, l[j]? = some a ∧ l[j + 1]? = some b ∧ v = b - a := by
  induction l generalizing j with
  | nil => simp [diff]
  | cons a t ih =>
    cases t with
    | nil => simp [diff]
    | cons b t' =>
      unfold diff
      cases j with
      | zero =>
        simp only [List.getElem?_cons_zero, Option.some.injEq, Nat.zero_add, List.getElem?_cons_succ]
        constructor
        · intro h; exact ⟨a, b, rfl, rfl, h.symm⟩
        · rintro ⟨a', b', h1, h2, h3⟩; subst h1 h2; exact h3.symm
      | succ j =>
        simp only [List.getElem?_cons_succ]
        rw [ih]
        simp only [List.getElem?_cons_succ]

/-- Generic 1-D statement: positions returned by `where(p(diff x)) + 1`. -/
theorem shifted_where_mem [Sub α] (p : α → Bool) (x : List α) (t : Nat) (v : α) :
    (t, v) ∈ (whereFrom p 0 (diff x)).map (fun q => (q.1 + 1, q.2)) ↔
      1 ≤ t ∧ ∃ a b, x[t - 1]? = some a ∧ x[t]? = some b ∧ v = b - a ∧ p v = true := by
  simp only [List.mem_map, Prod.mk.injEq, Prod.exists]
  constructor
  · rintro ⟨j, w, hm, rfl, rfl⟩
    obtain ⟨_, h2, h3⟩ := (whereFrom_mem p _ 0 j w).mp hm
    rw [Nat.sub_zero] at h2
    obtain ⟨a, b, ha, hb, hv⟩ := (diff_getElem? x j w).mp h2
    exact ⟨by omega, a, b, by simpa using ha, hb, hv, h3⟩
  · rintro ⟨h1, a, b, ha, hb, hv, hp⟩
    refine ⟨t - 1, v, ?_, by omega, rfl⟩
    refine (whereFrom_mem p _ 0 (t - 1) v).mpr ⟨Nat.zero_le _, ?_, hp⟩
    rw [Nat.sub_zero]
    refine (diff_getElem? x (t - 1) v).mpr ⟨a, b, ha, ?_, hv⟩
    have : t - 1 + 1 = t := by omega
    rw [this]; exact hb

theorem shifted_where_sorted [Sub α] (p : α → Bool) (x : List α) :
    ((whereFrom p 0 (diff x)).map (fun q => (q.1 + 1, q.2))).Pairwise (fun a b => a.1 < b.1) := by
  rw [List.pairwise_map]
  exact (whereFrom_sorted p (diff x) 0).imp (by intro a b h; simp only; omega)

/-- Positions only (what `rises` returns). -/
theorem shifted_where_mem_fst [Sub α] (p : α → Bool) (x : List α) (t : Nat) :
    t ∈ (whereFrom p 0 (diff x)).map (fun q => q.1 + 1) ↔
      1 ≤ t ∧ ∃ a b, x[t - 1]? = some a ∧ x[t]? = some b ∧ p (b - a) = true := by
  have key : t ∈ (whereFrom p 0 (diff x)).map (fun q => q.1 + 1) ↔
      ∃ v, (t, v) ∈ (whereFrom p 0 (diff x)).map (fun q => (q.1 + 1, q.2)) := by
    simp only [List.mem_map, Prod.mk.injEq]
    constructor
    · rintro ⟨q, hq, rfl⟩; exact ⟨q.2, q, hq, rfl, rfl⟩
    · rintro ⟨v, q, hq, rfl, _⟩; exact ⟨q, hq, rfl⟩
  rw [key]
  simp only [shifted_where_mem]
  constructor
  · rintro ⟨v, h1, a, b, ha, hb, rfl, hp⟩; exact ⟨h1, a, b, ha, hb, hp⟩
  · rintro ⟨h1, a, b, ha, hb, hp⟩; exact ⟨b - a, h1, a, b, ha, hb, rfl, hp⟩

theorem shifted_where_sorted_fst [Sub α] (p : α → Bool) (x : List α) :
    ((whereFrom p 0 (diff x)).map (fun q => q.1 + 1)).Pairwise (· < ·) := by
  rw [List.pairwise_map]
  exact (whereFrom_sorted p (diff x) 0).imp (by intro a b h; omega)
end

/-! ### 2-D -/

section
variable {α : Type}

theorem where2From_mem (p : α → Bool) (m : List (List α)) (i0 i j : Nat) (v : α) :
    ((i, j), v) ∈ where2From p i0 m ↔
      i0 ≤ i ∧ ∃ row, m[i - i0]? = some row ∧ row[j]? = some v ∧ p v = true := by
  induction m generalizing i0 with
  | nil => simp [where2From]
  | cons r t ih =>
    unfold where2From
    simp only [List.mem_append, List.mem_map, Prod.mk.injEq, Prod.exists, ih]
    by_cases hi : i = i0
    · subst hi
      constructor
      · rintro (⟨j', w, hm, ⟨_, rfl⟩, rfl⟩ | ⟨h, _⟩)
        · obtain ⟨_, h2, h3⟩ := (whereFrom_mem p r 0 j' w).mp hm
          exact ⟨Nat.le_refl _, r, by simp, by simpa using h2, h3⟩
        · omega
      · rintro ⟨_, row, h1, h2, h3⟩
        simp only [Nat.sub_self, List.getElem?_cons_zero, Option.some.injEq] at h1
        subst h1
        exact Or.inl ⟨j, v, (whereFrom_mem p r 0 j v).mpr ⟨Nat.zero_le _, by simpa using h2, h3⟩, ⟨rfl, rfl⟩, rfl⟩
    · have hstep : i0 + 1 ≤ i → (r :: t)[i - i0]? = t[i - (i0 + 1)]? := by
        intro h
        have : i - i0 = (i - (i0 + 1)) + 1 := by omega
        rw [this, List.getElem?_cons_succ]
      constructor
      · rintro (⟨j', w, _, ⟨h, _⟩, _⟩ | ⟨h, row, h1, h2, h3⟩)
        · exact absurd h.symm hi
        · exact ⟨by omega, row, by rw [hstep h]; exact h1, h2, h3⟩
      · rintro ⟨h, row, h1, h2, h3⟩
        have h' : i0 + 1 ≤ i := by omega
        exact Or.inr ⟨h', row, by rw [← hstep h']; exact h1, h2, h3⟩

theorem where2From_sorted (p : α → Bool) (m : List (List α)) (i0 : Nat) :
    (where2From p i0 m).Pairwise (fun a b => lexLt a.1 b.1) := by
  induction m generalizing i0 with
  | nil => simp [where2From]
  | cons r t ih =>
    unfold where2From
    rw [List.pairwise_append]
    refine ⟨?_, ih (i0 + 1), ?_⟩
    · rw [List.pairwise_map]
      exact (whereFrom_sorted p r 0).imp (by intro a b h; exact Or.inr ⟨rfl, h⟩)
    · intro a ha b hb
      simp only [List.mem_map] at ha
      obtain ⟨q, _, rfl⟩ := ha
      obtain ⟨⟨bi, bj⟩, bv⟩ := b
      have := ((where2From_mem p t (i0 + 1) bi bj bv).mp hb).1
      exact Or.inl (by simp only; omega)

theorem at2_diff2 [Sub α] (axis : Nat) (x : List (List α)) (ij : Nat × Nat) (v : α) :
    at2 (diff2 axis x) ij = some v ↔
      ∃ a b, at2 x ij = some a ∧ at2 x (bump axis ij) = some b ∧ v = b - a := by
  obtain ⟨i, j⟩ := ij
  unfold at2 diff2 bump
  by_cases hax : axis = 1
  · simp only [hax, if_true, List.getElem?_map]
    cases hx : x[i]? with
    | none => simp
    | some r => simp only [Option.map_some]; exact diff_getElem? r j v
  · simp only [hax, if_false, List.getElem?_zipWith, List.getElem?_tail]
    cases hx : x[i]? with
    | none => simp
    | some r0 =>
      cases hx1 : x[i + 1]? with
      | none => simp
      | some r1 =>
        simp only [List.getElem?_zipWith]
        cases h0 : r0[j]? with
        | none => simp
        | some a =>
          cases h1 : r1[j]? with
          | none => simp
          | some b =>
            simp only [Option.some.injEq]
            constructor
            · intro h; exact ⟨a, b, rfl, rfl, h.symm⟩
            · rintro ⟨a', b', ha, hb, hv⟩; subst ha hb; exact hv.symm
theorem where2_mem_at2 (p : α → Bool) (m : List (List α)) (ij : Nat × Nat) (v : α) :
    (ij, v) ∈ where2From p 0 m ↔ at2 m ij = some v ∧ p v = true := by
  obtain ⟨i, j⟩ := ij
  rw [where2From_mem]
  unfold at2
  simp only [Nat.zero_le, Nat.sub_zero, true_and]
  cases m[i]? with
  | none => simp
  | some r => simp

theorem bump_prevPos (axis : Nat) (ij : Nat × Nat) (h : 1 ≤ coord axis ij) :
    bump axis (prevPos axis ij) = ij := by
  obtain ⟨i, j⟩ := ij
  unfold bump prevPos; unfold coord at h
  by_cases hax : axis = 1
  · simp only [hax, if_true, idxShift] at h ⊢; congr 1; omega
  · simp only [hax, if_false, idxShift] at h ⊢; congr 1; omega

theorem prevPos_bump (axis : Nat) (q : Nat × Nat) : prevPos axis (bump axis q) = q ∧ 1 ≤ coord axis (bump axis q) := by
  obtain ⟨i, j⟩ := q
  unfold bump prevPos coord
  by_cases hax : axis = 1
  · simp [hax]
  · simp [hax]

theorem shifted_where2_mem [Sub α] (p : α → Bool) (axis : Nat) (x : List (List α)) (ij : Nat × Nat) (v : α) :
    (ij, v) ∈ (where2From p 0 (diff2 axis x)).map (fun q => (bump axis q.1, q.2)) ↔
      1 ≤ coord axis ij ∧ ∃ a b, at2 x (prevPos axis ij) = some a ∧ at2 x ij = some b ∧ v = b - a ∧ p v = true := by
  simp only [List.mem_map, Prod.mk.injEq, Prod.exists]
  constructor
  · rintro ⟨i', j', w, hm, rfl, rfl⟩
    obtain ⟨h1, h2⟩ := (where2_mem_at2 p _ (i', j') w).mp hm
    obtain ⟨a, b, ha, hb, hv⟩ := (at2_diff2 axis x (i', j') w).mp h1
    obtain ⟨e1, e2⟩ := prevPos_bump axis (i', j')
    exact ⟨e2, a, b, by rw [e1]; exact ha, hb, hv, h2⟩
  · rintro ⟨h1, a, b, ha, hb, hv, hp⟩
    refine ⟨(prevPos axis ij).1, (prevPos axis ij).2, v, ?_, bump_prevPos axis ij h1, rfl⟩
    refine (where2_mem_at2 p _ _ v).mpr ⟨?_, hp⟩
    refine (at2_diff2 axis x _ v).mpr ⟨a, b, ha, ?_, hv⟩
    rw [bump_prevPos axis ij h1]; exact hb

theorem bump_lex (axis : Nat) (a b : Nat × Nat) (h : lexLt a b) : lexLt (bump axis a) (bump axis b) := by
  unfold lexLt bump at *
  by_cases hax : axis = 1
  · simp only [hax, if_true, idxShift]; omega
  · simp only [hax, if_false, idxShift]; omega

theorem shifted_where2_sorted [Sub α] (p : α → Bool) (axis : Nat) (x : List (List α)) :
    ((where2From p 0 (diff2 axis x)).map (fun q => (bump axis q.1, q.2))).Pairwise
      (fun a b => lexLt a.1 b.1) := by
  rw [List.pairwise_map]
  exact (where2From_sorted p _ 0).imp (by intro a b h; exact bump_lex axis _ _ h)

theorem shifted_where2_mem_fst [Sub α] (p : α → Bool) (axis : Nat) (x : List (List α)) (ij : Nat × Nat) :
    ij ∈ (where2From p 0 (diff2 axis x)).map (fun q => bump axis q.1) ↔
      1 ≤ coord axis ij ∧ ∃ a b, at2 x (prevPos axis ij) = some a ∧ at2 x ij = some b ∧ p (b - a) = true := by
  have key : ij ∈ (where2From p 0 (diff2 axis x)).map (fun q => bump axis q.1) ↔
      ∃ v, (ij, v) ∈ (where2From p 0 (diff2 axis x)).map (fun q => (bump axis q.1, q.2)) := by
    simp only [List.mem_map, Prod.mk.injEq]
    constructor
    · rintro ⟨q, hq, rfl⟩; exact ⟨q.2, q, hq, rfl, rfl⟩
    · rintro ⟨v, q, hq, rfl, _⟩; exact ⟨q, hq, rfl⟩
  rw [key]
  simp only [shifted_where2_mem]
  constructor
  · rintro ⟨v, h1, a, b, ha, hb, rfl, hp⟩; exact ⟨h1, a, b, ha, hb, hp⟩
  · rintro ⟨h1, a, b, ha, hb, hp⟩; exact ⟨b - a, h1, a, b, ha, hb, rfl, hp⟩

theorem shifted_where2_sorted_fst [Sub α] (p : α → Bool) (axis : Nat) (x : List (List α)) :
    ((where2From p 0 (diff2 axis x)).map (fun q => bump axis q.1)).Pairwise lexLt := by
  rw [List.pairwise_map]
  exact (where2From_sorted p _ 0).imp (by intro a b h; exact bump_lex axis _ _ h)

theorem at2_map_map {β : Type} (f : α → β) (x : List (List α)) (ij : Nat × Nat) :
    at2 (x.map fun r => r.map f) ij = (at2 x ij).map f := by
  unfold at2
  simp only [List.getElem?_map]
  cases x[ij.1]? with
  | none => rfl
  | some r => simp
end

end IblVerif.Sync
