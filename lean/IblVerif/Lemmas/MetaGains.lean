/-
C09 helper lemmas: the IMRO regular expression on a table rendered from rows, and the per-channel
gain columns.
-/
import IblVerif.Lemmas.MetaNum

namespace IblVerif.Meta

/-! ## IMRO tables as SpikeGLX writes them (NP1 family): `(hdr)(chan bank ref apgain lfgain[ apfilt])…` -/

structure ImroRow where
  chan : Nat
  bank : Nat
  ref : Nat
  ap : Nat
  lf : Nat
  /-- the sixth field (AP high-pass switch) of 3B probes; absent on 3A -/
  filt : Option Nat

def rowFields (r : ImroRow) : List Str :=
  [natDigits r.chan, natDigits r.bank, natDigits r.ref, natDigits r.ap, natDigits r.lf]

def rowTail (r : ImroRow) : Str :=
  match r.filt with
  | none => [')']
  | some f => ' ' :: (natDigits f ++ [')'])

/-- `(c b r ap lf)` or `(c b r ap lf filt)` -/
def renderRow (r : ImroRow) : Str := '(' :: (joinWith ' ' (rowFields r) ++ rowTail r)

def renderRows : List ImroRow → Str
  | [] => []
  | r :: rs => renderRow r ++ renderRows rs

/-- the whole `imroTbl` value: a header entry without spaces (`(0,384)`, `(641251510,3,384)`), then the rows -/
def renderImro (hdr : Str) (rows : List ImroRow) : Str := hdr ++ renderRows rows

/-- `np.float32("<digits of g>")` -/
def f32OfNat (g : Nat) : Float32 := (toDouble g 0).toFloat.toFloat32

/-! ## scanning -/

/-- the text does not start with a digit -/
def NonDigitStart (t : Str) : Prop := ∀ c r, t = c :: r → isDig c = false

/-- the text does not start with a space -/
def NoSpaceStart (t : Str) : Prop := ∀ r, t ≠ ' ' :: r

theorem digits_span (ds t : Str) (hd : ∀ c ∈ ds, isDig c = true) (ht : NonDigitStart t) :
    (ds ++ t).takeWhile isDig = ds ∧ (ds ++ t).dropWhile isDig = t := by
  induction ds with
  | nil =>
    cases t with
    | nil => simp
    | cons c r =>
      have := ht c r rfl
      simp [List.takeWhile, List.dropWhile, this]
  | cons c r ih =>
    have hc := hd c (List.mem_cons_self ..)
    have := ih (fun x hx => hd x (List.mem_cons_of_mem _ hx))
    simp [List.takeWhile, List.dropWhile, hc, this.1, this.2]

theorem nonDigit_space (r : Str) : NonDigitStart (' ' :: r) := by
  intro c r' h
  injection h with h1 _
  subst h1
  decide

theorem matchField_digits (ds r : Str) (hd : ∀ c ∈ ds, isDig c = true) :
    matchField (ds ++ ' ' :: r) = some (ds, r) := by
  have := digits_span ds (' ' :: r) hd (nonDigit_space r)
  unfold matchField
  simp only [this.1, this.2]

theorem matchField_fail (ds t : Str) (hd : ∀ c ∈ ds, isDig c = true) (ht : NonDigitStart t)
    (hs : NoSpaceStart t) : matchField (ds ++ t) = none := by
  have := digits_span ds t hd ht
  unfold matchField
  rw [this.2]
  split
  · rename_i r
    exact absurd rfl (hs r)
  · rfl

theorem match5_fields (f1 f2 f3 f4 f5 t : Str)
    (h1 : ∀ c ∈ f1, isDig c = true) (h2 : ∀ c ∈ f2, isDig c = true) (h3 : ∀ c ∈ f3, isDig c = true)
    (h4 : ∀ c ∈ f4, isDig c = true) (h5 : ∀ c ∈ f5, isDig c = true) (ht : NonDigitStart t) :
    match5 (joinWith ' ' [f1, f2, f3, f4, f5] ++ t) = some [f1, f2, f3, f4, f5] := by
  have e : joinWith ' ' [f1, f2, f3, f4, f5] ++ t
      = f1 ++ ' ' :: (f2 ++ ' ' :: (f3 ++ ' ' :: (f4 ++ ' ' :: (f5 ++ t)))) := by
    simp [joinWith]
  rw [e]
  unfold match5
  rw [matchField_digits f1 _ h1]
  simp only
  rw [matchField_digits f2 _ h2]
  simp only
  rw [matchField_digits f3 _ h3]
  simp only
  rw [matchField_digits f4 _ h4]
  simp only
  rw [(digits_span f5 t h5 ht).1]

theorem match5_none_of_first (s : Str) (h : matchField s = none) : match5 s = none := by
  unfold match5
  rw [h]

theorem findallGo_skip (a b : Str) : findallGo (a ++ b) a.length = findallGo b 0 := by
  induction a with
  | nil => rfl
  | cons c r ih => simpa [findallGo] using ih

theorem findallGo_nomatch (c : Char) (r : Str) (h : match5 (c :: r) = none) :
    findallGo (c :: r) 0 = findallGo r 0 := by
  rw [findallGo]
  simp [h]

theorem findallGo_match (x t : Str) (fs : List Str) (hx : x ≠ []) (hm : match5 (x ++ t) = some fs)
    (ht : matchText fs = x) : findallGo (x ++ t) 0 = x :: findallGo t 0 := by
  cases x with
  | nil => exact absurd rfl hx
  | cons c b =>
    rw [List.cons_append, findallGo]
    rw [← List.cons_append, hm]
    simp only [ht, List.length_cons, Nat.add_sub_cancel]
    rw [findallGo_skip]

/-- no match starts inside a run of digits that is closed by `)` -/
theorem findallGo_digits_close (e rest : Str) (he : ∀ c ∈ e, isDig c = true) :
    findallGo (e ++ ')' :: rest) 0 = findallGo rest 0 := by
  have hnd : NonDigitStart (')' :: rest) := by
    intro c r h; injection h with h1 _; subst h1; decide
  have hns : NoSpaceStart (')' :: rest) := by
    intro r h; injection h with h1 _; exact absurd h1 (by decide)
  induction e with
  | nil =>
    have : match5 (')' :: rest) = none :=
      match5_none_of_first _ (by simpa using matchField_fail [] (')' :: rest) (by simp) hnd hns)
    simpa using findallGo_nomatch ')' rest this
  | cons c r ih =>
    have hm : match5 ((c :: r) ++ ')' :: rest) = none :=
      match5_none_of_first _ (matchField_fail (c :: r) _ he hnd hns)
    rw [List.cons_append] at hm ⊢
    rw [findallGo_nomatch c _ hm]
    exact ih (fun x hx => he x (List.mem_cons_of_mem _ hx))

theorem findallGo_rowTail (r : ImroRow) (rest : Str) :
    findallGo (rowTail r ++ rest) 0 = findallGo rest 0 := by
  unfold rowTail
  cases r.filt with
  | none => simpa using findallGo_digits_close [] rest (by simp)
  | some f =>
    have hd := (natDigits_spec f).2.1
    have hnd : NonDigitStart (')' :: rest) := by
      intro c r h; injection h with h1 _; subst h1; decide
    have hns : NoSpaceStart (')' :: rest) := by
      intro r h; injection h with h1 _; exact absurd h1 (by decide)
    -- at the space: the first field matches empty, the second fails at `)`
    have hm : match5 (' ' :: (natDigits f ++ ')' :: rest)) = none := by
      unfold match5
      have h1 : matchField (' ' :: (natDigits f ++ ')' :: rest)) = some ([], natDigits f ++ ')' :: rest) := by
        simpa using matchField_digits [] (natDigits f ++ ')' :: rest) (by simp)
      rw [h1]
      simp only
      rw [matchField_fail (natDigits f) _ hd hnd hns]
    simp only [List.cons_append, List.append_assoc, List.nil_append]
    rw [findallGo_nomatch _ _ hm]
    exact findallGo_digits_close (natDigits f) rest hd

/-- what follows a row: nothing, or the next row (which opens with a parenthesis) -/
def RowStart (t : Str) : Prop := t = [] ∨ ∃ r, t = '(' :: r

theorem renderRows_start (rows : List ImroRow) : RowStart (renderRows rows) := by
  cases rows with
  | nil => exact Or.inl rfl
  | cons r rs => exact Or.inr ⟨_, rfl⟩

theorem rowFields_digits (r : ImroRow) : ∀ f ∈ rowFields r, f ≠ [] ∧ ∀ c ∈ f, isDig c = true := by
  intro f hf
  simp only [rowFields, List.mem_cons, List.not_mem_nil, or_false] at hf
  rcases hf with rfl | rfl | rfl | rfl | rfl <;> exact ⟨(natDigits_spec _).1, (natDigits_spec _).2.1⟩

theorem rowTail_nonDigit (r : ImroRow) (rest : Str) : NonDigitStart (rowTail r ++ rest) := by
  intro c r' h
  unfold rowTail at h
  cases hf : r.filt with
  | none => rw [hf] at h; simp at h; rw [← h.1]; decide
  | some f => rw [hf] at h; simp at h; rw [← h.1]; decide

theorem findallGo_row (r : ImroRow) (rest : Str) :
    findallGo (renderRow r ++ rest) 0 = joinWith ' ' (rowFields r) :: findallGo rest 0 := by
  have hf := rowFields_digits r
  have hopen : match5 ('(' :: (joinWith ' ' (rowFields r) ++ rowTail r ++ rest)) = none := by
    apply match5_none_of_first
    have := matchField_fail [] ('(' :: (joinWith ' ' (rowFields r) ++ rowTail r ++ rest)) (by simp)
      (by intro c r' h; injection h with h1 _; subst h1; decide)
      (by intro r' h; injection h with h1 _; exact absurd h1 (by decide))
    simpa using this
  unfold renderRow
  rw [List.cons_append, findallGo_nomatch _ _ hopen, List.append_assoc]
  have hm := match5_fields (natDigits r.chan) (natDigits r.bank) (natDigits r.ref) (natDigits r.ap)
    (natDigits r.lf) (rowTail r ++ rest)
    (hf _ (by simp [rowFields])).2 (hf _ (by simp [rowFields])).2 (hf _ (by simp [rowFields])).2
    (hf _ (by simp [rowFields])).2 (hf _ (by simp [rowFields])).2 (rowTail_nonDigit r rest)
  have hne : joinWith ' ' (rowFields r) ≠ [] := by
    have := (natDigits_spec r.chan).1
    simp only [rowFields, joinWith]
    intro e
    exact this (List.append_eq_nil_iff.mp e).1
  rw [findallGo_match (joinWith ' ' (rowFields r)) (rowTail r ++ rest) _ hne hm rfl]
  rw [findallGo_rowTail]

theorem findallGo_rows (rows : List ImroRow) :
    findallGo (renderRows rows) 0 = rows.map fun r => joinWith ' ' (rowFields r) := by
  induction rows with
  | nil => rfl
  | cons r rs ih =>
    simp only [renderRows, List.map_cons]
    rw [findallGo_row, ih]

/-- no match starts inside a header without spaces -/
theorem findallGo_header (hdr t : Str) (hh : ' ' ∉ hdr) (ht : RowStart t) :
    findallGo (hdr ++ t) 0 = findallGo t 0 := by
  induction hdr with
  | nil => rfl
  | cons c r ih =>
    have hr : ' ' ∉ r := fun e => hh (List.mem_cons_of_mem _ e)
    have hm : matchField ((c :: r) ++ t) = none := by
      unfold matchField
      -- whatever follows the leading digits is not a space
      have key : ∀ (s : Str), ' ' ∉ s → ∀ x, (s ++ t).dropWhile isDig ≠ ' ' :: x := by
        intro s hs
        induction s with
        | nil =>
          intro x
          rcases ht with rfl | ⟨r', rfl⟩
          · simp
          · simp [List.dropWhile, isDig]
        | cons a s' ih' =>
          intro x
          have ha : a ≠ ' ' := fun e => hs (e ▸ List.mem_cons_self ..)
          have hs' : ' ' ∉ s' := fun e => hs (List.mem_cons_of_mem _ e)
          simp only [List.cons_append, List.dropWhile]
          split
          · exact ih' hs' x
          · intro e
            injection e with e1 _
            exact ha e1
      split
      · rename_i x heq
        exact absurd heq (key (c :: r) hh x)
      · rfl
    rw [List.cons_append] at hm ⊢
    rw [findallGo_nomatch c _ (match5_none_of_first _ hm)]
    exact ih hr

/-- `re.findall` on a rendered IMRO table returns, for every row in order, the text of its first
five fields — and nothing from the header or from the sixth field. -/
theorem findall5_renderImro (hdr : Str) (rows : List ImroRow) (hh : ' ' ∉ hdr) :
    findall5 (renderImro hdr rows) = rows.map fun r => joinWith ' ' (rowFields r) := by
  unfold findall5 renderImro
  rw [findallGo_header hdr _ hh (renderRows_start rows), findallGo_rows]

/-! ## gain columns -/

theorem mapE_total {α β} (f : α → Except Err β) (g : α → β) (l : List α) (h : ∀ a ∈ l, f a = .ok (g a)) :
    mapE f l = .ok (l.map g) := by
  induction l with
  | nil => rfl
  | cons a r ih =>
    simp [mapE, h a (List.mem_cons_self ..), ih (fun x hx => h x (List.mem_cons_of_mem _ hx))]

theorem gainEntry_natDigits (g : Nat) (i2v : Float) :
    gainEntry (natDigits g) i2v = .ok (gainOf32 (f32OfNat g) i2v) := by
  obtain ⟨hne, hd, hv⟩ := natDigits_spec g
  have he : (natDigits g).isEmpty = false := by
    cases h : natDigits g with
    | nil => exact absurd h hne
    | cons _ _ => rfl
  unfold gainEntry f32OfDigits f32OfNat
  simp [he, all_isDig _ hd, hv, Functor.map, Except.map]

theorem rowFields_split (r : ImroRow) : splitOn ' ' (joinWith ' ' (rowFields r)) = rowFields r := by
  apply splitOn_joinWith
  · simp [rowFields]
  · intro p hp hm
    have := (rowFields_digits r p hp).2 _ hm
    revert this; decide

theorem field_lf (r : ImroRow) : fieldFromEnd (joinWith ' ' (rowFields r)) 0 = some (natDigits r.lf) := by
  unfold fieldFromEnd
  rw [rowFields_split]
  rfl

theorem field_ap (r : ImroRow) : fieldFromEnd (joinWith ' ' (rowFields r)) 1 = some (natDigits r.ap) := by
  unfold fieldFromEnd
  rw [rowFields_split]
  rfl

theorem mapE_map {α β γ} (f : α → Except Err β) (h : γ → α) (l : List γ) :
    mapE f (l.map h) = mapE (fun c => f (h c)) l := by
  induction l with
  | nil => rfl
  | cons a r ih => simp [mapE, ih]

theorem np1Column_lf (rows : List ImroRow) (i2v : Float) :
    np1Column (rows.map fun r => joinWith ' ' (rowFields r)) 0 i2v
      = .ok (rows.map fun r => gainOf32 (f32OfNat r.lf) i2v) := by
  unfold np1Column
  rw [mapE_map]
  apply mapE_total
  intro r _
  simp only [field_lf]
  exact gainEntry_natDigits r.lf i2v

theorem np1Column_ap (rows : List ImroRow) (i2v : Float) :
    np1Column (rows.map fun r => joinWith ' ' (rowFields r)) 1 i2v
      = .ok (rows.map fun r => gainOf32 (f32OfNat r.ap) i2v) := by
  unfold np1Column
  rw [mapE_map]
  apply mapE_total
  intro r _
  simp only [field_ap]
  exact gainEntry_natDigits r.ap i2v

theorem pyTake_nat {α} (l : List α) (n : Nat) : pyTake l (n : Int) = l.take n := by
  unfold pyTake
  have : (0 : Int) ≤ (n : Int) := by omega
  simp [this]

theorem hstackSync_length (col : List Float32) (nsy : Nat) : (hstackSync col nsy).length = col.length + nsy := by
  unfold hstackSync
  split
  · rename_i h
    have : col = [] := by simpa using h
    simp [Gains.length, this]
  · simp [Gains.length]

end IblVerif.Meta
