/-
Helper lemmas on `Model/FsCompressEffects.lean`: the step functions of the file-state machine are the interpretation of
the effect lists (at every fault point), and what every PREFIX of an effect list leaves behind.  Core Lean only.
-/
import IblVerif.Model.FsCompressEffects
import IblVerif.Lemmas.FsCompress

namespace IblVerif.FsCompress

variable {α γ : Type}

/-! ### Generalities on prefixes -/

theorem applyPrims_nil (s : Fs α γ) : applyPrims s [] = s := rfl

theorem applyPrims_cons (s : Fs α γ) (p : Prim α γ) (ps : List (Prim α γ)) :
    applyPrims s (p :: ps) = applyPrims (applyPrim s p) ps := rfl

theorem applyPrims_append (s : Fs α γ) (a b : List (Prim α γ)) :
    applyPrims s (a ++ b) = applyPrims (applyPrims s a) b := by
  simp [applyPrims, List.foldl_append]

/-- Every prefix state is a member of the trace. -/
theorem applyPrims_take_mem_trace (ps : List (Prim α γ)) : ∀ (s : Fs α γ) (k : Nat), applyPrims s (ps.take k) ∈ trace s ps := by
  induction ps with
  | nil => intro s k; simp [trace, applyPrims]
  | cons p ps ih =>
    intro s k
    cases k with
    | zero => simp [trace, applyPrims]
    | succ k => simp only [List.take_succ_cons, applyPrims_cons, trace]; exact List.mem_cons_of_mem _ (ih _ _)

/-- … and every member of the trace is a prefix state. -/
theorem mem_trace_iff_take (ps : List (Prim α γ)) : ∀ (s s' : Fs α γ),
    s' ∈ trace s ps ↔ ∃ k, k ≤ ps.length ∧ s' = applyPrims s (ps.take k) := by
  induction ps with
  | nil => intro s s'; simp [trace, applyPrims]
  | cons p ps ih =>
    intro s s'
    simp only [trace, List.mem_cons, ih]
    constructor
    · rintro (rfl | ⟨k, hk, rfl⟩)
      · exact ⟨0, by simp, rfl⟩
      · exact ⟨k + 1, by simpa using hk, rfl⟩
    · rintro ⟨k, hk, rfl⟩
      cases k with
      | zero => left; rfl
      | succ k => right; exact ⟨k, by simpa using hk, rfl⟩

theorem mem_trace_self (s : Fs α γ) (ps : List (Prim α γ)) : s ∈ trace s ps := by
  cases ps <;> simp [trace]

theorem mem_trace_append (a b : List (Prim α γ)) : ∀ (s s' : Fs α γ),
    s' ∈ trace s (a ++ b) ↔ s' ∈ trace s a ∨ s' ∈ trace (applyPrims s a) b := by
  induction a with
  | nil =>
    intro s s'
    simp only [List.nil_append, trace, applyPrims_nil, List.mem_singleton]
    constructor
    · exact Or.inr
    · rintro (rfl | h)
      · exact mem_trace_self _ _
      · exact h
  | cons p a ih =>
    intro s s'
    simp only [List.cons_append, trace, List.mem_cons, ih, applyPrims_cons, or_assoc]

theorem take_chunk_phase {β P : Type} (hd : P) (f : β → P) (el : List β) (rest : List P) (j : Nat) (hj : j ≤ el.length) :
    (hd :: (el.map f ++ rest)).take (j + 1) = hd :: (el.take j).map f := by
  rw [List.take_succ_cons, List.take_append_of_le_length (by simpa using hj), List.map_take]

theorem take_after_chunks {β P : Type} (hd : P) (f : β → P) (el : List β) (rest : List P) (m : Nat) :
    (hd :: (el.map f ++ rest)).take (el.length + m + 1) = hd :: (el.map f ++ rest.take m) := by
  rw [List.take_succ_cons]
  have : el.length + m = (el.map f).length + m := by simp
  rw [this, List.take_length_add_append]

/-! ### The chunk-writing phases -/

theorem applyPrims_appendCbinTmp (s : Fs α γ) (el : List γ) : ∀ (acc : List γ),
    applyPrims { s with cbinTmp := some acc } (el.map .appendCbinTmp) = { s with cbinTmp := some (acc ++ el) } := by
  induction el with
  | nil => intro acc; simp [applyPrims]
  | cons g t ih =>
    intro acc
    simp only [List.map_cons, applyPrims_cons, applyPrim, Option.map_some]
    rw [ih]; simp

theorem mem_trace_appendCbinTmp (s : Fs α γ) (el : List γ) : ∀ (acc : List γ) (s' : Fs α γ),
    s' ∈ trace { s with cbinTmp := some acc } (el.map .appendCbinTmp) →
      ∃ m, m ≤ el.length ∧ s' = { s with cbinTmp := some (acc ++ el.take m) } := by
  induction el with
  | nil => intro acc s' h; simp [trace] at h; exact ⟨0, by simp, by simp [h]⟩
  | cons g t ih =>
    intro acc s' h
    simp only [List.map_cons, trace, List.mem_cons, applyPrim, Option.map_some] at h
    rcases h with rfl | h
    · exact ⟨0, by simp, by simp⟩
    · obtain ⟨m, hm, rfl⟩ := ih _ _ h
      exact ⟨m + 1, by simpa using hm, by simp⟩

theorem getOut_setOut (s : Fs α γ) (o : OutName) (v : Option (List α)) : (s.setOut o v).getOut o = v := by
  cases o <;> rfl

theorem setOut_setOut (s : Fs α γ) (o : OutName) (v w : Option (List α)) : (s.setOut o v).setOut o w = s.setOut o w := by
  cases o <;> rfl

theorem applyPrims_appendOut (s : Fs α γ) (o : OutName) (dl : List α) : ∀ (acc : List α),
    applyPrims (s.setOut o (some acc)) (dl.map (.appendOut o)) = s.setOut o (some (acc ++ dl)) := by
  induction dl with
  | nil => intro acc; simp [applyPrims]
  | cons a t ih =>
    intro acc
    simp only [List.map_cons, applyPrims_cons, applyPrim, getOut_setOut, setOut_setOut, Option.map_some]
    rw [ih]; simp

theorem mem_trace_appendOut (s : Fs α γ) (o : OutName) (dl : List α) : ∀ (acc : List α) (s' : Fs α γ),
    s' ∈ trace (s.setOut o (some acc)) (dl.map (.appendOut o)) →
      ∃ m, m ≤ dl.length ∧ s' = s.setOut o (some (acc ++ dl.take m)) := by
  induction dl with
  | nil => intro acc s' h; simp [trace] at h; exact ⟨0, by simp, by simp [h]⟩
  | cons a t ih =>
    intro acc s' h
    simp only [List.map_cons, trace, List.mem_cons, applyPrim, getOut_setOut, setOut_setOut, Option.map_some] at h
    rcases h with rfl | h
    · exact ⟨0, by simp, by simp⟩
    · obtain ⟨m, hm, rfl⟩ := ih _ _ h
      exact ⟨m + 1, by simpa using hm, by simp⟩

/-! ### `compress_file` -/

/-- The primitive effects of `compress_file` on a directory whose `x.bin` holds `l`. -/
theorem prims_compress (c : Codec α γ) (s : Fs α γ) (l : List α) (hl : s.bin = some l) (keep : Bool) :
    prims c s (compressCalls keep) =
      .truncCbinTmp :: ((l.map c.enc).map .appendCbinTmp ++
        ([.writeCh (l.map c.enc), .renameTmp] ++ (if keep then [] else [.unlinkBin]))) := by
  cases keep <;> simp [prims, compressCalls, expandCall, expandBasic, hl]

/-- The state after exactly `k` primitive effects of `compress_file`, by phase (`n = l.length` chunks): nothing yet;
`x.cbin_tmp` created and `k - 1` chunks in it; header written; renamed; (in place) source removed. -/
theorem crashCompress_phase (c : Codec α γ) (s : Fs α γ) (l : List α) (hl : s.bin = some l) (hne : l ≠ [])
    (keep : Bool) (k : Nat) :
    crashCompress c s .bin keep k =
      if k = 0 then s
      else if k ≤ l.length + 1 then { s with cbinTmp := some ((l.map c.enc).take (k - 1)) }
      else if k = l.length + 2 then { s with cbinTmp := some (l.map c.enc), ch := some (l.map c.enc) }
      else if k = l.length + 3 ∨ keep = true then
        { s with cbinTmp := none, ch := some (l.map c.enc), cbin := some (l.map c.enc) }
      else { s with cbinTmp := none, ch := some (l.map c.enc), cbin := some (l.map c.enc), bin := none } := by
  have hcr : crashCompress c s .bin keep k = applyPrims s ((prims c s (compressCalls keep)).take k) := by
    cases l with
    | nil => exact absurd rfl hne
    | cons a t => simp [crashCompress, hl]
  rw [hcr, prims_compress c s l hl keep]
  generalize hel : l.map c.enc = el
  have hlen : l.length = el.length := by rw [← hel]; simp
  rw [hlen]
  by_cases h0 : k = 0
  · simp [h0, applyPrims]
  · obtain ⟨k', rfl⟩ : ∃ k', k = k' + 1 := ⟨k - 1, by omega⟩
    rw [if_neg h0]
    by_cases h1 : k' ≤ el.length
    · have hA : k' + 1 ≤ el.length + 1 := by omega
      rw [if_pos hA, take_chunk_phase _ _ _ _ _ h1, applyPrims_cons]
      simp only [applyPrim]
      rw [applyPrims_appendCbinTmp]
      simp
    · have hA : ¬ k' + 1 ≤ el.length + 1 := by omega
      rw [if_neg hA]
      obtain ⟨m, rfl⟩ : ∃ m, k' = el.length + (m + 1) := ⟨k' - el.length - 1, by omega⟩
      rw [take_after_chunks, applyPrims_cons, applyPrims_append]
      simp only [applyPrim]
      rw [applyPrims_appendCbinTmp]
      rcases m with _ | _ | m
      · have hB : el.length + (0 + 1) + 1 = el.length + 2 := by omega
        rw [if_pos hB]
        simp [applyPrims, applyPrim]
      · have hB : ¬ el.length + (0 + 1 + 1) + 1 = el.length + 2 := by omega
        have hC : el.length + (0 + 1 + 1) + 1 = el.length + 3 := by omega
        rw [if_neg hB, if_pos (Or.inl hC)]
        cases keep <;> simp [applyPrims, applyPrim]
      · have hB : ¬ el.length + (m + 1 + 1 + 1) + 1 = el.length + 2 := by omega
        have hC : ¬ el.length + (m + 1 + 1 + 1) + 1 = el.length + 3 := by omega
        rw [if_neg hB]
        cases keep
        · have hD : ¬ (el.length + (m + 1 + 1 + 1) + 1 = el.length + 3 ∨ false = true) := by simp
          rw [if_neg hD]
          simp [applyPrims, applyPrim]
        · rw [if_pos (Or.inr rfl)]
          simp [applyPrims, applyPrim]

/-- Number of primitive effects after which the fault points of `compressFile` interrupt it (`n` chunks). -/
def compressCrashPoint (n : Nat) (fault : Option Nat) (rf : Bool) : Nat :=
  match fault with
  | some j => if j < n then j + 1 else if rf then n + 2 else n + 4
  | none => if rf then n + 2 else n + 4

theorem compressFile_fault_outcome [DecidableEq α] (c : Codec α γ) (s : Fs α γ) (keep : Bool) (j : Nat) (rf : Bool)
    (l : List α) (hl : s.bin = some l) (hj : j < l.length) :
    (compressFile c s .bin keep (some j) rf).2.2 = .err .fault := by
  cases l with
  | nil => simp at hj
  | cons a t =>
    have : j < t.length + 1 := by simpa using hj
    simp [compressFile, hl, writeChunks, this]

/-- **`compressFile` is the interpretation of its effect list**: for every directory, reader, flag and fault point the
directory it returns is the one reached by the corresponding prefix of `prims (compressCalls keep)`. -/
theorem compressFile_eq_crash [DecidableEq α] (c : Codec α γ) (hc : c.Lossless) (s : Fs α γ) (fb : DataName)
    (keep : Bool) (fault : Option Nat) (rf : Bool) (l : List α) (hl : s.bin = some l) :
    (compressFile c s fb keep fault rf).1 = crashCompress c s fb keep (compressCrashPoint l.length fault rf) := by
  have hcases := compressFile_cases c hc s fb keep fault rf
  simp only at hcases
  rcases hcases with ⟨hr, hw⟩ | ⟨l', j, hfb, hl', hne, hf, hj, hr⟩ | ⟨l', hfb, hl', hne, hrf, hr⟩ | ⟨l', hfb, hl', hne, hrf, hr⟩
  · rw [hr]
    rcases hw with rfl | h | h
    · simp [crashCompress]
    · simp [h] at hl
    · simp [crashCompress, h]
  all_goals
    have e : l' = l := by rw [hl] at hl'; exact (Option.some.inj hl').symm
    subst e
    subst hfb
    have hnofault : ∀ j, fault = some j → (compressFile c s .bin keep fault rf).2.2 ≠ .err .fault → ¬ j < l'.length := by
      intro j hj hne' hlt
      subst hj
      exact hne' (compressFile_fault_outcome c s keep j rf l' hl hlt)
    rw [hr, crashCompress_phase c s l' hl hne keep]
  · subst hf
    simp only [compressCrashPoint, hj, if_true]
    have hA : ¬ j + 1 = 0 := by omega
    have hB : j + 1 ≤ l'.length + 1 := by omega
    rw [if_neg hA, if_pos hB]
    simp
  · subst hrf
    have hp : compressCrashPoint l'.length fault false = l'.length + 4 := by
      unfold compressCrashPoint
      cases fault with
      | none => simp
      | some j => simp [hnofault j rfl (by rw [hr]; simp)]
    have hA : ¬ l'.length + 4 = 0 := by omega
    have hB : ¬ l'.length + 4 ≤ l'.length + 1 := by omega
    have hC : ¬ l'.length + 4 = l'.length + 2 := by omega
    rw [hp, if_neg hA, if_neg hB, if_neg hC]
    cases keep
    · have hD : ¬ (l'.length + 4 = l'.length + 3 ∨ false = true) := by simp
      rw [if_neg hD]; simp
    · rw [if_pos (Or.inr rfl)]; simp [hl]
  · subst hrf
    have hp : compressCrashPoint l'.length fault true = l'.length + 2 := by
      unfold compressCrashPoint
      cases fault with
      | none => simp
      | some j => simp [hnofault j rfl (by rw [hr]; simp)]
    have hA : ¬ l'.length + 2 = 0 := by omega
    have hB : ¬ l'.length + 2 ≤ l'.length + 1 := by omega
    rw [hp, if_neg hA, if_neg hB, if_pos rfl]

/-- Everything a prefix of `compress_file`'s effects can leave behind. -/
theorem crashCompress_cases (c : Codec α γ) (s : Fs α γ) (fb : DataName) (keep : Bool) (k : Nat) :
    let s' := crashCompress c s fb keep k
    s' = s ∨
    ∃ l, fb = .bin ∧ s.bin = some l ∧ l ≠ [] ∧
      ((∃ m, m ≤ l.length ∧ s' = { s with cbinTmp := some ((l.map c.enc).take m) }) ∨
       s' = { s with cbinTmp := some (l.map c.enc), ch := some (l.map c.enc) } ∨
       s' = { s with cbinTmp := none, ch := some (l.map c.enc), cbin := some (l.map c.enc) } ∨
       (keep = false ∧ s' = { s with cbinTmp := none, ch := some (l.map c.enc), cbin := some (l.map c.enc), bin := none })) := by
  intro s'
  cases fb with
  | cbin => left; rfl
  | bin =>
    rcases Option.eq_none_or_eq_some s.bin with hb | ⟨l, hb⟩
    · left; simp [s', crashCompress, hb]
    · by_cases hne : l = []
      · left; subst hne; simp [s', crashCompress, hb]
      · have h : s' = _ := crashCompress_phase c s l hb hne keep k
        by_cases h0 : k = 0
        · left; rw [h, if_pos h0]
        · right
          refine ⟨l, rfl, hb, hne, ?_⟩
          rw [if_neg h0] at h
          by_cases h1 : k ≤ l.length + 1
          · left
            rw [if_pos h1] at h
            exact ⟨k - 1, by omega, h⟩
          · rw [if_neg h1] at h
            right
            by_cases h2 : k = l.length + 2
            · left; rw [if_pos h2] at h; exact h
            · rw [if_neg h2] at h
              right
              by_cases h3 : k = l.length + 3 ∨ keep = true
              · left; rw [if_pos h3] at h; exact h
              · right
                rw [if_neg h3] at h
                exact ⟨by cases keep <;> simp_all, h⟩

/-! ### `decompress_file` and `decompress_to_scratch` -/

theorem applyPrims_take_out_phase (s : Fs α γ) (A : List (Prim α γ)) (o : OutName) (dl : List α) (rest : List (Prim α γ))
    (j : Nat) (hj : j ≤ dl.length) :
    applyPrims s ((A ++ (Prim.truncOut o :: (dl.map (Prim.appendOut o) ++ rest))).take (A.length + (j + 1))) =
      (applyPrims s A).setOut o (some (dl.take j)) := by
  rw [List.take_length_add_append, applyPrims_append, take_chunk_phase _ _ _ _ _ hj, applyPrims_cons]
  simp only [applyPrim]
  rw [applyPrims_appendOut]
  simp

theorem applyPrims_take_out_after (s : Fs α γ) (A : List (Prim α γ)) (o : OutName) (dl : List α) (rest : List (Prim α γ))
    (m : Nat) :
    applyPrims s ((A ++ (Prim.truncOut o :: (dl.map (Prim.appendOut o) ++ rest))).take (A.length + (dl.length + m + 1))) =
      applyPrims ((applyPrims s A).setOut o (some dl)) (rest.take m) := by
  rw [List.take_length_add_append, applyPrims_append, take_after_chunks, applyPrims_cons, applyPrims_append]
  simp only [applyPrim]
  rw [applyPrims_appendOut]
  simp

/-- The primitive effects of `decompress_file` when `x.cbin` holds `cs`. -/
theorem prims_decompress (c : Codec α γ) (s : Fs α γ) (cs : List γ) (hc : s.cbin = some cs) (keep : Bool) (out : OutName)
    (ov : Bool) :
    prims c s (decompressCalls keep out ov) =
      (if ov && (s.getOut out).isSome then [.removeOut out] else []) ++
        (.truncOut out :: ((cs.map c.dec).map (.appendOut out) ++ (if keep then [] else [.unlinkCbin, .unlinkCh]))) := by
  cases keep <;> simp [prims, decompressCalls, expandCall, expandBasic, hc]

/-- The primitive effects of `decompress_to_scratch` when `x.cbin` holds `cs` and the target does not exist. -/
theorem prims_toScratch_absent (c : Codec α γ) (s : Fs α γ) (cs : List γ) (hc : s.cbin = some cs) (scratch : Bool) :
    prims c s (toScratchCalls scratch false) =
      ((if scratch then [.copyMeta] else []) ++
        (if (s.getOut (if scratch then .sbinTemp else .binTemp)).isSome
          then [.removeOut (if scratch then .sbinTemp else .binTemp)] else [])) ++
        (.truncOut (if scratch then .sbinTemp else .binTemp) ::
          ((cs.map c.dec).map (.appendOut (if scratch then .sbinTemp else .binTemp)) ++ [.moveTemp scratch])) := by
  cases scratch <;> simp [prims, toScratchCalls, expandCall, expandBasic, decompressCalls, hc]

theorem prims_toScratch_present (c : Codec α γ) (s : Fs α γ) (scratch : Bool) :
    prims c s (toScratchCalls scratch true) = if scratch then [.copyMeta] else [] := by
  cases scratch <;> simp [prims, toScratchCalls, expandCall, expandBasic]

/-- Primitive effects that touch nothing but temporary names (and the copied metadata). -/
def Prim.tempOnly : Prim α γ → Bool
  | .truncCbinTmp | .appendCbinTmp _ | .copyMeta => true
  | .removeOut o | .truncOut o | .appendOut o _ => o != .bin
  | _ => false

/-- The files under a final name are the same in both directories. -/
structure SameFinal (s s' : Fs α γ) : Prop where
  bin : s'.bin = s.bin
  cbin : s'.cbin = s.cbin
  ch : s'.ch = s.ch
  sbin : s'.sbin = s.sbin

theorem SameFinal.refl (s : Fs α γ) : SameFinal s s := ⟨rfl, rfl, rfl, rfl⟩

theorem SameFinal.trans {s s' s'' : Fs α γ} (h : SameFinal s s') (h' : SameFinal s' s'') : SameFinal s s'' :=
  ⟨h'.bin.trans h.bin, h'.cbin.trans h.cbin, h'.ch.trans h.ch, h'.sbin.trans h.sbin⟩

theorem sameFinal_applyPrim (s : Fs α γ) (p : Prim α γ) (hp : p.tempOnly = true) : SameFinal s (applyPrim s p) := by
  cases p with
  | removeOut o => cases o <;> simp [Prim.tempOnly] at hp <;> exact ⟨rfl, rfl, rfl, rfl⟩
  | truncOut o => cases o <;> simp [Prim.tempOnly] at hp <;> exact ⟨rfl, rfl, rfl, rfl⟩
  | appendOut o a => cases o <;> simp [Prim.tempOnly] at hp <;> exact ⟨rfl, rfl, rfl, rfl⟩
  | truncCbinTmp => exact ⟨rfl, rfl, rfl, rfl⟩
  | appendCbinTmp g => exact ⟨rfl, rfl, rfl, rfl⟩
  | copyMeta => exact ⟨rfl, rfl, rfl, rfl⟩
  | writeCh h => simp [Prim.tempOnly] at hp
  | renameTmp => simp [Prim.tempOnly] at hp
  | unlinkBin => simp [Prim.tempOnly] at hp
  | unlinkCbin => simp [Prim.tempOnly] at hp
  | unlinkCh => simp [Prim.tempOnly] at hp
  | moveTemp b => simp [Prim.tempOnly] at hp

theorem tempOnly_pre (scratch b : Bool) :
    ∀ p ∈ ((if scratch then [Prim.copyMeta] else []) ++
      (if b then [Prim.removeOut (if scratch then OutName.sbinTemp else OutName.binTemp)] else []) : List (Prim α γ)),
      p.tempOnly = true := by
  cases scratch <;> cases b <;> simp [Prim.tempOnly]

theorem sameFinal_trace (ps : List (Prim α γ)) : ∀ (s s' : Fs α γ), (∀ p ∈ ps, p.tempOnly = true) → s' ∈ trace s ps →
    SameFinal s s' := by
  induction ps with
  | nil => intro s s' _ h; simp [trace] at h; subst h; exact SameFinal.refl _
  | cons p ps ih =>
    intro s s' hp h
    simp only [trace, List.mem_cons] at h
    rcases h with rfl | h
    · exact SameFinal.refl _
    · exact (sameFinal_applyPrim s p (hp p (by simp))).trans (ih _ _ (fun q hq => hp q (by simp [hq])) h)

/-- What a prefix of `decompress_to_scratch`'s effects leaves behind: either every file under a final name is as before
(only the copied metadata and the `.bin_temp` file of the target directory may differ), or — after the very last effect —
the complete decompressed recording has been moved onto the (previously absent) target. -/
theorem crashToScratch_spec (c : Codec α γ) (s : Fs α γ) (fb : DataName) (scratch : Bool) (k : Nat) :
    let s' := crashToScratch c s fb scratch k
    SameFinal s s' ∨
    ∃ cs, fb = .cbin ∧ s.cbin = some cs ∧ s.ch.isSome ∧ (if scratch then s.sbin else s.bin) = none ∧
      s'.cbin = s.cbin ∧ s'.ch = s.ch ∧
      (if scratch then s'.bin = s.bin ∧ s'.sbin = some (cs.map c.dec) ∧ s'.sbinTemp = none
       else s'.sbin = s.sbin ∧ s'.bin = some (cs.map c.dec) ∧ s'.binTemp = none) := by
  intro s'
  have hmeta : ∀ k, SameFinal s (applyPrims s ((prims c s [Call.mkdirScratch, Call.copyMeta]).take k)) := by
    intro k
    rcases k with _ | k <;> simp [prims, expandCall, expandBasic, applyPrims, applyPrim] <;> exact ⟨rfl, rfl, rfl, rfl⟩
  have hfallback : s' = (if scratch then applyPrims s ((prims c s [Call.mkdirScratch, Call.copyMeta]).take k) else s) →
      SameFinal s s' := by
    intro h
    rw [h]
    cases scratch
    · exact SameFinal.refl _
    · exact hmeta k
  cases fb with
  | bin => left; exact hfallback rfl
  | cbin =>
    rcases Option.eq_none_or_eq_some s.cbin with hcb | ⟨cs, hcb⟩
    · left; apply hfallback; simp [s', crashToScratch, hcb]
    · rcases Option.eq_none_or_eq_some s.ch with hch | ⟨h, hch⟩
      · left; apply hfallback; simp [s', crashToScratch, hcb, hch]
      · have hs' : s' = applyPrims s ((prims c s (toScratchCalls scratch (if scratch then s.sbin else s.bin).isSome)).take k) := by
          simp [s', crashToScratch, hcb, hch]
        have hmem := applyPrims_take_mem_trace (prims c s (toScratchCalls scratch (if scratch then s.sbin else s.bin).isSome)) s k
        rw [← hs'] at hmem
        rcases Option.eq_none_or_eq_some (if scratch then s.sbin else s.bin) with hpres | ⟨v, hpres⟩
        · rw [hpres, Option.isSome_none, prims_toScratch_absent c s cs hcb scratch, mem_trace_append] at hmem
          rcases hmem with hmem | hmem
          · left
            exact sameFinal_trace _ _ _ (tempOnly_pre scratch _) hmem
          · -- the state after the metadata copy and the removal of a stale temporary file
            have hpre : ∃ s1 : Fs α γ, applyPrims s ((if scratch then [Prim.copyMeta] else []) ++
                (if (s.getOut (if scratch then .sbinTemp else .binTemp)).isSome
                  then [Prim.removeOut (if scratch then .sbinTemp else .binTemp)] else [])) = s1 ∧ SameFinal s s1 :=
              ⟨_, rfl, by
                cases scratch <;> simp only [Bool.false_eq_true, if_false, if_true] <;> split <;>
                  simp [applyPrims, applyPrim, Fs.setOut] <;> exact ⟨rfl, rfl, rfl, rfl⟩⟩
            obtain ⟨s1, hs1, hsame⟩ := hpre
            rw [hs1] at hmem
            simp only [trace, List.mem_cons] at hmem
            rcases hmem with h1 | hmem
            · left; rw [h1]; exact hsame
            · have hsplit := (mem_trace_append ((cs.map c.dec).map (Prim.appendOut (if scratch then OutName.sbinTemp else OutName.binTemp)))
                [Prim.moveTemp scratch] (applyPrim s1 (Prim.truncOut (if scratch then OutName.sbinTemp else OutName.binTemp))) s').mp hmem
              rcases hsplit with hmem | hmem
              · left
                refine hsame.trans ((sameFinal_applyPrim s1 _ (by cases scratch <;> simp [Prim.tempOnly])).trans
                  (sameFinal_trace _ _ _ ?_ hmem))
                intro p hp
                simp only [List.mem_map] at hp
                obtain ⟨a, _, rfl⟩ := hp
                cases scratch <;> simp [Prim.tempOnly]
              · simp only [applyPrim] at hmem
                rw [applyPrims_appendOut] at hmem
                simp only [trace, List.mem_cons, List.nil_append, List.not_mem_nil, or_false] at hmem
                rcases hmem with h1 | h1
                · left
                  rw [h1]
                  refine hsame.trans ?_
                  cases scratch <;> exact ⟨rfl, rfl, rfl, rfl⟩
                · right
                  refine ⟨cs, rfl, hcb, by simp [hch], hpres, ?_⟩
                  rw [h1]
                  cases scratch
                  · simp [applyPrim, Fs.setOut, hsame.cbin, hsame.ch, hsame.sbin]
                  · simp [applyPrim, Fs.setOut, hsame.cbin, hsame.ch, hsame.bin]
        · left
          rw [hpres, Option.isSome_some, prims_toScratch_present] at hmem
          refine sameFinal_trace _ _ _ ?_ hmem
          intro p hp
          cases scratch <;> simp_all [Prim.tempOnly]

/-- Number of primitive effects after which the fault points of `toScratch` interrupt it (`n` chunks; `stale`: a left-over
`.bin_temp` file is removed first). -/
def toScratchCrashPoint (scratch stale : Bool) (n : Nat) (fault : Option Nat) (mf : Bool) : Nat :=
  ((if scratch then 1 else 0) + (if stale then 1 else 0)) +
    (match fault with
     | some j => if j < n then j + 1 else if mf then n + 0 + 1 else n + 1 + 1
     | none => if mf then n + 0 + 1 else n + 1 + 1)

theorem ite_fst_same {A B : Type} {p : Prop} [Decidable p] (a : A) (x y : B) : (if p then (a, x) else (a, y)).1 = a := by
  split <;> rfl

/-- **`toScratch` is the interpretation of its effect list**, at every fault point (the header describing the compressed
file, `HdrOk`). -/
theorem toScratch_eq_crash [DecidableEq γ] (c : Codec α γ) (s : Fs α γ) (fb : DataName) (scratch : Bool)
    (fault : Option Nat) (mf : Bool) (hh : HdrOk s) (n : Nat) (hn : ∀ cs, s.cbin = some cs → n = cs.length) :
    (toScratch c s fb scratch fault mf).1 =
      crashToScratch c s fb scratch
        (toScratchCrashPoint scratch (s.getOut (if scratch then .sbinTemp else .binTemp)).isSome n fault mf) := by
  have hk1 : ∀ st, 1 ≤ toScratchCrashPoint true st n fault mf := by
    intro st; unfold toScratchCrashPoint; simp; omega
  have hmeta : ∀ k, 1 ≤ k → applyPrims s ((prims c s [Call.mkdirScratch, Call.copyMeta]).take k) = { s with smeta := true } := by
    intro k hk
    obtain ⟨k', rfl⟩ : ∃ k', k = k' + 1 := ⟨k - 1, by omega⟩
    simp [prims, expandCall, expandBasic, applyPrims, applyPrim]
  -- the calls the code refuses after (at most) copying the metadata
  have hrefused : (toScratch c s fb scratch fault mf).1 = (if scratch then { s with smeta := true } else s) →
      (∀ k, crashToScratch c s fb scratch k =
        if scratch then applyPrims s ((prims c s [Call.mkdirScratch, Call.copyMeta]).take k) else s) →
      (toScratch c s fb scratch fault mf).1 =
        crashToScratch c s fb scratch (toScratchCrashPoint scratch (s.getOut (if scratch then .sbinTemp else .binTemp)).isSome n fault mf) := by
    intro h1 h2
    rw [h1, h2]
    cases scratch
    · rfl
    · simp only [if_true]; rw [hmeta _ (hk1 _)]
  cases fb with
  | bin =>
    apply hrefused
    · cases scratch <;> simp [toScratch, decompressFile, ite_fst_same]
    · intro k; simp [crashToScratch]
  | cbin =>
    rcases Option.eq_none_or_eq_some s.cbin with hcb | ⟨cs, hcb⟩
    · apply hrefused
      · cases scratch <;> cases hch' : s.ch <;> simp [toScratch, decompressFile, hcb, hch', ite_fst_same]
      · intro k; simp [crashToScratch, hcb]
    · have hch : s.ch = some cs := hh cs hcb
      have hncs : n = cs.length := hn cs hcb
      subst hncs
      have hcr : ∀ k, crashToScratch c s .cbin scratch k =
          applyPrims s ((prims c s (toScratchCalls scratch (if scratch then s.sbin else s.bin).isSome)).take k) := by
        intro k; simp [crashToScratch, hcb, hch]
      rw [hcr]
      rcases Option.eq_none_or_eq_some (if scratch then s.sbin else s.bin) with hpres | ⟨v, hpres⟩
      · -- the target is absent: decompression to the temporary name, then the move
        rw [hpres, Option.isSome_none, prims_toScratch_absent c s cs hcb scratch]
        generalize hA : ((if scratch then [Prim.copyMeta] else []) ++
            (if (s.getOut (if scratch then OutName.sbinTemp else OutName.binTemp)).isSome
              then [Prim.removeOut (if scratch then OutName.sbinTemp else OutName.binTemp)] else []) : List (Prim α γ)) = A
        have hAlen : (if scratch then 1 else 0) +
            (if (s.getOut (if scratch then OutName.sbinTemp else OutName.binTemp)).isSome then 1 else 0) = A.length := by
          rw [← hA]; cases scratch <;> simp <;> split <;> simp
        have hAs : (applyPrims s A).setOut (if scratch then OutName.sbinTemp else OutName.binTemp) =
            (if scratch then { s with smeta := true } else s).setOut (if scratch then OutName.sbinTemp else OutName.binTemp) := by
          rw [← hA]
          funext v
          cases scratch <;> simp only [Bool.false_eq_true, if_false, if_true] <;> split <;>
            simp [applyPrims, applyPrim, Fs.setOut]
        have hlenmap : cs.length = (cs.map c.dec).length := by simp
        unfold toScratchCrashPoint
        rw [hAlen]
        -- the model step
        have hstep : (toScratch c s .cbin scratch fault mf).1 =
            match writeChunks fault (cs.map c.dec) with
            | (part, false) => (if scratch then { s with smeta := true } else s).setOut (if scratch then .sbinTemp else .binTemp) (some part)
            | (all, true) =>
              if mf then (if scratch then { s with smeta := true } else s).setOut (if scratch then .sbinTemp else .binTemp) (some all)
              else applyPrim ((if scratch then { s with smeta := true } else s).setOut (if scratch then .sbinTemp else .binTemp) (some all))
                (.moveTemp scratch) := by
          cases scratch
          · simp only [Bool.false_eq_true, if_false] at hpres
            simp only [toScratch, decompressFile, hcb, hch, hpres, Bool.false_eq_true, if_false, Option.isSome_none, ne_eq,
              not_true_eq_false, Bool.not_true, Bool.false_and]
            cases hw : writeChunks fault (cs.map c.dec) with
            | mk p fin => cases fin <;> cases mf <;> simp [Fs.setOut, applyPrim]
          · simp only [if_true] at hpres
            simp only [toScratch, decompressFile, hcb, hch, hpres, if_true, Option.isSome_none, ne_eq,
              not_true_eq_false, Bool.not_true, Bool.false_and, Bool.false_eq_true, if_false]
            cases hw : writeChunks fault (cs.map c.dec) with
            | mk p fin => cases fin <;> cases mf <;> simp [Fs.setOut, applyPrim]
        rw [hstep]
        cases hw : writeChunks fault (cs.map c.dec) with
        | mk p fin =>
          cases fin with
          | false =>
            obtain ⟨j, hj, hlt, hp⟩ := writeChunks_false _ _ _ hw
            subst hj
            have hlt' : j < cs.length := by simpa using hlt
            simp only [hlt', if_true]
            rw [applyPrims_take_out_phase s A _ _ _ j (by omega), hAs, hp]
          | true =>
            have hp := writeChunks_true _ _ _ hw
            subst hp
            have hpoint : (match fault with
                | some j => if j < cs.length then j + 1 else if mf = true then cs.length + 0 + 1 else cs.length + 1 + 1
                | none => if mf = true then cs.length + 0 + 1 else cs.length + 1 + 1) =
                (if mf = true then cs.length + 0 + 1 else cs.length + 1 + 1) := by
              cases fault with
              | none => rfl
              | some j =>
                have : ¬ j < cs.length := by
                  intro hj
                  simp [writeChunks, hj] at hw
                simp [this]
            rw [hpoint]
            cases mf
            · simp only [Bool.false_eq_true, if_false]
              rw [hlenmap, applyPrims_take_out_after s A _ _ _ 1, hAs]
              simp [applyPrims]
            · simp only [if_true]
              rw [hlenmap, applyPrims_take_out_after s A _ _ _ 0, hAs]
              simp [applyPrims]
      · -- the target is already there
        rw [hpres, Option.isSome_some, prims_toScratch_present]
        cases scratch
        · simp only [Bool.false_eq_true, if_false] at hpres
          simp [toScratch, hpres, applyPrims]
        · simp only [if_true] at hpres
          have h1 := hk1 (s.getOut OutName.sbinTemp).isSome
          obtain ⟨k', hk'⟩ : ∃ k', toScratchCrashPoint true (s.getOut OutName.sbinTemp).isSome cs.length fault mf = k' + 1 :=
            ⟨_, (Nat.sub_add_cancel h1).symm⟩
          simp [toScratch, hpres, hk', applyPrims, applyPrim]

/-! ### In-place `decompress_file` -/

/-- Effects that only write (remove / create / extend) an output of the decompression. -/
def Prim.outWrite : Prim α γ → Bool
  | .removeOut _ | .truncOut _ | .appendOut _ _ => true
  | _ => false

theorem srcKept_trace (ps : List (Prim α γ)) : ∀ (s s' : Fs α γ), (∀ p ∈ ps, p.outWrite = true) → s' ∈ trace s ps →
    s'.cbin = s.cbin ∧ s'.ch = s.ch := by
  induction ps with
  | nil => intro s s' _ h; simp [trace] at h; subst h; exact ⟨rfl, rfl⟩
  | cons p ps ih =>
    intro s s' hp h
    simp only [trace, List.mem_cons] at h
    rcases h with rfl | h
    · exact ⟨rfl, rfl⟩
    · have h1 := ih _ _ (fun q hq => hp q (by simp [hq])) h
      have h2 : (applyPrim s p).cbin = s.cbin ∧ (applyPrim s p).ch = s.ch := by
        have := hp p (by simp)
        cases p with
        | removeOut o => cases o <;> exact ⟨rfl, rfl⟩
        | truncOut o => cases o <;> exact ⟨rfl, rfl⟩
        | appendOut o a => cases o <;> exact ⟨rfl, rfl⟩
        | _ => simp [Prim.outWrite] at this
      exact ⟨h1.1.trans h2.1, h1.2.trans h2.2⟩

/-- What a prefix of the effects of `decompress_file` (default output `x.bin`) leaves behind: the compressed source and its
header are intact, or — in the in-place variant, after the decompression ran to its end — `x.bin` is the complete decoded
recording.  (The plain call is not atomic on `x.bin` itself: a prefix can leave a partial `x.bin` NEXT TO the intact source.) -/
theorem crashDecompress_spec (c : Codec α γ) (s : Fs α γ) (fb : DataName) (keep ov : Bool) (k : Nat) :
    let s' := crashDecompress c s fb keep ov k
    (s'.cbin = s.cbin ∧ s'.ch = s.ch) ∨
    (keep = false ∧ ∃ cs, s.cbin = some cs ∧ s'.bin = some (cs.map c.dec) ∧ s'.cbin = none) := by
  intro s'
  cases fb with
  | bin => left; exact ⟨rfl, rfl⟩
  | cbin =>
    rcases Option.eq_none_or_eq_some s.cbin with hcb | ⟨cs, hcb⟩
    · left; simp [s', crashDecompress, hcb]
    · rcases Option.eq_none_or_eq_some s.ch with hch | ⟨h, hch⟩
      · left; simp [s', crashDecompress, hcb, hch]
      · by_cases hov : (!ov && s.bin.isSome) = true
        · left; simp [s', crashDecompress, hcb, hch, hov]
        · have hs' : s' = applyPrims s ((prims c s (decompressCalls keep .bin ov)).take k) := by
            simp [s', crashDecompress, hcb, hch, hov]
          have hmem := applyPrims_take_mem_trace (prims c s (decompressCalls keep .bin ov)) s k
          rw [← hs', prims_decompress c s cs hcb keep .bin ov] at hmem
          have hsplit : (if ov && (s.getOut .bin).isSome then [Prim.removeOut OutName.bin] else []) ++
              (Prim.truncOut OutName.bin :: ((cs.map c.dec).map (Prim.appendOut OutName.bin) ++
                (if keep then [] else [Prim.unlinkCbin, Prim.unlinkCh]))) =
              ((if ov && (s.getOut .bin).isSome then [Prim.removeOut OutName.bin] else []) ++
                (Prim.truncOut OutName.bin :: (cs.map c.dec).map (Prim.appendOut (γ := γ) OutName.bin))) ++
                (if keep then [] else [Prim.unlinkCbin, Prim.unlinkCh]) := by simp
          rw [hsplit, mem_trace_append] at hmem
          have hw : ∀ p ∈ ((if ov && (s.getOut .bin).isSome then [Prim.removeOut OutName.bin] else []) ++
              (Prim.truncOut OutName.bin :: (cs.map c.dec).map (Prim.appendOut (γ := γ) OutName.bin)) : List (Prim α γ)),
              p.outWrite = true := by
            intro p hp
            simp only [List.mem_append, List.mem_cons, List.mem_map] at hp
            rcases hp with hp | rfl | ⟨a, _, rfl⟩
            · split at hp <;> simp_all [Prim.outWrite]
            · rfl
            · rfl
          rcases hmem with hmem | hmem
          · left; exact srcKept_trace _ _ _ hw hmem
          · have hfull : applyPrims s ((if ov && (s.getOut .bin).isSome then [Prim.removeOut OutName.bin] else []) ++
                (Prim.truncOut OutName.bin :: (cs.map c.dec).map (Prim.appendOut (γ := γ) OutName.bin))) =
                s.setOut .bin (some (cs.map c.dec)) := by
              rw [applyPrims_append, applyPrims_cons]
              simp only [applyPrim]
              have : ∀ s1 : Fs α γ, applyPrims (s1.setOut OutName.bin (some [])) ((cs.map c.dec).map (Prim.appendOut OutName.bin)) =
                  s1.setOut .bin (some (cs.map c.dec)) := by
                intro s1; rw [applyPrims_appendOut]; simp
              rw [this]
              split <;> simp [applyPrims, applyPrim, Fs.setOut]
            rw [hfull] at hmem
            cases keep with
            | true =>
              left
              simp only [if_true, trace, List.mem_singleton] at hmem
              rw [hmem]; exact ⟨rfl, rfl⟩
            | false =>
              simp only [Bool.false_eq_true, if_false, trace, applyPrim, List.mem_cons, List.not_mem_nil, or_false] at hmem
              rcases hmem with h1 | h1 | h1
              · left; rw [h1]; exact ⟨rfl, rfl⟩
              · right; exact ⟨rfl, cs, hcb, by rw [h1]; simp [Fs.setOut], by rw [h1]⟩
              · right; exact ⟨rfl, cs, hcb, by rw [h1]; simp [Fs.setOut], by rw [h1]⟩

/-- Number of primitive effects after which the chunk fault of `decompressFile` interrupts it (`stale`: an existing output is
removed first on `overwrite=True`). -/
def faultPoint (n : Nat) (fault : Option Nat) (full : Nat) : Nat :=
  match fault with
  | some j => if j < n then j + 1 else full
  | none => full

theorem faultPoint_full (n : Nat) (fault : Option Nat) (full : Nat) (h : ∀ j, fault = some j → ¬ j < n) :
    faultPoint n fault full = full := by
  cases fault with
  | none => rfl
  | some j => simp [faultPoint, h j rfl]

def decompressCrashPoint (stale : Bool) (n : Nat) (fault : Option Nat) : Nat :=
  (if stale then 1 else 0) + faultPoint n fault (n + 2 + 1)

/-- **`decompressFile` (default output) is the interpretation of its effect list**, at every fault point. -/
theorem decompressFile_eq_crash [DecidableEq γ] (c : Codec α γ) (s : Fs α γ) (fb : DataName) (keep ov : Bool)
    (fault : Option Nat) (hh : HdrOk s) (n : Nat) (hn : ∀ cs, s.cbin = some cs → n = cs.length) :
    (decompressFile c s fb keep .bin ov fault).1 =
      crashDecompress c s fb keep ov (decompressCrashPoint (ov && s.bin.isSome) n fault) := by
  cases fb with
  | bin => rfl
  | cbin =>
    rcases Option.eq_none_or_eq_some s.cbin with hcb | ⟨cs, hcb⟩
    · cases hch' : s.ch <;> simp [decompressFile, crashDecompress, hcb, hch']
    · have hch : s.ch = some cs := hh cs hcb
      have hncs : n = cs.length := hn cs hcb
      subst hncs
      by_cases hov : (!ov && s.bin.isSome) = true
      · simp [decompressFile, crashDecompress, hcb, hch, hov, Fs.getOut]
      · have hcr : ∀ k, crashDecompress c s .cbin keep ov k =
            applyPrims s ((prims c s (decompressCalls keep .bin ov)).take k) := by
          intro k; simp [crashDecompress, hcb, hch, hov]
        rw [hcr, prims_decompress c s cs hcb keep .bin ov]
        generalize hA : ((if ov && (s.getOut .bin).isSome then [Prim.removeOut OutName.bin] else []) : List (Prim α γ)) = A
        have hAlen : (if (ov && s.bin.isSome) = true then 1 else 0) = A.length := by
          rw [← hA]; cases ov <;> cases hb : s.bin.isSome <;> simp [Fs.getOut, hb]
        have hAs : (applyPrims s A).setOut OutName.bin = s.setOut OutName.bin := by
          rw [← hA]; funext v; split <;> simp [applyPrims, applyPrim, Fs.setOut]
        have hlenmap : cs.length = (cs.map c.dec).length := by simp
        unfold decompressCrashPoint
        rw [hAlen]
        have hstep : (decompressFile c s .cbin keep .bin ov fault).1 =
            match writeChunks fault (cs.map c.dec) with
            | (part, false) => s.setOut .bin (some part)
            | (all, true) => if keep then s.setOut .bin (some all) else { s.setOut .bin (some all) with cbin := none, ch := none } := by
          simp only [decompressFile, hcb, hch, ne_eq, not_true_eq_false, if_false]
          have : ¬ ((!ov && (s.getOut OutName.bin).isSome) = true) := by simpa [Fs.getOut] using hov
          simp only [this]
          cases hw : writeChunks fault (cs.map c.dec) with
          | mk p fin => cases fin <;> cases keep <;> simp
        rw [hstep]
        cases hw : writeChunks fault (cs.map c.dec) with
        | mk p fin =>
          cases fin with
          | false =>
            obtain ⟨j, hj, hlt, hp⟩ := writeChunks_false _ _ _ hw
            subst hj
            have hlt' : j < cs.length := by simpa using hlt
            simp only [faultPoint, hlt', if_true]
            rw [applyPrims_take_out_phase s A _ _ _ j (by omega), hAs, hp]
          | true =>
            have hp := writeChunks_true _ _ _ hw
            subst hp
            have hpoint : faultPoint cs.length fault (cs.length + 2 + 1) = cs.length + 2 + 1 := by
              apply faultPoint_full
              intro j hj hlt
              subst hj
              simp [writeChunks, hlt] at hw
            rw [hpoint, hlenmap, applyPrims_take_out_after s A _ _ _ 2, hAs]
            cases keep <;> simp [applyPrims, applyPrim, Fs.setOut]

/-! ### The trace invariant survives an interruption between any two effects -/

theorem published_of_sameFinal (c : Codec α γ) (b : List α) (s s' : Fs α γ) (hs : Published c b s) (h : SameFinal s s') :
    Published c b s' :=
  ⟨by rw [h.bin]; exact hs.bin, by rw [h.cbin]; exact hs.cbin, by rw [h.ch]; exact hs.ch,
   by rw [h.cbin, h.ch]; exact hs.hdr, by rw [h.sbin]; exact hs.sbin, by rw [h.bin, h.cbin, h.ch]; exact hs.held⟩

theorem published_crashCompress (c : Codec α γ) (b : List α) (s : Fs α γ) (fb : DataName) (keep : Bool) (k : Nat)
    (hs : Published c b s) : Published c b (crashCompress c s fb keep k) := by
  have h := crashCompress_cases c s fb keep k
  simp only at h
  rcases h with h | ⟨l, _, hl, _, h⟩
  · rw [h]; exact hs
  · have : l = b := by rcases hs.bin with h' | h' <;> simp_all
    subst this
    rcases h with ⟨m, _, h⟩ | h | h | ⟨_, h⟩
    · rw [h]; exact ⟨hs.bin, hs.cbin, hs.ch, hs.hdr, hs.sbin, hs.held⟩
    · rw [h]
      refine ⟨hs.bin, hs.cbin, Or.inr rfl, ?_, hs.sbin, Or.inl hl⟩
      intro hsome
      rcases hs.cbin with h' | h'
      · simp [h'] at hsome
      · simp [h']
    · rw [h]
      exact ⟨hs.bin, Or.inr rfl, Or.inr rfl, fun _ => rfl, hs.sbin, Or.inl hl⟩
    · rw [h]
      exact ⟨Or.inl rfl, Or.inr rfl, Or.inr rfl, fun _ => rfl, hs.sbin, Or.inr ⟨rfl, rfl⟩⟩

theorem published_crashToScratch (c : Codec α γ) (hc : c.Lossless) (b : List α) (s : Fs α γ) (fb : DataName)
    (scratch : Bool) (k : Nat) (hs : Published c b s) : Published c b (crashToScratch c s fb scratch k) := by
  have h := crashToScratch_spec c s fb scratch k
  simp only at h
  rcases h with h | ⟨cs, _, hcb, _, _, h1, h2, h3⟩
  · exact published_of_sameFinal c b s _ hs h
  · have : cs = b.map c.enc := by rcases hs.cbin with h' | h' <;> simp_all
    subst this
    have hb := map_dec_enc c hc b
    rw [hb] at h3
    cases scratch
    · simp only [Bool.false_eq_true, if_false] at h3
      exact ⟨Or.inr h3.2.1, by rw [h1]; exact hs.cbin, by rw [h2]; exact hs.ch, by rw [h1, h2]; exact hs.hdr,
        by rw [h3.1]; exact hs.sbin, Or.inl h3.2.1⟩
    · simp only [if_true] at h3
      exact ⟨by rw [h3.1]; exact hs.bin, by rw [h1]; exact hs.cbin, by rw [h2]; exact hs.ch, by rw [h1, h2]; exact hs.hdr,
        Or.inr h3.2.1, by rw [h3.1, h1, h2]; exact hs.held⟩

theorem published_stepX [DecidableEq α] [DecidableEq γ] (c : Codec α γ) (hc : c.Lossless) (b : List α) (s : Fs α γ)
    (o : XOp) (hs : Published c b s) (ho : o.inScope) : Published c b (stepX c s o) := by
  cases o with
  | op o => exact published_step c hc b s o hs ho
  | crashCompress fb keep k => exact published_crashCompress c b s fb keep k hs
  | crashToScratch fb scratch k => exact published_crashToScratch c hc b s fb scratch k hs

theorem published_runX [DecidableEq α] [DecidableEq γ] (c : Codec α γ) (hc : c.Lossless) (b : List α) (ops : List XOp) :
    ∀ (s : Fs α γ), Published c b s → (∀ o ∈ ops, o.inScope) → Published c b (runX c s ops) := by
  induction ops with
  | nil => intro s hs _; exact hs
  | cons o os ih =>
    intro s hs ho
    simp only [runX]
    exact ih _ (published_stepX c hc b s o hs (ho o (by simp))) (fun o' h' => ho o' (by simp [h']))

end IblVerif.FsCompress
