/-
Helper lemmas on `Model/FsCompressEffects.lean`: the step functions of the file-state machine are the interpretation of
the effect lists (at every fault point), and what every PREFIX of an effect list leaves behind.  Core Lean only.
-/
import IblVerif.Model.FsCompressEffects
import IblVerif.Lemmas.FsCompress

namespace IblVerif.FsCompress

variable {α γ : Type}

/-! ### Generalities on prefixes -/

theorem applyPrims_nil (s : Fs α γ) : applyPrims s [] = s := rfl

theorem applyPrims_cons (s : Fs α γ) (p : Prim α γ) (ps : List (Prim α γ)) :
    applyPrims s (p :: ps) = applyPrims (applyPrim s p) ps := rfl

theorem applyPrims_append (s : Fs α γ) (a b : List (Prim α γ)) :
    applyPrims s (a ++ b) = applyPrims (applyPrims s a) b := by
  simp [applyPrims, List.foldl_append]

/-- Every prefix state is a member of the trace. -/
theorem applyPrims_take_mem_trace (ps : List (Prim α γ)) : ∀ (s : Fs α γ) (k : Nat), applyPrims s (ps.take k) ∈ trace s ps := by
  induction ps with
  | nil => intro s k; simp [trace, applyPrims]
  | cons p ps ih =>
    intro s k
    cases k with
    | zero => simp [trace, applyPrims]
    | succ k => simp only [List.take_succ_cons, applyPrims_cons, trace]; exact List.mem_cons_of_mem _ (ih _ _)

/-- … and every member of the trace is a prefix state. -/
theorem mem_trace_iff_take (ps : List (Prim α γ)) : ∀ (s s' : Fs α γ),
    s' ∈ trace s ps ↔ ∃ k, k ≤ ps.length ∧ s' = applyPrims s (ps.take k) := by
  induction ps with
  | nil => intro s s'; simp [trace, applyPrims]
  | cons p ps ih =>
    intro s s'
    simp only [trace, List.mem_cons, ih]
    constructor
    · rintro (rfl | ⟨k, hk, rfl⟩)
      · exact ⟨0, by simp, rfl⟩
      · exact ⟨k + 1, by simpa using hk, rfl⟩
    · rintro ⟨k, hk, rfl⟩
      cases k with
      | zero => left; rfl
      | succ k => right; exact ⟨k, by simpa using hk, rfl⟩

theorem mem_trace_self (s : Fs α γ) (ps : List (Prim α γ)) : s ∈ trace s ps := by
  cases ps <;> simp [trace]

theorem mem_trace_append (a b : List (Prim α γ)) : ∀ (s s' : Fs α γ),
    s' ∈ trace s (a ++ b) ↔ s' ∈ trace s a ∨ s' ∈ trace (applyPrims s a) b := by
  induction a with
  | nil =>
    intro s s'
    simp only [List.nil_append, trace, applyPrims_nil, List.mem_singleton]
    constructor
    · exact Or.inr
    · rintro (rfl | h)
      · exact mem_trace_self _ _
      · exact h
  | cons p a ih =>
    intro s s'
    simp only [List.cons_append, trace, List.mem_cons, ih, applyPrims_cons, or_assoc]

theorem take_chunk_phase {β P : Type} (hd : P) (f : β → P) (el : List β) (rest : List P) (j : Nat) (hj : j ≤ el.length) :
    (hd :: (el.map f ++ rest)).take (j + 1) = hd :: (el.take j).map f := by
  rw [List.take_succ_cons, List.take_append_of_le_length (by simpa using hj), List.map_take]

theorem take_after_chunks {β P : Type} (hd : P) (f : β → P) (el : List β) (rest : List P) (m : Nat) :
    (hd :: (el.map f ++ rest)).take (el.length + m + 1) = hd :: (el.map f ++ rest.take m) := by
  rw [List.take_succ_cons]
  have : el.length + m = (el.map f).length + m := by simp
  rw [this, List.take_length_add_append]

/-! ### The chunk-writing phases -/

theorem applyPrims_appendCbinTmp (s : Fs α γ) (el : List γ) : ∀ (acc : List γ),
    applyPrims { s with cbinTmp := some acc } (el.map .appendCbinTmp) = { s with cbinTmp := some (acc ++ el) } := by
  induction el with
  | nil => intro acc; simp [applyPrims]
  | cons g t ih =>
    intro acc
    simp only [List.map_cons, applyPrims_cons, applyPrim, Option.map_some]
    rw [ih]; simp

theorem mem_trace_appendCbinTmp (s : Fs α γ) (el : List γ) : ∀ (acc : List γ) (s' : Fs α γ),
    s' ∈ trace { s with cbinTmp := some acc } (el.map .appendCbinTmp) →
      ∃ m, m ≤ el.length ∧ s' = { s with cbinTmp := some (acc ++ el.take m) } := by
  induction el with
  | nil => intro acc s' h; simp [trace] at h; exact ⟨0, by simp, by simp [h]⟩
  | cons g t ih =>
    intro acc s' h
    simp only [List.map_cons, trace, List.mem_cons, applyPrim, Option.map_some] at h
    rcases h with rfl | h
    · exact ⟨0, by simp, by simp⟩
    · obtain ⟨m, hm, rfl⟩ := ih _ _ h
      exact ⟨m + 1, by simpa using hm, by simp⟩

theorem getOut_setOut (s : Fs α γ) (o : OutName) (v : Option (List α)) : (s.setOut o v).getOut o = v := by
  cases o <;> rfl

theorem setOut_setOut (s : Fs α γ) (o : OutName) (v w : Option (List α)) : (s.setOut o v).setOut o w = s.setOut o w := by
  cases o <;> rfl

theorem applyPrims_appendOut (s : Fs α γ) (o : OutName) (dl : List α) : ∀ (acc : List α),
    applyPrims (s.setOut o (some acc)) (dl.map (.appendOut o)) = s.setOut o (some (acc ++ dl)) := by
  induction dl with
  | nil => intro acc; simp [applyPrims]
  | cons a t ih =>
    intro acc
    simp only [List.map_cons, applyPrims_cons, applyPrim, getOut_setOut, setOut_setOut, Option.map_some]
    rw [ih]; simp

theorem mem_trace_appendOut (s : Fs α γ) (o : OutName) (dl : List α) : ∀ (acc : List α) (s' : Fs α γ),
    s' ∈ trace (s.setOut o (some acc)) (dl.map (.appendOut o)) →
      ∃ m, m ≤ dl.length ∧ s' = s.setOut o (some (acc ++ dl.take m)) := by
  induction dl with
  | nil => intro acc s' h; simp [trace] at h; exact ⟨0, by simp, by simp [h]⟩
  | cons a t ih =>
    intro acc s' h
    simp only [List.map_cons, trace, List.mem_cons, applyPrim, getOut_setOut, setOut_setOut, Option.map_some] at h
    rcases h with rfl | h
    · exact ⟨0, by simp, by simp⟩
    · obtain ⟨m, hm, rfl⟩ := ih _ _ h
      exact ⟨m + 1, by simpa using hm, by simp⟩

/-! ### `compress_file` -/

/-- The primitive effects of `compress_file` on a directory whose `x.bin` holds `l`. -/
theorem prims_compress (c : Codec α γ) (s : Fs α γ) (l : List α) (hl : s.bin = some l) (keep : Bool) :
    prims c s (compressCalls keep) =
      .truncCbinTmp :: ((l.map c.enc).map .appendCbinTmp ++
        ([.writeCh (l.map c.enc), .renameTmp] ++ (if keep then [] else [.unlinkBin]))) := by
  cases keep <;> simp [prims, compressCalls, expandCall, expandBasic, hl]

/-- The state after exactly `k` primitive effects of `compress_file`, by phase (`n = l.length` chunks): nothing yet;
`x.cbin_tmp` created and `k - 1` chunks in it; header written; renamed; (in place) source removed. -/
theorem crashCompress_phase (c : Codec α γ) (s : Fs α γ) (l : List α) (hl : s.bin = some l) (hne : l ≠ [])
    (keep : Bool) (k : Nat) :
    crashCompress c s .bin keep k =
      if k = 0 then s
      else if k ≤ l.length + 1 then { s with cbinTmp := some ((l.map c.enc).take (k - 1)) }
      else if k = l.length + 2 then { s with cbinTmp := some (l.map c.enc), ch := some (l.map c.enc) }
      else if k = l.length + 3 ∨ keep = true then
        { s with cbinTmp := none, ch := some (l.map c.enc), cbin := some (l.map c.enc) }
      else { s with cbinTmp := none, ch := some (l.map c.enc), cbin := some (l.map c.enc), bin := none } := by
  have hcr : crashCompress c s .bin keep k = applyPrims s ((prims c s (compressCalls keep)).take k) := by
    cases l with
    | nil => exact absurd rfl hne
    | cons a t => simp [crashCompress, hl]
  rw [hcr, prims_compress c s l hl keep]
  generalize hel : l.map c.enc = el
  have hlen : l.length = el.length := by rw [← hel]; simp
  rw [hlen]
  by_cases h0 : k = 0
  · simp [h0, applyPrims]
  · obtain ⟨k', rfl⟩ : ∃ k', k = k' + 1 := ⟨k - 1, by omega⟩
    rw [if_neg h0]
    by_cases h1 : k' ≤ el.length
    · have hA : k' + 1 ≤ el.length + 1 := by omega
      rw [if_pos hA, take_chunk_phase _ _ _ _ _ h1, applyPrims_cons]
      simp only [applyPrim]
      rw [applyPrims_appendCbinTmp]
      simp
    · have hA : ¬ k' + 1 ≤ el.length + 1 := by omega
      rw [if_neg hA]
      obtain ⟨m, rfl⟩ : ∃ m, k' = el.length + (m + 1) := ⟨k' - el.length - 1, by omega⟩
      rw [take_after_chunks, applyPrims_cons, applyPrims_append]
      simp only [applyPrim]
      rw [applyPrims_appendCbinTmp]
      rcases m with _ | _ | m
      · have hB : el.length + (0 + 1) + 1 = el.length + 2 := by omega
        rw [if_pos hB]
        simp [applyPrims, applyPrim]
      · have hB : ¬ el.length + (0 + 1 + 1) + 1 = el.length + 2 := by omega
        have hC : el.length + (0 + 1 + 1) + 1 = el.length + 3 := by omega
        rw [if_neg hB, if_pos (Or.inl hC)]
        cases keep <;> simp [applyPrims, applyPrim]
      · have hB : ¬ el.length + (m + 1 + 1 + 1) + 1 = el.length + 2 := by omega
        have hC : ¬ el.length + (m + 1 + 1 + 1) + 1 = el.length + 3 := by omega
        rw [if_neg hB]
        cases keep
        · have hD : ¬ (el.length + (m + 1 + 1 + 1) + 1 = el.length + 3 ∨ false = true) := by simp; omega
          rw [if_neg hD]
          simp [applyPrims, applyPrim]
        · rw [if_pos (Or.inr rfl)]
          simp [applyPrims, applyPrim]

/-- Number of primitive effects after which the fault points of `compressFile` interrupt it (`n` chunks). -/
def compressCrashPoint (n : Nat) (fault : Option Nat) (rf : Bool) : Nat :=
  match fault with
  | some j => if j < n then j + 1 else if rf then n + 2 else n + 4
  | none => if rf then n + 2 else n + 4

theorem compressFile_fault_outcome [DecidableEq α] (c : Codec α γ) (s : Fs α γ) (keep : Bool) (j : Nat) (rf : Bool)
    (l : List α) (hl : s.bin = some l) (hj : j < l.length) :
    (compressFile c s .bin keep (some j) rf).2.2 = .err .fault := by
  cases l with
  | nil => simp at hj
  | cons a t =>
    have : j < t.length + 1 := by simpa using hj
    simp [compressFile, hl, writeChunks, this]

/-- **`compressFile` is the interpretation of its effect list**: for every directory, reader, flag and fault point the
directory it returns is the one reached by the corresponding prefix of `prims (compressCalls keep)`. -/
theorem compressFile_eq_crash [DecidableEq α] (c : Codec α γ) (hc : c.Lossless) (s : Fs α γ) (fb : DataName)
    (keep : Bool) (fault : Option Nat) (rf : Bool) (l : List α) (hl : s.bin = some l) :
    (compressFile c s fb keep fault rf).1 = crashCompress c s fb keep (compressCrashPoint l.length fault rf) := by
  have hcases := compressFile_cases c hc s fb keep fault rf
  simp only at hcases
  rcases hcases with ⟨hr, hw⟩ | ⟨l', j, hfb, hl', hne, hf, hj, hr⟩ | ⟨l', hfb, hl', hne, hrf, hr⟩ | ⟨l', hfb, hl', hne, hrf, hr⟩
  · rw [hr]
    rcases hw with rfl | h | h
    · simp [crashCompress]
    · simp [h] at hl
    · simp [crashCompress, h]
  all_goals
    have e : l' = l := by rw [hl] at hl'; exact (Option.some.inj hl').symm
    subst e
    subst hfb
    have hnofault : ∀ j, fault = some j → (compressFile c s .bin keep fault rf).2.2 ≠ .err .fault → ¬ j < l'.length := by
      intro j hj hne' hlt
      subst hj
      exact hne' (compressFile_fault_outcome c s keep j rf l' hl hlt)
    rw [hr, crashCompress_phase c s l' hl hne keep]
  · subst hf
    simp only [compressCrashPoint, hj, if_true]
    have hA : ¬ j + 1 = 0 := by omega
    have hB : j + 1 ≤ l'.length + 1 := by omega
    rw [if_neg hA, if_pos hB]
    simp
  · subst hrf
    have hp : compressCrashPoint l'.length fault false = l'.length + 4 := by
      unfold compressCrashPoint
      cases fault with
      | none => simp
      | some j => simp [hnofault j rfl (by rw [hr]; simp)]
    have hA : ¬ l'.length + 4 = 0 := by omega
    have hB : ¬ l'.length + 4 ≤ l'.length + 1 := by omega
    have hC : ¬ l'.length + 4 = l'.length + 2 := by omega
    rw [hp, if_neg hA, if_neg hB, if_neg hC]
    cases keep
    · have hD : ¬ (l'.length + 4 = l'.length + 3 ∨ false = true) := by simp
      rw [if_neg hD]; simp
    · rw [if_pos (Or.inr rfl)]; simp [hl]
  · subst hrf
    have hp : compressCrashPoint l'.length fault true = l'.length + 2 := by
      unfold compressCrashPoint
      cases fault with
      | none => simp
      | some j => simp [hnofault j rfl (by rw [hr]; simp)]
    have hA : ¬ l'.length + 2 = 0 := by omega
    have hB : ¬ l'.length + 2 ≤ l'.length + 1 := by omega
    rw [hp, if_neg hA, if_neg hB, if_pos rfl]

/-- Everything a prefix of `compress_file`'s effects can leave behind. -/
theorem crashCompress_cases (c : Codec α γ) (s : Fs α γ) (fb : DataName) (keep : Bool) (k : Nat) :
    let s' := crashCompress c s fb keep k
    s' = s ∨
    ∃ l, fb = .bin ∧ s.bin = some l ∧ l ≠ [] ∧
      ((∃ m, m ≤ l.length ∧ s' = { s with cbinTmp := some ((l.map c.enc).take m) }) ∨
       s' = { s with cbinTmp := some (l.map c.enc), ch := some (l.map c.enc) } ∨
       s' = { s with cbinTmp := none, ch := some (l.map c.enc), cbin := some (l.map c.enc) } ∨
       (keep = false ∧ s' = { s with cbinTmp := none, ch := some (l.map c.enc), cbin := some (l.map c.enc), bin := none })) := by
  intro s'
  cases fb with
  | cbin => left; rfl
  | bin =>
    cases hb : s.bin with
    | none => left; simp [s', crashCompress, hb]
    | some l =>
      by_cases hne : l = []
      · left; subst hne; simp [s', crashCompress, hb]
      · have h : s' = _ := crashCompress_phase c s l hb hne keep k
        by_cases h0 : k = 0
        · left; rw [h, if_pos h0]
        · right
          refine ⟨l, rfl, rfl, hne, ?_⟩
          rw [if_neg h0] at h
          by_cases h1 : k ≤ l.length + 1
          · left
            rw [if_pos h1] at h
            exact ⟨k - 1, by omega, h⟩
          · rw [if_neg h1] at h
            right
            by_cases h2 : k = l.length + 2
            · left; rw [if_pos h2] at h; exact h
            · rw [if_neg h2] at h
              right
              by_cases h3 : k = l.length + 3 ∨ keep = true
              · left; rw [if_pos h3] at h; exact h
              · right
                rw [if_neg h3] at h
                exact ⟨by cases keep <;> simp_all, h⟩

/-! ### `decompress_file` and `decompress_to_scratch` -/

/-- The primitive effects of `mtscomp.decompress(…, out, overwrite)` followed by `r.close()` when `x.cbin` holds `cs`. -/
theorem prims_decompress (c : Codec α γ) (s : Fs α γ) (cs : List γ) (hc : s.cbin = some cs) (keep : Bool) (out : OutName)
    (ov : Bool) :
    prims c s (decompressCalls keep out ov) =
      (if ov && (s.getOut out).isSome then [.removeOut out] else []) ++
        (.truncOut out :: ((cs.map c.dec).map (.appendOut out) ++ (if keep then [] else [.unlinkCbin, .unlinkCh]))) := by
  cases keep <;> simp [prims, decompressCalls, expandCall, expandBasic, hc]

theorem prims_toScratch (c : Codec α γ) (s : Fs α γ) (cs : List γ) (hc : s.cbin = some cs) (scratch present : Bool) :
    let out : OutName := if scratch then .sbinTemp else .binTemp
    prims c s (toScratchCalls scratch present) =
      (if scratch then [.copyMeta] else []) ++
        (if present then [] else
          (if (s.getOut out).isSome then [.removeOut out] else []) ++
            (.truncOut out :: ((cs.map c.dec).map (.appendOut out) ++ [.moveTemp scratch]))) := by
  cases scratch <;> cases present <;> simp [prims, toScratchCalls, expandCall, expandBasic, decompressCalls, hc]

end IblVerif.FsCompress
