/-
Helper lemmas for C04: the sequential (effect list) semantics of `Model/ConverterSteps.lean` against the closed forms of the
history state machine `Model/Converter.lean`.  Core Lean only.
-/
import IblVerif.Model.ConverterSteps
import IblVerif.Lemmas.Converter

namespace IblVerif.Converter

/-! ### the dispatch of `process` -/

theorem dispatch_np24 {b : Bool} {k : Kind} (h : dispatch b k = .np24) : b = true ∧ k = .np24 := by
  cases b <;> cases k <;> simp [dispatch] at h ⊢
theorem dispatch_np21 {b : Bool} {k : Kind} (h : dispatch b k = .np21) : b = true ∧ k = .np21 := by
  cases b <;> cases k <;> simp [dispatch] at h ⊢

/-! ### lists -/

theorem applyEffs_nil (cfg call x) : applyEffs cfg call [] x = x := rfl
theorem applyEffs_cons (cfg call e es x) : applyEffs cfg call (e :: es) x = applyEffs cfg call es (applyEff cfg call e x) := rfl
theorem applyEffs_append (cfg call a b x) : applyEffs cfg call (a ++ b) x = applyEffs cfg call b (applyEffs cfg call a x) := by
  simp [applyEffs, List.foldl_append]

theorem cut_of_noStop (l : List Eff) (h : ∀ e ∈ l, e.stops = false) : cut l = l := by
  induction l with
  | nil => rfl
  | cons a t ih =>
    have ha := h a (List.mem_cons_self ..)
    simp only [cut, ha, Bool.false_eq_true, if_false]
    rw [ih (fun e he => h e (List.mem_cons_of_mem _ he))]

theorem cut_append_of_noStop (l r : List Eff) (h : ∀ e ∈ l, e.stops = false) : cut (l ++ r) = l ++ cut r := by
  induction l with
  | nil => rfl
  | cons a t ih =>
    have ha := h a (List.mem_cons_self ..)
    simp only [List.cons_append, cut, ha, Bool.false_eq_true, if_false]
    rw [ih (fun e he => h e (List.mem_cons_of_mem _ he))]

theorem cut_stop (e : Eff) (r : List Eff) (h : e.stops = true) : cut (e :: r) = [e] := by
  simp [cut, h]

/-- reaching a state by some prefix of an effect list -/
def Reach (cfg : Cfg) (call : Call) (es : List Eff) (x y : Disk × Obj) : Prop :=
  ∃ pre, pre <+: es ∧ applyEffs cfg call pre x = y

theorem Reach.start (cfg call es x) : Reach cfg call es x x := ⟨[], List.nil_prefix, rfl⟩
theorem Reach.all (cfg call es x) : Reach cfg call es x (applyEffs cfg call es x) := ⟨es, List.prefix_rfl, rfl⟩
theorem Reach.left {cfg call a x y} (b : List Eff) (h : Reach cfg call a x y) : Reach cfg call (a ++ b) x y := by
  obtain ⟨pre, hp, he⟩ := h
  exact ⟨pre, List.prefix_append_of_prefix hp, he⟩
theorem Reach.right {cfg call b x y} (a : List Eff) (h : Reach cfg call b (applyEffs cfg call a x) y) :
    Reach cfg call (a ++ b) x y := by
  obtain ⟨pre, hp, he⟩ := h
  exact ⟨a ++ pre, (List.prefix_append_right_inj a).mpr hp, by rw [applyEffs_append, he]⟩
theorem Reach.cons {cfg call b x y} (e : Eff) (h : Reach cfg call b (applyEff cfg call e x) y) :
    Reach cfg call (e :: b) x y := Reach.right (a := [e]) h

theorem range_prefix {j J : Nat} (h : j ≤ J) : List.range j <+: List.range J := by
  have : List.range j = List.take j (List.range J) := by rw [List.take_range, Nat.min_eq_left h]
  rw [this]; exact List.take_prefix _ _

/-- a prefix of a mapped range: the first `j` of `J` items -/
theorem Reach.rangeMap {cfg call x} (f : Nat → Eff) {j J : Nat} (h : j ≤ J) :
    Reach cfg call ((List.range J).map f) x (applyEffs cfg call ((List.range j).map f) x) :=
  ⟨_, List.IsPrefix.map f (range_prefix h), rfl⟩

/-- inside the `i`-th block of a flat-mapped range -/
theorem Reach.rangeFlatMap {cfg call x y} (F : Nat → List Eff) {i n : Nat} (hi : i < n)
    (h : Reach cfg call (F i) (applyEffs cfg call ((List.range i).flatMap F) x) y) :
    Reach cfg call ((List.range n).flatMap F) x y := by
  induction n with
  | zero => omega
  | succ m ih =>
    rw [List.range_succ, List.flatMap_append, List.flatMap_singleton]
    by_cases him : i < m
    · exact Reach.left _ (ih him)
    · have : i = m := by omega
      subst this
      exact Reach.right _ h

theorem splits_flat (n : Nat) :
    (List.range n).flatMap (fun k => [Eff.split (2 * k + 0), Eff.split (2 * k + 1)]) = (List.range (2 * n)).map Eff.split := by
  induction n with
  | zero => rfl
  | succ m ih =>
    rw [List.range_succ, List.flatMap_append, ih, List.flatMap_singleton]
    have : 2 * (m + 1) = (2 * m + 1) + 1 := by omega
    rw [this, List.range_succ, List.range_succ, List.map_append, List.map_append]
    simp

theorem metas_flat (n : Nat) :
    (List.range n).map (fun i => Eff.md i) ++ (List.range n).map (fun i => Eff.md (n + i)) = (List.range (2 * n)).map Eff.md := by
  have : 2 * n = n + n := by omega
  rw [this, List.range_add, List.map_append, List.map_map]
  rfl

/-! ### disk extensionality helpers -/

theorem Disk.ext' {a b : Disk} (h1 : a.orig = b.orig) (h2 : a.och = b.och) (h3 : a.otmp = b.otmp)
    (h4 : ∀ i, a.shanks i = b.shanks i) (h5 : a.lf = b.lf) : a = b := by
  cases a; cases b
  simp only at h1 h2 h3 h5
  have : ‹Nat → Option Shank› = ‹Nat → Option Shank› := rfl
  simp only [Disk.mk.injEq]
  exact ⟨h1, h2, h3, funext h4, h5⟩

/-! ### NP2.4 phases in closed form -/

theorem windows24_windows24 (cfg : Cfg) (call : Call) (a b : Nat) (d : Disk) :
    windows24 cfg call a (windows24 cfg call b d) = windows24 cfg call a d := by
  apply Disk.ext' <;> try rfl
  intro i
  simp only [windows24, onShanks_shanks]
  split
  · cases d.shanks i <;> rfl
  · rfl

theorem metas24_zero (n : Nat) (d : Disk) : metas24 n 0 d = d := by
  apply Disk.ext' <;> try rfl
  intro i
  simp only [metas24, onShanks_shanks]
  split
  · cases d.shanks i with
    | none => rfl
    | some sh => simp
  · rfl

theorem metas24_succ (n m : Nat) (d : Disk) : metas24 n (m + 1) (metas24 n m d) = metas24 n (m + 1) d := by
  apply Disk.ext' <;> try rfl
  intro i
  simp only [metas24, onShanks_shanks]
  split
  · cases d.shanks i with
    | none => rfl
    | some sh =>
      simp only [Option.map_some, Option.some.injEq, Shank.mk.injEq, FileSet.mk.injEq, true_and, and_true]
      constructor
      · cases sh.ap.md <;> simp <;> omega
      · cases sh.lf.md <;> simp <;> omega
  · rfl

/-- after the first `J` `_split2shanks` calls -/
theorem applyEffs_splits (cfg : Cfg) (call : Call) (J : Nat) (d : Disk) (o : Obj) :
    applyEffs cfg call ((List.range J).map Eff.split) (d, o) = (if J = 0 then d else windows24 cfg call J d, o) := by
  induction J with
  | zero => rfl
  | succ m ih =>
    rw [List.range_succ, List.map_append, applyEffs_append, ih]
    simp only [List.map_cons, List.map_nil, applyEffs_cons, applyEffs_nil, applyEff, Nat.add_one_ne_zero, if_false]
    by_cases hm : m = 0
    · simp [hm]
    · simp [hm, windows24_windows24]

/-- after the first `M` `write_meta_data` calls -/
theorem applyEffs_metas (cfg : Cfg) (call : Call) (M : Nat) (d : Disk) (o : Obj) :
    applyEffs cfg call ((List.range M).map Eff.md) (d, o) = (metas24 cfg.n M d, o) := by
  induction M with
  | zero => simp [applyEffs_nil, metas24_zero]
  | succ m ih =>
    rw [List.range_succ, List.map_append, applyEffs_append, ih]
    simp only [List.map_cons, List.map_nil, applyEffs_cons, applyEffs_nil, applyEff, metas24_succ]

/-- the reads of `check_NP24` change nothing -/
theorem applyEffs_reads (cfg : Cfg) (call : Call) (R : Nat) (x : Disk × Obj) :
    applyEffs cfg call ((List.range R).map Eff.read) x = x := by
  induction R with
  | zero => rfl
  | succ m ih =>
    rw [List.range_succ, List.map_append, applyEffs_append, ih]
    rfl

/-! ### compression, stream by stream -/

/-- a stream after `compress_file` and the unlink of its `.bin` -/
def finDone (d : Data) (st : FileSet) : FileSet := { st with bin := .absent, cbin := some d, ch := true, tmp := false }

/-- a stream inside `compress_file`: the stale `.cbin` unlinked when overwriting, `.cbin_tmp` created -/
def finTmp (ow : Bool) (st : FileSet) : FileSet := { st with cbin := if ow then none else st.cbin, tmp := true }

/-- the first `Q` streams (ap of shank 0, lf of shank 0, ap of shank 1, …) compressed, the others untouched -/
def compDone (cfg : Cfg) (call : Call) (Q : Nat) (d : Disk) : Disk :=
  onShanks cfg.n (fun i o => o.map fun sh =>
    { ap := if 2 * i < Q then finDone (apData cfg call i) sh.ap else sh.ap,
      lf := if 2 * i + 1 < Q then finDone (.good cfg.c) sh.lf else sh.lf }) d

theorem onFile_onFile (f : FileRef) (g1 g2 : FileSet → FileSet) (d : Disk) :
    onFile f g2 (onFile f g1 d) = onFile f (fun st => g2 (g1 st)) d := by
  cases f with
  | shankAp i =>
    apply Disk.ext' <;> try rfl
    intro k; simp only [onFile]
    split
    · cases d.shanks k <;> rfl
    · rfl
  | shankLf i =>
    apply Disk.ext' <;> try rfl
    intro k; simp only [onFile]
    split
    · cases d.shanks k <;> rfl
    · rfl
  | lf21 => rfl

theorem applyEffs_compressOne (cfg : Cfg) (call : Call) (f : FileRef) (d : Disk) (o : Obj) :
    applyEffs cfg call (compressOne f) (d, o) = (onFile f (finDone (dataOf cfg call f)) d, o) := by
  simp only [compressOne, applyEffs_cons, applyEffs_nil, applyEff, onFile_onFile]
  rfl

theorem applyEffs_compressHalf (cfg : Cfg) (call : Call) (f : FileRef) (d : Disk) (o : Obj) :
    applyEffs cfg call [.stale f, .tmp f] (d, o) = (onFile f (finTmp call.overwrite) d, o) := by
  simp only [applyEffs_cons, applyEffs_nil, applyEff, onFile_onFile]
  rfl

theorem compDone_zero (cfg : Cfg) (call : Call) (d : Disk) : compDone cfg call 0 d = d := by
  apply Disk.ext' <;> try rfl
  intro k
  simp only [compDone, onShanks_shanks, Nat.not_lt_zero, if_false]
  split
  · cases d.shanks k <;> rfl
  · rfl

theorem comp_step_ap (cfg : Cfg) (call : Call) (i0 : Nat) (h : i0 < cfg.n) (d : Disk) :
    onFile (.shankAp i0) (finDone (apData cfg call i0)) (compDone cfg call (2 * i0) d) = compDone cfg call (2 * i0 + 1) d := by
  apply Disk.ext' <;> try rfl
  intro k
  simp only [onFile, compDone, onShanks_shanks]
  by_cases hk : k = i0
  · subst hk
    simp only [h, if_true]
    cases d.shanks k with
    | none => rfl
    | some sh =>
      have a1 : ¬ (2 * k < 2 * k) := by omega
      have a2 : 2 * k < 2 * k + 1 := by omega
      have a3 : ¬ (2 * k + 1 < 2 * k) := by omega
      have a4 : ¬ (2 * k + 1 < 2 * k + 1) := by omega
      simp [a1, a2, a3, a4]
  · simp only [hk, if_false]
    split
    · cases d.shanks k with
      | none => rfl
      | some sh =>
        have a1 : (2 * k < 2 * i0 + 1) = (2 * k < 2 * i0) := propext (by omega)
        have a2 : (2 * k + 1 < 2 * i0 + 1) = (2 * k + 1 < 2 * i0) := propext (by omega)
        simp [a1, a2]
    · rfl

theorem comp_step_lf (cfg : Cfg) (call : Call) (i0 : Nat) (h : i0 < cfg.n) (d : Disk) :
    onFile (.shankLf i0) (finDone (.good cfg.c)) (compDone cfg call (2 * i0 + 1) d) = compDone cfg call (2 * (i0 + 1)) d := by
  apply Disk.ext' <;> try rfl
  intro k
  simp only [onFile, compDone, onShanks_shanks]
  by_cases hk : k = i0
  · subst hk
    simp only [h, if_true]
    cases d.shanks k with
    | none => rfl
    | some sh =>
      have a1 : 2 * k < 2 * k + 1 := by omega
      have a2 : 2 * k < 2 * (k + 1) := by omega
      have a3 : ¬ (2 * k + 1 < 2 * k + 1) := by omega
      have a4 : 2 * k + 1 < 2 * (k + 1) := by omega
      simp [a1, a2, a3, a4]
  · simp only [hk, if_false]
    split
    · cases d.shanks k with
      | none => rfl
      | some sh =>
        have a1 : (2 * k < 2 * (i0 + 1)) = (2 * k < 2 * i0 + 1) := propext (by omega)
        have a2 : (2 * k + 1 < 2 * (i0 + 1)) = (2 * k + 1 < 2 * i0 + 1) := propext (by omega)
        simp [a1, a2]
    · rfl

/-- the effects of `compress_NP24` on one shank folder -/
def compShank (i : Nat) : List Eff := compressOne (.shankAp i) ++ compressOne (.shankLf i)

/-- after the first `i0` shank folders have been compressed -/
theorem applyEffs_compress_upto (cfg : Cfg) (call : Call) (i0 : Nat) (h : i0 ≤ cfg.n) (d : Disk) (o : Obj) :
    applyEffs cfg call ((List.range i0).flatMap compShank) (d, o) = (compDone cfg call (2 * i0) d, o) := by
  induction i0 with
  | zero => simp [applyEffs_nil, compDone_zero]
  | succ m ih =>
    rw [List.range_succ, List.flatMap_append, applyEffs_append, ih (by omega), List.flatMap_singleton, compShank,
      applyEffs_append, applyEffs_compressOne, applyEffs_compressOne]
    simp only [dataOf]
    rw [comp_step_ap cfg call m (by omega), comp_step_lf cfg call m (by omega)]

theorem compDone_all (cfg : Cfg) (call : Call) (d : Disk) : compDone cfg call (2 * cfg.n) d = compress24 cfg call (2 * cfg.n) d := by
  apply Disk.ext' <;> try rfl
  intro k
  simp only [compDone, compress24, onShanks_shanks]
  split
  · rename_i hk
    cases d.shanks k with
    | none => rfl
    | some sh =>
      have a1 : 2 * k < 2 * cfg.n := by omega
      have a2 : 2 * k + 1 < 2 * cfg.n := by omega
      simp [a1, a2, compressFileSet, finDone]
  · rfl

/-- the state the history model gives an interruption inside the `q`-th `compress_file` call, `q` even: ap stream of shank `q / 2` -/
theorem compress24_even (cfg : Cfg) (call : Call) (i0 : Nat) (h : i0 < cfg.n) (d : Disk) :
    compress24 cfg call (2 * i0) d = onFile (.shankAp i0) (finTmp call.overwrite) (compDone cfg call (2 * i0) d) := by
  apply Disk.ext' <;> try rfl
  intro k
  simp only [onFile, compDone, compress24, onShanks_shanks]
  by_cases hk : k = i0
  · subst hk
    simp only [h, if_true]
    cases d.shanks k with
    | none => rfl
    | some sh =>
      have a1 : ¬ (2 * k < 2 * k) := by omega
      have a3 : ¬ (2 * k + 1 < 2 * k) := by omega
      have a4 : ¬ (2 * k + 1 = 2 * k) := by omega
      simp [a1, a3, a4, compressFileSet, finTmp]
  · simp only [hk, if_false]
    split
    · cases d.shanks k with
      | none => rfl
      | some sh =>
        have a1 : ¬ (2 * k = 2 * i0) := by omega
        have a2 : ¬ (2 * k + 1 = 2 * i0) := by omega
        simp only [Option.map_some, compressFileSet, a1, a2, if_false, finDone]
    · rfl

/-- … `q` odd: lf stream of shank `q / 2` -/
theorem compress24_odd (cfg : Cfg) (call : Call) (i0 : Nat) (h : i0 < cfg.n) (d : Disk) :
    compress24 cfg call (2 * i0 + 1) d = onFile (.shankLf i0) (finTmp call.overwrite) (compDone cfg call (2 * i0 + 1) d) := by
  apply Disk.ext' <;> try rfl
  intro k
  simp only [onFile, compDone, compress24, onShanks_shanks]
  by_cases hk : k = i0
  · subst hk
    simp only [h, if_true]
    cases d.shanks k with
    | none => rfl
    | some sh =>
      have a1 : 2 * k < 2 * k + 1 := by omega
      have a3 : ¬ (2 * k + 1 < 2 * k + 1) := by omega
      simp [a1, a3, compressFileSet, finTmp, finDone]
  · simp only [hk, if_false]
    split
    · cases d.shanks k with
      | none => rfl
      | some sh =>
        have a1 : ¬ (2 * k = 2 * i0 + 1) := by omega
        have a2 : ¬ (2 * k + 1 = 2 * i0 + 1) := by omega
        simp only [Option.map_some, compressFileSet, a1, a2, if_false, finDone]
    · rfl

/-! ### the effect list of an NP2.4 run, phase by phase -/

theorem nproc_pos (cfg : Cfg) (hov : cfg.ov < cfg.w) : 0 < nproc cfg := by
  unfold nproc Window.firstlast
  simp only [hov, if_true]
  unfold Window.firstlastAux
  split <;> simp

/-- what follows the verification: compression of every shank folder, then the guarded delete -/
def tail24 (cfg : Cfg) (ob : Obj) : List Eff :=
  (if ob.opts.compress then (List.range cfg.n).flatMap compShank else []) ++ (if ob.opts.deleteOriginal then [.delete] else [])

/-- the verification and what follows it -/
def verify24 (cfg : Cfg) (ob : Obj) (call : Call) : List Eff :=
  if ob.opts.postCheck then
    (List.range (verifyReads cfg call)).map Eff.read ++ (if splitDiffers cfg call then [.assertFail] else .checked :: tail24 cfg ob)
  else tail24 cfg ob

theorem noStop_split (J : Nat) : ∀ e ∈ (List.range J).map Eff.split, e.stops = false := by
  intro e he; simp only [List.mem_map] at he; obtain ⟨_, _, rfl⟩ := he; rfl
theorem noStop_md (J : Nat) : ∀ e ∈ (List.range J).map Eff.md, e.stops = false := by
  intro e he; simp only [List.mem_map] at he; obtain ⟨_, _, rfl⟩ := he; rfl
theorem noStop_read (J : Nat) : ∀ e ∈ (List.range J).map Eff.read, e.stops = false := by
  intro e he; simp only [List.mem_map] at he; obtain ⟨_, _, rfl⟩ := he; rfl
theorem noStop_compressOne (f : FileRef) : ∀ e ∈ compressOne f, e.stops = false := by
  intro e he; simp only [compressOne, List.mem_cons, List.not_mem_nil, or_false] at he
  rcases he with rfl | rfl | rfl | rfl <;> rfl
theorem noStop_compress (n : Nat) : ∀ e ∈ (List.range n).flatMap compShank, e.stops = false := by
  intro e he; simp only [List.mem_flatMap, compShank, List.mem_append] at he
  obtain ⟨i, _, h | h⟩ := he
  · exact noStop_compressOne _ e h
  · exact noStop_compressOne _ e h
theorem noStop_tail24 (cfg : Cfg) (ob : Obj) : ∀ e ∈ tail24 cfg ob, e.stops = false := by
  intro e he; simp only [tail24, List.mem_append] at he
  rcases he with h | h
  · split at h
    · exact noStop_compress _ e h
    · cases h
  · split at h
    · simp only [List.mem_cons, List.not_mem_nil, or_false] at h; subst h; rfl
    · cases h

theorem cut_verify24 (cfg : Cfg) (ob : Obj) (call : Call) :
    cut ((if ob.opts.postCheck then (List.range (verifyReads cfg call)).map Eff.read ++
        [if splitDiffers cfg call then Eff.assertFail else Eff.checked] else []) ++ tail24 cfg ob) = verify24 cfg ob call := by
  unfold verify24
  cases ob.opts.postCheck
  · simp only [Bool.false_eq_true, if_false, List.nil_append]
    exact cut_of_noStop _ (noStop_tail24 cfg ob)
  · simp only [if_true, List.append_assoc]
    rw [cut_append_of_noStop _ _ (noStop_read _)]
    cases splitDiffers cfg call
    · simp only [Bool.false_eq_true, if_false, List.cons_append, List.nil_append]
      rw [show (Eff.checked :: tail24 cfg ob) = [Eff.checked] ++ tail24 cfg ob from rfl,
        cut_append_of_noStop _ _ (by intro e he; simp at he; subst he; rfl), cut_of_noStop _ (noStop_tail24 cfg ob)]
    · simp only [if_true, List.cons_append, List.nil_append]
      rw [cut_stop _ _ rfl]

/-- **The effect list of `_process_NP24` in phases.** -/
theorem effects24_eq (cfg : Cfg) (ob : Obj) (call : Call) (s : Disk) :
    effects24 cfg ob call s =
      if alreadyExists24 cfg.n call.overwrite s then [.prepare] else
      .prepare :: ((List.range (2 * nproc cfg)).map Eff.split ++ ((List.range (2 * cfg.n)).map Eff.md ++ verify24 cfg ob call)) := by
  unfold effects24 steps24
  cases alreadyExists24 cfg.n call.overwrite s
  · simp only [Bool.false_eq_true, if_false, List.flatMap_cons, List.flatMap_append, expand24, List.flatMap_nil,
      List.nil_append, List.append_nil, List.singleton_append, List.cons_append]
    rw [List.flatMap_assoc]
    simp only [List.flatMap_cons, List.flatMap_nil, expand24, Bool.false_eq_true, if_false, if_true, List.append_nil,
      List.singleton_append]
    rw [splits_flat, metas_flat]
    have hA : List.flatMap (expand24 cfg call) (if ob.opts.postCheck = true then [Step.check] else []) =
        (if ob.opts.postCheck then (List.range (verifyReads cfg call)).map Eff.read ++
          [if splitDiffers cfg call then Eff.assertFail else Eff.checked] else []) := by
      cases ob.opts.postCheck <;> simp [expand24]
    have hBC : List.flatMap (expand24 cfg call) (if ob.opts.compress = true then [Step.compress] else []) ++
        List.flatMap (expand24 cfg call) (if ob.opts.deleteOriginal = true then [Step.delete] else []) = tail24 cfg ob := by
      unfold tail24
      cases ob.opts.compress <;> cases ob.opts.deleteOriginal <;> simp [expand24] <;> rfl
    rw [hA]
    simp only [List.append_assoc]
    rw [hBC, ← cut_verify24]
    simp only [cut, Eff.stops, Bool.false_eq_true, if_false]
    rw [cut_append_of_noStop _ _ (noStop_split _), cut_append_of_noStop _ _ (noStop_md _)]
  · simp [expand24, cut]

/-! ### the history model's `process24` is this sequential semantics -/

theorem Reach.to {cfg call es x y y'} (h : Reach cfg call es x y) (e : y = y') : Reach cfg call es x y' := e ▸ h

/-- `_prepare_files_NP24` leaves every (re)prepared file empty: that is the state after zero `_split2shanks` calls -/
theorem windows24_zero_S1 (cfg : Cfg) (call : Call) (s : Disk) (hp : 0 < nproc cfg)
    (hae : alreadyExists24 cfg.n call.overwrite s = false) : windows24 cfg call 0 (S1 cfg call s) = S1 cfg call s := by
  apply Disk.ext' <;> try rfl
  intro i
  simp only [windows24, S1, prepare24, onShanks_shanks]
  split
  · rename_i hi
    have hnp : ¬ nproc cfg ≤ 0 := by omega
    rcases (alreadyExists24_false_iff _ _ _).mp hae with how | hnone
    · cases hs : s.shanks i <;> simp [prepShank, how, openWb, written, hnp, apPrefixOk] <;> (cases call.corrupt <;> simp)
    · simp [hnone i hi, prepShank, openWb, written, hnp, apPrefixOk]; cases call.corrupt <;> simp
  · rfl

theorem st_prepare (cfg : Cfg) (ob : Obj) (call : Call) (s : Disk) :
    applyEff cfg call .prepare (s, ob) = (S1 cfg call s, O1 cfg ob call s) := rfl

theorem st_splits (cfg : Cfg) (call : Call) (s : Disk) (o : Obj) (j : Nat) (hp : 0 < nproc cfg)
    (hae : alreadyExists24 cfg.n call.overwrite s = false) :
    applyEffs cfg call ((List.range j).map Eff.split) (S1 cfg call s, o) = (S2 cfg call s j, o) := by
  rw [applyEffs_splits]
  by_cases hj : j = 0
  · subst hj; simp only [if_true, S2]; rw [windows24_zero_S1 cfg call s hp hae]
  · simp only [hj, if_false, S2]

theorem st_metas (cfg : Cfg) (call : Call) (s : Disk) (o : Obj) (m : Nat) :
    applyEffs cfg call ((List.range m).map Eff.md) (S2 cfg call s (2 * nproc cfg), o) = (S3 cfg call s m, o) := by
  rw [applyEffs_metas]; rfl

theorem st_compress (cfg : Cfg) (ob : Obj) (call : Call) (s : Disk) (o : Obj) (hc : ob.opts.compress = true) :
    applyEffs cfg call ((List.range cfg.n).flatMap compShank) (S3 cfg call s (2 * cfg.n), o) = (S4 cfg ob call s (2 * cfg.n), o) := by
  rw [applyEffs_compress_upto cfg call cfg.n (Nat.le_refl _), compDone_all]
  simp [S4, hc]

/-- the state of an interruption inside the `q`-th `compress_file` call is reached inside `compress_NP24` -/
theorem reach_compress (cfg : Cfg) (ob : Obj) (call : Call) (s : Disk) (o : Obj) (hc : ob.opts.compress = true) (q : Nat)
    (hq : q < 2 * cfg.n) :
    Reach cfg call ((List.range cfg.n).flatMap compShank) (S3 cfg call s (2 * cfg.n), o) (S4 cfg ob call s q, o) := by
  have hi : q / 2 < cfg.n := by omega
  refine Reach.rangeFlatMap compShank hi ?_
  rw [applyEffs_compress_upto cfg call (q / 2) (by omega)]
  have hS4 : S4 cfg ob call s q = compress24 cfg call q (S3 cfg call s (2 * cfg.n)) := by simp [S4, hc]
  rcases Nat.mod_two_eq_zero_or_one q with hpar | hpar
  · have hq2 : q = 2 * (q / 2) := by omega
    refine Reach.left _ ⟨[.stale (.shankAp (q / 2)), .tmp (.shankAp (q / 2))], ⟨[.publish (.shankAp (q / 2)), .unlinkBin (.shankAp (q / 2))], rfl⟩, ?_⟩
    rw [applyEffs_compressHalf, hS4]
    conv => rhs; rw [hq2]
    rw [compress24_even cfg call (q / 2) hi]
  · have hq2 : q = 2 * (q / 2) + 1 := by omega
    refine Reach.right _ ⟨[.stale (.shankLf (q / 2)), .tmp (.shankLf (q / 2))], ⟨[.publish (.shankLf (q / 2)), .unlinkBin (.shankLf (q / 2))], rfl⟩, ?_⟩
    rw [applyEffs_compressOne, applyEffs_compressHalf, hS4]
    conv => rhs; rw [hq2]
    rw [compress24_odd cfg call (q / 2) hi]
    simp only [dataOf]
    rw [comp_step_ap cfg call (q / 2) hi]

theorem O2_of_check (cfg : Cfg) (ob : Obj) (call : Call) (s : Disk) (h : ob.opts.postCheck = true) :
    { O1 cfg ob call s with checkCompleted := true } = O2 cfg ob call s := by simp [O2, h]
theorem O2_of_nocheck (cfg : Cfg) (ob : Obj) (call : Call) (s : Disk) (h : ob.opts.postCheck = false) :
    O1 cfg ob call s = O2 cfg ob call s := by simp [O2, O1, h]

/-- from the state after the metadata: everything `verify24` can reach that the history model names -/
theorem reach_verify24 (cfg : Cfg) (ob : Obj) (call : Call) (s : Disk) (hsd : ob.opts.postCheck = true → splitDiffers cfg call = false)
    {y : Disk × Obj}
    (h : Reach cfg call (tail24 cfg ob) (S3 cfg call s (2 * cfg.n), O2 cfg ob call s) y) :
    Reach cfg call (verify24 cfg ob call) (S3 cfg call s (2 * cfg.n), O1 cfg ob call s) y := by
  unfold verify24
  cases hpc : ob.opts.postCheck
  · simp only [Bool.false_eq_true, if_false]
    rw [O2_of_nocheck cfg ob call s hpc]; exact h
  · simp only [if_true, hsd hpc, Bool.false_eq_true, if_false]
    refine Reach.right _ ?_
    rw [applyEffs_reads]
    refine Reach.cons _ ?_
    simp only [applyEff]
    rw [O2_of_check cfg ob call s hpc]; exact h

/-- **Every outcome of the history model's `_process_NP24` -- completed, or interrupted at any of its named points -- is the
state after a prefix of the run's effect list.** -/
theorem process24_reach (cfg : Cfg) (hov : cfg.ov < cfg.w) (ob : Obj) (call : Call) (s : Disk) :
    Reach cfg call (effects24 cfg ob call s) (s, ob) ((process24 cfg ob call s).1, (process24 cfg ob call s).2.1) := by
  have hp := nproc_pos cfg hov
  have ex := process24_exit cfg ob call s
  generalize process24 cfg ob call s = r at ex
  rw [effects24_eq]
  cases ex with
  | alreadyExists h =>
    simp only [h, if_true]
    exact (Reach.all cfg call _ _).to rfl
  | atSplit h hj =>
    simp only [h, Bool.false_eq_true, if_false]
    refine Reach.cons _ (Reach.left _ ?_)
    rw [st_prepare]
    exact (Reach.rangeMap Eff.split (Nat.le_of_lt hj)).to (st_splits cfg call s _ _ hp h)
  | atMeta h hm =>
    simp only [h, Bool.false_eq_true, if_false]
    refine Reach.cons _ (Reach.right _ (Reach.left _ ?_))
    rw [st_prepare, st_splits cfg call s _ _ hp h]
    exact (Reach.rangeMap Eff.md (Nat.le_of_lt hm)).to (st_metas cfg call s _ _)
  | atVerify h _ _ =>
    simp only [h, Bool.false_eq_true, if_false]
    refine Reach.cons _ (Reach.right _ (Reach.right _ ?_))
    rw [st_prepare, st_splits cfg call s _ _ hp h, st_metas]
    exact Reach.start ..
  | verifyFails h _ _ =>
    simp only [h, Bool.false_eq_true, if_false]
    refine Reach.cons _ (Reach.right _ (Reach.right _ ?_))
    rw [st_prepare, st_splits cfg call s _ _ hp h, st_metas]
    exact Reach.start ..
  | atCompress h hsd hc hq =>
    simp only [h, Bool.false_eq_true, if_false]
    refine Reach.cons _ (Reach.right _ (Reach.right _ ?_))
    rw [st_prepare, st_splits cfg call s _ _ hp h, st_metas]
    refine reach_verify24 cfg ob call s hsd ?_
    unfold tail24
    simp only [hc, if_true]
    exact Reach.left _ (reach_compress cfg ob call s _ hc _ hq)
  | atDelete h hsd hdel _ =>
    simp only [h, Bool.false_eq_true, if_false]
    refine Reach.cons _ (Reach.right _ (Reach.right _ ?_))
    rw [st_prepare, st_splits cfg call s _ _ hp h, st_metas]
    refine reach_verify24 cfg ob call s hsd ?_
    unfold tail24
    refine Reach.left _ ?_
    cases hc : ob.opts.compress
    · simp only [Bool.false_eq_true, if_false]
      exact (Reach.start ..).to (by simp [S4, hc])
    · simp only [if_true]
      exact (Reach.all ..).to (st_compress cfg ob call s _ hc)
  | deleted h hcc hsd hdel =>
    simp only [h, Bool.false_eq_true, if_false]
    refine Reach.cons _ (Reach.right _ (Reach.right _ ?_))
    rw [st_prepare, st_splits cfg call s _ _ hp h, st_metas]
    refine reach_verify24 cfg ob call s hsd ?_
    unfold tail24
    simp only [hdel, if_true]
    refine Reach.right _ ?_
    have hst : applyEffs cfg call (if ob.opts.compress = true then List.flatMap compShank (List.range cfg.n) else [])
        (S3 cfg call s (2 * cfg.n), O2 cfg ob call s) = (S4 cfg ob call s (2 * cfg.n), O2 cfg ob call s) := by
      cases hc : ob.opts.compress
      · simp [applyEffs_nil, S4, hc]
      · simp only [if_true]; exact st_compress cfg ob call s _ hc
    rw [hst]
    refine (Reach.all ..).to ?_
    simp [applyEffs_cons, applyEffs_nil, applyEff, deleteGuard, O2, O1, hcc, hdel]
  | kept h hsd hk =>
    simp only [h, Bool.false_eq_true, if_false]
    refine Reach.cons _ (Reach.right _ (Reach.right _ ?_))
    rw [st_prepare, st_splits cfg call s _ _ hp h, st_metas]
    refine reach_verify24 cfg ob call s hsd ?_
    unfold tail24
    refine Reach.right _ ?_
    have hst : applyEffs cfg call (if ob.opts.compress = true then List.flatMap compShank (List.range cfg.n) else [])
        (S3 cfg call s (2 * cfg.n), O2 cfg ob call s) = (S4 cfg ob call s (2 * cfg.n), O2 cfg ob call s) := by
      cases hc : ob.opts.compress
      · simp [applyEffs_nil, S4, hc]
      · simp only [if_true]; exact st_compress cfg ob call s _ hc
    rw [hst]
    refine (Reach.all ..).to ?_
    cases hdel : ob.opts.deleteOriginal
    · simp [applyEffs_nil]
    · rcases hk with hk | hk
      · simp [applyEffs_cons, applyEffs_nil, applyEff, deleteGuard, O2, O1, hk]
      · simp [hdel] at hk

theorem finish_of_noStop (es : List Eff) (early : Bool) (h : ∀ e ∈ es, e.stops = false) :
    finish es early = .ret (if early then 0 else 1) := by
  unfold finish
  cases hl : es.getLast? with
  | none => rfl
  | some e => simp [h e (List.mem_of_getLast? hl)]

theorem finish_stop (es : List Eff) (e : Eff) (early : Bool) (h : e.stops = true) :
    finish (es ++ [e]) early = .raised e.error := by
  simp [finish, h]

theorem applyEffs_tail24 (cfg : Cfg) (ob : Obj) (call : Call) (s : Disk) :
    applyEffs cfg call (tail24 cfg ob) (S3 cfg call s (2 * cfg.n), O2 cfg ob call s) =
      (if deleteGuard (O2 cfg ob call s).checkCompleted ob.opts.deleteOriginal
        then { S4 cfg ob call s (2 * cfg.n) with orig := .absent } else S4 cfg ob call s (2 * cfg.n), O2 cfg ob call s) := by
  unfold tail24
  rw [applyEffs_append]
  have hst : applyEffs cfg call (if ob.opts.compress = true then List.flatMap compShank (List.range cfg.n) else [])
      (S3 cfg call s (2 * cfg.n), O2 cfg ob call s) = (S4 cfg ob call s (2 * cfg.n), O2 cfg ob call s) := by
    cases hc : ob.opts.compress
    · simp [applyEffs_nil, S4, hc]
    · simp only [if_true]; exact st_compress cfg ob call s _ hc
  rw [hst]
  cases hdel : ob.opts.deleteOriginal
  · simp [applyEffs_nil, deleteGuard]
  · simp only [if_true, applyEffs_cons, applyEffs_nil, applyEff]
    have : (O2 cfg ob call s).opts.deleteOriginal = true := hdel
    simp only [this]
    split <;> rfl

/-- **An uninterrupted `_process_NP24` of the history model is exactly the whole effect list, applied in order**, and its
result is what the list ends with. -/
theorem process24_uninterrupted (cfg : Cfg) (hov : cfg.ov < cfg.w) (ob : Obj) (call : Call) (s : Disk)
    (hi : call.interrupt = none) :
    applyEffs cfg call (effects24 cfg ob call s) (s, ob) = ((process24 cfg ob call s).1, (process24 cfg ob call s).2.1) ∧
    (process24 cfg ob call s).2.2 = finish (effects24 cfg ob call s) (alreadyExists24 cfg.n call.overwrite s) := by
  have hp := nproc_pos cfg hov
  have ex := process24_exit cfg ob call s
  generalize process24 cfg ob call s = r at ex
  rw [effects24_eq]
  have full : ∀ (h : alreadyExists24 cfg.n call.overwrite s = false) (hsd : ob.opts.postCheck = true → splitDiffers cfg call = false),
      applyEffs cfg call (.prepare :: ((List.range (2 * nproc cfg)).map Eff.split ++ ((List.range (2 * cfg.n)).map Eff.md ++ verify24 cfg ob call))) (s, ob)
        = applyEffs cfg call (tail24 cfg ob) (S3 cfg call s (2 * cfg.n), O2 cfg ob call s) ∧
      finish (.prepare :: ((List.range (2 * nproc cfg)).map Eff.split ++ ((List.range (2 * cfg.n)).map Eff.md ++ verify24 cfg ob call))) false = .ret 1 := by
    intro h hsd
    constructor
    · rw [applyEffs_cons, applyEffs_append, applyEffs_append, st_prepare, st_splits cfg call s _ _ hp h, st_metas]
      unfold verify24
      cases hpc : ob.opts.postCheck
      · simp only [Bool.false_eq_true, if_false]; rw [O2_of_nocheck cfg ob call s hpc]
      · simp only [if_true, hsd hpc, Bool.false_eq_true, if_false]
        rw [applyEffs_append, applyEffs_reads, applyEffs_cons]
        simp only [applyEff]
        rw [O2_of_check cfg ob call s hpc]
    · refine finish_of_noStop _ _ ?_
      intro e he
      simp only [List.mem_cons, List.mem_append] at he
      rcases he with rfl | he | he | he
      · rfl
      · exact noStop_split _ e he
      · exact noStop_md _ e he
      · unfold verify24 at he
        cases hpc : ob.opts.postCheck
        · simp only [hpc, Bool.false_eq_true, if_false] at he; exact noStop_tail24 cfg ob e he
        · simp only [hpc, if_true, hsd hpc, Bool.false_eq_true, if_false, List.mem_append, List.mem_cons] at he
          rcases he with he | rfl | he
          · exact noStop_read _ e he
          · rfl
          · exact noStop_tail24 cfg ob e he
  cases ex with
  | alreadyExists h =>
    simp only [h, if_true]
    exact ⟨rfl, rfl⟩
  | atSplit _ h => simp [hi] at h
  | atMeta _ h => simp [hi] at h
  | atVerify _ _ h => simp [hi] at h
  | atCompress _ _ _ h => simp [hi] at h
  | atDelete _ _ _ h => simp [hi] at h
  | verifyFails h hpc hsd =>
    simp only [h, Bool.false_eq_true, if_false]
    constructor
    · rw [applyEffs_cons, applyEffs_append, applyEffs_append, st_prepare, st_splits cfg call s _ _ hp h, st_metas]
      simp only [verify24, hpc, hsd, if_true]
      rw [applyEffs_append, applyEffs_reads]
      rfl
    · simp only [verify24, hpc, hsd, if_true]
      rw [show Eff.prepare :: (List.map Eff.split (List.range (2 * nproc cfg)) ++ (List.map Eff.md (List.range (2 * cfg.n)) ++
          (List.map Eff.read (List.range (verifyReads cfg call)) ++ [Eff.assertFail]))) =
          (Eff.prepare :: (List.map Eff.split (List.range (2 * nproc cfg)) ++ (List.map Eff.md (List.range (2 * cfg.n)) ++
          List.map Eff.read (List.range (verifyReads cfg call))))) ++ [Eff.assertFail] from by simp]
      rw [finish_stop _ _ _ rfl]; rfl
  | deleted h hcc hsd hdel =>
    simp only [h, Bool.false_eq_true, if_false]
    obtain ⟨f1, f2⟩ := full h hsd
    refine ⟨?_, f2.symm⟩
    rw [f1, applyEffs_tail24]
    simp [deleteGuard, O2, O1, hcc, hdel]
  | kept h hsd hk =>
    simp only [h, Bool.false_eq_true, if_false]
    obtain ⟨f1, f2⟩ := full h hsd
    refine ⟨?_, f2.symm⟩
    rw [f1, applyEffs_tail24]
    rcases hk with hk | hk <;> simp [deleteGuard, O2, O1, hk]

/-- a run that is not cut short by its own verification returns 1 -/
theorem finish_effects24_ok (cfg : Cfg) (ob : Obj) (call : Call) (s : Disk) (h : alreadyExists24 cfg.n call.overwrite s = false)
    (hsd : ob.opts.postCheck = true → splitDiffers cfg call = false) :
    finish (effects24 cfg ob call s) false = .ret 1 := by
  rw [effects24_eq]
  simp only [h, Bool.false_eq_true, if_false]
  refine finish_of_noStop _ _ ?_
  intro e he
  simp only [List.mem_cons, List.mem_append] at he
  rcases he with rfl | he | he | he
  · rfl
  · exact noStop_split _ e he
  · exact noStop_md _ e he
  · unfold verify24 at he
    cases hpc : ob.opts.postCheck
    · simp only [hpc, Bool.false_eq_true, if_false] at he; exact noStop_tail24 cfg ob e he
    · simp only [hpc, if_true, hsd hpc, Bool.false_eq_true, if_false, List.mem_append, List.mem_cons] at he
      rcases he with he | rfl | he
      · exact noStop_read _ e he
      · rfl
      · exact noStop_tail24 cfg ob e he

/-! ### NP2.1 -/

/-- the effects of `compress_NP21` -/
def comp21 (cfg : Cfg) (ob : Obj) : List Eff :=
  if ob.opts.compress then
    (if ob.srForm = .bin then (if cfg.trailing then [.origFail] else .tmpOrig :: .replaceOrig :: compressOne .lf21)
     else compressOne .lf21)
  else []

theorem noStop_split21 (J : Nat) : ∀ e ∈ (List.range J).map Eff.split21, e.stops = false := by
  intro e he; simp only [List.mem_map] at he; obtain ⟨_, _, rfl⟩ := he; rfl

/-- **The effect list of `_process_NP21` in phases.** -/
theorem effects21_eq (cfg : Cfg) (ob : Obj) (call : Call) (s : Disk) :
    effects21 cfg ob call s =
      if alreadyExists21 call.overwrite s then [.skipLf] else
      .openLf :: ((List.range (nproc cfg)).map Eff.split21 ++ (.md21 :: comp21 cfg ob)) := by
  unfold effects21 steps21
  cases alreadyExists21 call.overwrite s
  · simp only [Bool.false_eq_true, if_false, List.flatMap_cons, List.flatMap_append, expand21, List.flatMap_nil,
      List.nil_append, List.append_nil, List.singleton_append, List.cons_append, List.flatMap_map]
    have hs : List.flatMap (fun a => [Eff.split21 a]) (List.range (nproc cfg)) = (List.range (nproc cfg)).map Eff.split21 := by
      induction (List.range (nproc cfg)) with
      | nil => rfl
      | cons a t ih => simp only [List.flatMap_cons, List.map_cons, ih]; rfl
    rw [hs]
    simp only [cut, Eff.stops, Bool.false_eq_true, if_false, List.append_assoc, List.cons_append, List.nil_append]
    rw [cut_append_of_noStop _ _ (noStop_split21 _)]
    simp only [cut, Eff.stops, Bool.false_eq_true, if_false]
    congr 3
    unfold comp21
    cases ob.opts.compress
    · simp [cut]
    · simp only [if_true, List.flatMap_cons, List.flatMap_nil, List.append_nil, expand21]
      by_cases hb : ob.srForm = .bin
      · cases cfg.trailing
        · simp only [hb, if_true, Bool.false_eq_true, if_false, List.cons_append, List.nil_append]
          exact cut_of_noStop _ (by
            intro e he
            simp only [List.mem_cons] at he
            rcases he with rfl | rfl | he
            · rfl
            · rfl
            · exact noStop_compressOne _ e he)
        · simp [hb, cut, Eff.stops]
      · simp only [hb, if_false, List.nil_append]
        exact cut_of_noStop _ (noStop_compressOne _)
  · simp [expand21, cut, Eff.stops]

theorem P1_of_new (ob : Obj) (call : Call) (s : Disk) (h : alreadyExists21 call.overwrite s = false) :
    P1 ob call s = { ob with alreadyExists := false } := by
  unfold alreadyExists21 at h; simp [P1, h]

theorem st_open21 (cfg : Cfg) (ob : Obj) (call : Call) (s : Disk) (hp : 0 < nproc cfg)
    (h : alreadyExists21 call.overwrite s = false) :
    applyEff cfg call .openLf (s, ob) = (T2 cfg ob s 0, P1 ob call s) := by
  have hnp : ¬ nproc cfg ≤ 0 := by omega
  simp [applyEff, P1_of_new ob call s h, T2, openWb, written, hnp]

theorem st_splits21 (cfg : Cfg) (ob : Obj) (s : Disk) (call : Call) (o : Obj) (j : Nat) :
    applyEffs cfg call ((List.range j).map Eff.split21) (T2 cfg ob s 0, o) = (T2 cfg ob s j, o) := by
  induction j with
  | zero => rfl
  | succ m ih =>
    rw [List.range_succ, List.map_append, applyEffs_append, ih]
    simp [applyEffs_cons, applyEffs_nil, applyEff, T2]

theorem T3_zero (cfg : Cfg) (ob : Obj) (s : Disk) : T3 cfg ob s 0 = T2 cfg ob s (nproc cfg) := by
  simp [T3]

theorem st_md21 (cfg : Cfg) (ob : Obj) (call : Call) (s : Disk) (o : Obj) :
    applyEff cfg call .md21 (T2 cfg ob s (nproc cfg), o) = (T3 cfg ob s 1, o) := by
  simp [applyEff, T3]

/-- `compress_NP21`, call by call, in the history model's closed form -/
theorem T5_bin_0 (cfg : Cfg) (ob : Obj) (call : Call) (s : Disk) (hb : ob.srForm = .bin) :
    T5 cfg ob call s 0 = { T3 cfg ob s 1 with otmp := true } := by
  simp [T5, hb, ncall21, compressFileSet]
theorem T5_bin_1 (cfg : Cfg) (ob : Obj) (call : Call) (s : Disk) (hb : ob.srForm = .bin) :
    T5 cfg ob call s 1 = onFile .lf21 (finTmp call.overwrite) { T3 cfg ob s 1 with orig := .cbin, och := true, otmp := false } := by
  simp [T5, hb, ncall21, compressFileSet, onFile, finTmp]
theorem T5_bin_2 (cfg : Cfg) (ob : Obj) (call : Call) (s : Disk) (hb : ob.srForm = .bin) :
    T5 cfg ob call s 2 = onFile .lf21 (finDone (.good cfg.c)) { T3 cfg ob s 1 with orig := .cbin, och := true, otmp := false } := by
  simp [T5, hb, ncall21, compressFileSet, onFile, finDone]
theorem T5_cbin_0 (cfg : Cfg) (ob : Obj) (call : Call) (s : Disk) (hb : ob.srForm ≠ .bin) :
    T5 cfg ob call s 0 = onFile .lf21 (finTmp call.overwrite) (T3 cfg ob s 1) := by
  simp [T5, hb, ncall21, compressFileSet, onFile, finTmp]
theorem T5_cbin_1 (cfg : Cfg) (ob : Obj) (call : Call) (s : Disk) (hb : ob.srForm ≠ .bin) :
    T5 cfg ob call s 1 = onFile .lf21 (finDone (.good cfg.c)) (T3 cfg ob s 1) := by
  simp [T5, hb, ncall21, compressFileSet, onFile, finDone]

/-- the states `compress_NP21` passes, as the history model names them (`q` completed `compress_file` calls) -/
theorem reach_comp21 (cfg : Cfg) (ob : Obj) (call : Call) (s : Disk) (hc : ob.opts.compress = true)
    (htr : cfg.trailing = false) (q : Nat) (hq : q ≤ ncall21 ob) :
    Reach cfg call (comp21 cfg ob) (T3 cfg ob s 1, P1 ob call s) (T5 cfg ob call s q, P2 ob call s q) := by
  unfold comp21
  simp only [hc, if_true, htr, Bool.false_eq_true, if_false]
  by_cases hb : ob.srForm = .bin
  · simp only [hb, if_true]
    have hn : ncall21 ob = 2 := by simp [ncall21, hb]
    have : q = 0 ∨ q = 1 ∨ q = 2 := by omega
    rcases this with rfl | rfl | rfl
    · refine ⟨[.tmpOrig], ⟨_, rfl⟩, ?_⟩
      rw [T5_bin_0 cfg ob call s hb]; simp [applyEffs_cons, applyEffs_nil, applyEff, P2]
    · refine Reach.cons _ (Reach.cons _ ⟨[.stale .lf21, .tmp .lf21], ⟨_, rfl⟩, ?_⟩)
      rw [applyEffs_compressHalf, T5_bin_1 cfg ob call s hb]; simp [applyEff, P2, hb]
    · refine Reach.cons _ (Reach.cons _ ((Reach.all ..).to ?_))
      rw [applyEffs_compressOne, T5_bin_2 cfg ob call s hb]; simp [applyEff, P2, hb, dataOf]
  · simp only [hb, if_false]
    have hn : ncall21 ob = 1 := by simp [ncall21, hb]
    have : q = 0 ∨ q = 1 := by omega
    rcases this with rfl | rfl
    · refine ⟨[.stale .lf21, .tmp .lf21], ⟨_, rfl⟩, ?_⟩
      rw [applyEffs_compressHalf, T5_cbin_0 cfg ob call s hb]; simp [P2, hb]
    · refine (Reach.all ..).to ?_
      rw [applyEffs_compressOne, T5_cbin_1 cfg ob call s hb]; simp [P2, hb, dataOf]

/-- **Every outcome of the history model's `_process_NP21` is the state after a prefix of the run's effect list** (an
original `.bin` without trailing partial frame: `compress_file` on a file mtscomp refuses never gets as far as the
`.cbin_tmp` the named interruption point `compress 0` presupposes). -/
theorem process21_reach (cfg : Cfg) (hov : cfg.ov < cfg.w) (htr : cfg.trailing = false) (ob : Obj) (call : Call) (s : Disk) :
    Reach cfg call (effects21 cfg ob call s) (s, ob) ((process21 cfg ob call s).1, (process21 cfg ob call s).2.1) := by
  have hp := nproc_pos cfg hov
  have ex := process21_exit cfg ob call s
  generalize process21 cfg ob call s = r at ex
  rw [effects21_eq]
  have hnew : ∀ (h : lfExists s = false ∨ call.overwrite = true), alreadyExists21 call.overwrite s = false := by
    intro h; unfold alreadyExists21; rcases h with h | h <;> simp [h]
  cases ex with
  | alreadyExists h1 h2 =>
    have : alreadyExists21 call.overwrite s = true := by simp [alreadyExists21, h1, h2]
    simp only [this, if_true]
    refine (Reach.all ..).to ?_
    simp [applyEffs_cons, applyEffs_nil, applyEff, P1, h1, h2]
  | atSplit h hj =>
    simp only [hnew h, Bool.false_eq_true, if_false]
    refine Reach.cons _ (Reach.left _ ?_)
    rw [st_open21 cfg ob call s hp (hnew h)]
    exact (Reach.rangeMap Eff.split21 (Nat.le_of_lt hj)).to (st_splits21 cfg ob s call _ _)
  | atMeta h _ =>
    simp only [hnew h, Bool.false_eq_true, if_false]
    refine Reach.cons _ (Reach.right _ ?_)
    rw [st_open21 cfg ob call s hp (hnew h), st_splits21, T3_zero]
    exact Reach.start ..
  | plain h hc =>
    simp only [hnew h, Bool.false_eq_true, if_false]
    refine Reach.cons _ (Reach.right _ (Reach.cons _ ?_))
    rw [st_open21 cfg ob call s hp (hnew h), st_splits21, st_md21]
    exact Reach.start ..
  | badSize h _ _ ht => simp [htr] at ht
  | atCompress h hc hq =>
    simp only [hnew h, Bool.false_eq_true, if_false]
    refine Reach.cons _ (Reach.right _ (Reach.cons _ ?_))
    rw [st_open21 cfg ob call s hp (hnew h), st_splits21, st_md21]
    exact reach_comp21 cfg ob call s hc htr _ (Nat.le_of_lt hq)
  | compressed h hc =>
    simp only [hnew h, Bool.false_eq_true, if_false]
    refine Reach.cons _ (Reach.right _ (Reach.cons _ ?_))
    rw [st_open21 cfg ob call s hp (hnew h), st_splits21, st_md21]
    exact reach_comp21 cfg ob call s hc htr _ (Nat.le_refl _)

theorem applyEffs_comp21 (cfg : Cfg) (ob : Obj) (call : Call) (s : Disk) (hc : ob.opts.compress = true)
    (htr : ¬ (ob.srForm = .bin ∧ cfg.trailing = true)) :
    applyEffs cfg call (comp21 cfg ob) (T3 cfg ob s 1, P1 ob call s) = (T5 cfg ob call s (ncall21 ob), P2 ob call s (ncall21 ob)) ∧
    ∀ e ∈ comp21 cfg ob, e.stops = false := by
  unfold comp21
  simp only [hc, if_true]
  by_cases hb : ob.srForm = .bin
  · have ht : cfg.trailing = false := by cases h : cfg.trailing <;> simp_all
    simp only [hb, if_true, ht, Bool.false_eq_true, if_false]
    have hn : ncall21 ob = 2 := by simp [ncall21, hb]
    constructor
    · rw [hn, applyEffs_cons, applyEffs_cons, applyEffs_compressOne, T5_bin_2 cfg ob call s hb]
      simp [applyEff, P2, hb, dataOf]
    · intro e he
      simp only [List.mem_cons] at he
      rcases he with rfl | rfl | he
      · rfl
      · rfl
      · exact noStop_compressOne _ e he
  · simp only [hb, if_false]
    have hn : ncall21 ob = 1 := by simp [ncall21, hb]
    constructor
    · rw [hn, applyEffs_compressOne, T5_cbin_1 cfg ob call s hb]; simp [P2, hb, dataOf]
    · exact noStop_compressOne _

/-- **An uninterrupted `_process_NP21` of the history model is exactly the whole effect list, applied in order**, and its result
is what the list ends with (the ValueError of mtscomp on an original with a trailing partial frame included). -/
theorem process21_uninterrupted (cfg : Cfg) (hov : cfg.ov < cfg.w) (ob : Obj) (call : Call) (s : Disk)
    (hi : call.interrupt = none) :
    applyEffs cfg call (effects21 cfg ob call s) (s, ob) = ((process21 cfg ob call s).1, (process21 cfg ob call s).2.1) ∧
    (process21 cfg ob call s).2.2 = finish (effects21 cfg ob call s) (alreadyExists21 call.overwrite s) := by
  have hp := nproc_pos cfg hov
  rw [effects21_eq]
  have hnew : ∀ (h : lfExists s = false ∨ call.overwrite = true), alreadyExists21 call.overwrite s = false := by
    intro h; unfold alreadyExists21; rcases h with h | h <;> simp [h]
  by_cases hbad : (lfExists s = false ∨ call.overwrite = true) ∧ ob.opts.compress = true ∧ ob.srForm = .bin ∧ cfg.trailing = true
  · obtain ⟨h, hc, hb, ht⟩ := hbad
    have hpr : process21 cfg ob call s = (T3 cfg ob s 1, P1 ob call s, .raised .valueError) := by
      have h1 : (lfExists s && !call.overwrite) = false := hnew h
      simp only [process21, h1, hi, stopAt_none, hc, hb, origCompressFails, ht, T3, T2, P1]
      simp
    rw [hpr]
    simp only [hnew h, Bool.false_eq_true, if_false]
    constructor
    · rw [applyEffs_cons, applyEffs_append, st_open21 cfg ob call s hp (hnew h), st_splits21, applyEffs_cons, st_md21]
      simp [comp21, hc, hb, ht, applyEffs_cons, applyEffs_nil, applyEff]
    · simp only [comp21, hc, hb, ht, if_true]
      rw [show Eff.openLf :: (List.map Eff.split21 (List.range (nproc cfg)) ++ [Eff.md21, Eff.origFail]) =
        (Eff.openLf :: (List.map Eff.split21 (List.range (nproc cfg)) ++ [Eff.md21])) ++ [Eff.origFail] from by simp]
      rw [finish_stop _ _ _ rfl]; rfl
  have ex := process21_exit cfg ob call s
  generalize process21 cfg ob call s = r at ex
  have mid : ∀ (h : lfExists s = false ∨ call.overwrite = true) (tl : List Eff),
      applyEffs cfg call (.openLf :: ((List.range (nproc cfg)).map Eff.split21 ++ (.md21 :: tl))) (s, ob) =
        applyEffs cfg call tl (T3 cfg ob s 1, P1 ob call s) := by
    intro h tl
    rw [applyEffs_cons, applyEffs_append, st_open21 cfg ob call s hp (hnew h), st_splits21, applyEffs_cons, st_md21]
  have fin : ∀ (tl : List Eff), (∀ e ∈ tl, e.stops = false) →
      finish (.openLf :: ((List.range (nproc cfg)).map Eff.split21 ++ (.md21 :: tl))) false = .ret 1 := by
    intro tl htl
    refine finish_of_noStop _ _ ?_
    intro e he
    simp only [List.mem_cons, List.mem_append] at he
    rcases he with rfl | he | rfl | he
    · rfl
    · exact noStop_split21 _ e he
    · rfl
    · exact htl e he
  cases ex with
  | alreadyExists h1 h2 =>
    have : alreadyExists21 call.overwrite s = true := by simp [alreadyExists21, h1, h2]
    simp only [this, if_true]
    refine ⟨?_, rfl⟩
    simp [applyEffs_cons, applyEffs_nil, applyEff, P1, h1, h2]
  | atSplit _ h => simp [hi] at h
  | atMeta _ h => simp [hi] at h
  | atCompress _ _ h => simp [hi] at h
  | badSize h hc hb ht => exact absurd ⟨h, hc, hb, ht⟩ hbad
  | plain h hc =>
    simp only [hnew h, Bool.false_eq_true, if_false]
    have hcomp : comp21 cfg ob = [] := by simp [comp21, hc]
    rw [hcomp]
    exact ⟨by rw [mid h]; rfl, (fin [] (by simp)).symm⟩
  | compressed h hc =>
    simp only [hnew h, Bool.false_eq_true, if_false]
    have htr : ¬ (ob.srForm = .bin ∧ cfg.trailing = true) := fun hx => hbad ⟨h, hc, hx.1, hx.2⟩
    obtain ⟨a1, a2⟩ := applyEffs_comp21 cfg ob call s hc htr
    exact ⟨by rw [mid h, a1], (fin _ a2).symm⟩

/-! ### what a prefix can do to the original -/

/-- the injected interruption is not an input of the effect semantics: it is represented by the choice of the prefix -/
theorem applyEff_interrupt (cfg : Cfg) (call : Call) (p : Option Point) (e : Eff) (x : Disk × Obj) :
    applyEff cfg { call with interrupt := p } e x = applyEff cfg call e x := by
  cases e <;> rfl

theorem applyEffs_interrupt (cfg : Cfg) (call : Call) (p : Option Point) (es : List Eff) (x : Disk × Obj) :
    applyEffs cfg { call with interrupt := p } es x = applyEffs cfg call es x := by
  induction es generalizing x with
  | nil => rfl
  | cons e t ih => rw [applyEffs_cons, applyEffs_cons, applyEff_interrupt, ih]

theorem effects24_interrupt (cfg : Cfg) (ob : Obj) (call : Call) (p : Option Point) (s : Disk) :
    effects24 cfg ob { call with interrupt := p } s = effects24 cfg ob call s := rfl

theorem effects21_interrupt (cfg : Cfg) (ob : Obj) (call : Call) (p : Option Point) (s : Disk) :
    effects21 cfg ob { call with interrupt := p } s = effects21 cfg ob call s := rfl

/-- only the guarded delete can make the original unreadable -/
theorem applyEff_keeps_origHolds (cfg : Cfg) (call : Call) (e : Eff) (he : e ≠ .delete) (x : Disk × Obj)
    (h : OrigHolds x.1) : OrigHolds (applyEff cfg call e x).1 := by
  cases e with
  | delete => exact absurd rfl he
  | stale f => cases f <;> exact h
  | tmp f => cases f <;> exact h
  | publish f => cases f <;> exact h
  | unlinkBin f => cases f <;> exact h
  | replaceOrig => rfl
  | _ => exact h

theorem applyEffs_keeps_origHolds (cfg : Cfg) (call : Call) (es : List Eff) (he : ∀ e ∈ es, e ≠ .delete) (x : Disk × Obj)
    (h : OrigHolds x.1) : OrigHolds (applyEffs cfg call es x).1 := by
  induction es generalizing x with
  | nil => exact h
  | cons e t ih =>
    rw [applyEffs_cons]
    exact ih (fun e' he' => he e' (List.mem_cons_of_mem _ he')) _
      (applyEff_keeps_origHolds cfg call e (he e (List.mem_cons_self ..)) x h)

theorem noDelete_compress (n : Nat) : ∀ e ∈ (List.range n).flatMap compShank, e ≠ .delete := by
  intro e he; simp only [List.mem_flatMap, compShank, compressOne, List.mem_append, List.mem_cons, List.not_mem_nil, or_false] at he
  obtain ⟨i, _, h⟩ := he
  rcases h with (h | h | h | h) | (h | h | h | h) <;> subst h <;> simp

/-- The effect list of an NP2.4 run is a delete-free list, followed by the delete exactly when `delete_original` is set and the
run gets that far (output did not exist, the verification -- if any -- passed). -/
theorem effects24_split (cfg : Cfg) (ob : Obj) (call : Call) (s : Disk) :
    ∃ A, (∀ e ∈ A, e ≠ .delete) ∧
      (effects24 cfg ob call s = A ∨
        (effects24 cfg ob call s = A ++ [.delete] ∧ alreadyExists24 cfg.n call.overwrite s = false ∧
          ob.opts.deleteOriginal = true ∧ (ob.opts.postCheck = true → splitDiffers cfg call = false ∧ Eff.checked ∈ A))) := by
  rw [effects24_eq]
  rcases Bool.eq_false_or_eq_true (alreadyExists24 cfg.n call.overwrite s) with hae | hae
  · rw [hae]; exact ⟨[.prepare], by simp, Or.inl (by simp)⟩
  rw [hae]
  simp only [Bool.false_eq_true, if_false]
  have hpre : ∀ e ∈ Eff.prepare :: ((List.range (2 * nproc cfg)).map Eff.split ++ (List.range (2 * cfg.n)).map Eff.md), e ≠ .delete := by
    intro e he
    simp only [List.mem_cons, List.mem_append, List.mem_map] at he
    rcases he with rfl | ⟨_, _, rfl⟩ | ⟨_, _, rfl⟩ <;> simp
  have hC : ∀ e ∈ (if ob.opts.compress = true then (List.range cfg.n).flatMap compShank else []), e ≠ .delete := by
    intro e he; split at he
    · exact noDelete_compress _ e he
    · cases he
  have hR : ∀ e ∈ (List.range (verifyReads cfg call)).map Eff.read, e ≠ .delete := by
    intro e he; simp only [List.mem_map] at he; obtain ⟨_, _, rfl⟩ := he; simp
  unfold verify24 tail24
  cases hpc : ob.opts.postCheck <;> cases hdl : ob.opts.deleteOriginal
  · refine ⟨_, ?_, Or.inl rfl⟩
    intro e he
    simp only [Bool.false_eq_true, if_false, List.append_nil, List.mem_cons, List.mem_append] at he
    rcases he with rfl | he | he | he
    · simp
    · exact hpre e (by simp [he])
    · exact hpre e (by simp [he])
    · exact hC e he
  · refine ⟨Eff.prepare :: ((List.range (2 * nproc cfg)).map Eff.split ++ ((List.range (2 * cfg.n)).map Eff.md ++
        (if ob.opts.compress = true then (List.range cfg.n).flatMap compShank else []))), ?_, Or.inr ⟨by simp, by simp, by simp, by simp⟩⟩
    intro e he
    simp only [List.mem_cons, List.mem_append] at he
    rcases he with rfl | he | he | he
    · simp
    · exact hpre e (by simp [he])
    · exact hpre e (by simp [he])
    · exact hC e he
  · cases hsd : splitDiffers cfg call
    · refine ⟨_, ?_, Or.inl rfl⟩
      intro e he
      simp only [if_true, Bool.false_eq_true, if_false, List.append_nil, List.mem_cons, List.mem_append] at he
      rcases he with rfl | he | he | he | rfl | he
      · simp
      · exact hpre e (by simp [he])
      · exact hpre e (by simp [he])
      · exact hR e he
      · simp
      · exact hC e he
    · refine ⟨_, ?_, Or.inl rfl⟩
      intro e he
      simp only [if_true, List.mem_cons, List.mem_append, List.not_mem_nil, or_false] at he
      rcases he with rfl | he | he | he | rfl
      · simp
      · exact hpre e (by simp [he])
      · exact hpre e (by simp [he])
      · exact hR e he
      · simp
  · cases hsd : splitDiffers cfg call
    · refine ⟨Eff.prepare :: ((List.range (2 * nproc cfg)).map Eff.split ++ ((List.range (2 * cfg.n)).map Eff.md ++
          ((List.range (verifyReads cfg call)).map Eff.read ++ (Eff.checked ::
            (if ob.opts.compress = true then (List.range cfg.n).flatMap compShank else []))))), ?_,
          Or.inr ⟨by simp, by simp, by simp, fun _ => ⟨by simp, by simp⟩⟩⟩
      intro e he
      simp only [List.mem_cons, List.mem_append] at he
      rcases he with rfl | he | he | he | rfl | he
      · simp
      · exact hpre e (by simp [he])
      · exact hpre e (by simp [he])
      · exact hR e he
      · simp
      · exact hC e he
    · refine ⟨_, ?_, Or.inl rfl⟩
      intro e he
      simp only [if_true, List.mem_cons, List.mem_append, List.not_mem_nil, or_false] at he
      rcases he with rfl | he | he | he | rfl
      · simp
      · exact hpre e (by simp [he])
      · exact hpre e (by simp [he])
      · exact hR e he
      · simp

theorem noDelete_effects21 (cfg : Cfg) (ob : Obj) (call : Call) (s : Disk) : ∀ e ∈ effects21 cfg ob call s, e ≠ .delete := by
  rw [effects21_eq]
  intro e he
  split at he
  · simp only [List.mem_cons, List.not_mem_nil, or_false] at he; subst he; simp
  · simp only [List.mem_cons, List.mem_append, List.mem_map] at he
    rcases he with rfl | ⟨_, _, rfl⟩ | rfl | he
    · simp
    · simp
    · simp
    · unfold comp21 at he
      split at he
      · split at he
        · split at he
          · simp only [List.mem_cons, List.not_mem_nil, or_false] at he; subst he; simp
          · simp only [compressOne, List.mem_cons, List.not_mem_nil, or_false] at he
            rcases he with h | h | h | h | h | h <;> subst h <;> simp
        · simp only [compressOne, List.mem_cons, List.not_mem_nil, or_false] at he
          rcases he with h | h | h | h <;> subst h <;> simp
      · cases he

end IblVerif.Converter
