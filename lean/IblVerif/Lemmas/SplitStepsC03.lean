/-
C03 helper lemmas (round h): the steps of the AP window loop write `keptAll`; the first token of the channel-subset string of a
list with at least two members is a range; the rendered text of a token list that starts with a range contains ':'.
-/
import IblVerif.Model.Split

namespace IblVerif.Split
open IblVerif.Window

/-- the rows appended by the window steps are `keptFrom` over the same windows -/
theorem apAppended_windows (w taper nwin napch isync : Nat) (tail : List ApStep)
    (htail : ∀ iw, apAppended w taper nwin iw tail = []) :
    ∀ (ws : List (Nat × Nat)) (iw : Nat),
      apAppended w taper nwin iw (ws.flatMap (apWindow napch isync) ++ tail) = keptFrom w taper nwin iw ws := by
  intro ws
  induction ws with
  | nil => intro iw; simpa [keptFrom] using htail iw
  | cons fl rest ih =>
    intro iw
    simp only [List.flatMap_cons, apWindow, List.cons_append, List.nil_append, apAppended, keptFrom]
    rw [ih (iw + 1)]

/-- the steps of the AP half of `_process_NP24` append exactly `keptAll` -/
theorem apSteps_rows (ns w ov taper napch isync : Nat) :
    apAppended w taper (nwin ns w ov) 0 (apSteps ns w ov napch isync) = keptAll ns w ov taper := by
  unfold apSteps keptAll
  simp only [apAppended]
  exact apAppended_windows w taper _ napch isync _ (by intro iw; simp [apAppended]) _ 0

/-- the first run starts with the first element -/
theorem runs_head (a : Nat) (tl : List Nat) : ∃ r rs, runs (a :: tl) = (a :: r) :: rs := by
  cases tl with
  | nil => exact ⟨[], [], rfl⟩
  | cons b rest =>
    unfold runs
    by_cases h : b = a + 1
    · simp only [h, if_true]
      cases hr : runs ((a + 1) :: rest) with
      | nil => exact ⟨[], [], rfl⟩
      | cons r rs => exact ⟨r, rs, rfl⟩
    · simp only [h, if_false]
      exact ⟨[], _, rfl⟩

/-- **two or more channels: the first token is a range** (`chn_grps[0] = 0 < len(chns) - 1`) -/
theorem subsetToks_head_range (a b : Nat) (rest : List Nat) :
    ∃ e ts, subsetToks (a :: b :: rest) = .ok (Grp.range a e :: ts) := by
  obtain ⟨r, rs, hr⟩ := runs_head a (b :: rest)
  refine ⟨(a :: r).getLast (by simp), toksFrom (a :: b :: rest).length (0 + (r.length + 1)) rs, ?_⟩
  unfold subsetToks
  rw [if_neg (by simp), hr]
  simp [toksFrom]

/-- one channel: the only token is bare (`chn_grps[0] = 0 = len(chns) - 1`) -/
theorem subsetToks_single (a : Nat) : subsetToks [a] = .ok [Grp.single a] := by
  simp [subsetToks, runs, toksFrom]

/-- the text of a token list that starts with a range contains a colon -/
theorem render_range_has_colon (a e : Nat) (ts : List Grp) : ':' ∈ (renderToks (Grp.range a e :: ts)).toList := by
  cases ts with
  | nil => simp [renderToks, renderGrp, String.toList_append]
  | cons t ts => simp [renderToks, renderGrp, String.toList_append]

end IblVerif.Split
