/-
ADC tables (C08): the loop of `neuropixel.adc_shifts` evaluated by the kernel on the full probe
(`decide +kernel` over the complete table of NC = 384 channels, for both values of `adc_channels`), and the
arithmetic of the closed forms `adcOf` / `shiftOf` for ALL channel numbers.
-/
import IblVerif.Model.Adc

namespace IblVerif.Geometry
open IblVerif.Generated

deriving instance DecidableEq for Except

/-- Closed-form tables: entry `i` is `(shiftOf a i, adcOf a i)`. -/
def closedTable (a n : Nat) : List Nat × List Nat :=
  ((List.range n).map (shiftOf a), (List.range n).map (adcOf a))

set_option maxRecDepth 100000 in
theorem adcTableNP1_eq : adcTableNP1 = .ok (closedTable ADC_NP1_CHANNELS NC) := by decide +kernel

set_option maxRecDepth 100000 in
theorem adcTableNP2_eq : adcTableNP2 = .ok (closedTable ADC_NP2_CHANNELS NC) := by decide +kernel

theorem adcShiftsFull_eq (v : Version) : adcShiftsFull v = .ok (closedTable (adcParams v).1 NC) := by
  cases v <;> simp only [adcShiftsFull, adcParams, adcTableNP1_eq, adcTableNP2_eq]

theorem take_map_range {α} (f : Nat → α) (n k : Nat) :
    ((List.range n).map f).take k = (List.range (min k n)).map f := by
  rw [← List.map_take, List.take_range]

/-- `adc_shifts(version, nc)` in closed form: entry `i < min nc NC` is `(shiftOf a i, adcOf a i)`. -/
theorem adcShifts_eq (v : Version) (nc : Nat) :
    adcShifts v nc = .ok (((List.range (min nc NC)).map (shiftOf (adcParams v).1)).map Int.ofNat,
                          ((List.range (min nc NC)).map (adcOf (adcParams v).1)).map Int.ofNat) := by
  simp only [adcShifts, adcShiftsFull_eq, closedTable, take_map_range]

/-- Channel served by ADC `g` at sampling rank `s`. -/
def chanOf (a g s : Nat) : Nat := g / 2 * (a * 2) + s * 2 + g % 2

theorem adcOf_chanOf (v : Version) (g s : Nat) (hs : s < (adcParams v).1) :
    adcOf (adcParams v).1 (chanOf (adcParams v).1 g s) = g ∧
    shiftOf (adcParams v).1 (chanOf (adcParams v).1 g s) = s := by
  cases v <;>
    simp only [adcParams, ADC_NP1_CHANNELS, ADC_NP2_CHANNELS, adcOf, shiftOf, chanOf] at hs ⊢ <;>
    omega

theorem chanOf_adcOf (v : Version) (i : Nat) :
    chanOf (adcParams v).1 (adcOf (adcParams v).1 i) (shiftOf (adcParams v).1 i) = i ∧
    shiftOf (adcParams v).1 i < (adcParams v).1 := by
  cases v <;>
    simp only [adcParams, ADC_NP1_CHANNELS, ADC_NP2_CHANNELS, adcOf, shiftOf, chanOf] <;>
    omega

/-- On the probe (`i < NC`) the ADC numbers are `< NC / adc_channels`, and conversely. -/
theorem adcOf_lt_iff (v : Version) (i : Nat) :
    adcOf (adcParams v).1 i < NC / (adcParams v).1 ↔ i < NC := by
  cases v <;>
    simp only [adcParams, ADC_NP1_CHANNELS, ADC_NP2_CHANNELS, NC, adcOf] <;>
    omega

end IblVerif.Geometry
