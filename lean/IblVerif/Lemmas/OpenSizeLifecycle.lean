/-
Helper lemmas for the round-h part of C11 (core Lean only): re-opening an existing reader object (`openBinAt`, `reopen`),
growth of the file, the steps of `open` against the value model, the constructor without meta data.
-/
import IblVerif.Lemmas.OpenSize
import IblVerif.Model.OpenSizeLifecycle

namespace IblVerif.OpenSize

variable {T : Type}

theorem openBinAt_self (A : Arith T) (k : Kind) (h : Hdr T) (itemsize bytes : Nat) :
    openBinAt A k h itemsize bytes bytes = openBin A k h itemsize bytes := rfl

/-- More bytes never expose fewer frames. -/
theorem frames_mono (b b' nc itemsize : Nat) (h : b ≤ b') :
    framesOnDisk b nc itemsize ≤ framesOnDisk b' nc itemsize := by
  unfold framesOnDisk
  exact Nat.div_le_div_right h

/-- `m` more complete frames on disk (whatever trailing bytes there were) are exactly `m` more exposed frames. -/
theorem frames_add_mul (b m nc itemsize : Nat) (hnc : 0 < nc) (hsz : 0 < itemsize) :
    framesOnDisk (b + m * (itemsize * nc)) nc itemsize = framesOnDisk b nc itemsize + m := by
  unfold framesOnDisk
  exact Nat.add_mul_div_right b m (Nat.mul_pos hsz hnc)

theorem row_append (file extra : List Int) (nc i : Nat) (h : (i + 1) * nc ≤ file.length) :
    row (file ++ extra) nc i = row file nc i := by
  have h1 : i * nc ≤ file.length := by
    rw [Nat.add_mul, Nat.one_mul] at h; omega
  have h2 : nc ≤ (file.drop (i * nc)).length := by
    rw [List.length_drop, Nat.add_mul, Nat.one_mul] at *; omega
  unfold row
  rw [List.drop_append_of_le_length h1, List.take_append_of_le_length h2]

/-- Appending to the file does not change the frames that were already complete. -/
theorem exposed_append (file extra : List Int) (rows nc : Nat) (h : rows * nc ≤ file.length) :
    exposed (file ++ extra) rows nc = exposed file rows nc := by
  unfold exposed
  apply List.map_congr_left
  intro i hi
  rw [List.mem_range] at hi
  apply row_append
  have : (i + 1) * nc ≤ rows * nc := Nat.mul_le_mul_right nc hi
  omega

/-- `open()` of an existing `OnlineReader` object whose `self.nbytes` is whatever it was at construction. -/
theorem openBinAt_online_meta (A : Arith T) (nc : Nat) (fs : T) (fts : Option T)
    (itemsize nbytes0 bytes : Nat)
    (hnc : 0 < nc) (hsz : 0 < itemsize) (hb : 0 < bytes) (hfs : A.isZero fs = false)
    (hon : OnlineFloor A nc itemsize bytes) :
    ∃ fts', openBinAt A .online (.ofMeta nc fs fts) itemsize nbytes0 bytes = .ok (.ofMeta nc fs fts') ∧
      nsOf A .online (.ofMeta nc fs fts') itemsize bytes = .ok (framesOnDisk bytes nc itemsize) ∧
      (nc * framesOnDisk bytes nc itemsize * itemsize ≠ nbytes0 →
        fts' = some (A.div (A.ofNat (framesOnDisk bytes nc itemsize)) fs)) := by
  have hns : onlineNs A nc itemsize bytes = .ok (framesOnDisk bytes nc itemsize) := by
    unfold onlineNs
    rw [if_neg (by omega)]
    unfold OnlineFloor at hon
    rw [hon]
  have hm : memmap bytes (framesOnDisk bytes nc itemsize) nc itemsize = .ok () :=
    memmap_ok _ _ _ _ hb (frames_mul_le bytes nc itemsize)
  have hpos : itemsize * nc ≠ 0 := Nat.pos_iff_ne_zero.mp (Nat.mul_pos hsz hnc)
  by_cases hc : nc * framesOnDisk bytes nc itemsize * itemsize = nbytes0
  · refine ⟨fts, ?_, ?_, fun h => absurd hc h⟩
    · simp [openBinAt, nsOf, Hdr.nc, hns, hc, hm, bind, Except.bind, pure, Except.pure]
    · simp [nsOf, Hdr.nc, hns]
  · refine ⟨some (A.div (A.ofNat (framesOnDisk bytes nc itemsize)) fs), ?_, ?_, fun _ => rfl⟩
    · simp [openBinAt, nsOf, Hdr.nc, Hdr.fs, Hdr.setFileTimeSecs, hns, hc, hpos, hfs, hm, bind, Except.bind,
        pure, Except.pure]
    · simp [nsOf, Hdr.nc, hns]

/-- The offline reader opened twice on the same file: the second `open` returns the header of the first. -/
theorem openBin_offline_idem (A : Arith T) (nc : Nat) (fs fts : T) (itemsize bytes : Nat)
    (hnc : 0 < nc) (hsz : 0 < itemsize) (hb : 0 < bytes) (hfs : A.isZero fs = false)
    (hrt : RoundTrip A fs (framesOnDisk bytes nc itemsize)) :
    ∃ fts', openBin A .offline (.ofMeta nc fs (some fts)) itemsize bytes = .ok (.ofMeta nc fs (some fts')) ∧
      openBin A .offline (.ofMeta nc fs (some fts')) itemsize bytes = .ok (.ofMeta nc fs (some fts')) ∧
      A.rint (A.mul fts' fs) = framesOnDisk bytes nc itemsize := by
  obtain ⟨fts', h1, hns1, hkeep, hrw⟩ := openBin_offline_meta A nc fs fts itemsize bytes hnc hsz hb hfs hrt
  obtain ⟨fts'', h2, _, hkeep2, hrw2⟩ := openBin_offline_meta A nc fs fts' itemsize bytes hnc hsz hb hfs hrt
  refine ⟨fts', h1, ?_, hns1⟩
  by_cases hc2 : nc * A.rint (A.mul fts' fs) * itemsize = bytes
  · rw [h2, hkeep2 hc2]
  · by_cases hc : nc * A.rint (A.mul fts fs) * itemsize = bytes
    · exact absurd (by rw [hkeep hc]; exact hc) hc2
    · rw [h2, hrw2 hc2, hrw hc]

/-- An offline reader that was consistent with its file at construction keeps its header when re-opened on a file that has
grown: `self.nbytes` is stale, the test does not fire, nothing is rewritten. -/
theorem reopen_offline_stale (A : Arith T) (nc : Nat) (fs fts : T) (itemsize b0 b1 : Nat)
    (hc : nc * A.rint (A.mul fts fs) * itemsize = b0) (hb0 : 0 < b0) (hle : b0 ≤ b1) :
    reopen A .offline (.ofMeta nc fs (some fts)) itemsize b0 b1 = .ok (.ofMeta nc fs (some fts)) := by
  have hm0 : memmap b0 (A.rint (A.mul fts fs)) nc itemsize = .ok () := by
    apply memmap_ok _ _ _ _ hb0
    rw [Nat.mul_comm (A.rint (A.mul fts fs)) nc]; omega
  have hm1 : memmap b1 (A.rint (A.mul fts fs)) nc itemsize = .ok () := by
    apply memmap_ok _ _ _ _ (by omega)
    rw [Nat.mul_comm (A.rint (A.mul fts fs)) nc]; omega
  simp [reopen, openBin, openBinAt, nsOf, Hdr.nsOffline, Hdr.nc, hc, hm0, hm1, bind, Except.bind, pure, Except.pure]

/-! ### steps of `open` -/

theorem mem_openBinSteps_set (hasMeta iw : Bool) (nc ns itemsize nbytes : Nat) :
    Step.setFileTimeSecs ∈ openBinSteps hasMeta iw nc ns itemsize nbytes ↔
      (nc * ns * itemsize ≠ nbytes ∧ hasMeta = true) := by
  unfold openBinSteps
  by_cases h : nc * ns * itemsize ≠ nbytes ∧ hasMeta = true
  · cases iw <;> simp [h]
  · simp [h]

/-! ### constructor without meta data -/

theorem inferFlat_768 (size : Nat) (h : size % 768 = 0) (hpos : 0 < size) :
    inferFlat size ⟨none, none, none, none⟩ = .ok ⟨384, size / 768, 30000, 0⟩ := by
  have hdiv : size / 2 / 384 = size / 768 := by rw [Nat.div_div_eq_div_mul]
  have hne : size / 768 ≠ 0 := by omega
  simp [inferFlat, inferArgs, h, orDefault, hdiv]

theorem inferFlat_770 (size : Nat) (h8 : size % 768 ≠ 0) (h : size % 770 = 0) :
    inferFlat size ⟨none, none, none, none⟩ = .ok ⟨385, size / 770, 30000, 1⟩ := by
  have hdiv : size / 2 / 385 = size / 770 := by rw [Nat.div_div_eq_div_mul]
  simp [inferFlat, inferArgs, h8, h, orDefault, hdiv]

theorem inferFlat_neither (size : Nat) (h8 : size % 768 ≠ 0) (h : size % 770 ≠ 0) :
    inferFlat size ⟨none, none, none, none⟩ = .error .assertion := by
  simp [inferFlat, inferArgs, h8, h]

end IblVerif.OpenSize
