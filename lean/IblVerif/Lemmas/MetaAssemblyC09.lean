/-
C09 — assembly of the volts-per-bit vectors: per-channel part followed by `nsync` ones, entry by entry, for every channel
count and every sync count INCLUDING 0 (helper lemmas for `Properties/C09.gain_assembly*`); and the shape of what
`read_meta_data` can return for a numeric value (never a one-element list).
-/
import IblVerif.Lemmas.MetaGains
import IblVerif.Lemmas.MetaDict

namespace IblVerif.Meta

/-- entry `i` of a float32 gain vector is `x` (the per-channel entries are float32 whenever there is at least one) -/
def Gains.IsAt (g : Gains) (i : Nat) (x : Float32) : Prop :=
  match g with
  | .f32 xs => xs[i]? = some x
  | .f64 _ => False

/-- entry `i` exists and is the number one (float32 or float64 according to the dtype NumPy gives the vector) -/
def Gains.IsOneAt (g : Gains) (i : Nat) : Prop :=
  match g with
  | .f32 xs => xs[i]? = some 1.0
  | .f64 xs => xs[i]? = some 1.0

theorem hstackSync_channel (col : List Float32) (nsy i : Nat) (h : i < col.length) :
    (hstackSync col nsy).IsAt i col[i] := by
  unfold hstackSync
  have hne : col.isEmpty = false := by cases col <;> simp_all
  simp only [hne, Bool.false_eq_true, if_false, Gains.IsAt]
  rw [List.getElem?_append_left h, List.getElem?_eq_getElem h]

theorem hstackSync_sync (col : List Float32) (nsy j : Nat) (h : j < nsy) :
    (hstackSync col nsy).IsOneAt (col.length + j) := by
  unfold hstackSync
  cases col with
  | nil => simp [Gains.IsOneAt, List.getElem?_replicate, h]
  | cons c r =>
    simp only [List.isEmpty_cons, Bool.false_eq_true, if_false, Gains.IsOneAt]
    rw [List.getElem?_append_right (by omega)]
    simp [List.getElem?_replicate, h]

/-- Python `v[-k:] = one` on a list of length `n` (the alternative way of writing the sync tail): for `k = 0` the slice
`v[-0:]` is the WHOLE list. -/
def resetTail {α} (xs : List α) (k : Nat) (one : α) : List α :=
  if k = 0 then List.replicate xs.length one
  else xs.take (xs.length - k) ++ List.replicate (min k xs.length) one

theorem resetTail_pos {α} (col : List α) (k : Nat) (one : α) (hk : 0 < k) :
    resetTail (col ++ List.replicate k one) k one = col ++ List.replicate k one := by
  unfold resetTail
  have : k ≠ 0 := by omega
  simp [this]

theorem resetTail_zero {α} (col : List α) (one : α) :
    resetTail (col ++ List.replicate 0 one) 0 one = List.replicate col.length one := by
  simp [resetTail]

/-! ### what `parseVal` can return -/

theorem parseVal_list_length (s : Str) (xs : List Num) (h : parseVal s = .ok (.list xs)) : xs.length ≠ 1 := by
  unfold parseVal at h
  split at h
  · split at h
    · simp at h
    · simp at h
    · rename_i ys hne _
      simp only [Except.ok.injEq, Val.list.injEq] at h
      subst h
      intro hl
      match ys, hl with
      | [y], _ => exact hne y rfl
  · simp at h

end IblVerif.Meta
