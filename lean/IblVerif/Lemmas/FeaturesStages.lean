/-
Helper lemmas for C14: the per-waveform stages `find_trough`, `find_tip`, `half_peak_point`,
`recovery_point` on one state.
-/
import IblVerif.Lemmas.FeaturesPeak

namespace IblVerif.Features

/-- `invert_peak_waveform` acts samplewise -/
def inv (pv x : ℚ) : ℚ := if 0 < pv then -1 * x else x

theorem invertRow_eq_map (r : Row) (pv : ℚ) : invertRow r pv = r.map (inv pv) := by
  unfold invertRow inv
  split
  · rfl
  · simp

theorem invertRow_getElem? (r : Row) (pv : ℚ) (t : Nat) : (invertRow r pv)[t]? = (r[t]?).map (inv pv) := by
  rw [invertRow_eq_map, List.getElem?_map]

theorem invertRow_length (r : Row) (pv : ℚ) : (invertRow r pv).length = r.length := by
  rw [invertRow_eq_map, List.length_map]

/-! ### `find_trough` -/

theorem findTroughRow_ok (s : St) (hp : s.p < s.arr.length) :
    ∃ tr m, findTroughRow s = .ok { s with tr := tr, trv := m * s.sgn } ∧ FirstMaxOn (s.p ≤ ·) s.arr tr m := by
  obtain ⟨j, m, hj, hspec⟩ := nanargmax_maskBy_ok (s.p ≤ ·) s.arr ⟨s.p, hp, le_refl _⟩
  refine ⟨j, m, ?_, hspec⟩
  unfold findTroughRow
  rw [postMask_eq, hj]
  simp [idx_ok hspec.2.1]

/-! ### `find_tip` -/

theorem findTipRow_ok (s : St) (hp0 : 0 < s.p) (hp : s.p ≤ s.arr.length) :
    ∃ tip m, findTipRow s = .ok ⟨s, tip, m * s.sgn⟩ ∧ FirstMaxOn (· < s.p) s.arr tip m := by
  obtain ⟨j, m, hj, hspec⟩ := nanargmax_maskBy_ok (· < s.p) s.arr ⟨0, by omega, hp0⟩
  refine ⟨j, m, ?_, hspec⟩
  unfold findTipRow
  rw [preMask_eq, hj]
  simp [idx_ok hspec.2.1]

theorem findTipRow_err (s : St) (hp0 : s.p = 0) : findTipRow s = .error .allNaN := by
  unfold findTipRow
  rw [preMask_eq, nanargmax_maskBy_err _ _ (by intro t _; omega)]
  rfl

/-! ### `half_peak_point` -/

theorem oneHot_reverse_getElem? (n j i : Nat) :
    (oneHot n j).reverse[i]? = if i < n then some (decide (n - 1 - i = j)) else none := by
  unfold oneHot
  by_cases hi : i < n
  · rw [List.getElem?_reverse (by simpa using hi)]
    have : n - 1 - i < n := by omega
    simp [hi, List.getElem?_range this]
    by_cases h : n - 1 - i = j <;> simp [h]
  · simp [hi]

theorem firstTrue_oneHot_reverse (n j : Nat) (hj : j < n) : firstTrue (oneHot n j).reverse = n - 1 - j := by
  apply firstTrue_unique
  · rw [oneHot_reverse_getElem?]
    have : n - 1 - j < n := by omega
    simp [this]; omega
  · intro t ht
    rw [oneHot_reverse_getElem?]
    have : t < n := by omega
    simp [this]; omega

/-- Boolean row `arr_sub > 0` under a mask -/
theorem map_gt0_maskBy_getElem? (keep : Nat → Prop) [DecidablePred keep] (a : Row) (t : Nat) :
    ((maskBy keep a).map gt0)[t]? = (a[t]?).map fun x => decide (keep t ∧ 0 < x) := by
  rw [List.getElem?_map, maskBy_getElem?]
  cases a[t]? with
  | none => rfl
  | some x =>
    by_cases hk : keep t <;> simp [hk, gt0]

/-- `indx_post`: first sample from the peak on with `arr_sub > 0`, or 0 -/
theorem halfPost_spec (a : Row) (p i : Nat) (hi : i = firstTrue ((postMask a p).map gt0)) :
    (∀ t x, p ≤ t → a[t]? = some x → 0 < x →
        p ≤ i ∧ (∃ y, a[i]? = some y ∧ 0 < y) ∧ ∀ u y, p ≤ u → u < i → a[u]? = some y → ¬ 0 < y) ∧
    ((∀ t x, p ≤ t → a[t]? = some x → ¬ 0 < x) → i = 0) := by
  have hget := map_gt0_maskBy_getElem? (p ≤ ·) a
  rw [postMask_eq] at hi
  constructor
  · intro t x hpt hx hpos
    have hex : ∃ i : Nat, ((maskBy (p ≤ ·) a).map gt0)[i]? = some true := by
      refine ⟨t, ?_⟩
      rw [hget, hx]; simp [hpt, hpos]
    obtain ⟨h1, h2⟩ := firstTrue_spec _ hex
    rw [← hi] at h1 h2
    rw [hget] at h1
    have hiy : ∃ y, a[i]? = some y := by
      cases hq : a[i]? with
      | none => rw [hq] at h1; simp at h1
      | some y => exact ⟨y, rfl⟩
    obtain ⟨y, hy⟩ := hiy
    rw [hy] at h1
    simp at h1
    refine ⟨h1.1, ⟨y, hy, h1.2⟩, ?_⟩
    intro u z hpu hui hz hzpos
    have := h2 u hui
    rw [hget, hz] at this
    simp at this
    exact absurd hzpos (not_lt.mpr (this hpu))
  · intro hno
    rw [hi]
    apply firstTrue_none
    intro t
    rw [hget]
    cases hq : a[t]? with
    | none => simp
    | some x =>
      simp
      intro hpt
      exact not_lt.mp (hno t x hpt hq)

/-- `indx_pre`: last sample before the peak with `arr_sub > 0`, or the last sample of the window -/
theorem halfPre_spec (a : Row) (p i j : Nat) (hne : 0 < a.length)
    (hj : j = firstTrue ((preMask a p).reverse.map gt0))
    (hi : i = firstTrue (oneHot (preMask a p).reverse.length j).reverse) :
    (∀ t x, t < p → a[t]? = some x → 0 < x →
        i < p ∧ (∃ y, a[i]? = some y ∧ 0 < y) ∧ ∀ u y, i < u → u < p → a[u]? = some y → ¬ 0 < y) ∧
    ((∀ t x, t < p → a[t]? = some x → ¬ 0 < x) → i = a.length - 1) := by
  have hlen : (preMask a p).reverse.length = a.length := by simp [preMask]
  rw [hlen] at hi
  have hget : ∀ t : Nat, ((preMask a p).reverse.map gt0)[t]? =
      if t < a.length then (a[a.length - 1 - t]?).map (fun x => decide (a.length - 1 - t < p ∧ 0 < x)) else none := by
    intro t
    rw [List.map_reverse]
    have hl2 : ((preMask a p).map gt0).length = a.length := by simp [preMask]
    by_cases ht : t < a.length
    · rw [List.getElem?_reverse (by rw [hl2]; exact ht)]
      simp only [ht, if_true]
      rw [hl2, preMask_eq, map_gt0_maskBy_getElem?]
    · simp only [ht, if_false]
      rw [List.getElem?_eq_none_iff]
      simp [preMask]; omega
  constructor
  · intro t x htp hx hpos
    have htl : t < a.length := (List.getElem?_eq_some_iff.mp hx).1
    have hex : ∃ i : Nat, ((preMask a p).reverse.map gt0)[i]? = some true := by
      refine ⟨a.length - 1 - t, ?_⟩
      rw [hget]
      have h1 : a.length - 1 - t < a.length := by omega
      have h2 : a.length - 1 - (a.length - 1 - t) = t := by omega
      simp [h1, h2, hx, htp, hpos]
    obtain ⟨h1, h2⟩ := firstTrue_spec _ hex
    rw [← hj] at h1 h2
    have hjl : j < a.length := by
      have := (List.getElem?_eq_some_iff.mp h1).1
      simpa [preMask] using this
    have hi' : i = a.length - 1 - j := by rw [hi, firstTrue_oneHot_reverse _ _ hjl]
    rw [hget] at h1
    simp only [hjl, if_true] at h1
    rw [← hi'] at h1
    have hiy : ∃ y, a[i]? = some y := by
      cases hq : a[i]? with
      | none => rw [hq] at h1; simp at h1
      | some y => exact ⟨y, rfl⟩
    obtain ⟨y, hy⟩ := hiy
    rw [hy] at h1
    simp at h1
    refine ⟨h1.1, ⟨y, hy, h1.2⟩, ?_⟩
    intro u z hiu hup hz hzpos
    have hul : u < a.length := (List.getElem?_eq_some_iff.mp hz).1
    have hlt : a.length - 1 - u < j := by omega
    have := h2 _ hlt
    rw [hget] at this
    have h3 : a.length - 1 - u < a.length := by omega
    have h4 : a.length - 1 - (a.length - 1 - u) = u := by omega
    simp only [h3, if_true, h4, hz] at this
    simp at this
    exact absurd hzpos (not_lt.mpr (this hup))
  · intro hno
    have hj0 : j = 0 := by
      rw [hj]
      apply firstTrue_none
      intro t
      rw [hget]
      by_cases ht : t < a.length
      · simp only [ht, if_true]
        cases hq : a[a.length - 1 - t]? with
        | none => simp
        | some x =>
          simp
          intro hlt
          exact not_lt.mp (hno _ x hlt hq)
      · simp [ht]
    rw [hi, hj0, firstTrue_oneHot_reverse _ _ hne]; omega

end IblVerif.Features
