/-
Helper lemmas for C14: the `Except` monad, `List.mapM`, indexing, and the bridge between the
`l[i]?`-style facts used in the proofs and the `smp`/`|·|` vocabulary of the theorems.
-/
import IblVerif.Lemmas.FeaturesSpec
import IblVerif.Lemmas.FeaturesArgmax

namespace IblVerif.Features

@[simp] theorem ok_bind {ε α β} (a : α) (f : α → Except ε β) : (Except.ok a >>= f) = f a := rfl
@[simp] theorem error_bind {ε α β} (e : ε) (f : α → Except ε β) : (Except.error e >>= f) = Except.error e := rfl
@[simp] theorem pure_eq_ok {ε α} (a : α) : (pure a : Except ε α) = Except.ok a := rfl
@[simp] theorem throw_eq_error {ε α} (e : ε) : (throw e : Except ε α) = Except.error e := rfl

theorem bind_eq_ok {ε α β} {x : Except ε α} {f : α → Except ε β} {b : β} :
    (x >>= f) = .ok b ↔ ∃ a, x = .ok a ∧ f a = .ok b := by
  cases x with
  | error e => simp
  | ok a => simp

theorem idx_eq_ok {α} {l : List α} {i : Nat} {x : α} : idx l i = .ok x ↔ l[i]? = some x := by
  unfold idx
  cases h : l[i]? with
  | none => simp
  | some y => simp

theorem idx_ok {α} {l : List α} {i : Nat} {x : α} (h : l[i]? = some x) : idx l i = .ok x := idx_eq_ok.mpr h

theorem mapM_ok_iff {α β} {f : α → Except Err β} {l : List α} {r : List β} :
    l.mapM f = .ok r ↔ r.length = l.length ∧ ∀ (i : Nat) a b, l[i]? = some a → r[i]? = some b → f a = .ok b := by
  induction l generalizing r with
  | nil =>
    simp only [List.mapM_nil, pure_eq_ok, Except.ok.injEq, List.length_nil]
    constructor
    · rintro rfl; simp
    · rintro ⟨h, _⟩; exact (List.eq_nil_of_length_eq_zero h).symm
  | cons x xs ih =>
    simp only [List.mapM_cons, bind_eq_ok, pure_eq_ok, Except.ok.injEq]
    constructor
    · rintro ⟨y, hy, ys, hys, rfl⟩
      obtain ⟨hl, hi⟩ := ih.mp hys
      refine ⟨by simp [hl], ?_⟩
      intro i a b ha hb
      cases i with
      | zero => simp at ha hb; subst ha hb; exact hy
      | succ i => exact hi i a b (by simpa using ha) (by simpa using hb)
    · rintro ⟨hl, hi⟩
      cases r with
      | nil => simp at hl
      | cons y ys =>
        refine ⟨y, hi 0 x y (by simp) (by simp), ys, ?_, rfl⟩
        rw [ih]
        refine ⟨by simpa using hl, ?_⟩
        intro i a b ha hb
        exact hi (i + 1) a b (by simpa using ha) (by simpa using hb)

theorem mapM_ok_of_forall {α β} {f : α → Except Err β} {l : List α} (h : ∀ x ∈ l, ∃ y, f x = .ok y) :
    ∃ r, l.mapM f = .ok r := by
  induction l with
  | nil => exact ⟨[], rfl⟩
  | cons x xs ih =>
    obtain ⟨y, hy⟩ := h x List.mem_cons_self
    obtain ⟨ys, hys⟩ := ih fun z hz => h z (List.mem_cons_of_mem _ hz)
    exact ⟨y :: ys, by simp [List.mapM_cons, hy, hys]⟩

theorem mapM_map_ok {α β} {f : α → Except Err β} {g : α → β} {l : List α} (h : ∀ x ∈ l, f x = .ok (g x)) :
    l.mapM f = .ok (l.map g) := by
  rw [mapM_ok_iff]
  refine ⟨by simp, ?_⟩
  intro i a b ha hb
  rw [List.getElem?_map, ha] at hb
  simp at hb; subst hb
  exact h a (List.mem_of_getElem? ha)

/-! ### bridge to the vocabulary of the theorems -/

theorem qabs_eq_abs (x : ℚ) : qabs x = |x| := by
  unfold qabs
  split
  · rw [abs_of_neg ‹_›]
  · rw [abs_of_nonneg (not_lt.mp ‹_›)]

theorem smp_of_getElem? {w : Wave} {c t : Nat} {r : Row} {x : ℚ} (hr : w[c]? = some r) (hx : r[t]? = some x) :
    smp w c t = x := by
  simp [smp, List.getD_eq_getElem?_getD, hr, hx]

theorem getElem?_of_rect {T : Nat} {w : Wave} (hR : Rect T w) {c t : Nat} (hc : c < w.length) (ht : t < T) :
    ∃ r, w[c]? = some r ∧ r.length = T ∧ r[t]? = some (smp w c t) := by
  have hr : w[c]? = some w[c] := List.getElem?_eq_getElem hc
  have hl : w[c].length = T := hR _ (List.getElem_mem hc)
  have hx : w[c][t]? = some (w[c][t]'(by omega)) := List.getElem?_eq_getElem (by omega)
  exact ⟨w[c], hr, hl, by rw [smp_of_getElem? hr hx]; exact hx⟩

theorem rect_row {T : Nat} {w : Wave} (hR : Rect T w) {c : Nat} {r : Row} (hr : w[c]? = some r) : r.length = T :=
  hR _ (List.mem_of_getElem? hr)

end IblVerif.Features
