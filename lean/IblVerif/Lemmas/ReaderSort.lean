/-
Lemmas about the channel order of the reader model (`Reader.orderM`, `Reader.rawChannelOrder`).  Core Lean only
(`List.mergeSort` and its lemmas are part of core).
-/
import IblVerif.Model.Reader

namespace IblVerif.Reader

/-- The order the property states, on sites: by shank, then row, then DEScending column. -/
def Site.before (a b : Site) : Prop :=
  a.shank < b.shank ∨ (a.shank = b.shank ∧ (a.row < b.row ∨ (a.row = b.row ∧ b.col < a.col)))

def Site.sameKey (a b : Site) : Prop := a.shank = b.shank ∧ a.row = b.row ∧ a.col = b.col

theorem keyLt_iff (a b : Site) : KeyLt a.key b.key ↔ a.before b := by
  simp only [KeyLt, Site.key, Site.before]
  omega

theorem key_eq_iff (a b : Site) : a.key = b.key ↔ a.sameKey b := by
  simp only [Site.key, Site.sameKey, Prod.mk.injEq]
  omega

theorem keyLt_trans (a b c : Int × Int × Int) : KeyLt a b → KeyLt b c → KeyLt a c := by
  simp only [KeyLt]
  omega

theorem keyLt_total (a b : Int × Int × Int) : KeyLt a b ∨ a = b ∨ KeyLt b a := by
  obtain ⟨a1, a2, a3⟩ := a
  obtain ⟨b1, b2, b3⟩ := b
  simp only [KeyLt, Prod.mk.injEq]
  omega

theorem pairLe_iff (a b : (Int × Int × Int) × Nat) : pairLe a b = true ↔ PairLe a b := by
  simp [pairLe]

theorem pairLe_trans (a b c : (Int × Int × Int) × Nat) : pairLe a b → pairLe b c → pairLe a c := by
  simp only [pairLe_iff, PairLe]
  intro h1 h2
  rcases h1 with h1 | ⟨e1, l1⟩ <;> rcases h2 with h2 | ⟨e2, l2⟩
  · exact Or.inl (keyLt_trans _ _ _ h1 h2)
  · exact Or.inl (by rw [← e2]; exact h1)
  · exact Or.inl (by rw [e1]; exact h2)
  · exact Or.inr ⟨e1.trans e2, by omega⟩

theorem pairLe_total (a b : (Int × Int × Int) × Nat) : (pairLe a b || pairLe b a) = true := by
  simp only [Bool.or_eq_true, pairLe_iff, PairLe]
  rcases keyLt_total a.1 b.1 with h | h | h
  · exact Or.inl (Or.inl h)
  · by_cases hl : a.2 ≤ b.2
    · exact Or.inl (Or.inr ⟨h, hl⟩)
    · exact Or.inr (Or.inr ⟨h.symm, by omega⟩)
  · exact Or.inr (Or.inl h)

/-- `orderM` is a permutation of the on-disk indices `0 … m-1`. -/
theorem orderM_perm (sites : List Site) : (orderM sites).Perm (List.range sites.length) := by
  unfold orderM
  have h := (List.mergeSort_perm ((sites.map Site.key).zipIdx) pairLe).map Prod.snd
  rw [List.zipIdx_map_snd, ← List.range_eq_range'] at h
  simpa using h

theorem orderM_length (sites : List Site) : (orderM sites).length = sites.length := by
  simpa using (orderM_perm sites).length_eq

theorem orderM_nodup (sites : List Site) : (orderM sites).Nodup :=
  (orderM_perm sites).symm.nodup List.nodup_range

theorem orderM_lt (sites : List Site) (i : Nat) (h : i ∈ orderM sites) : i < sites.length := by
  have := (orderM_perm sites).mem_iff.mp h
  simpa using this

/-- Along `orderM` the sites are ordered by (shank, row, descending col); sites with the same key keep their
on-disk order. -/
theorem orderM_sorted (sites : List Site) :
    (orderM sites).Pairwise fun i j =>
      ∃ si sj, sites[i]? = some si ∧ sites[j]? = some sj ∧ (si.before sj ∨ (si.sameKey sj ∧ i < j)) := by
  have hs : (((sites.map Site.key).zipIdx).mergeSort pairLe).Pairwise (fun a b => pairLe a b) :=
    List.pairwise_mergeSort pairLe_trans pairLe_total _
  have hmem : ∀ a ∈ ((sites.map Site.key).zipIdx).mergeSort pairLe, ∃ s, sites[a.2]? = some s ∧ a.1 = s.key := by
    intro a ha
    have ha' : a ∈ (sites.map Site.key).zipIdx := (List.mergeSort_perm _ _).mem_iff.mp ha
    have := List.mem_zipIdx_iff_getElem?.mp ha'
    rw [List.getElem?_map] at this
    cases hsi : sites[a.2]? with
    | none => rw [hsi] at this; simp at this
    | some s => rw [hsi] at this; exact ⟨s, rfl, by simpa using this.symm⟩
  have hnd : (orderM sites).Pairwise (· ≠ ·) := orderM_nodup sites
  unfold orderM at hnd ⊢
  rw [List.pairwise_map] at hnd ⊢
  refine ((List.Pairwise.and_mem.mp hs).and hnd).imp ?_
  rintro a b ⟨⟨ha, hb, hle⟩, hne⟩
  obtain ⟨sa, hsa, hka⟩ := hmem a ha
  obtain ⟨sb, hsb, hkb⟩ := hmem b hb
  refine ⟨sa, sb, hsa, hsb, ?_⟩
  rw [pairLe_iff] at hle
  rcases hle with h | ⟨h, hl⟩
  · left; rw [hka, hkb] at h; exact (keyLt_iff sa sb).mp h
  · right; rw [hka, hkb] at h
    exact ⟨(key_eq_iff sa sb).mp h, by omega⟩

/-! ### `rawChannelOrder` -/

theorem rawChannelOrder_some (nc : Nat) (o : List Nat) (h : o.length ≤ nc) :
    rawChannelOrder nc (some o) = .ok (o ++ (List.range (nc - o.length)).map (· + o.length)) := by
  simp [rawChannelOrder, h]

theorem rawChannelOrder_length (nc : Nat) (o : Option (List Nat)) (l : List Nat)
    (h : rawChannelOrder nc o = .ok l) : l.length = nc := by
  unfold rawChannelOrder at h
  split at h
  · injection h with h; subst h; simp
  · split at h
    · injection h with h; subst h; simp; omega
    · cases h

/-- Beyond the geometry the order is the identity (the sync channels stay where they are on disk). -/
theorem rawChannelOrder_tail (nc : Nat) (o : List Nat) (l : List Nat)
    (h : rawChannelOrder nc (some o) = .ok l) (i : Nat) (h1 : o.length ≤ i) (h2 : i < nc) :
    l[i]? = some i := by
  unfold rawChannelOrder at h
  simp only at h
  split at h
  · injection h with h; subst h
    rw [List.getElem?_append_right h1]
    simp only [List.getElem?_map, List.getElem?_range (by omega : i - o.length < nc - o.length)]
    simp; omega
  · cases h

/-- Within the geometry the order is the geometry's index vector. -/
theorem rawChannelOrder_head (nc : Nat) (o : List Nat) (l : List Nat)
    (h : rawChannelOrder nc (some o) = .ok l) (i : Nat) (h1 : i < o.length) :
    l[i]? = o[i]? := by
  unfold rawChannelOrder at h
  simp only at h
  split at h
  · injection h with h; subst h
    rw [List.getElem?_append_left h1]
  · cases h

/-- `raw_channel_order` is a permutation of all on-disk channels whenever the geometry index is a permutation
of its own range. -/
theorem rawChannelOrder_perm (nc : Nat) (o : List Nat) (l : List Nat)
    (ho : o.Perm (List.range o.length)) (h : rawChannelOrder nc (some o) = .ok l) :
    l.Perm (List.range nc) := by
  unfold rawChannelOrder at h
  simp only at h
  split at h
  · rename_i hle
    injection h with h; subst h
    have e : List.range nc = List.range o.length ++ (List.range (nc - o.length)).map (· + o.length) := by
      have : nc = o.length + (nc - o.length) := by omega
      conv => lhs; rw [this, List.range_add]
      congr 1
      apply List.map_congr_left; intro a _; omega
    rw [e]
    exact ho.append_right _
  · cases h

theorem rawChannelOrder_none (nc : Nat) : rawChannelOrder nc none = .ok (List.range nc) := rfl

end IblVerif.Reader
