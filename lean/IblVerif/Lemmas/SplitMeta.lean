/-
Helper lemmas: explicit results of `splitMeta` / `reconMeta`, and what `mapE` over the shank numbers yields.
Core Lean only.
-/
import IblVerif.Lemmas.SplitRecon

namespace IblVerif.Split

/-- The metadata `_writemetadata_ap` writes, as an explicit term. -/
def splitMetaVal (m : Meta) (n : Nat) (sh size : Nat) (t1 t2 : List Int) (toks : List Grp) : Meta :=
  (((((((m.set "acqApLfSy" (.ints (((n : Int) - 1) :: t1))).set "snsApLfSy" (.ints (((n : Int) - 1) :: t2))).set
    "nSavedChans" (.int n)).set "fileSizeBytes" (.int size)).set
    "snsSaveChanSubset_orig" (.subset toks)).set
    "snsSaveChanSubset" (.subset [Grp.range 0 (n - 1)])).set
    "original_meta" (.atom "False")).set "NP2.4_shank" (.int (sh % 10))

theorem splitMeta_eq (m : Meta) (chns : List Nat) (sh size : Nat) (a b : Int) (t1 t2 : List Int)
    (toks : List Grp)
    (h1 : m.get "acqApLfSy" = some (.ints (a :: t1))) (h2 : m.get "snsApLfSy" = some (.ints (b :: t2)))
    (ht : subsetToks chns = .ok toks) :
    splitMeta m chns sh size = .ok (splitMetaVal m chns.length sh size t1 t2 toks) := by
  have h2' : (m.set "acqApLfSy" (.ints (((chns.length : Int) - 1) :: t1))).get "snsApLfSy"
      = some (.ints (b :: t2)) := by
    rw [get_set]; simp [h2]
  simp only [splitMeta, splitMetaVal, setHead_ok m "acqApLfSy" ((chns.length : Int) - 1) a t1 h1,
    setHead_ok _ "snsApLfSy" ((chns.length : Int) - 1) b t2 h2', ht]

theorem splitMetaVal_shank (m : Meta) (n sh size : Nat) (t1 t2 : List Int) (toks : List Grp) :
    (splitMetaVal m n sh size t1 t2 toks).get "NP2.4_shank" = some (.int (sh % 10)) := by
  unfold splitMetaVal; rw [get_set]; simp

theorem splitMetaVal_subset (m : Meta) (n sh size : Nat) (t1 t2 : List Int) (toks : List Grp) :
    (splitMetaVal m n sh size t1 t2 toks).get "snsSaveChanSubset_orig" = some (.subset toks) := by
  unfold splitMetaVal
  simp [get_set]


/-- Reconstructing the metadata written for a shank gives back every original field; only the provenance
flag `original_meta` is new. -/
theorem recon_split_meta (m : Meta) (n sh size nch size' : Nat) (t1 t2 : List Int) (toks : List Grp)
    (h1 : m.get "acqApLfSy" = some (.ints (((nch : Int) - 1) :: t1)))
    (h2 : m.get "snsApLfSy" = some (.ints (((nch : Int) - 1) :: t2)))
    (h3 : m.get "nSavedChans" = some (.int nch))
    (h4 : m.get "fileSizeBytes" = some (.int size'))
    (h5 : m.get "snsSaveChanSubset" = some (.subset [Grp.range 0 (nch - 1)]))
    (h6 : m.get "NP2.4_shank" = none) (h7 : m.get "snsSaveChanSubset_orig" = none) :
    ∃ mr, reconMeta (splitMetaVal m n sh size t1 t2 toks) nch size' = .ok mr ∧
      ∀ k, mr.get k = if k = "original_meta" then some (.atom "False") else m.get k := by
  have g1 : (splitMetaVal m n sh size t1 t2 toks).get "acqApLfSy" = some (.ints (((n : Int) - 1) :: t1)) := by
    simp [splitMetaVal, get_set]
  have e1 := setHead_ok _ "acqApLfSy" ((nch : Int) - 1) _ t1 g1
  have g2 : ((splitMetaVal m n sh size t1 t2 toks).set "acqApLfSy" (.ints (((nch : Int) - 1) :: t1))).get "snsApLfSy"
      = some (.ints (((n : Int) - 1) :: t2)) := by
    simp [splitMetaVal, get_set]
  have e2 := setHead_ok _ "snsApLfSy" ((nch : Int) - 1) _ t2 g2
  obtain ⟨m3, e3⟩ := pop_ok ((((((splitMetaVal m n sh size t1 t2 toks).set "acqApLfSy"
      (.ints (((nch : Int) - 1) :: t1))).set "snsApLfSy" (.ints (((nch : Int) - 1) :: t2))).set
      "nSavedChans" (.int nch)).set "fileSizeBytes" (.int size')).set
      "snsSaveChanSubset" (.subset [Grp.range 0 (nch - 1)])) "NP2.4_shank" (.int (sh % 10))
    (by simp [splitMetaVal, get_set])
  have g4 : m3.get "snsSaveChanSubset_orig" = some (.subset toks) := by
    rw [get_pop _ _ _ _ e3]; simp [splitMetaVal, get_set]
  obtain ⟨m4, e4⟩ := pop_ok m3 "snsSaveChanSubset_orig" _ g4
  refine ⟨m4, by simp only [reconMeta, e1, e2, e3, e4], ?_⟩
  intro k
  rw [get_pop _ _ _ _ e4, get_pop _ _ _ _ e3]
  simp only [splitMetaVal, get_set]
  by_cases k1 : k = "snsSaveChanSubset_orig"
  · subst k1; simp [h7]
  by_cases k2 : k = "NP2.4_shank"
  · subst k2; simp [h6]
  by_cases k3 : k = "snsSaveChanSubset"
  · subst k3; simp [h5]
  by_cases k4 : k = "fileSizeBytes"
  · subst k4; simp [h4]
  by_cases k5 : k = "nSavedChans"
  · subst k5; simp [h3]
  by_cases k6 : k = "snsApLfSy"
  · subst k6; simp [h2]
  by_cases k7 : k = "acqApLfSy"
  · subst k7; simp [h1]
  by_cases k8 : k = "original_meta"
  · subst k8; simp
  simp [k1, k2, k3, k4, k5, k6, k7, k8]

/-! ### `All₂` plumbing -/

theorem all₂_length {α β : Type} {R : α → β → Prop} {l : List α} {r : List β} (h : All₂ R l r) :
    r.length = l.length := by
  induction h with
  | nil => rfl
  | cons _ _ ih => simp [ih]

theorem all₂_map {α β : Type} {R : α → β → Prop} {l : List α} {r : List β} (h : All₂ R l r)
    (g : β → α) (hg : ∀ a b, R a b → g b = a) : r.map g = l := by
  induction h with
  | nil => rfl
  | cons hab _ ih => simp [ih, hg _ _ hab]

theorem all₂_mapE {α β γ : Type} {R : α → β → Prop} {l : List α} {r : List β} (h : All₂ R l r)
    (f : β → Except Err γ) (g : α → γ) (hg : ∀ a b, a ∈ l → R a b → f b = .ok (g a)) :
    mapE f r = .ok (l.map g) := by
  induction h with
  | nil => rfl
  | cons hab _ ih =>
    simp only [mapE, hg _ _ List.mem_cons_self hab,
      ih (fun a b ha hr => hg a b (List.mem_cons_of_mem _ ha) hr), List.map_cons]

end IblVerif.Split
