/-
Helper lemmas for C16 (batch-wise use of `saturation`): the flags of a batch `data[:, a:b]` are the per-sample rule of
the whole recording at every sample of the batch except its last one; writing batches over one another.
Core Lean only.
-/
import IblVerif.Lemmas.Saturation
import IblVerif.Model.SaturationBatch

namespace IblVerif.Saturation

variable {α μ φ : Type}

/-- the `[nc, b − a]` array `x[:, a:b]` -/
def sliceCols {nc ns : Nat} (x : Fin nc → Fin ns → α) (a b : Nat) (hb : b ≤ ns) : Fin nc → Fin (b - a) → α :=
  fun c i => x c ⟨a + i.1, by have := i.2; omega⟩

theorem drop_take_ofFn {ns : Nat} (f : Fin ns → α) (a b : Nat) (hb : b ≤ ns) :
    ((List.ofFn f).drop a).take (b - a) = List.ofFn fun i : Fin (b - a) => f ⟨a + i.1, by have := i.2; omega⟩ := by
  apply List.ext_getElem
  · simp; omega
  · intro i h1 h2
    simp

theorem colSlice_toRows {nc ns : Nat} (x : Fin nc → Fin ns → α) (a b : Nat) (hb : b ≤ ns) :
    colSlice a b (toRows x) = toRows (sliceCols x a b hb) := by
  unfold colSlice toRows sliceCols
  rw [List.map_ofFn]
  congr 1
  funext c
  exact drop_take_ofFn (x c) a b hb

/-- a batch's flags are the per-sample rule of the batch seen as a recording of its own -/
theorem flagsWindow_eq_rule (ops : Ops α μ φ) {nc ns : Nat} (x : Fin nc → Fin ns → α) (rg : Range μ nc)
    (a b : Nat) (hb : b ≤ ns) :
    flagsWindow ops (toRows x) rg.toList (a, b) = .ok (List.ofFn (rule ops (sliceCols x a b hb) rg.at)) := by
  unfold flagsWindow
  simp only
  rw [colSlice_toRows x a b hb]
  exact flags_eq_rule ops (sliceCols x a b hb) rg

/-- the rule of the whole recording at sample `t` (`false` outside) -/
def ruleAt (ops : Ops α μ φ) {nc ns : Nat} (x : Fin nc → Fin ns → α) (r : Fin nc → μ) (t : Nat) : Bool :=
  if h : t < ns then rule ops x r ⟨t, h⟩ else false

theorem getD_ofFn_rule (ops : Ops α μ φ) {nc ns : Nat} (x : Fin nc → Fin ns → α) (r : Fin nc → μ) (t : Nat) :
    (List.ofFn (rule ops x r)).getD t false = ruleAt ops x r t := by
  unfold ruleAt
  by_cases h : t < ns
  · simp [List.getD_eq_getElem?_getD, h]
  · simp [List.getD_eq_getElem?_getD, h]

/-- the over-98 % criterion alone at sample `t` -/
def overAt (ops : Ops α μ φ) {nc ns : Nat} (x : Fin nc → Fin ns → α) (r : Fin nc → μ) (t : Nat) : Bool :=
  if h : t < ns then ops.gt (ops.mean (countOver ops x r ⟨t, h⟩) nc) else false

/-- **Locality.**  Inside a batch `[a, b)` every sample that has its next sample in the batch gets the flag of the
whole recording. -/
theorem rule_slice_interior (ops : Ops α μ φ) {nc ns : Nat} (x : Fin nc → Fin ns → α) (r : Fin nc → μ)
    (a b : Nat) (hb : b ≤ ns) (i : Nat) (hi : a + i + 1 < b) :
    ruleAt ops (sliceCols x a b hb) r i = ruleAt ops x r (a + i) := by
  unfold ruleAt
  have h1 : i < b - a := by omega
  have h2 : a + i < ns := by omega
  simp only [h1, h2, dite_true]
  unfold rule
  have h3 : i + 1 < b - a := by omega
  have h4 : a + i + 1 < ns := by omega
  simp only [h3, h4, dite_true]
  rfl

/-- The last sample of a batch: only the over-98 % criterion is evaluated (the slew term is the literal `0`). -/
theorem rule_slice_last (ops : Ops α μ φ) {nc ns : Nat} (x : Fin nc → Fin ns → α) (r : Fin nc → μ)
    (a b : Nat) (hb : b ≤ ns) (i : Nat) (hi : a + i + 1 = b) :
    ruleAt ops (sliceCols x a b hb) r i = (overAt ops x r (a + i) || ops.gt ops.zero) := by
  unfold ruleAt overAt
  have h1 : i < b - a := by omega
  have h2 : a + i < ns := by omega
  simp only [h1, h2, dite_true]
  unfold rule
  have h3 : ¬ i + 1 < b - a := by omega
  simp only [h3, dite_false]
  rfl

/-- the last sample of the recording has no next sample either -/
theorem ruleAt_last (ops : Ops α μ φ) {nc ns : Nat} (x : Fin nc → Fin ns → α) (r : Fin nc → μ)
    (t : Nat) (ht : t + 1 = ns) :
    ruleAt ops x r t = (overAt ops x r t || ops.gt ops.zero) := by
  unfold ruleAt overAt
  have h2 : t < ns := by omega
  simp only [h2, dite_true]
  unfold rule
  have h3 : ¬ t + 1 < ns := by omega
  simp only [h3, dite_false]

/-- a batch that ends with the recording is right on all of its samples -/
theorem rule_slice_to_end (ops : Ops α μ φ) {nc ns : Nat} (x : Fin nc → Fin ns → α) (r : Fin nc → μ)
    (a : Nat) (i : Nat) (hi : a + i < ns) :
    ruleAt ops (sliceCols x a ns (Nat.le_refl ns)) r i = ruleAt ops x r (a + i) := by
  by_cases h : a + i + 1 < ns
  · exact rule_slice_interior ops x r a ns _ i h
  · rw [rule_slice_last ops x r a ns _ i (by omega), ruleAt_last ops x r (a + i) (by omega)]

/-! ### writing a batch into the recording-long vector -/

@[simp] theorem writeAt_length (buf : List Bool) (a : Nat) (v : List Bool) : (writeAt buf a v).length = buf.length := by
  simp [writeAt]

theorem writeAt_getD (buf : List Bool) (a : Nat) (v : List Bool) (t : Nat) (ht : t < buf.length) :
    (writeAt buf a v).getD t false =
      if a ≤ t ∧ t < a + v.length then v.getD (t - a) false else buf.getD t false := by
  simp [writeAt, List.getD_eq_getElem?_getD, ht]

/-- **Batch-wise = whole recording** under the chain hypothesis, from any buffer whose first `e` entries are final. -/
theorem batchedFrom_chain (ops : Ops α μ φ) {nc ns : Nat} (x : Fin nc → Fin ns → α) (rg : Range μ nc)
    (wins : List (Nat × Nat)) :
    ∀ (e : Nat) (buf : List Bool), buf.length = ns →
      (∀ t, t < e → buf.getD t false = ruleAt ops x rg.at t) → Chain ns e wins →
      ∃ out, batchedFrom ops (toRows x) rg.toList buf wins = .ok out ∧ out.length = ns ∧
        ∀ t, t < ns → out.getD t false = ruleAt ops x rg.at t := by
  induction wins with
  | nil =>
    intro e buf hlen hfin hch
    simp only [Chain] at hch
    subst hch
    exact ⟨buf, rfl, hlen, hfin⟩
  | cons w rest ih =>
    intro e buf hlen hfin hch
    obtain ⟨a, b⟩ := w
    simp only [Chain] at hch
    obtain ⟨hae, hab, hbn, hrest⟩ := hch
    simp only [batchedFrom, flagsWindow_eq_rule ops x rg a b hbn]
    have hvlen : (List.ofFn (rule ops (sliceCols x a b hbn) rg.at)).length = b - a := by simp
    by_cases hbe : b = ns
    · simp only [hbe, if_true] at hrest
      apply ih ns _ (by simp [hlen]) _ hrest
      intro t ht
      rw [writeAt_getD _ _ _ _ (by omega), hvlen]
      by_cases hin : a ≤ t ∧ t < a + (b - a)
      · simp only [hin, and_self, if_true]
        rw [getD_ofFn_rule]
        subst hbe
        have := rule_slice_to_end ops x rg.at a (t - a) (by omega)
        rw [this]
        congr 1
        omega
      · simp only [hin, if_false]
        exact hfin t (by omega)
    · simp only [hbe, if_false] at hrest
      obtain ⟨heb, hrest⟩ := hrest
      apply ih (b - 1) _ (by simp [hlen]) _ hrest
      intro t ht
      rw [writeAt_getD _ _ _ _ (by omega), hvlen]
      by_cases hin : a ≤ t ∧ t < a + (b - a)
      · simp only [hin, and_self, if_true]
        rw [getD_ofFn_rule]
        have := rule_slice_interior ops x rg.at a b hbn (t - a) (by omega)
        rw [this]
        congr 1
        omega
      · simp only [hin, if_false]
        exact hfin t (by omega)

/-! ### the schedule of one worker that owns the whole recording satisfies the chain hypothesis -/

theorem scheduleFrom_chain (ns N T : Nat) (hT : 1 ≤ 2 * T) (hN : 2 * T < N) :
    ∀ (fuel first e : Nat), ns - first < fuel → first < ns → first ≤ e → e ≤ first + 2 * T - 1 → e ≤ ns →
      Chain ns e (scheduleFrom ns N T ns fuel first) := by
  intro fuel
  induction fuel with
  | zero => intro first e h; omega
  | succ n ih =>
    intro first e hf hfirst hfe hef hens
    unfold scheduleFrom
    simp only
    by_cases hl : min (N + first) ns ≥ ns
    · simp only [hl, if_true]
      have : min (N + first) ns = ns := by omega
      simp only [this, Chain, if_true]
      exact ⟨hfe, hfirst, Nat.le_refl _, trivial⟩
    · simp only [hl, if_false]
      have hmin : min (N + first) ns = N + first := by omega
      simp only [hmin, Chain]
      have hne : ¬ N + first = ns := by omega
      simp only [hne, if_false]
      refine ⟨hfe, by omega, by omega, by omega, ?_⟩
      apply ih (first + (N - 2 * T)) (N + first - 1) (by omega) (by omega) (by omega) (by omega) (by omega)

theorem schedule_chain (ns N T : Nat) (hns : 0 < ns) (hT : 1 ≤ 2 * T) (hN : 2 * T < N) :
    Chain ns 0 (schedule ns N T) := by
  unfold schedule workerWindows
  have h0 : (0 * (ns / 1) + N - 1) / N = 0 := by
    rw [Nat.zero_mul, Nat.zero_add]
    exact Nat.div_eq_of_lt (by omega)
  simp only [h0, Nat.mul_zero, Nat.zero_add, if_true]
  exact scheduleFrom_chain ns N T hT hN (ns + 1) 0 0 (by omega) hns (Nat.le_refl _) (by omega) (by omega)

end IblVerif.Saturation
