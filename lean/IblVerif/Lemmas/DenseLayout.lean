/-
C08: closed forms of the canonical dense layouts (`neuropixel.dense_layout`), checked against the
tile / repeat construction of the code by kernel evaluation over the complete 384-site tables.
-/
import IblVerif.Model.Geometry
import IblVerif.Lemmas.AdcTable

namespace IblVerif.Geometry
open IblVerif.Generated

/-- Closed form of site `i` of a canonical layout: `(shank, row, col)`.
* NP1: two sites per row, columns in the checkerboard order 2, 0, 3, 1;
* NPultra: eight sites per row, columns 0..7;
* NP2 one shank: two sites per row, columns 0, 1;
* NP2 four shanks: blocks of 48 channels on shanks 0,1,0,1,2,3,2,3; inside a block two sites per row;
  blocks 2,3 and 6,7 continue 24 rows higher. -/
def denseSite (v : Version) (nshank i : Nat) : Nat × Nat × Nat :=
  match v, nshank with
  | .v1, _ => (0, i / 2, [2, 0, 3, 1].getD (i % 4) 0)
  | .ultra, _ => (0, i / 8, i % 8)
  | _, 4 => (2 * (i / 48 / 4) + i / 48 % 2, i % 48 / 2 + 24 * (i / 48 / 2 % 2), i % 2)
  | _, _ => (0, i / 2, i % 2)

/-- The whole layout in closed form. -/
def denseClosed (v : Version) (nshank : Nat) : Geom :=
  let s := (List.range NC).map (denseSite v nshank)
  { shank := s.map fun t => Int.ofNat t.1
    row := s.map fun t => Int.ofNat t.2.1
    col := s.map fun t => Int.ofNat t.2.2
    x := s.map fun t => (rc2xy v (Int.ofNat t.2.1) (Int.ofNat t.2.2)).1
    y := s.map fun t => (rc2xy v (Int.ofNat t.2.1) (Int.ofNat t.2.2)).2
    flag := none, sampleShift := none, adc := none
    ind := some (natCol (List.range NC))
    shiftDen := (adcParams v).2 }

set_option maxRecDepth 100000 in
theorem denseLayout_v1 (ns : Nat) : denseLayout .v1 ns = .ok (denseClosed .v1 ns) := by
  have h : ∀ ns, denseLayout .v1 ns = denseLayout .v1 1 := fun _ => rfl
  have h2 : ∀ ns, denseClosed .v1 ns = denseClosed .v1 1 := fun _ => rfl
  rw [h, h2]; decide +kernel

set_option maxRecDepth 100000 in
theorem denseLayout_ultra (ns : Nat) : denseLayout .ultra ns = .ok (denseClosed .ultra ns) := by
  have h : ∀ ns, denseLayout .ultra ns = denseLayout .ultra 1 := fun _ => rfl
  have h2 : ∀ ns, denseClosed .ultra ns = denseClosed .ultra 1 := fun _ => rfl
  rw [h, h2]; decide +kernel

set_option maxRecDepth 100000 in
theorem denseLayout_v2_1 : denseLayout .v2 1 = .ok (denseClosed .v2 1) := by decide +kernel
set_option maxRecDepth 100000 in
theorem denseLayout_v24_1 : denseLayout .v24 1 = .ok (denseClosed .v24 1) := by decide +kernel
set_option maxRecDepth 100000 in
theorem denseLayout_v2_4 : denseLayout .v2 4 = .ok (denseClosed .v2 4) := by decide +kernel
set_option maxRecDepth 100000 in
theorem denseLayout_v24_4 : denseLayout .v24 4 = .ok (denseClosed .v24 4) := by decide +kernel

/-- Any other shank count for NP2 leaves `col` unset: KeyError. -/
theorem denseLayout_other (ns : Nat) (h1 : ns ≠ 1) (h4 : ns ≠ 4) :
    denseLayout .v2 ns = .error .keyError ∧ denseLayout .v24 ns = .error .keyError := by
  constructor <;>
  · unfold denseLayout
    match ns, h1, h4 with
    | 0, _, _ => rfl
    | 2, _, _ => rfl
    | 3, _, _ => rfl
    | n + 5, _, _ => rfl

end IblVerif.Geometry
