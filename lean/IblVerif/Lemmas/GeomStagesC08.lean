/-
C08: the statement programs of `Model/GeomStagesC08.lean`, run with their NumPy meaning, ARE the functional model of
`Model/Geometry.lean` — for every site table (ragged ones and every error branch included), probe version, shank key, sort flag.
-/
import IblVerif.Model.GeomStagesC08

namespace IblVerif.GeomStages
open IblVerif.Geometry IblVerif.Generated IblVerif.StableSort

theorem getD_map_neg (l : List Int) (i : Nat) : (l.map (- ·)).getD i 0 = -(l.getD i 0) := by
  simp only [List.getD_eq_getElem?_getD, List.getElem?_map]
  cases l[i]? <;> simp

/-- `np.lexsort` on the key columns `(-col, row, shank)` is the model's `lexsortInds col row shank`. -/
theorem lexsort3_neg (col row shank : List Int) :
    lexsort3 (col.map (- ·)) row shank = lexsortInds col row shank := by
  unfold lexsort3 lexsortInds
  simp only [List.length_map, getD_map_neg]

def setInd (g : Geom) : Geom := { g with ind := some (natCol (List.range g.col.length)) }

/-- The sort block of `geometry_from_meta` (three statements, then `return th, inds`) is `sortGeom`. -/
theorem sort_block (cm : RawMap) (mv : Option Version) (key : Option Int) (g : Geom) (st : St) (hth : st.th = .full g) :
    (match List.foldlM (step cm mv key) st [("keys_negcol_row_shank", []), ("lexsort", []), ("gather_every_key", [])] with
      | .error e => .error e
      | .ok s => finish s) = sortGeom g := by
  simp only [List.foldlM, step, hth, need, bind, Except.bind, lexsort3_neg, sortGeom, pure, Except.pure]
  cases lexsortInds g.col g.row g.shank with
  | error e => rfl
  | ok inds =>
    simp only
    cases g.mapColsM fun c => gather c inds <;> rfl

/-- `th = _split_geometry_into_shanks(th, meta_data); th["ind"] = np.arange(th["col"].size)`. -/
theorem split_ind (cm : RawMap) (mv : Option Version) (key : Option Int) (g : Geom) (st : St) (hth : st.th = .full g) :
    List.foldlM (step cm mv key) st [("split", []), ("ind", [])] =
      match key with
      | none => .ok { st with th := .full (setInd g) }
      | some s =>
        match restrict g s with
        | .error e => .error e
        | .ok g' => .ok { st with th := .full (setInd g') } := by
  cases key with
  | none => simp [List.foldlM, step, hth, bind, Except.bind, pure, Except.pure, setInd]
  | some s =>
    cases hr : restrict g s <;>
      simp [List.foldlM, step, hth, bind, Except.bind, pure, Except.pure, setInd, hr]

theorem finishGeom_eq (g : Geom) (key : Option Int) (sort : Bool) :
    finishGeom g key sort =
      match (match key with
        | none => (.ok g : Except Err Geom)
        | some s => restrict g s) with
      | .error e => .error e
      | .ok g' => if sort then sortGeom (setInd g') else .ok (setInd g', List.range g'.col.length) := by
  cases key with
  | none => cases sort <;> rfl
  | some s =>
    cases hr : restrict g s <;> cases sort <;>
      simp [finishGeom, hr, bind, Except.bind, pure, Except.pure, setInd]

/-- The tail of the program (after the ADC columns are attached) is `finishGeom`. -/
theorem tail_eq (cm : RawMap) (mv : Option Version) (key : Option Int) (sort : Bool) (g : Geom) (st : St)
    (hth : st.th = .full g) :
    (match (([("split", []), ("ind", [])] : List Event) ++
        (if sort then [("keys_negcol_row_shank", []), ("lexsort", []), ("gather_every_key", [])] else [("inds_range", [])])).foldlM
        (step cm mv key) st with
      | .error e => .error e
      | .ok s => finish s) = finishGeom g key sort := by
  rw [List.foldlM_append, split_ind cm mv key g st hth, finishGeom_eq]
  cases key with
  | none =>
    cases sort with
    | false => simp [List.foldlM, step, finish, bind, Except.bind, pure, Except.pure, setInd]
    | true =>
      simp only [bind, Except.bind, if_true]
      exact sort_block cm mv none (setInd g) _ rfl
  | some s =>
    cases hr : restrict g s with
    | error e => simp [hr, bind, Except.bind]
    | ok g' =>
      cases sort with
      | false => simp [hr, List.foldlM, step, finish, bind, Except.bind, pure, Except.pure, setInd]
      | true =>
        simp only [hr, bind, Except.bind, if_true]
        exact sort_block cm mv (some s) (setInd g') _ rfl

/-- The statements up to and including the ADC columns. -/
def pre (enc : Encoding) (isV1 : Bool) : List Event :=
  [("map_channels", []), ("copy", [])] ++
  (match enc with
    | .geomMap => (if isV1 then [(("flip_x", [70]) : Event)] else []) ++ [(("add_y", [20]) : Event), ("xy2rc", [])]
    | .shankMap => (if isV1 then [(("flip_col", [2, 2, 2]) : Event)] else []) ++ [(("rc2xy", []) : Event)]) ++
  [("adc_shifts", [])]

theorem stages_split (enc : Encoding) (isV1 sort : Bool) :
    stages enc isV1 sort = pre enc isV1 ++ (([("split", []), ("ind", [])] : List Event) ++
      (if sort then [("keys_negcol_row_shank", []), ("lexsort", []), ("gather_every_key", [])] else [("inds_range", [])])) := by
  cases enc <;> cases isV1 <;> cases sort <;> rfl

/-- The head of the program (parse result, copy, coordinate fix-ups, conversion, ADC columns by position) is `geomUnsplit`. -/
theorem pre_eq (cm : RawMap) (mv : Option Version) (key : Option Int) (st0 : St) :
    List.foldlM (step cm mv key) st0 (pre cm.enc (decide (mv = some .v1))) =
      match geomUnsplit cm mv with
      | .error e => .error e
      | .ok g => .ok { st0 with cm := some cm, th := .full g } := by
  obtain ⟨enc, c0, c1, c2, c3⟩ := cm
  cases enc with
  | geomMap =>
    cases mv with
    | none => simp [pre, List.foldlM, step, need, geomUnsplit, bind, Except.bind]
    | some v =>
      cases v <;>
      · simp only [pre, List.foldlM, step, need, geomUnsplit, siteCols, bind, Except.bind, pure, Except.pure, decide_true,
          decide_false, if_true, if_false, List.cons_append, List.nil_append, reduceCtorEq, Option.some.injEq,
          Bool.false_eq_true]
        generalize xy2rcCols _ _ _ = r
        cases r with
        | error e => rfl
        | ok rc =>
          obtain ⟨row, col⟩ := rc
          simp only []
          generalize adcShifts _ _ = a
          cases a with
          | error e => rfl
          | ok p => rfl
  | shankMap =>
    cases mv with
    | none => simp [pre, List.foldlM, step, need, geomUnsplit, bind, Except.bind]
    | some v =>
      cases v <;>
      · simp only [pre, List.foldlM, step, need, geomUnsplit, siteCols, bind, Except.bind, pure, Except.pure, decide_true,
          decide_false, if_true, if_false, List.cons_append, List.nil_append, reduceCtorEq, Option.some.injEq,
          Bool.false_eq_true]
        generalize rc2xyCols _ _ _ = r
        cases r with
        | error e => rfl
        | ok xy =>
          obtain ⟨x, y⟩ := xy
          simp only []
          generalize adcShifts _ _ = a
          cases a with
          | error e => rfl
          | ok p => rfl

/-- **The statement program of `geometry_from_meta` is the functional model**: for every parsed site table `cm` (ragged or
off-grid ones with their errors included), every `major_version` (None included), with or without the `NP2.4_shank` key, sorted
or not — running copy → [NP1: 70 − x] → y + 20 → xy2rc | [NP1: −2c + 2 + r mod 2] → rc2xy → ADC columns by position → shank
split → `ind` → [lexsort on (−col, row, shank) → joint gather of every key] returns what `geomUnsplit` then `finishGeom`
(the body of `geometryFromMeta`) return. -/
theorem run_stages_from (cm : RawMap) (mv : Option Version) (key : Option Int) (sort : Bool) (st0 : St) :
    (match (stages cm.enc (decide (mv = some .v1)) sort).foldlM (step cm mv key) st0 with
      | .error e => (.error e : Except Err (Geom × List Nat))
      | .ok st => finish st) =
      match geomUnsplit cm mv with
      | .error e => .error e
      | .ok th => finishGeom th key sort := by
  rw [stages_split, List.foldlM_append, pre_eq]
  cases geomUnsplit cm mv with
  | error e => rfl
  | ok g =>
    simp only [bind, Except.bind]
    exact tail_eq cm mv key sort g { st0 with cm := some cm, th := .full g } rfl

theorem run_stages (cm : RawMap) (mv : Option Version) (key : Option Int) (sort : Bool) :
    run cm mv key (stages cm.enc (decide (mv = some .v1)) sort) =
      match geomUnsplit cm mv with
      | .error e => .error e
      | .ok th => finishGeom th key sort := run_stages_from cm mv key sort {}

/-- Purity of the program: started from ANY leftover state `st0` (whatever earlier calls may have left in `cm`, `th`,
`sort_keys`, `inds`), the statement list returns what it returns from the empty state — every variable is (re)assigned from the
freshly parsed table before it is read. -/
theorem run_from_any_state (cm : RawMap) (mv : Option Version) (key : Option Int) (sort : Bool) (st0 : St) :
    (match (stages cm.enc (decide (mv = some .v1)) sort).foldlM (step cm mv key) st0 with
      | .error e => (.error e : Except Err (Geom × List Nat))
      | .ok st => finish st) = run cm mv key (stages cm.enc (decide (mv = some .v1)) sort) := by
  rw [run_stages_from, run_stages]

/-- … hence `geometryFromMeta` itself on a metadata whose site table parses to `cm`. -/
theorem geometryFromMeta_eq_run (m : Meta) (cm : RawMap) (hcm : mapChannels m.shankMap m.geomMap = .ok (some cm))
    (sort : Bool) (nc : Nat) :
    geometryFromMeta m sort nc =
      match run cm m.major m.np24Shank (stages cm.enc (decide (m.major = some .v1)) sort) with
      | .error e => .error e
      | .ok r => .ok (some r) := by
  rw [run_stages]
  simp only [geometryFromMeta, hcm, bind, Except.bind, pure, Except.pure]
  cases geomUnsplit cm m.major with
  | error e => rfl
  | ok th =>
    simp only []
    cases finishGeom th m.np24Shank sort <;> rfl

end IblVerif.GeomStages
