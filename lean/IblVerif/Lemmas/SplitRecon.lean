/-
Helper lemmas: column scatter of the reconstructor (`assignCols`, `assignShanks`) and the frames it produces.
Core Lean only.
-/
import IblVerif.Lemmas.Split
import IblVerif.Lemmas.SplitSubset

namespace IblVerif.Split

/-- `chunk[:, cs] = f(cs)` on one frame: succeeds when every index is in range; the written columns hold
`f c`, the others are untouched. -/
theorem assignCols_spec (f : Nat → Int) : ∀ (cs : List Nat) (row : Array Int),
    (∀ c ∈ cs, c < row.size) →
    ∃ row', assignCols row cs (cs.map f) = .ok row' ∧ row'.size = row.size ∧
      ∀ c, (c ∈ cs → row'[c]? = some (f c)) ∧ (c ∉ cs → row'[c]? = row[c]?)
  | [], row, _ => ⟨row, rfl, rfl, fun c => ⟨fun h => absurd h (by simp), fun _ => rfl⟩⟩
  | c0 :: cs, row, h => by
    have h0 : c0 < row.size := h c0 List.mem_cons_self
    obtain ⟨row', e, hs, hc⟩ := assignCols_spec f cs (row.set c0 (f c0) h0)
      (fun c hc => by simpa using h c (List.mem_cons_of_mem _ hc))
    refine ⟨row', by simp only [List.map_cons, assignCols, h0, dite_true, e], by simpa using hs, ?_⟩
    intro c
    by_cases hin : c ∈ cs
    · exact ⟨fun _ => (hc c).1 hin, fun hn => absurd (List.mem_cons_of_mem _ hin) hn⟩
    · have h2 := (hc c).2 hin
      constructor
      · intro hm
        have : c = c0 := by
          rcases List.mem_cons.mp hm with rfl | hm
          · rfl
          · exact absurd hm hin
        subst this
        rw [h2]; simp [h0]
      · intro hn
        have : c ≠ c0 := fun e => hn (e ▸ List.mem_cons_self)
        rw [h2, Array.getElem?_set]
        simp [Ne.symm this]

/-- Columns that the loop over the shank folders writes: the first folder writes all its channels (sync
included), the following ones all but their last. -/
def covered : Bool → List ShankIn → Nat → Prop
  | _, [], _ => False
  | first, s :: rest, c => c ∈ (if first then s.chns else s.chns.dropLast) ∨ covered false rest c

theorem assignShanks_spec (f : Nat → Int) (t : Nat) : ∀ (ins : List ShankIn) (first : Bool) (row : Array Int),
    (∀ s ∈ ins, s.rows[t]? = some (s.chns.map f)) → (∀ s ∈ ins, ∀ c ∈ s.chns, c < row.size) →
    ∃ row', assignShanks t first row ins = .ok row' ∧ row'.size = row.size ∧
      ∀ c, (covered first ins c → row'[c]? = some (f c)) ∧ (¬ covered first ins c → row'[c]? = row[c]?)
  | [], first, row, _, _ => ⟨row, rfl, rfl, fun c => ⟨fun h => absurd h (by simp [covered]), fun _ => rfl⟩⟩
  | s :: rest, first, row, hv, hc => by
    have hvs := hv s List.mem_cons_self
    have hcs := hc s List.mem_cons_self
    -- the assignment of this folder
    have key : ∃ row1, (if first then assignCols row s.chns (s.chns.map f)
          else assignCols row s.chns.dropLast (s.chns.map f).dropLast) = .ok row1 ∧ row1.size = row.size ∧
        ∀ c, (c ∈ (if first then s.chns else s.chns.dropLast) → row1[c]? = some (f c)) ∧
             (c ∉ (if first then s.chns else s.chns.dropLast) → row1[c]? = row[c]?) := by
      cases first with
      | true => simpa using assignCols_spec f s.chns row hcs
      | false =>
        have := assignCols_spec f s.chns.dropLast row (fun c hc' => hcs c (List.dropLast_subset _ hc'))
        simpa [List.map_dropLast] using this
    obtain ⟨row1, e1, hs1, h1⟩ := key
    obtain ⟨row', e2, hs2, h2⟩ := assignShanks_spec f t rest false row1
      (fun s' hs' => hv s' (List.mem_cons_of_mem _ hs'))
      (fun s' hs' c hc' => by rw [hs1]; exact hc s' (List.mem_cons_of_mem _ hs') c hc')
    refine ⟨row', by simp only [assignShanks, hvs, e1, e2], by omega, ?_⟩
    intro c
    by_cases hr : covered false rest c
    · exact ⟨fun _ => (h2 c).1 hr, fun hn => absurd (Or.inr hr) hn⟩
    · have h3 := (h2 c).2 hr
      constructor
      · intro hcov
        rcases hcov with hh | hh
        · rw [h3]; exact (h1 c).1 hh
        · exact absurd hh hr
      · intro hn
        have : c ∉ (if first then s.chns else s.chns.dropLast) := fun hh => hn (Or.inl hh)
        rw [h3]; exact (h1 c).2 this

theorem covered_of_mem_dropLast (c : Nat) : ∀ (ins : List ShankIn) (first : Bool),
    (∃ s ∈ ins, c ∈ s.chns.dropLast) → covered first ins c
  | [], _, h => by obtain ⟨s, hs, _⟩ := h; exact absurd hs (by simp)
  | s :: rest, first, h => by
    obtain ⟨s', hs', hc⟩ := h
    rcases List.mem_cons.mp hs' with rfl | hs'
    · left
      cases first with
      | true => exact List.dropLast_subset _ hc
      | false => exact hc
    · right
      exact covered_of_mem_dropLast c rest false ⟨s', hs', hc⟩

/-- `np.max` of a channel list that ends with the largest index. -/
theorem maxOf_concat (l : List Nat) (n : Nat) (h : ∀ x ∈ l, x ≤ n) : maxOf (l ++ [n]) = some n := by
  cases l with
  | nil => rfl
  | cons a as =>
    simp only [List.cons_append, maxOf, List.foldl_append, List.foldl_cons, List.foldl_nil]
    have hub : ∀ (as : List Nat) (a : Nat), a ≤ n → (∀ x ∈ as, x ≤ n) → as.foldl max a ≤ n := by
      intro as
      induction as with
      | nil => intro a ha _; simpa using ha
      | cons b bs ih =>
        intro a ha hb
        simp only [List.foldl_cons]
        exact ih (max a b) (by have := hb b List.mem_cons_self; omega)
          (fun x hx => hb x (List.mem_cons_of_mem _ hx))
    have := hub as a (h a List.mem_cons_self) (fun x hx => h x (List.mem_cons_of_mem _ hx))
    congr 1; omega

/-- One reconstructed frame: when every column `< n` is covered, the frame is `f 0, …, f (n-1)`. -/
theorem frame_eq (f : Nat → Int) (n : Nat) (row' : Array Int) (hs : row'.size = n)
    (h : ∀ c, c < n → row'[c]? = some (f c)) : row'.toList = (List.range n).map f := by
  apply List.ext_getElem?
  intro c
  rw [Array.getElem?_toList]
  by_cases hc : c < n
  · rw [h c hc]; simp [hc]
  · have : row'[c]? = none := by
      apply Array.getElem?_eq_none; omega
    rw [this]; simp [hc]

end IblVerif.Split
