/-
Generic list facts used by the C13 proofs: the stable insertion sort of the model (permutation, sortedness, stability as a pairwise statement),
uniqueness of a sorted permutation, filters of injective maps, inverse of a permutation of `range n`.
Core Lean only.
-/
import IblVerif.Model.Waveforms
namespace IblVerif.Waveforms

/-- two different members of a list appear in one order or the other -/
theorem pair_sublist_or {α} {a b : α} : ∀ {l : List α}, a ∈ l → b ∈ l → a ≠ b →
    [a, b].Sublist l ∨ [b, a].Sublist l
  | [], ha, _, _ => by simp at ha
  | x :: xs, ha, hb, hne => by
    rcases List.mem_cons.mp ha with rfl | ha'
    · rcases List.mem_cons.mp hb with rfl | hb'
      · exact absurd rfl hne
      · exact Or.inl (List.Sublist.cons_cons _ (List.singleton_sublist.mpr hb'))
    · rcases List.mem_cons.mp hb with rfl | hb'
      · exact Or.inr (List.Sublist.cons_cons _ (List.singleton_sublist.mpr ha'))
      · rcases pair_sublist_or ha' hb' hne with h | h
        · exact Or.inl (h.cons _)
        · exact Or.inr (h.cons _)

/-- in a duplicate-free list two members cannot appear in both orders -/
theorem not_both_orders {α} {a b : α} {l : List α} (hnd : l.Nodup)
    (h1 : [a, b].Sublist l) (h2 : [b, a].Sublist l) : False := by
  have p1 : List.Pairwise (· ≠ ·) [a, b] := List.Pairwise.sublist h1 hnd
  have hab : a ≠ b := by simpa using p1
  induction l with
  | nil => simp at h1
  | cons x xs ih =>
    have hnd' := (List.nodup_cons.mp hnd)
    cases h1 with
    | cons _ h1' =>
      cases h2 with
      | cons _ h2' => exact ih hnd'.2 h1' h2'
      | cons_cons _ h2' =>
        -- x = b, a ∈ xs, and [b, a] ... but [a,b] <+ xs gives b ∈ xs
        have : b ∈ xs := by
          have := h1'.subset; exact this (by simp)
        exact hnd'.1 this
    | cons_cons _ h1' =>
      cases h2 with
      | cons _ h2' =>
        have : a ∈ xs := by
          have := h2'.subset; exact this (by simp)
        exact hnd'.1 this
      | cons_cons _ h2' => exact hab rfl

/-! ### the stable sort of the model -/

theorem _root_.List.wvInsert_perm {α} (le : α → α → Bool) (x : α) : ∀ l : List α, (List.wvInsert le x l).Perm (x :: l)
  | [] => List.Perm.refl _
  | y :: ys => by
    unfold List.wvInsert
    split
    · exact List.Perm.refl _
    · exact ((List.wvInsert_perm le x ys).cons y).trans (List.Perm.swap x y ys)

theorem _root_.List.wvSort_perm {α} : ∀ (l : List α) (le : α → α → Bool), (l.wvSort le).Perm l
  | [], _ => List.Perm.refl _
  | x :: xs, le => by
    unfold List.wvSort
    exact (List.wvInsert_perm le x _).trans ((List.wvSort_perm xs le).cons x)

theorem _root_.List.pairwise_wvInsert {α} {le : α → α → Bool}
    (trans : ∀ a b c, le a b = true → le b c = true → le a c = true)
    (total : ∀ a b, (le a b || le b a) = true) (x : α) :
    ∀ l : List α, l.Pairwise (fun a b => le a b = true) → (List.wvInsert le x l).Pairwise (fun a b => le a b = true)
  | [], _ => by simp [List.wvInsert]
  | y :: ys, h => by
    unfold List.wvInsert
    rw [List.pairwise_cons] at h
    split
    · rename_i hxy
      rw [List.pairwise_cons]
      refine ⟨fun z hz => ?_, List.pairwise_cons.mpr h⟩
      rcases List.mem_cons.mp hz with rfl | hz
      · exact hxy
      · exact trans _ _ _ hxy (h.1 z hz)
    · rename_i hxy
      have hyx : le y x = true := by
        have := total x y
        simp only [Bool.or_eq_true] at this
        rcases this with h1 | h1
        · exact absurd h1 hxy
        · exact h1
      rw [List.pairwise_cons]
      refine ⟨fun z hz => ?_, List.pairwise_wvInsert trans total x ys h.2⟩
      rcases List.mem_cons.mp ((List.wvInsert_perm le x ys).mem_iff.mp hz) with rfl | hz
      · exact hyx
      · exact h.1 z hz

theorem _root_.List.pairwise_wvSort {α} {le : α → α → Bool}
    (trans : ∀ a b c, le a b = true → le b c = true → le a c = true)
    (total : ∀ a b, (le a b || le b a) = true) :
    ∀ l : List α, (l.wvSort le).Pairwise (fun a b => le a b = true)
  | [] => List.Pairwise.nil
  | x :: xs => by
    unfold List.wvSort
    exact List.pairwise_wvInsert trans total x _ (List.pairwise_wvSort trans total xs)

theorem sublist_wvInsert {α} (le : α → α → Bool) (x : α) : ∀ l : List α, l.Sublist (List.wvInsert le x l)
  | [] => List.nil_sublist _
  | y :: ys => by
    unfold List.wvInsert
    split
    · exact List.sublist_cons_self _ _
    · exact (sublist_wvInsert le x ys).cons_cons y

theorem pair_sublist_wvInsert {α} (le : α → α → Bool) (x b : α) : ∀ l : List α, b ∈ l → le x b = true →
    [x, b].Sublist (List.wvInsert le x l)
  | [], hb, _ => by simp at hb
  | y :: ys, hb, hxb => by
    unfold List.wvInsert
    split
    · exact List.Sublist.cons_cons _ (List.singleton_sublist.mpr hb)
    · rename_i hxy
      rcases List.mem_cons.mp hb with rfl | hb'
      · exact absurd hxb hxy
      · exact (pair_sublist_wvInsert le x b ys hb' hxb).cons _

/-- stability: a pair in key order keeps its relative position -/
theorem pair_sublist_wvSort {α} (le : α → α → Bool) (a b : α) : ∀ l : List α, le a b = true →
    [a, b].Sublist l → [a, b].Sublist (l.wvSort le)
  | [], _, h => by simp at h
  | x :: xs, hab, h => by
    unfold List.wvSort
    cases h with
    | cons _ h' => exact (pair_sublist_wvSort le a b xs hab h').trans (sublist_wvInsert le x _)
    | cons_cons _ h' =>
      have hb : b ∈ xs := List.singleton_sublist.mp h'
      exact pair_sublist_wvInsert le a b _ ((List.wvSort_perm xs le).mem_iff.mpr hb) hab

/-- **Stability of the sort, pairwise form.**  In the output of the stable sort of a duplicate-free list,
an element `a` placed before `b` satisfies `le a b`, and when the keys tie (`le b a`) `a` was before `b`. -/
theorem wvSort_stable_pairwise {α} {le : α → α → Bool}
    (trans : ∀ a b c, le a b = true → le b c = true → le a c = true)
    (total : ∀ a b, (le a b || le b a) = true) (l : List α) (hnd : l.Nodup) :
    (l.wvSort le).Pairwise (fun a b => le a b = true ∧ (le b a = true → [a, b].Sublist l)) := by
  have hs := List.pairwise_wvSort trans total l
  have hp := List.wvSort_perm l le
  have hnd' : (l.wvSort le).Nodup := hp.nodup_iff.mpr hnd
  have hsub : ∀ a b, [a, b].Sublist (l.wvSort le) → le a b = true ∧ (le b a = true → [a, b].Sublist l) := by
    intro a b hab
    have hpw : List.Pairwise (fun a b => le a b = true) [a, b] := List.Pairwise.sublist hab hs
    have hle : le a b = true := by simpa using hpw
    refine ⟨hle, fun hba => ?_⟩
    have hne : a ≠ b := by
      have : List.Pairwise (· ≠ ·) [a, b] := List.Pairwise.sublist hab hnd'
      simpa using this
    have ha : a ∈ l := hp.subset (hab.subset (by simp))
    have hb : b ∈ l := hp.subset (hab.subset (by simp))
    rcases pair_sublist_or ha hb hne with h | h
    · exact h
    · exact (not_both_orders hnd' hab (pair_sublist_wvSort le b a l hba h)).elim
  exact List.pairwise_iff_forall_sublist.mpr (fun {a b} h => hsub a b h)

theorem pairwise_lt_of_le_nodup : ∀ {l : List Nat}, l.Pairwise (· ≤ ·) → l.Nodup → l.Pairwise (· < ·)
  | [], _, _ => List.Pairwise.nil
  | x :: xs, hp, hn => by
    rw [List.pairwise_cons] at hp ⊢
    rw [List.nodup_cons] at hn
    refine ⟨fun y hy => ?_, pairwise_lt_of_le_nodup hp.2 hn.2⟩
    have := hp.1 y hy
    have hne : x ≠ y := fun h => hn.1 (h ▸ hy)
    omega

/-- a member of a list whose image under `g` is duplicate free is the only one with its `g`-value -/
theorem filter_eq_singleton {α β} [DecidableEq β] (g : α → β) : ∀ (l : List α) (x : α),
    (l.map g).Nodup → x ∈ l → l.filter (fun y => decide (g y = g x)) = [x]
  | [], _, _, hx => by simp at hx
  | y :: ys, x, hnd, hx => by
    simp only [List.map_cons, List.nodup_cons] at hnd
    rcases List.mem_cons.mp hx with rfl | hx'
    · have : ys.filter (fun y => decide (g y = g x)) = [] := by
        apply List.filter_eq_nil_iff.mpr
        intro z hz
        simp only [decide_eq_true_eq]
        intro h
        exact hnd.1 (h ▸ List.mem_map_of_mem (f := g) hz)
      simp [this]
    · have hne : g y ≠ g x := fun h => hnd.1 (h ▸ List.mem_map_of_mem (f := g) hx')
      simp [hne, filter_eq_singleton g ys x hnd.2 hx']

theorem nodup_idxOf_getElem {l : List Nat} (hnd : l.Nodup) (j : Nat) (hj : j < l.length) :
    l.idxOf l[j] = j := by
  exact List.Nodup.idxOf_getElem hnd j hj

end IblVerif.Waveforms
