/-
Lemmas about `extract` (model of `extract_wfs_array`).
-/
import IblVerif.Lemmas.WaveformsChannel
namespace IblVerif.Waveforms

theorem extract_ok (arr : Arr) (cn : List (List Nat)) (df : List (Int × Int)) (off len : Nat)
    (last : Int × Int) (hl : df.getLast? = some last)
    (hassert : last.1 + ((len : Int) - off) < arr.ns)
    (hok : ∀ sp ∈ df, spikeOk arr cn off len sp = true) :
    extract arr cn df off len = .ok (df.map (waveform arr cn off len)) := by
  unfold extract
  rw [hl]
  have : df.all (spikeOk arr cn off len) = true := List.all_eq_true.mpr hok
  simp [hassert, this]

theorem spikeOk_of_window (arr : Arr) (cn : List (List Nat)) (off len : Nat) (sp : Int × Int)
    (hs : (off : Int) ≤ sp.1) (he : sp.1 + ((len : Int) - off) ≤ arr.ns)
    (hp0 : 0 ≤ sp.2) (hp : sp.2 < cn.length)
    (hcn : ∀ row ∈ cn, ∀ c ∈ row, c < arr.nrows) :
    spikeOk arr cn off len sp = true := by
  unfold spikeOk
  have hidx : pyIdx cn.length sp.2 = sp.2.toNat := by
    unfold pyIdx; rw [if_neg (by omega)]
  have hlt : sp.2.toNat < cn.length := by omega
  simp only [Bool.and_eq_true, List.all_eq_true, List.mem_range]
  refine ⟨⟨?_, ?_⟩, ?_⟩
  · unfold pyIdxOk; simp only [Bool.and_eq_true, decide_eq_true_eq]; omega
  · intro t ht
    unfold pyIdxOk; simp only [Bool.and_eq_true, decide_eq_true_eq]; omega
  · rw [hidx, List.getElem?_eq_getElem hlt]
    simp only [List.all_eq_true, decide_eq_true_eq]
    exact hcn _ (List.getElem_mem hlt)

theorem waveform_of_window (arr : Arr) (cn : List (List Nat)) (off len : Nat) (sp : Int × Int)
    (hs : (off : Int) ≤ sp.1) (hp0 : 0 ≤ sp.2) :
    waveform arr cn off len sp =
      (cn.getD sp.2.toNat []).map fun c => (List.range len).map fun t => arr.val c ((sp.1 - off).toNat + t) := by
  unfold waveform
  have hidx : pyIdx cn.length sp.2 = sp.2.toNat := by
    unfold pyIdx; rw [if_neg (by omega)]
  rw [hidx]
  apply List.map_congr_left
  intro c _
  apply List.map_congr_left
  intro t _
  congr 1
  unfold pyIdx
  rw [if_neg (by omega)]
  omega

theorem range_map_const {α} (n : Nat) (a : α) : (List.range n).map (fun _ => a) = List.replicate n a := by
  induction n with
  | zero => rfl
  | succ k ih => rw [List.range_succ, List.map_append, ih]; simp [List.replicate_succ']

/-- the waveform of a spike on a NaN-extended recording with the neighbour table of a geometry:
the source window on the ascending within-radius channels, then all-NaN rows -/
theorem waveform_neighbourhood (data : Arr) (geom : Array Pt) (r2 off len : Nat) (s : Int) (p : Nat)
    (hg : geom.size = data.nrows) (hp : p < geom.size) (hs : (off : Int) ≤ s) :
    waveform data.addNan ((List.range geom.size).map fun c => padRow (nbWidth geom r2) geom.size (nbList geom r2 c))
        off len (s, (p : Int)) =
      (nbList geom r2 p).map (fun c => (List.range len).map fun t => data.val c ((s - off).toNat + t))
      ++ List.replicate (nbWidth geom r2 - (nbList geom r2 p).length) (List.replicate len none) := by
  rw [waveform_of_window _ _ _ _ _ hs (by simp)]
  simp only [Int.toNat_natCast]
  have hrow : ((List.range geom.size).map fun c => padRow (nbWidth geom r2) geom.size (nbList geom r2 c)).getD p []
      = padRow (nbWidth geom r2) geom.size (nbList geom r2 p) := by
    rw [List.getD_eq_getElem?_getD, List.getElem?_map, List.getElem?_range hp]; rfl
  rw [hrow]
  unfold padRow
  rw [List.map_append, List.map_replicate]
  congr 1
  · apply List.map_congr_left
    intro c hc
    have hc' : c < data.nrows := by
      rw [← hg]
      have := (mem_nbList geom r2 p c).mp hc
      obtain ⟨_, q, _, hq, _⟩ := this
      by_cases h : c < geom.size
      · exact h
      · simp [Array.getElem?_eq_none (Nat.le_of_not_lt h)] at hq
    apply List.map_congr_left
    intro t _
    simp [Arr.addNan, hc']
  · congr 1
    have : ∀ t, data.addNan.val geom.size t = none := by
      intro t; simp [Arr.addNan, hg]
    simp only [this]
    exact range_map_const len none

end IblVerif.Waveforms
