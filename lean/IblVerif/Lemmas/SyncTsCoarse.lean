/-
Lemmas about the coarse-offset step of the closed C19 model (`Model/SyncTsFull.lean`): occupied bins, the coincidence
count `corrAt`, the run-length table of the sorted differences and its first maximum.
-/
import IblVerif.Model.SyncTsFull
import Mathlib.Data.List.Nodup
import Mathlib.Data.List.Count
import Mathlib.Data.List.Perm.Basic
import Mathlib.Tactic.Linarith
import Mathlib.Algebra.Order.Field.Rat
import Mathlib.Algebra.Order.Ring.Abs
import Mathlib.Algebra.Order.Field.Basic
import Mathlib.Tactic.Ring
import Mathlib.Tactic.FieldSimp
import Mathlib.Tactic.Positivity
import Mathlib.Tactic.NormNum

namespace IblVerif.SyncTs

/-! ### `dedup` -/

theorem mem_dedup {x : Int} {l : List Int} : x ∈ dedup l ↔ x ∈ l := by
  induction l with
  | nil => simp [dedup]
  | cons y ys ih =>
    unfold dedup
    by_cases h : ys.contains y
    · simp only [h, if_true, ih, List.mem_cons]
      constructor
      · intro hx; exact Or.inr hx
      · rintro (rfl | hx)
        · simpa using h
        · exact hx
    · simp only [h, Bool.false_eq_true, if_false, List.mem_cons, ih]

theorem nodup_dedup (l : List Int) : (dedup l).Nodup := by
  induction l with
  | nil => simp [dedup]
  | cons y ys ih =>
    unfold dedup
    by_cases h : ys.contains y
    · simp only [h, if_true]; exact ih
    · simp only [h, Bool.false_eq_true, if_false]
      refine List.nodup_cons.mpr ⟨?_, ih⟩
      rw [mem_dedup]
      simpa using h

theorem dedup_map_add (l : List Int) (s : Int) : dedup (l.map (· + s)) = (dedup l).map (· + s) := by
  induction l with
  | nil => rfl
  | cons y ys ih =>
    simp only [List.map_cons, dedup]
    have : (ys.map (· + s)).contains (y + s) = ys.contains y := by
      rw [Bool.eq_iff_iff]
      simp
    rw [this]
    split <;> simp [ih]

theorem dedup_ne_nil {l : List Int} (h : l ≠ []) : dedup l ≠ [] := by
  cases l with
  | nil => exact absurd rfl h
  | cons y ys =>
    intro hd
    have : y ∈ dedup (y :: ys) := mem_dedup.mpr List.mem_cons_self
    rw [hd] at this
    simp at this

/-! ### The coincidence count of a train with a shifted copy of itself -/

/-- `#{q ∈ B : q + d ∈ B}` -/
def selfCorr (B : List Int) (d : Int) : Nat := (B.filter fun q => B.contains (q + d)).length

theorem corrAt_shift (B : List Int) (s lag : Int) : corrAt (B.map (· + s)) B lag = selfCorr B (s - lag) := by
  unfold corrAt selfCorr
  rw [List.filter_map, List.length_map]
  have : ∀ q : Int, q + s - lag = q + (s - lag) := by intro q; omega
  simp [Function.comp_def, this]

theorem corrAt_le (A B : List Int) (lag : Int) : corrAt A B lag ≤ A.length := List.length_filter_le _ _

theorem selfCorr_zero (B : List Int) : selfCorr B 0 = B.length := by
  unfold selfCorr
  rw [List.filter_eq_self.mpr]
  intro q hq
  simpa using hq

theorem exists_max (l : List Int) (h : l ≠ []) : ∃ m ∈ l, ∀ x ∈ l, x ≤ m := by
  induction l with
  | nil => exact absurd rfl h
  | cons y ys ih =>
    by_cases hys : ys = []
    · subst hys; exact ⟨y, List.mem_cons_self, by simp⟩
    · obtain ⟨m, hm, hmax⟩ := ih hys
      by_cases hym : y ≤ m
      · refine ⟨m, List.mem_cons_of_mem _ hm, ?_⟩
        intro x hx
        rcases List.mem_cons.mp hx with rfl | hx
        · exact hym
        · exact hmax x hx
      · refine ⟨y, List.mem_cons_self, ?_⟩
        intro x hx
        rcases List.mem_cons.mp hx with rfl | hx
        · exact Int.le_refl _
        · have := hmax x hx; omega

theorem exists_min (l : List Int) (h : l ≠ []) : ∃ m ∈ l, ∀ x ∈ l, m ≤ x := by
  induction l with
  | nil => exact absurd rfl h
  | cons y ys ih =>
    by_cases hys : ys = []
    · subst hys; exact ⟨y, List.mem_cons_self, by simp⟩
    · obtain ⟨m, hm, hmin⟩ := ih hys
      by_cases hym : m ≤ y
      · refine ⟨m, List.mem_cons_of_mem _ hm, ?_⟩
        intro x hx
        rcases List.mem_cons.mp hx with rfl | hx
        · exact hym
        · exact hmin x hx
      · refine ⟨y, List.mem_cons_self, ?_⟩
        intro x hx
        rcases List.mem_cons.mp hx with rfl | hx
        · exact Int.le_refl _
        · have := hmin x hx; omega

/-- A finite non-empty set of bins is not invariant under a non-zero shift. -/
theorem selfCorr_lt (B : List Int) (hne : B ≠ []) (d : Int) (hd : d ≠ 0) : selfCorr B d < B.length := by
  unfold selfCorr
  apply List.length_filter_lt_length_iff_exists.mpr
  rcases Int.lt_or_gt_of_ne hd with hneg | hpos
  · obtain ⟨m, hm, hmin⟩ := exists_min B hne
    refine ⟨m, hm, ?_⟩
    intro hc
    have : m + d ∈ B := by simpa using hc
    have := hmin _ this
    omega
  · obtain ⟨m, hm, hmax⟩ := exists_max B hne
    refine ⟨m, hm, ?_⟩
    intro hc
    have : m + d ∈ B := by simpa using hc
    have := hmax _ this
    omega

/-- The coincidence count of a train with itself is symmetric in the lag. -/
theorem selfCorr_neg (B : List Int) (hB : B.Nodup) (d : Int) : selfCorr B (-d) = selfCorr B d := by
  unfold selfCorr
  have hperm : ((B.filter fun q => B.contains (q + d)).map (· + d)).Perm (B.filter fun r => B.contains (r + -d)) := by
    apply (List.perm_ext_iff_of_nodup ?_ ?_).mpr
    · intro a
      simp only [List.mem_map, List.mem_filter, List.contains_iff_mem]
      constructor
      · rintro ⟨q, ⟨hq, hqd⟩, rfl⟩
        refine ⟨hqd, ?_⟩
        have : q + d + -d = q := by omega
        rw [this]; exact hq
      · rintro ⟨ha, had⟩
        refine ⟨a + -d, ⟨had, ?_⟩, by omega⟩
        have : a + -d + d = a := by omega
        rw [this]; exact ha
    · exact (hB.filter _).map (add_left_injective d)
    · exact hB.filter _
  rw [← hperm.length_eq, List.length_map]

/-! ### Differences and their multiplicities -/

theorem count_diffs (A B : List Int) (hB : B.Nodup) (v : Int) : (diffs A B).count v = corrAt A B v := by
  unfold diffs corrAt
  induction A with
  | nil => simp
  | cons p A ih =>
    rw [List.flatMap_cons, List.count_append, ih, List.filter_cons]
    have hinj : Function.Injective (fun q : Int => p - q) := by
      intro a b hab
      simp only at hab
      omega
    have h1 : (B.map fun q => p - q).count v = if B.contains (p - v) then 1 else 0 := by
      have hv : v = (fun q : Int => p - q) (p - v) := by simp
      rw [hv, List.count_map_of_injective _ _ hinj]
      simp only [sub_sub_cancel]
      by_cases hm : (p - v) ∈ B
      · simp [hm, List.count_eq_one_of_mem hB hm]
      · simp [hm, List.count_eq_zero_of_not_mem hm]
    rw [h1]
    by_cases hm : (p - v) ∈ B
    · simp [hm]; omega
    · simp [hm]

/-! ### Run lengths of a sorted list -/

theorem rle_spec (l : List Int) (hs : l.Pairwise (· ≤ ·)) :
    (rle l).Pairwise (fun p q => p.1 < q.1) ∧
    (∀ p ∈ rle l, p.2 = l.count p.1 ∧ 0 < p.2 ∧ p.1 ∈ l) ∧
    (∀ v ∈ l, ∃ c, (v, c) ∈ rle l) := by
  induction l with
  | nil => simp [rle]
  | cons x xs ih =>
    obtain ⟨hx, hxs⟩ := List.pairwise_cons.mp hs
    obtain ⟨ih1, ih2, ih3⟩ := ih hxs
    unfold rle
    cases hr : rle xs with
    | nil =>
      have hnil : xs = [] := by
        cases xs with
        | nil => rfl
        | cons z zs =>
          obtain ⟨c, hc⟩ := ih3 z List.mem_cons_self
          rw [hr] at hc; simp at hc
      subst hnil
      simp
    | cons yc r =>
      obtain ⟨y, c⟩ := yc
      rw [hr] at ih1 ih2 ih3
      obtain ⟨hyr, hrr⟩ := List.pairwise_cons.mp ih1
      have hy := ih2 (y, c) List.mem_cons_self
      have hxy : x ≤ y := hx y hy.2.2
      by_cases hxe : x = y
      · subst hxe
        simp only [if_true]
        refine ⟨List.pairwise_cons.mpr ⟨hyr, hrr⟩, ?_, ?_⟩
        · intro p hp
          rcases List.mem_cons.mp hp with rfl | hp
          · refine ⟨?_, by omega, List.mem_cons_self⟩
            simp only [List.count_cons_self]
            rw [← hy.1]
          · have h := ih2 p (List.mem_cons_of_mem _ hp)
            have hlt := hyr p hp
            refine ⟨?_, h.2.1, List.mem_cons_of_mem _ h.2.2⟩
            rw [List.count_cons_of_ne (by have := hlt; simp only at this; omega)]
            exact h.1
        · intro v hv
          rcases List.mem_cons.mp hv with rfl | hv
          · exact ⟨c + 1, List.mem_cons_self⟩
          · obtain ⟨c', hc'⟩ := ih3 v hv
            rcases List.mem_cons.mp hc' with h | h
            · have : v = x := by injection h
              subst this
              exact ⟨c + 1, List.mem_cons_self⟩
            · exact ⟨c', List.mem_cons_of_mem _ h⟩
      · have hlt : x < y := by omega
        simp only [hxe, if_false]
        have hxnot : x ∉ xs := by
          intro hmem
          obtain ⟨c', hc'⟩ := ih3 x hmem
          rcases List.mem_cons.mp hc' with h | h
          · have : x = y := by injection h
            exact hxe this
          · have := hyr _ h
            simp only at this
            omega
        refine ⟨?_, ?_, ?_⟩
        · refine List.pairwise_cons.mpr ⟨?_, List.pairwise_cons.mpr ⟨hyr, hrr⟩⟩
          intro p hp
          rcases List.mem_cons.mp hp with rfl | hp
          · exact hlt
          · have := hyr p hp
            simp only at this ⊢
            omega
        · intro p hp
          rcases List.mem_cons.mp hp with rfl | hp
          · refine ⟨?_, by omega, List.mem_cons_self⟩
            simp [List.count_eq_zero_of_not_mem hxnot]
          · have h := ih2 p hp
            refine ⟨?_, h.2.1, List.mem_cons_of_mem _ h.2.2⟩
            have hne : x ≠ p.1 := by
              intro he
              exact hxnot (he ▸ h.2.2)
            rw [List.count_cons_of_ne hne]
            exact h.1
        · intro v hv
          rcases List.mem_cons.mp hv with rfl | hv
          · exact ⟨1, List.mem_cons_self⟩
          · obtain ⟨c', hc'⟩ := ih3 v hv
            exact ⟨c', List.mem_cons_of_mem _ hc'⟩

/-! ### First maximum -/

theorem bestRun_fold (rest : List (Int × Nat)) :
    ∀ (l1 l2 : List (Int × Nat)) (b : Int × Nat), (∀ p ∈ l1, p.2 < b.2) → (∀ p ∈ l2, p.2 ≤ b.2) →
      ∃ l1' l2', l1 ++ b :: l2 ++ rest =
          l1' ++ (rest.foldl (fun best q => if best.2 < q.2 then q else best) b) :: l2' ∧
        (∀ p ∈ l1', p.2 < (rest.foldl (fun best q => if best.2 < q.2 then q else best) b).2) ∧
        (∀ p ∈ l2', p.2 ≤ (rest.foldl (fun best q => if best.2 < q.2 then q else best) b).2) := by
  induction rest with
  | nil =>
    intro l1 l2 b h1 h2
    exact ⟨l1, l2, by simp, h1, h2⟩
  | cons q rest ih =>
    intro l1 l2 b h1 h2
    simp only [List.foldl_cons]
    by_cases hq : b.2 < q.2
    · simp only [hq, if_true]
      obtain ⟨l1', l2', he, h1', h2'⟩ := ih (l1 ++ b :: l2) [] q (by
        intro p hp
        rcases List.mem_append.mp hp with hp | hp
        · have := h1 p hp; omega
        · rcases List.mem_cons.mp hp with rfl | hp
          · exact hq
          · have := h2 p hp; omega) (by simp)
      refine ⟨l1', l2', ?_, h1', h2'⟩
      rw [← he]; simp
    · simp only [hq, if_false]
      obtain ⟨l1', l2', he, h1', h2'⟩ := ih l1 (l2 ++ [q]) b h1 (by
        intro p hp
        rcases List.mem_append.mp hp with hp | hp
        · exact h2 p hp
        · have : p = q := by simpa using hp
          subst this; omega)
      refine ⟨l1', l2', ?_, h1', h2'⟩
      rw [← he]; simp

theorem bestRun_spec (l : List (Int × Nat)) (r : Int × Nat) (h : bestRun l = some r) :
    ∃ l1 l2, l = l1 ++ r :: l2 ∧ (∀ p ∈ l1, p.2 < r.2) ∧ (∀ p ∈ l2, p.2 ≤ r.2) := by
  cases l with
  | nil => simp [bestRun] at h
  | cons p rest =>
    simp only [bestRun, Option.some.injEq] at h
    obtain ⟨l1, l2, he, h1, h2⟩ := bestRun_fold rest [] [] p (by simp) (by simp)
    rw [h] at he h1 h2
    exact ⟨l1, l2, by simpa using he, h1, h2⟩

theorem bestRun_isSome {l : List (Int × Nat)} (h : l ≠ []) : ∃ r, bestRun l = some r := by
  cases l with
  | nil => exact absurd rfl h
  | cons p rest => exact ⟨_, rfl⟩

/-! ### The table of lags -/

theorem sorted_diffs (A B : List Int) :
    ((diffs A B).mergeSort fun a b => decide (a ≤ b)).Pairwise (· ≤ ·) := by
  have := List.pairwise_mergeSort (le := fun a b : Int => decide (a ≤ b))
    (by intro a b c h1 h2; simp only [decide_eq_true_eq] at *; omega)
    (by intro a b; simp only [Bool.or_eq_true, decide_eq_true_eq]; omega) (diffs A B)
  simpa using this

/-- The table lists exactly the lags with a non-zero correlation, in increasing order, each with its correlation value. -/
theorem lagTable_spec (A B : List Int) (hB : B.Nodup) :
    (lagTable A B).Pairwise (fun p q => p.1 < q.1) ∧
    (∀ p ∈ lagTable A B, p.2 = corrAt A B p.1 ∧ 0 < p.2) ∧
    (∀ v, 0 < corrAt A B v → (v, corrAt A B v) ∈ lagTable A B) := by
  obtain ⟨h1, h2, h3⟩ := rle_spec _ (sorted_diffs A B)
  have hcount : ∀ v, ((diffs A B).mergeSort fun a b => decide (a ≤ b)).count v = corrAt A B v := by
    intro v
    rw [(List.mergeSort_perm _ _).count_eq, count_diffs A B hB]
  refine ⟨h1, ?_, ?_⟩
  · intro p hp
    have := h2 p hp
    rw [hcount] at this
    exact ⟨this.1, this.2.1⟩
  · intro v hv
    have hmem : v ∈ (diffs A B).mergeSort fun a b => decide (a ≤ b) := by
      rw [← hcount] at hv
      exact List.count_pos_iff.mp hv
    obtain ⟨c, hc⟩ := h3 v hmem
    have := (h2 _ hc).1
    simp only at this
    rw [hcount] at this
    rw [← this]; exact hc

/-- `peakLag` is `np.argmax` of the full correlation: the value there is the correlation at that lag, no lag has a larger
one and every smaller lag has a strictly smaller one (first maximum). -/
theorem peakLag_spec (A B : List Int) (hB : B.Nodup) (l : Int) (m : Nat) (h : peakLag A B = some (l, m)) :
    m = corrAt A B l ∧ 0 < m ∧ (∀ d, corrAt A B d ≤ m) ∧ (∀ d, d < l → corrAt A B d < m) := by
  unfold peakLag at h
  obtain ⟨hpw, hval, hall⟩ := lagTable_spec A B hB
  obtain ⟨l1, l2, he, hl1, hl2⟩ := bestRun_spec _ _ h
  have hmem : (l, m) ∈ lagTable A B := by rw [he]; simp
  have hm := hval _ hmem
  simp only at hm hl1 hl2
  rw [he] at hpw
  obtain ⟨_, hpw2, _⟩ := List.pairwise_append.mp hpw
  obtain ⟨hafter, _⟩ := List.pairwise_cons.mp hpw2
  have key : ∀ d, 0 < corrAt A B d → ((d, corrAt A B d) ∈ l1 ∨ d = l ∨ (d, corrAt A B d) ∈ l2) := by
    intro d hd
    have := hall d hd
    rw [he] at this
    rcases List.mem_append.mp this with h | h
    · exact Or.inl h
    · rcases List.mem_cons.mp h with h | h
      · right; left; injection h
      · exact Or.inr (Or.inr h)
  refine ⟨hm.1, hm.2, ?_, ?_⟩
  · intro d
    by_cases hd : 0 < corrAt A B d
    · rcases key d hd with h | h | h
      · have := hl1 _ h; simp only at this; omega
      · subst h; omega
      · have := hl2 _ h; simpa using this
    · omega
  · intro d hdl
    by_cases hd : 0 < corrAt A B d
    · rcases key d hd with h | h | h
      · have := hl1 _ h; simpa using this
      · omega
      · have := hafter _ h; simp only at this; omega
    · omega

theorem peakLag_isSome (A B : List Int) (hA : A ≠ []) (hB : B ≠ []) : ∃ r, peakLag A B = some r := by
  unfold peakLag
  apply bestRun_isSome
  obtain ⟨p, A', rfl⟩ := List.exists_cons_of_ne_nil hA
  obtain ⟨q, B', rfl⟩ := List.exists_cons_of_ne_nil hB
  obtain ⟨_, _, h3⟩ := rle_spec _ (sorted_diffs (p :: A') (q :: B'))
  have hmem : (p - q) ∈ (diffs (p :: A') (q :: B')).mergeSort fun a b => decide (a ≤ b) := by
    rw [(List.mergeSort_perm _ _).mem_iff]
    simp [diffs]
  obtain ⟨c, hc⟩ := h3 _ hmem
  intro hnil
  unfold lagTable at hnil
  rw [hnil] at hc
  simp at hc

/-! ### The parabolic refinement and `delta_t` -/

theorem parabolicOffset_abs_le (v0 v1 v2 : ℚ) (h0 : v0 ≤ v1) (h2 : v2 ≤ v1) : |parabolicOffset v0 v1 v2| ≤ 1 / 2 := by
  unfold parabolicOffset
  by_cases hp : (v0 - 2 * v1 + v2) / 2 = 0
  · have e0 : v0 = v1 := by
      have : v0 - 2 * v1 + v2 = 0 := by linarith
      linarith
    have e2 : v2 = v1 := by
      have : v0 - 2 * v1 + v2 = 0 := by linarith
      linarith
    simp [e0, e2]
  · simp only [hp, if_false, add_zero]
    have hneg : (v0 - 2 * v1 + v2) / 2 < 0 := lt_of_le_of_ne (by linarith) hp
    have habs : |(v2 - v0) / 2| ≤ |(v0 - 2 * v1 + v2) / 2| := by
      rw [abs_of_neg hneg, abs_le]
      constructor <;> linarith
    have hpos : 0 < |(v0 - 2 * v1 + v2) / 2| := abs_pos.mpr hp
    rw [abs_div, abs_div, abs_neg, div_div, div_le_iff₀ (by positivity)]
    have : |(2 : ℚ)| = 2 := abs_of_pos (by norm_num)
    rw [this]
    linarith

theorem parabolicOffset_symm (v v1 : ℚ) : parabolicOffset v v1 v = 0 := by
  unfold parabolicOffset
  simp

theorem parabolicPeakI_within (ns imax : Int) (v0 v1 v2 : ℚ) (h0 : v0 ≤ v1) (h2 : v2 ≤ v1) :
    |parabolicPeakI ns imax v0 v1 v2 - (imax : ℚ)| ≤ 1 / 2 := by
  unfold parabolicPeakI
  split
  · simp
  · rw [add_sub_cancel_right]
    exact parabolicOffset_abs_le v0 v1 v2 h0 h2

/-- What the coarse step returns, for any occupied bins: the lag is the first maximum of the correlation over ALL lags and
`delta_t` lies within half a bin of that lag. -/
theorem coarseOfBins_spec (n : Int) (A B : List Int) (tbin : ℚ) (c : Coarse) (hB : B.Nodup) (hb : 0 ≤ tbin)
    (h : coarseOfBins n A B tbin = some c) :
    c.n = n ∧ c.v1 = corrAt A B c.lag ∧ c.v0 = corrAt A B (c.lag - 1) ∧ c.v2 = corrAt A B (c.lag + 1) ∧ 0 < c.v1 ∧
    (∀ d, corrAt A B d ≤ c.v1) ∧ (∀ d, d < c.lag → corrAt A B d < c.v1) ∧
    |c.delta - (c.lag : ℚ) * tbin| ≤ tbin / 2 := by
  unfold coarseOfBins at h
  simp only at h
  cases hr : bestRun (lagTable A B) with
  | none => simp [hr] at h
  | some r =>
    obtain ⟨l, m⟩ := r
    simp only [hr, Option.some.injEq] at h
    obtain ⟨hm, hpos, hmax, hfirst⟩ := peakLag_spec A B hB l m hr
    subst h
    refine ⟨rfl, hm, rfl, rfl, hpos, hmax, hfirst, ?_⟩
    simp only
    have hw := parabolicPeakI_within (2 * n - 1) (l + n - 1) (corrAt A B (l - 1) : ℚ) (m : ℚ) (corrAt A B (l + 1) : ℚ)
      (by exact_mod_cast hmax _) (by exact_mod_cast hmax _)
    unfold deltaT
    have e : (parabolicPeakI (2 * n - 1) (l + n - 1) (corrAt A B (l - 1) : ℚ) (m : ℚ) (corrAt A B (l + 1) : ℚ) - (n : ℚ) + 1) * tbin
        - (l : ℚ) * tbin =
        (parabolicPeakI (2 * n - 1) (l + n - 1) (corrAt A B (l - 1) : ℚ) (m : ℚ) (corrAt A B (l + 1) : ℚ)
          - ((l + n - 1 : Int) : ℚ)) * tbin := by
      push_cast; ring
    rw [e, abs_mul, abs_of_nonneg hb]
    calc _ ≤ (1 / 2) * tbin := mul_le_mul_of_nonneg_right hw hb
      _ = tbin / 2 := by ring

/-! ### Exact copies, shifted by a whole number of bins -/

theorem coarseOfBins_shifted (n : Int) (B : List Int) (hB : B.Nodup) (hne : B ≠ []) (s : Int) (tbin : ℚ) :
    ∃ c, coarseOfBins n (B.map (· + s)) B tbin = some c ∧ c.lag = s ∧ c.v1 = B.length ∧ c.v0 = c.v2 ∧
      c.delta = (s : ℚ) * tbin ∧ c.ties = 1 := by
  have hA : B.map (· + s) ≠ [] := by simpa using hne
  obtain ⟨⟨l, m⟩, hr⟩ := peakLag_isSome (B.map (· + s)) B hA hne
  obtain ⟨hm, _, hmax, _⟩ := peakLag_spec _ B hB l m hr
  have h1 : B.length ≤ m := by
    have := hmax s
    rwa [corrAt_shift, sub_self, selfCorr_zero] at this
  have h2 : m ≤ B.length := by
    rw [hm]
    have := corrAt_le (B.map (· + s)) B l
    simpa using this
  have hml : m = B.length := by omega
  have hl : l = s := by
    by_contra hne'
    have := selfCorr_lt B hne (s - l) (by omega)
    rw [← corrAt_shift, ← hm] at this
    omega
  subst hl
  have hsym : corrAt (B.map (· + l)) B (l - 1) = corrAt (B.map (· + l)) B (l + 1) := by
    rw [corrAt_shift, corrAt_shift]
    have e1 : l - (l - 1) = 1 := by omega
    have e2 : l - (l + 1) = -1 := by omega
    rw [e1, e2, selfCorr_neg B hB]
  unfold peakLag at hr
  refine ⟨_, by unfold coarseOfBins; simp only [hr]; rfl, rfl, hml, ?_, ?_, ?_⟩
  · simp only [hsym]
  · simp only [hsym]
    unfold deltaT parabolicPeakI
    rw [parabolicOffset_symm]
    split <;> (push_cast; ring)
  · -- the maximum is attained at one lag only
    simp only
    obtain ⟨hpw, hval, hall⟩ := lagTable_spec (B.map (· + l)) B hB
    have hnd : (lagTable (B.map (· + l)) B).Nodup := by
      refine hpw.imp ?_
      intro a b hab e
      rw [e] at hab
      exact lt_irrefl _ hab
    have hmem : (l, m) ∈ lagTable (B.map (· + l)) B := by
      have := hall l (by rw [← hm]; omega)
      rwa [← hm] at this
    have hfilter : (lagTable (B.map (· + l)) B).filter (fun p => decide (p.2 = m)) =
        (lagTable (B.map (· + l)) B).filter (fun p => p == (l, m)) := by
      apply List.filter_congr
      intro p hp
      have hv := (hval p hp).1
      by_cases hpm : p.2 = m
      · have hpl : p.1 = l := by
          by_contra hne'
          have := selfCorr_lt B hne (l - p.1) (by omega)
          rw [← corrAt_shift, ← hv, hpm] at this
          omega
        have : p = (l, m) := Prod.ext hpl hpm
        simp [this]
      · have : p ≠ (l, m) := fun e => hpm (by rw [e])
        simp [hpm, this]
    rw [hfilter, ← List.countP_eq_length_filter]
    exact List.count_eq_one_of_mem hnd hmem

theorem binIndex_add (tmin tbin t : ℚ) (s : ℤ) (hb : tbin ≠ 0) :
    binIndex tmin tbin (t + s * tbin) = binIndex tmin tbin t + s := by
  unfold binIndex
  have : (t + s * tbin - tmin) / tbin = (t - tmin) / tbin + s := by
    field_simp
    ring
  rw [this, Rat.floor_add_intCast]

theorem occupied_shift (tmin tbin : ℚ) (ts : List ℚ) (s : ℤ) (hb : tbin ≠ 0) :
    occupied tmin tbin (ts.map (· + s * tbin)) = (occupied tmin tbin ts).map (· + s) := by
  unfold occupied
  rw [List.map_map, ← dedup_map_add, List.map_map]
  congr 1
  apply List.map_congr_left
  intro t _
  simp [binIndex_add tmin tbin t s hb]

theorem listMin_isSome {l : List ℚ} (h : l ≠ []) : ∃ m, listMin l = some m := by
  cases l with
  | nil => exact absurd rfl h
  | cons x xs => exact ⟨_, rfl⟩

theorem listMax_isSome {l : List ℚ} (h : l ≠ []) : ∃ m, listMax l = some m := by
  cases l with
  | nil => exact absurd rfl h
  | cons x xs => exact ⟨_, rfl⟩

theorem occupied_nodup (tmin tbin : ℚ) (ts : List ℚ) : (occupied tmin tbin ts).Nodup := nodup_dedup _

theorem occupied_ne_nil (tmin tbin : ℚ) {ts : List ℚ} (h : ts ≠ []) : occupied tmin tbin ts ≠ [] :=
  dedup_ne_nil (by simpa using h)

/-- Exact copies: if `tsa` is `tsb` moved by a whole number `s` of bins, the coarse step returns `delta_t = s·tbin`
exactly (the correlation peaks at lag `s` with every occupied bin coinciding, is symmetric around it, so the parabolic
refinement adds nothing). -/
theorem coarse_shifted_copy (tsb : List ℚ) (tbin : ℚ) (s : ℤ) (hb : tbin ≠ 0) (hne : tsb ≠ []) :
    ∃ c, coarse (tsb.map (· + s * tbin)) tsb tbin = some c ∧ c.lag = s ∧ c.delta = (s : ℚ) * tbin ∧ c.v0 = c.v2 ∧
      c.ties = 1 ∧ ∃ tmin, c.v1 = (occupied tmin tbin tsb).length := by
  unfold coarse
  have hA : tsb.map (· + s * tbin) ≠ [] := by simpa using hne
  have happ : tsb.map (· + s * tbin) ++ tsb ≠ [] := by simp [hne]
  obtain ⟨tmin, hmin⟩ := listMin_isSome happ
  obtain ⟨tmax, hmax⟩ := listMax_isSome happ
  simp only [hA, hne, or_self, if_false, hmin, hmax]
  rw [occupied_shift tmin tbin tsb s hb]
  obtain ⟨c, hc, h1, h2, h3, h4, h5⟩ := coarseOfBins_shifted (nbins tmin tmax tbin) (occupied tmin tbin tsb)
    (occupied_nodup _ _ _) (occupied_ne_nil _ _ hne) s tbin
  exact ⟨c, hc, h1, h4, h3, h5, tmin, h2⟩

end IblVerif.SyncTs
