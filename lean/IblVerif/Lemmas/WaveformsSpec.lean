/-
Facts about the record `specOutput` that `extractBin` returns on the domain: row numbering, which spikes the
rows are, order of the rows.
-/
import IblVerif.Lemmas.WaveformsMain
namespace IblVerif.Waveforms

theorem domain_rows (choose : Choose) (rec : Arr) (cn : List (List Nat)) (sp : List Spike)
    (off len maxWf cs : Nat) (sched : List Nat) (d : Domain choose rec cn sp off len maxWf cs sched) :
    ∃ cl, GoodTable (tableRows sp (wfIdx choose sp rec.ns off len maxWf)) cl ∧
      tableRows sp (wfIdx choose sp rec.ns off len maxWf) ≠ [] ∧
      (∀ r ∈ tableRows sp (wfIdx choose sp rec.ns off len maxWf),
        allowed rec.ns off len r.sample = true ∧ 0 ≤ r.peak ∧ r.peak < cn.length ∧ r.cluster ∈ unitIds sp) ∧
      (stepsOf ((tableRows sp (wfIdx choose sp rec.ns off len maxWf)).wvSort leRow)).length
        = (wfIdx choose sp rec.ns off len maxWf).length := by
  have hidx_sorted := wfIdx_sorted choose sp rec.ns off len maxWf d.law
  have hidx_lt := wfIdx_lt choose sp rec.ns off len maxWf d.law
  have g := tableRows_good sp _ hidx_sorted hidx_lt d.sortedInTime
  have hfacts := row_facts choose rec cn sp off len maxWf d.law d.peaks
  have hne : tableRows sp (wfIdx choose sp rec.ns off len maxWf) ≠ [] := by
    intro h
    have := tableRows_length sp (wfIdx choose sp rec.ns off len maxWf)
    rw [h] at this
    exact wfIdx_ne_nil choose sp rec.ns off len maxWf d.law d.maxWfPos d.someValid
      (List.length_eq_zero_iff.mp this.symm)
  have hsample : ∀ r ∈ tableRows sp (wfIdx choose sp rec.ns off len maxWf), (0 : Int) ≤ r.sample := by
    intro r hr
    have := (allowed_iff _ _ _ _).mp (hfacts r hr).1
    omega
  have hfin := finish_ok g hne [] cn 0 len (unitIds sp).length hsample
    (fun r hr => ⟨(hfacts r hr).2.1, (hfacts r hr).2.2.1⟩) (unitIds sp) rfl (fun r hr => (hfacts r hr).2.2.2)
  exact ⟨_, g, hne, hfacts, by rw [hfin.1, tableRows_length]⟩

/-- the saved table: the sorted rows with `index_within_clusters` filled in -/
def tbl (S : List Row) : List Row :=
  (S.zip (cumsumM1 0 (stepsOf S))).map fun (r, v) => { r with iwc := v }

theorem tbl_map {β} (S : List Row) (h : (stepsOf S).length = S.length) (f : Row → β)
    (hf : ∀ r v, f { r with iwc := v } = f r) : (tbl S).map f = S.map f := by
  unfold tbl
  rw [List.map_map]
  have : (f ∘ fun (x : Row × Int) => { x.1 with iwc := x.2 }) = f ∘ Prod.fst := by
    funext x; simp [Function.comp, hf]
  rw [this, ← List.map_map, List.map_fst_zip]
  rw [cumsumM1_length, h]; exact Nat.le_refl _

theorem spec_table (choose : Choose) (rec : Arr) (cn : List (List Nat)) (sp : List Spike) (off len maxWf : Nat) :
    (specOutput choose rec cn sp off len maxWf).table
      = tbl ((tableRows sp (wfIdx choose sp rec.ns off len maxWf)).wvSort leRow) := rfl

theorem spec_traces (choose : Choose) (rec : Arr) (cn : List (List Nat)) (sp : List Spike) (off len maxWf : Nat) :
    (specOutput choose rec cn sp off len maxWf).traces
      = (specOutput choose rec cn sp off len maxWf).table.map (gw rec cn off len) := rfl

theorem spec_chans (choose : Choose) (rec : Arr) (cn : List (List Nat)) (sp : List Spike) (off len maxWf : Nat) :
    (specOutput choose rec cn sp off len maxWf).chans
      = (specOutput choose rec cn sp off len maxWf).table.map (fun r => cn.getD (pyIdx cn.length r.peak) []) := rfl

/-- row `k` of the saved table has `waveform_index = k` -/
theorem spec_table_wi (choose : Choose) (rec : Arr) (cn : List (List Nat)) (sp : List Spike)
    (off len maxWf cs : Nat) (sched : List Nat) (d : Domain choose rec cn sp off len maxWf cs sched) :
    (specOutput choose rec cn sp off len maxWf).table.map (·.wi)
      = List.range (wfIdx choose sp rec.ns off len maxWf).length := by
  obtain ⟨cl, g, _, _, hsteps⟩ := domain_rows choose rec cn sp off len maxWf cs sched d
  rw [spec_table]
  generalize hrows : tableRows sp (wfIdx choose sp rec.ns off len maxWf) = rows at g hsteps
  have hlen : rows.length = (wfIdx choose sp rec.ns off len maxWf).length := by
    rw [← hrows]; exact tableRows_length _ _
  have hSlen : (rows.wvSort leRow).length = rows.length := (List.wvSort_perm _ _).length_eq
  rw [tbl_map _ (by rw [hsteps, hSlen, hlen]) (·.wi) (fun _ _ => rfl), g.sorted_eq, List.map_map, ← hlen]
  apply List.ext_getElem
  · simp [orderOf_length]
  · intro k h1 h2
    have hk : k < rows.length := by simpa using h2
    obtain ⟨hlt, hwi⟩ := g.row_of_wi k hk
    simp only [List.getElem_map, Function.comp, List.getElem_range, List.getD_eq_getElem?_getD,
      List.getElem?_eq_getElem hlt, Option.getD_some]
    exact hwi

/-- the saved rows are exactly the chosen spikes -/
theorem spec_table_perm (choose : Choose) (rec : Arr) (cn : List (List Nat)) (sp : List Spike)
    (off len maxWf cs : Nat) (sched : List Nat) (d : Domain choose rec cn sp off len maxWf cs sched) :
    ((specOutput choose rec cn sp off len maxWf).table.map fun r => (r.sample, r.cluster, r.peak)).Perm
      ((wfIdx choose sp rec.ns off len maxWf).map fun j =>
        ((sp.getD j default).sample, (sp.getD j default).cluster, (sp.getD j default).chan)) := by
  obtain ⟨cl, g, _, _, hsteps⟩ := domain_rows choose rec cn sp off len maxWf cs sched d
  rw [spec_table]
  have hSlen : ((tableRows sp (wfIdx choose sp rec.ns off len maxWf)).wvSort leRow).length
      = (wfIdx choose sp rec.ns off len maxWf).length := by
    rw [(List.wvSort_perm _ _).length_eq, tableRows_length]
  rw [tbl_map _ (by rw [hsteps, hSlen]) (fun r => (r.sample, r.cluster, r.peak)) (fun _ _ => rfl),
    ← tableRows_proj]
  exact (List.wvSort_perm _ _).map _

/-- the saved table is ordered by cluster, then by sample -/
theorem spec_table_sorted (choose : Choose) (rec : Arr) (cn : List (List Nat)) (sp : List Spike)
    (off len maxWf cs : Nat) (sched : List Nat) (d : Domain choose rec cn sp off len maxWf cs sched) :
    (specOutput choose rec cn sp off len maxWf).table.Pairwise
      (fun a b => a.cluster < b.cluster ∨ (a.cluster = b.cluster ∧ a.sample ≤ b.sample)) := by
  obtain ⟨cl, g, _, _, hsteps⟩ := domain_rows choose rec cn sp off len maxWf cs sched d
  rw [spec_table]
  have hSlen : ((tableRows sp (wfIdx choose sp rec.ns off len maxWf)).wvSort leRow).length
      = (wfIdx choose sp rec.ns off len maxWf).length := by
    rw [(List.wvSort_perm _ _).length_eq, tableRows_length]
  have h := tbl_map _ (by rw [hsteps, hSlen]) (fun r => (r.cluster, r.sample)) (fun _ _ => rfl)
  have hp : (((tableRows sp (wfIdx choose sp rec.ns off len maxWf)).wvSort leRow).map
      (fun r => (r.cluster, r.sample))).Pairwise
      (fun a b => a.1 < b.1 ∨ (a.1 = b.1 ∧ a.2 ≤ b.2)) := by
    rw [List.pairwise_map]
    apply (List.pairwise_wvSort leRow_trans leRow_total _).imp
    intro a b hab
    exact (leRow_iff a b).mp hab
  rw [← h, List.pairwise_map] at hp
  exact hp

end IblVerif.Waveforms
