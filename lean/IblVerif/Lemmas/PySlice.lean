/-
Lemmas about the Python slice / index model (`Model/PySlice.lean`).  Core Lean only.
-/
import IblVerif.Model.PySlice

namespace IblVerif.PySlice

/-- Number of multiples `0·s, 1·s, …` that are `≤ d` (0 when `d < 0`). -/
def cnt (d s : Int) : Nat := if 0 ≤ d then (d / s + 1).toNat else 0

theorem rangeLen_eq_cnt (start stop step : Int) :
    rangeLen start stop step =
      if step < 0 then cnt (start - stop - 1) (-step) else cnt (stop - start - 1) step := by
  unfold rangeLen cnt
  split <;> split <;> split <;> first | rfl | omega

theorem cnt_neg {d s : Int} (h : d < 0) : cnt d s = 0 := by
  unfold cnt; split <;> first | omega | rfl

theorem cnt_step {d s : Int} (hs : 0 < s) (hd : 0 ≤ d) : cnt d s = cnt (d - s) s + 1 := by
  unfold cnt
  rw [if_pos hd]
  by_cases h : 0 ≤ d - s
  · rw [if_pos h]
    have e : (d - s) / s = d / s - 1 := by
      have := Int.add_mul_ediv_right d (-1) (c := s) (by omega)
      have e2 : d + -1 * s = d - s := by omega
      rw [e2] at this; omega
    have h1 : 1 ≤ d / s := (Int.le_ediv_iff_mul_le hs).mpr (by omega)
    rw [e]; omega
  · rw [if_neg h]
    have : d / s = 0 := Int.ediv_eq_zero_of_lt hd (by omega)
    rw [this]; rfl

theorem cnt_le {d s : Int} (hs : 0 < s) : (cnt d s : Int) ≤ max (d + 1) 0 := by
  unfold cnt
  split
  · rename_i hd
    have h0 : 0 ≤ d / s := Int.ediv_nonneg hd (by omega)
    have h1 : d / s ≤ d := Int.ediv_le_self s hd
    omega
  · omega

/-- `k < cnt d s ↔ k·s ≤ d` (for `s > 0`). -/
theorem lt_cnt_iff {d s : Int} (hs : 0 < s) (k : Nat) : k < cnt d s ↔ (k : Int) * s ≤ d := by
  unfold cnt
  split
  · rename_i hd
    have h0 : 0 ≤ d / s := Int.ediv_nonneg hd (by omega)
    have : (k : Int) ≤ d / s ↔ (k : Int) * s ≤ d := Int.le_ediv_iff_mul_le hs
    omega
  · rename_i hd
    have : 0 ≤ (k : Int) * s := Int.mul_nonneg (by omega) (by omega)
    omega

/-- The loop equals the closed form once the fuel covers the length. -/
theorem rangeLoop_eq (stop step : Int) (hstep : step ≠ 0) :
    ∀ (fuel : Nat) (i : Int), rangeLen i stop step ≤ fuel →
      rangeLoop stop step fuel i = (List.range (rangeLen i stop step)).map (fun k : Nat => i + k * step) := by
  intro fuel
  induction fuel with
  | zero =>
    intro i h
    have : rangeLen i stop step = 0 := by omega
    simp [rangeLoop, this]
  | succ fuel ih =>
    intro i h
    unfold rangeLoop
    by_cases hc : (0 < step ∧ i < stop) ∨ (step < 0 ∧ stop < i)
    · rw [if_pos hc]
      have hlen : rangeLen i stop step = rangeLen (i + step) stop step + 1 := by
        rw [rangeLen_eq_cnt, rangeLen_eq_cnt]
        rcases hc with ⟨h1, h2⟩ | ⟨h1, h2⟩
        · rw [if_neg (by omega), if_neg (by omega), cnt_step h1 (by omega)]
          congr 2; omega
        · rw [if_pos h1, if_pos h1, cnt_step (s := -step) (by omega) (by omega)]
          congr 2; omega
      rw [ih (i + step) (by omega), hlen, List.range_succ_eq_map, List.map_cons, List.map_map]
      congr 1
      · simp
      · apply List.map_congr_left
        intro k _
        simp only [Function.comp]
        rw [show ((k + 1 : Nat) : Int) = (k : Int) + 1 by omega, Int.add_mul]
        omega
    · rw [if_neg hc]
      have : rangeLen i stop step = 0 := by
        rw [rangeLen_eq_cnt]
        split
        · exact cnt_neg (by omega)
        · exact cnt_neg (by omega)
      simp [this]

theorem rangeLen_le_natAbs (start stop step : Int) (hstep : step ≠ 0) :
    rangeLen start stop step ≤ (stop - start).natAbs := by
  rw [rangeLen_eq_cnt]
  split
  · have := cnt_le (d := start - stop - 1) (s := -step) (by omega); omega
  · have := cnt_le (d := stop - start - 1) (s := step) (by omega); omega

/-- `range(start, stop, step)` is `start, start + step, …` with `rangeLen` entries. -/
theorem pyRange_eq_map (start stop step : Int) (hstep : step ≠ 0) :
    pyRange start stop step =
      (List.range (rangeLen start stop step)).map (fun k : Nat => start + k * step) :=
  rangeLoop_eq stop step hstep _ start (rangeLen_le_natAbs start stop step hstep)

theorem pyRange_length (start stop step : Int) (hstep : step ≠ 0) :
    (pyRange start stop step).length = rangeLen start stop step := by
  rw [pyRange_eq_map _ _ _ hstep]; simp

/-- Every value of the range lies between `start` (inclusive) and `stop` (exclusive), on the side of the step. -/
theorem range_val_bounds (start stop step : Int) (k : Nat) (hk : k < rangeLen start stop step) :
    (0 < step → start ≤ start + k * step ∧ start + k * step < stop) ∧
    (step < 0 → stop < start + k * step ∧ start + k * step ≤ start) := by
  rw [rangeLen_eq_cnt] at hk
  constructor
  · intro hs
    rw [if_neg (by omega)] at hk
    have h := (lt_cnt_iff hs k).mp hk
    have : 0 ≤ (k : Int) * step := Int.mul_nonneg (by omega) (by omega)
    omega
  · intro hs
    rw [if_pos hs] at hk
    have h := (lt_cnt_iff (s := -step) (by omega) k).mp hk
    have e : (k : Int) * -step = -((k : Int) * step) := by rw [Int.mul_neg]
    have : 0 ≤ (k : Int) * -step := Int.mul_nonneg (by omega) (by omega)
    omega

/-- What `indices` returns: the step is the effective one and non-zero; the bounds are clamped to `[0, n]` for a
positive step and to `[-1, n-1]` for a negative one. -/
theorem indices_bounds (s : Slice) (n : Nat) (a b st : Int) (h : indices s n = some (a, b, st)) :
    st = s.stepVal ∧ st ≠ 0 ∧
    (0 < st → 0 ≤ a ∧ a ≤ n ∧ 0 ≤ b ∧ b ≤ n) ∧
    (st < 0 → -1 ≤ a ∧ a ≤ (n : Int) - 1 ∧ -1 ≤ b ∧ b ≤ (n : Int) - 1) := by
  unfold indices at h
  simp only at h
  split at h
  · simp at h
  · rename_i h0
    simp only [Option.some.injEq, Prod.mk.injEq] at h
    obtain ⟨ha, hb, hst⟩ := h
    subst hst
    refine ⟨rfl, h0, ?_, ?_⟩
    · intro hp
      subst ha; subst hb
      refine ⟨?_, ?_, ?_, ?_⟩ <;> (cases s.start <;> cases s.stop <;> simp only [adjust] <;> (repeat' split) <;> omega)
    · intro hn
      subst ha; subst hb
      refine ⟨?_, ?_, ?_, ?_⟩ <;> (cases s.start <;> cases s.stop <;> simp only [adjust] <;> (repeat' split) <;> omega)

/-- Every index a slice visits is a valid position of the axis. -/
theorem slice_val_in_range (s : Slice) (n : Nat) (a b st : Int) (h : indices s n = some (a, b, st))
    (k : Nat) (hk : k < rangeLen a b st) : 0 ≤ a + k * st ∧ a + k * st < n := by
  obtain ⟨_, h0, hp, hn⟩ := indices_bounds s n a b st h
  obtain ⟨bp, bn⟩ := range_val_bounds a b st k hk
  by_cases hs : 0 < st
  · have := hp hs; have := bp hs; omega
  · have hs' : st < 0 := by omega
    have := hn hs'; have := bn hs'; omega

/-- The visited indices in closed form. -/
theorem sliceIndices_spec (s : Slice) (n : Nat) (a b st : Int) (h : indices s n = some (a, b, st)) :
    sliceIndices s n = some ((List.range (rangeLen a b st)).map (fun k : Nat => (a + k * st).toNat)) := by
  obtain ⟨_, h0, _, _⟩ := indices_bounds s n a b st h
  unfold sliceIndices
  rw [h]
  simp only [pyRange_eq_map a b st h0, List.map_map]
  rfl

theorem sliceLen_spec (s : Slice) (n : Nat) (a b st : Int) (h : indices s n = some (a, b, st)) :
    sliceLen s n = rangeLen a b st := by
  unfold sliceLen; rw [h]

theorem rangeLen_eq_zero_iff (a b st : Int) (h0 : st ≠ 0) :
    rangeLen a b st = 0 ↔ (0 < st → b ≤ a) ∧ (st < 0 → a ≤ b) := by
  rw [rangeLen_eq_cnt]
  have key : ∀ d s : Int, 0 < s → (cnt d s = 0 ↔ d < 0) := by
    intro d s hs
    constructor
    · intro h
      by_cases hd : 0 ≤ d
      · have := (lt_cnt_iff (d := d) hs 0).mpr (by simpa using hd)
        omega
      · omega
    · exact cnt_neg
  split
  · rename_i hs
    rw [key _ _ (by omega)]; omega
  · rw [key _ _ (by omega)]; omega

theorem indices_eq_none_iff (s : Slice) (n : Nat) : indices s n = none ↔ s.stepVal = 0 := by
  unfold indices
  simp only
  split <;> simp_all

/-- Integer indices: valid iff `-n ≤ i < n`; a negative one addresses `i + n`. -/
theorem normIndex_eq_some_iff (i : Int) (n k : Nat) :
    normIndex i n = some k ↔ (0 ≤ i ∧ i < n ∧ (k : Int) = i) ∨ (i < 0 ∧ -(n : Int) ≤ i ∧ (k : Int) = i + n) := by
  unfold normIndex
  split
  · simp only [Option.some.injEq]; omega
  · split
    · simp only [Option.some.injEq]; omega
    · simp; omega

theorem normIndex_eq_none_iff (i : Int) (n : Nat) :
    normIndex i n = none ↔ (i < -(n : Int) ∨ (n : Int) ≤ i) := by
  unfold normIndex
  split
  · simp; omega
  · split
    · simp; omega
    · simp; omega

theorem normIndex_lt (i : Int) (n k : Nat) (h : normIndex i n = some k) : k < n := by
  have := (normIndex_eq_some_iff i n k).mp h
  omega

end IblVerif.PySlice
