/-
Helper lemmas for C10 (growth round): `split_sync` on a whole ARRAY of samples — the index arithmetic of
`unpackbits(...).reshape(size, 16)` followed by roll / flip along axis 1.  Core Lean only.
-/
import IblVerif.Lemmas.SyncTTL
namespace IblVerif.Sync

section
variable {α β : Type}

theorem length_flatMap_const (f : β → List α) (c : Nat) (l : List β) (hf : ∀ b ∈ l, (f b).length = c) :
    (l.flatMap f).length = l.length * c := by
  induction l with
  | nil => simp
  | cons a t ih =>
    simp only [List.flatMap_cons, List.length_append, List.length_cons]
    rw [ih (fun b hb => hf b (by simp [hb])), hf a (by simp), Nat.succ_mul]
    omega

theorem drop_flatMap_const (f : β → List α) (c : Nat) (l : List β) (hf : ∀ b ∈ l, (f b).length = c) (i : Nat) :
    (l.flatMap f).drop (i * c) = (l.drop i).flatMap f := by
  induction l generalizing i with
  | nil => simp
  | cons a t ih =>
    cases i with
    | zero => simp
    | succ i =>
      have ha := hf a (by simp)
      simp only [List.flatMap_cons, List.drop_succ_cons]
      rw [← ih (fun b hb => hf b (by simp [hb])) i]
      have : (i + 1) * c = (f a).length + i * c := by rw [Nat.succ_mul, ha]; omega
      rw [this, List.drop_append, List.drop_eq_nil_of_le (by omega), List.nil_append]
      congr 1; omega

/-- **Index arithmetic of the reshape**: a flat array made of `n` blocks of `c` elements, reshaped to `(n, c)`, has block
`i` as its row `i` (flat position `i*c + j` ↔ entry `(i, j)`). -/
theorem reshapeRows_flatMap (f : β → List α) (c : Nat) (l : List β) (hf : ∀ b ∈ l, (f b).length = c) :
    reshapeRows l.length c (l.flatMap f) = some (l.map f) := by
  unfold reshapeRows
  rw [if_pos (length_flatMap_const f c l hf)]
  congr 1
  apply List.ext_getElem?
  intro i
  by_cases hi : i < l.length
  · simp only [List.getElem?_map, List.getElem?_range hi, Option.map_some, List.getElem?_eq_getElem hi]
    rw [drop_flatMap_const f c l hf i]
    have hd : l.drop i = l[i] :: l.drop (i + 1) := by
      rw [List.drop_eq_getElem_cons hi]
    rw [hd, List.flatMap_cons]
    have hlen := hf l[i] (List.getElem_mem hi)
    rw [List.take_append_of_le_length (by omega), ← hlen, List.take_length]
  · have h1 : (List.range l.length)[i]? = none := by simp; omega
    have h2 : l[i]? = none := by simp; omega
    simp [h1, h2]

end

theorem bits_length (w : Nat) : ((viewBytes w).flatMap unpackByte).length = 16 := by
  simp [viewBytes, unpackByte]

/-- The array pipeline of `split_sync` (cast, byte view, `unpackbits`, `reshape(size, 16)`, roll by 8 and flip along
axis 1) returns, for every array of samples, one row per sample and that row is the decoded word of THAT sample. -/
theorem splitSyncFlat_eq (xs : List Int) : splitSyncFlat xs = some (splitSyncArr xs) := by
  unfold splitSyncFlat
  simp only [List.flatMap_assoc]
  rw [reshapeRows_flatMap (fun x => (viewBytes (wordOfInt x)).flatMap unpackByte) 16 xs (fun b _ => bits_length _)]
  simp [flip2, roll2, splitSyncArr, splitSync, List.map_map, Function.comp_def]

/-- The shape matters: with any other row width than 16 the reshape of `16·n` bits into `n` rows fails (NumPy raises),
for every non-empty array. -/
theorem reshapeRows_bits_width (xs : List Int) (c : Nat) (hne : xs ≠ []) (hc : c ≠ 16) :
    reshapeRows xs.length c ((xs.flatMap fun x => viewBytes (wordOfInt x)).flatMap unpackByte) = none := by
  unfold reshapeRows
  have hl : ((xs.flatMap fun x => viewBytes (wordOfInt x)).flatMap unpackByte).length = xs.length * 16 := by
    rw [List.flatMap_assoc]
    exact length_flatMap_const _ 16 xs (fun b _ => bits_length _)
  rw [hl]
  have hpos : 0 < xs.length := List.length_pos_iff.mpr hne
  have : xs.length * 16 ≠ xs.length * c := by
    intro h
    exact hc (Nat.eq_of_mul_eq_mul_left hpos h).symm
  simp [this]

end IblVerif.Sync
