/-
Helper lemmas for the NP2.4 splitter model: which rows are written (window loop), `mapE`, column selection,
shank channel lists.  Core Lean only.
-/
import IblVerif.Model.Split
import IblVerif.Lemmas.Window

namespace IblVerif.Split
open IblVerif.Window

/-! ### `mapE` -/

theorem mapE_ok {α β : Type} (f : α → Except Err β) (g : α → β) :
    ∀ l : List α, (∀ a ∈ l, f a = .ok (g a)) → mapE f l = .ok (l.map g)
  | [], _ => rfl
  | a :: as, h => by
    simp only [mapE, h a List.mem_cons_self, mapE_ok f g as (fun b hb => h b (List.mem_cons_of_mem _ hb)),
      List.map_cons]

/-- Pointwise relation between two lists of the same length. -/
inductive All₂ {α β : Type} (R : α → β → Prop) : List α → List β → Prop
  | nil : All₂ R [] []
  | cons {a b as bs} : R a b → All₂ R as bs → All₂ R (a :: as) (b :: bs)

theorem mapE_forall₂ {α β : Type} (f : α → Except Err β) :
    ∀ (l : List α) (r : List β), mapE f l = .ok r → All₂ (fun a b => f a = .ok b) l r
  | [], r, h => by
    simp only [mapE, Except.ok.injEq] at h; subst h; exact All₂.nil
  | a :: as, r, h => by
    simp only [mapE] at h
    split at h
    · exact absurd h (by simp)
    · rename_i b hb
      split at h
      · exact absurd h (by simp)
      · rename_i bs hbs
        simp only [Except.ok.injEq] at h; subst h
        exact All₂.cons hb (mapE_forall₂ f as bs hbs)

theorem mapE_exists {α β : Type} (f : α → Except Err β) :
    ∀ l : List α, (∀ a ∈ l, ∃ b, f a = .ok b) → ∃ r, mapE f l = .ok r
  | [], _ => ⟨[], rfl⟩
  | a :: as, h => by
    obtain ⟨b, hb⟩ := h a List.mem_cons_self
    obtain ⟨bs, hbs⟩ := mapE_exists f as (fun x hx => h x (List.mem_cons_of_mem _ hx))
    exact ⟨b :: bs, by simp only [mapE, hb, hbs]⟩

/-! ### rows written by the window loop -/

/-- The loop started at window number `iw` and sample `first` writes every sample from
`first` (+ the margin `2·taper` unless it is the very first window) up to `ns`, once, in order. -/
theorem keptFrom_aux (ns w ov taper first : Nat) (hov : ov < w) (ht : taper * 4 = ov) :
    ∀ iw nwin, nwin = iw + (firstlastAux ns w ov first).length →
    keptFrom w taper nwin iw (firstlastAux ns w ov first)
      = List.range' (if iw = 0 then first else first + taper * 2)
          (ns - (if iw = 0 then first else first + taper * 2)) := by
  fun_induction firstlastAux ns w ov first with
  | case1 first h ih =>
    intro iw nwin hn
    have hpos : 0 < (firstlastAux ns w ov (first + (w - ov))).length :=
      List.length_pos_iff.mpr (aux_ne_nil _ _ _ _)
    simp only [List.length_cons] at hn
    simp only [keptFrom]
    rw [ih (iw + 1) nwin (by omega)]
    have hne : ¬ (iw = nwin - 1) := by omega
    simp only [keptRows, ind2save, hne, if_false, Nat.add_sub_cancel_left, Nat.succ_ne_zero]
    by_cases h0 : iw = 0
    · simp only [h0, if_true]
      have e1 : min 0 w = 0 := by omega
      have e2 : min (w - taper * 2) w = w - taper * 2 := by omega
      rw [e1, e2]
      have e3 : first + (w - ov) + taper * 2 = first + 0 + (w - taper * 2 - 0) := by omega
      rw [e3, List.range'_append_1]
      congr 1; omega
    · simp only [h0, if_false]
      have e1 : min (taper * 2) w = taper * 2 := by omega
      have e2 : min (w - taper * 2) w = w - taper * 2 := by omega
      rw [e1, e2]
      have e3 : first + (w - ov) + taper * 2 = first + taper * 2 + (w - taper * 2 - taper * 2) := by omega
      rw [e3, List.range'_append_1]
      congr 1; omega
  | case2 first h =>
    intro iw nwin hn
    simp only [List.length_cons, List.length_nil] at hn
    have hl : iw = nwin - 1 := by omega
    simp only [keptFrom, keptRows, ind2save, hl, if_true, List.append_nil]
    by_cases h0 : nwin - 1 = 0
    · simp only [h0, if_true]
      congr 1 <;> omega
    · simp only [h0, if_false]
      by_cases hc : taper * 2 ≤ min (first + w) ns - first
      · congr 1 <;> omega
      · have a1 : min w (min (first + w) ns - first) - min (taper * 2) (min (first + w) ns - first) = 0 := by
          omega
        have a2 : ns - (first + taper * 2) = 0 := by omega
        rw [a1, a2]; simp

/-- All rows, each once, in order. -/
theorem keptAll_eq_range (ns w ov taper : Nat) (hov : ov < w) (ht : taper * 4 = ov) :
    keptAll ns w ov taper = List.range ns := by
  unfold keptAll firstlast
  simp only [hov, if_true]
  rw [keptFrom_aux ns w ov taper 0 hov ht 0 (nwin ns w ov) (by
    rw [aux_length ns w ov 0 hov]; simp [nwin])]
  simp [List.range_eq_range']

/-- Whole windows without overlap (reconstruction, verification): every row once, in order. -/
theorem wholeRows_aux (ns W first : Nat) (hW : 0 < W) :
    (firstlastAux ns W 0 first).flatMap (fun fl => List.range' fl.1 (fl.2 - fl.1))
      = List.range' first (ns - first) := by
  fun_induction firstlastAux ns W 0 first with
  | case1 first h ih =>
    simp only [Nat.sub_zero] at ih ⊢
    simp only [List.flatMap_cons, ih, Nat.add_sub_cancel_left]
    rw [List.range'_append_1]
    congr 1; omega
  | case2 first h =>
    simp only [List.flatMap_cons, List.flatMap_nil, List.append_nil]
    congr 1; omega

theorem wholeRows_eq_range (ns W : Nat) (hW : 0 < W) : wholeRows ns W = List.range ns := by
  unfold wholeRows firstlast
  simp only [hW, if_true]
  rw [wholeRows_aux ns W 0 hW]
  simp [List.range_eq_range']

/-! ### column selection -/

theorem selectRow_ok (conv : Nat → Int → Int) (M : Mat) (nc : Nat) (chns : List Nat) (t : Nat)
    (h : ∀ c ∈ chns, c < nc) :
    selectRow conv M nc chns t = .ok (chns.map (fun c => conv c (M t c))) := by
  unfold selectRow
  apply mapE_ok
  intro c hc
  simp only [h c hc, if_true]

theorem splitShank_ok (conv : Nat → Int → Int) (M : Mat) (ns nc w ov taper : Nat) (chns : List Nat)
    (hov : ov < w) (ht : taper * 4 = ov) (hns : taper ≤ ns) (h : ∀ c ∈ chns, c < nc) :
    splitShank conv M ns nc w ov taper chns
      = .ok ((List.range ns).map (fun t => chns.map (fun c => conv c (M t c)))) := by
  unfold splitShank
  have h1 : ¬ (w ≤ ov) := by omega
  have h2 : ¬ (ns < taper) := by omega
  simp only [h1, h2, if_false, keptAll_eq_range ns w ov taper hov ht]
  apply mapE_ok
  intro t _
  exact selectRow_ok conv M nc chns t h

/-! ### shank channel lists -/

theorem mem_apChans (smap : List Nat) (sh c : Nat) :
    c ∈ apChans smap sh ↔ c < smap.length ∧ smap[c]? = some sh := by
  simp [apChans]

theorem apChans_sorted (smap : List Nat) (sh : Nat) : (apChans smap sh).Pairwise (· < ·) := by
  unfold apChans
  exact List.Pairwise.filter _ List.pairwise_lt_range

theorem le_foldl_max (l : List Nat) : ∀ a : Nat, a ≤ l.foldl max a ∧ ∀ x ∈ l, x ≤ l.foldl max a := by
  induction l with
  | nil => intro a; simp
  | cons b bs ih =>
    intro a
    simp only [List.foldl_cons]
    have h := ih (max a b)
    refine ⟨by omega, ?_⟩
    intro x hx
    rcases List.mem_cons.mp hx with rfl | hx
    · omega
    · exact h.2 x hx

theorem mem_shankIds (smap : List Nat) (s : Nat) : s ∈ shankIds smap ↔ s ∈ smap := by
  unfold shankIds
  simp only [List.mem_filter, List.mem_range, List.contains_iff_mem, decide_eq_true_eq] 
  constructor
  · exact fun h => h.2
  · intro h
    exact ⟨by have := (le_foldl_max smap 0).2 s h; omega, h⟩

theorem shankIds_sorted (smap : List Nat) : (shankIds smap).Pairwise (· < ·) := by
  unfold shankIds
  exact List.Pairwise.filter _ List.pairwise_lt_range

theorem syncIdx_one (napch : Nat) : syncIdx (napch + 1) 1 = [napch] := by
  simp [syncIdx]

end IblVerif.Split
