/-
Helper lemmas for C10: `Reader.read_sync` column layout.  Core Lean only.
-/
import IblVerif.Lemmas.Sync
namespace IblVerif.Sync

theorem pick_ok (r : List Int) (idx : List Int) (h : ∀ c ∈ idx, 0 ≤ c ∧ c < r.length) :
    pick r idx = some (idx.map fun c => r.getD c.toNat 0) := by
  induction idx with
  | nil => simp [pick]
  | cons c cs ih =>
    have hc := h c (by simp)
    have ih' := ih (fun c' hc' => h c' (by simp [hc']))
    have hlt : c.toNat < r.length := by omega
    simp only [pick, pyGet, hc.1, if_true, ih', List.map_cons]
    rw [List.getElem?_eq_getElem hlt]
    simp [List.getD_eq_getElem?_getD, List.getElem?_eq_getElem hlt]

theorem pickRows_ok (rows : List (List Int)) (idx : List Int)
    (h : ∀ r ∈ rows, ∀ c ∈ idx, 0 ≤ c ∧ c < r.length) :
    pickRows rows idx = some (rows.map fun r => idx.map fun c => r.getD c.toNat 0) := by
  induction rows with
  | nil => simp [pickRows]
  | cons r rs ih =>
    have ih' := ih (fun r' hr' => h r' (by simp [hr']))
    simp only [pickRows, pick_ok r idx (h r (by simp)), ih', List.map_cons]

theorem flatten_map_singleton {α β : Type} (l : List α) (f : α → β) :
    (l.map fun a => [f a]).flatten = l.map f := by
  induction l with
  | nil => rfl
  | cons a t ih => simp [ih]

theorem zipWith_map_map {α β γ δ : Type} (f : β → γ → δ) (g : α → β) (h : α → γ) (l : List α) :
    List.zipWith f (l.map g) (l.map h) = l.map fun a => f (g a) (h a) := by
  induction l with
  | nil => rfl
  | cons a t ih => simp [ih]
theorem zipWith_self_map {α β γ : Type} (f : α → β → γ) (g : α → β) (l : List α) :
    List.zipWith f l (l.map g) = l.map fun a => f a (g a) := by
  induction l with
  | nil => rfl
  | cons a t ih => simp [ih]

theorem zipWith_range_getD {β γ δ : Type} (g : β → γ → δ) (f : Nat → β) (P : List γ) (d : γ) (n : Nat)
    (hP : P.length = n) :
    List.zipWith g ((List.range n).map f) P = (List.range n).map fun j => g (f j) (P.getD j d) := by
  apply List.ext_getElem?
  intro i
  simp only [List.getElem?_zipWith, List.getElem?_map]
  by_cases hi : i < n
  · rw [List.getElem?_range hi]
    have : i < P.length := by omega
    simp [List.getElem?_eq_getElem this, List.getD_eq_getElem?_getD]
  · have h1 : (List.range n)[i]? = none := by simp; omega
    simp [h1]
/-- The 16 digital lines of one sample: the decoded word of channel `ntr - 1`, as int8 values. -/
def digitalLines (ntr : Nat) (r : List Int) : List Int :=
  (splitSync (wordOfInt (r.getD (ntr - 1) 0))).map Int.ofNat

theorem readSyncDigital_one (ntr : Nat) (s : Stream) (rows : List (List Int))
    (hs : syncIdx ntr s = .ok [((ntr - 1 : Nat) : Int)]) (hntr : 1 ≤ ntr)
    (hrows : ∀ r ∈ rows, r.length = ntr) :
    readSyncDigital ntr s rows = .ok (rows.map fun r => splitSync (wordOfInt (r.getD (ntr - 1) 0))) := by
  unfold readSyncDigital
  rw [hs]
  have := pickRows_ok rows [((ntr - 1 : Nat) : Int)] (by
    intro r hr c hc
    simp only [List.mem_singleton] at hc
    have := hrows r hr
    omega)
  simp only [this, List.map_cons, List.map_nil, Int.toNat_natCast]
  rw [flatten_map_singleton]
  simp [splitSyncArr]

/-- Calibrated values of the analog sync channels of one sample. -/
def analogVolts {α : Type} (conv : Int → Int → α) (mn ma xa : Nat) (r : List Int) : List α :=
  (List.range xa).map fun j => conv ((mn + ma + j : Nat) : Int) (r.getD (mn + ma + j) 0)

theorem readSyncAnalog_nidq {α : Type} (conv : Int → Int → α) (mn ma xa dw : Nat) (rows : List (List Int))
    (hxa : 0 < xa) (hrows : ∀ r ∈ rows, mn + ma + xa ≤ r.length) :
    readSyncAnalog conv (.nidq mn ma xa dw) rows = .ok (some (rows.map (analogVolts conv mn ma xa))) := by
  unfold readSyncAnalog analogIdx
  have hne : ((List.range xa).map fun i => ((mn + ma + i : Nat) : Int)).isEmpty = false := by
    cases xa with
    | zero => omega
    | succ n => simp [List.range_succ]
  simp only [hne]
  have := pickRows_ok rows ((List.range xa).map fun i => ((mn + ma + i : Nat) : Int)) (by
    intro r hr c hc
    simp only [List.mem_map, List.mem_range] at hc
    obtain ⟨i, hi, rfl⟩ := hc
    have := hrows r hr
    omega)
  simp only [this, Bool.false_eq_true, if_false, List.map_map]
  congr 2
  apply List.map_congr_left
  intro r _
  simp only [Function.comp, analogVolts]
  rw [zipWith_map_map]
  apply List.map_congr_left
  intro j _
  simp only [Function.comp, Int.toNat_natCast]

section
variable {α : Type} [Sub α] [LT α] [DecidableLT α] [LE α] [DecidableLE α] [OfNat α 0] [OfNat α 1]


/-- The thresholded analog lines of one sample `r`; `P`, when the floor is requested, holds the percentile of each
analog column over all the samples read. -/
def analogLines (conv : Int → Int → α) (toI8 : α → Int) (mn ma xa : Nat)
    (thr : α) (floor : Bool) (P : List α) (r : List Int) : List Int :=
  (List.range xa).map fun j =>
    toI8 (threshold thr
      (if floor then conv ((mn + ma + j : Nat) : Int) (r.getD (mn + ma + j) 0) - P.getD j 0
        else conv ((mn + ma + j : Nat) : Int) (r.getD (mn + ma + j) 0)))

theorem readSync_nidq (conv : Int → Int → α) (pct : List (List α) → Option (List α)) (toI8 : α → Int)
    (mn ma xa ntr : Nat) (rows : List (List Int)) (thr : α) (floor : Bool) (P : List α)
    (hntr : mn + ma + xa + 1 = ntr) (hrows : ∀ r ∈ rows, r.length = ntr)
    (hpct : floor = true → rows ≠ [] → pct (rows.map (analogVolts conv mn ma xa)) = some P)
    (hP : P.length = xa) :
    readSync conv pct toI8 ntr (.nidq mn ma xa 1) rows thr floor =
      .ok (rows.map fun r => digitalLines ntr r ++ analogLines conv toI8 mn ma xa thr floor P r) := by
  have hd := readSyncDigital_one ntr (.nidq mn ma xa 1) rows
    (by simp [syncIdx, List.range_succ]; omega) (by omega) hrows
  unfold readSync
  rw [hd]
  by_cases hxa : xa = 0
  · subst hxa
    simp [readSyncAnalog, analogIdx, analogLines, digitalLines]
  · have ha := readSyncAnalog_nidq conv mn ma xa 1 rows (by omega)
      (by intro r hr; have := hrows r hr; omega)
    cases floor with
    | false =>
      simp only [ha, List.length_map, Bool.false_eq_true, false_and, if_false, if_true, List.map_map]
      congr 1
      rw [zipWith_map_map]
      apply List.map_congr_left
      intro r _
      simp [Function.comp, digitalLines, analogLines, analogVolts, List.map_map]
    | true =>
      cases rows with
      | nil => simp [ha]
      | cons r0 rs =>
        have hsz : ((r0 :: rs).map (analogVolts conv mn ma xa)).flatten.length ≠ 0 := by
          simp [analogVolts]; omega
        simp only [ha, hpct rfl (by simp), hsz, true_and, not_false_eq_true, ne_eq, if_true, Option.map_some,
          List.length_map, List.map_map]
        congr 1
        rw [zipWith_map_map]
        apply List.map_congr_left
        intro r _
        simp only [Function.comp, digitalLines, analogLines, if_true]
        congr 1
        simp only [analogVolts]
        rw [zipWith_range_getD _ _ _ 0 xa hP]
        simp [List.map_map, Function.comp]

/-- Zero selected samples: zero rows, whatever the percentile routine would do on an empty input (the
`analog.size` guard of the fixed code). -/
theorem readSync_empty (conv : Int → Int → α) (pct : List (List α) → Option (List α)) (toI8 : α → Int)
    (mn ma xa ntr : Nat) (thr : α) (floor : Bool) :
    readSync conv pct toI8 ntr (.nidq mn ma xa 1) [] thr floor = .ok [] := by
  by_cases hxa : xa = 0
  · subst hxa
    simp [readSync, readSyncDigital, syncIdx, pickRows, splitSyncArr, readSyncAnalog, analogIdx]
  · have ha := readSyncAnalog_nidq conv mn ma xa 1 [] (by omega) (by simp)
    unfold readSync
    simp [readSyncDigital, syncIdx, pickRows, splitSyncArr, ha]

theorem readSync_imec (conv : Int → Int → α) (pct : List (List α) → Option (List α)) (toI8 : α → Int)
    (ap lf ntr : Nat) (rows : List (List Int)) (thr : α) (floor : Bool)
    (htyp : (ap = 0 ∧ lf ≠ 0) ∨ (ap ≠ 0 ∧ lf = 0)) (hntr : 1 ≤ ntr) (hrows : ∀ r ∈ rows, r.length = ntr) :
    readSync conv pct toI8 ntr (.imec ap lf 1) rows thr floor = .ok (rows.map (digitalLines ntr)) := by
  have hd := readSyncDigital_one ntr (.imec ap lf 1) rows
    (by
      have ht : ∃ t, typeFromMeta (.imec ap lf 1) = some t := by
        unfold typeFromMeta
        rcases htyp with ⟨h0, h1⟩ | ⟨h0, h1⟩
        · exact ⟨.lf, by simp [h0, h1]⟩
        · exact ⟨.ap, by simp [h0, h1]⟩
      obtain ⟨t, ht⟩ := ht
      simp [syncIdx, ht, List.range_succ]; omega) hntr hrows
  unfold readSync
  rw [hd]
  simp [readSyncAnalog, analogIdx, digitalLines]

end
end IblVerif.Sync
