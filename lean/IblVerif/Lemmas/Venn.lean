/-
Helper lemmas on the Venn counting model (`Model/Venn.lean`).  Core Lean only.
-/
import IblVerif.Model.Venn
namespace IblVerif.Venn

theorem code_lt (L : Nat) (cs : List Nat) : code L cs < 2 ^ cs.length := by
  induction cs with
  | nil => simp [code]
  | cons c cs ih =>
    simp only [code, List.length_cons, Nat.pow_succ]
    split <;> omega

theorem testBit_code (L : Nat) (cs : List Nat) (j : Nat) (hj : j < cs.length) :
    (code L cs).testBit (cs.length - 1 - j) = decide (L ≤ cs[j]) := by
  induction cs generalizing j with
  | nil => simp at hj
  | cons c cs ih =>
    simp only [code, List.length_cons]
    rw [Nat.testBit_two_pow_mul_add _ (code_lt L cs)]
    cases j with
    | zero =>
      simp
      split <;> simp <;> omega
    | succ j =>
      have hj' : j < cs.length := by simpa using hj
      have : cs.length + 1 - 1 - (j + 1) < cs.length := by omega
      simp only [this, if_true, List.getElem_cons_succ]
      rw [← ih j hj']
      congr 1
      omega


theorem le_maxL (cs : List Nat) (j : Nat) : cs.getD j 0 ≤ maxL cs := by
  induction cs generalizing j with
  | nil => simp
  | cons c cs ih =>
    cases j with
    | zero => simp [maxL]; omega
    | succ j =>
      have := ih j
      simp only [List.getD_cons_succ, maxL, List.foldr_cons] at this ⊢
      omega

theorem mem_le_maxL (cs : List Nat) (c : Nat) (h : c ∈ cs) : c ≤ maxL cs := by
  induction cs with
  | nil => simp at h
  | cons a cs ih =>
    simp only [maxL, List.foldr_cons] at ih ⊢
    rcases List.mem_cons.mp h with rfl | h
    · omega
    · have := ih h; omega

/-- Levels `i < N` with `i < M` and `M - i ≤ c`: exactly `c` of them when `c ≤ M ≤ N`. -/
theorem countP_levels (N M c : Nat) (hc : c ≤ M) (hM : M ≤ N) :
    (List.range N).countP (fun i => decide (i < M) && decide (M - i ≤ c)) = c := by
  have key : ∀ n, (List.range n).countP (fun i => decide (i < M) && decide (M - i ≤ c))
      = min n M - min n (M - c) := by
    intro n
    induction n with
    | zero => simp
    | succ n ih =>
      rw [List.range_succ, List.countP_append, ih]
      simp only [List.countP_cons, List.countP_nil]
      by_cases h1 : n < M <;> by_cases h2 : M - n ≤ c <;> simp [h1, h2] <;> omega
  rw [key]; omega

theorem sum_map_add (l : List Nat) (f g : Nat → Nat) :
    (l.map (fun i => f i + g i)).sum = (l.map f).sum + (l.map g).sum := by
  induction l with
  | nil => simp
  | cons a l ih => simp only [List.map_cons, List.sum_cons, ih]; omega

theorem sum_map_ite (l : List Nat) (p : Nat → Bool) :
    (l.map (fun i => if p i then 1 else 0)).sum = l.countP p := by
  induction l with
  | nil => simp
  | cons a l ih => simp only [List.map_cons, List.sum_cons, ih, List.countP_cons]; omega

theorem levels_sum (j N : Nat) (cols : List (List Nat)) (hN : ∀ cs ∈ cols, maxL cs ≤ N) :
    ((List.range N).map (fun i => cols.countP
        (fun cs => decide (i < maxL cs) && decide (maxL cs - i ≤ cs.getD j 0)))).sum
      = (cols.map (fun cs => cs.getD j 0)).sum := by
  induction cols with
  | nil =>
    have : ∀ l : List Nat, (List.map (fun _ => 0) l).sum = 0 := by
      intro l; induction l <;> simp_all
    simpa using this _
  | cons cs t ih =>
    have ih := ih (fun cs h => hN cs (List.mem_cons_of_mem _ h))
    simp only [List.countP_cons, List.map_cons, List.sum_cons]
    rw [sum_map_add, ih, sum_map_ite, countP_levels N (maxL cs) _ (le_maxL cs j) (hN cs List.mem_cons_self)]
    omega

/-- Per chunk: the number of incremented region codes that contain sorter `j` equals the number of spikes of
sorter `j` in the chunk (sum of row `j` of `bin_counts`). -/
theorem peel_count (k j : Nat) (hj : j < k) (cols : List (List Nat)) (hk : ∀ cs ∈ cols, cs.length = k) :
    (peel cols).countP (fun c => c.testBit (k - 1 - j)) = (cols.map (fun cs => cs.getD j 0)).sum := by
  unfold peel
  rw [List.countP_flatMap]
  rw [← levels_sum j (maxL (cols.map maxL)) cols
    (fun cs h => mem_le_maxL _ _ (List.mem_map_of_mem h))]
  congr 1
  apply List.map_congr_left
  intro i _
  simp only [Function.comp_def]
  rw [List.countP_map, List.countP_filter]
  apply List.countP_congr
  intro cs hcs
  have hl := hk cs hcs
  simp only [Function.comp_def]
  subst hl
  rw [testBit_code _ cs j hj]
  have : cs.getD j 0 = cs[j] := by simp [List.getD_eq_getElem?_getD, hj]
  rw [this]
  simp only [Bool.and_eq_true, decide_eq_true_eq]
  exact And.comm

theorem allSome_eq_some {α : Type} (l : List (Option α)) (r : List α) (h : allSome l = some r) :
    l = r.map some := by
  induction l generalizing r with
  | nil => simp [allSome] at h; subst h; rfl
  | cons a t ih =>
    cases a with
    | none => simp [allSome] at h
    | some a =>
      simp only [allSome, Option.map_eq_some_iff] at h
      obtain ⟨r', hr', rfl⟩ := h
      rw [ih r' hr']; rfl

theorem allSome_map {α β : Type} (f : α → Option β) (l : List α) (r : List β)
    (h : allSome (l.map f) = some r) :
    r.length = l.length ∧ ∀ i (hi : i < l.length) (hr : i < r.length), f l[i] = some r[i] := by
  have h' := allSome_eq_some _ _ h
  have hl : r.length = l.length := by
    have := congrArg List.length h'; simpa using this.symm
  refine ⟨hl, ?_⟩
  intro i hi hr
  have := congrArg (fun x => x[i]?) h'
  simpa [hi, hr] using this

theorem countP_eq_range (N a : Nat) :
    (List.range N).countP (fun b => a == b) = if a < N then 1 else 0 := by
  induction N with
  | zero => simp
  | succ n ih =>
    rw [List.range_succ, List.countP_append, ih]
    simp only [List.countP_cons, List.countP_nil]
    by_cases h1 : a < n <;> by_cases h2 : a = n <;> simp [h1, h2] <;> omega

/-- `np.bincount` loses nothing: the counts over all bins add up to the number of indices. -/
theorem sum_count_range (N : Nat) (idx : List Nat) (h : ∀ i ∈ idx, i < N) :
    ((List.range N).map (fun b => idx.count b)).sum = idx.length := by
  induction idx with
  | nil =>
    have : ∀ l : List Nat, (List.map (fun _ => 0) l).sum = 0 := by
      intro l; induction l <;> simp_all
    simpa using this _
  | cons a t ih =>
    have ih := ih (fun i hi => h i (List.mem_cons_of_mem _ hi))
    have ha := h a List.mem_cons_self
    have : (fun b => (a :: t).count b) = (fun b => t.count b + (if a == b then 1 else 0)) := by
      funext b; simp [List.count_cons]
    rw [this, sum_map_add, ih, sum_map_ite, countP_eq_range]
    simp [ha]



theorem binIndex_lt (sbin cbin nx ny : Nat) (p : Spike) (i : Nat) (h : binIndex sbin cbin nx ny p = some i) :
    i < nx * ny := by
  unfold binIndex at h
  simp only at h
  split at h
  · rename_i hlt
    simp only [Option.some.injEq] at h
    subst h
    have h1 : (p.2 / cbin + 1) * nx ≤ ny * nx := Nat.mul_le_mul_right _ (by omega)
    rw [Nat.add_mul] at h1
    rw [Nat.mul_comm nx ny]
    omega
  · simp at h

theorem chunkColumns_spec (sbin cbin nch chunk off : Nat) (sorters : List (List Spike)) (cols : List (List Nat))
    (h : chunkColumns sbin cbin nch chunk off sorters = some cols) :
    (∀ cs ∈ cols, cs.length = sorters.length) ∧
    ∀ j (hj : j < sorters.length),
      (cols.map (fun cs => cs.getD j 0)).sum = (chunkOf off chunk sorters[j]).length := by
  unfold chunkColumns at h
  simp only [Option.map_eq_some_iff] at h
  obtain ⟨idxs, hc, rfl⟩ := h
  obtain ⟨hl, hi⟩ := allSome_map _ _ _ hc
  refine ⟨?_, ?_⟩
  · intro cs hcs
    simp only [List.mem_map] at hcs
    obtain ⟨b, _, rfl⟩ := hcs
    simp [hl]
  · intro j hj
    have hj' : j < idxs.length := by omega
    have hb := hi j hj hj'
    unfold sorterBins at hb
    obtain ⟨hl2, hi2⟩ := allSome_map _ _ _ hb
    have hlt : ∀ i ∈ idxs[j], i < nScale chunk sbin * nScale nch cbin := by
      intro i hi'
      obtain ⟨n, hn, rfl⟩ := List.getElem_of_mem hi'
      exact binIndex_lt _ _ _ _ _ _ (hi2 n (by omega) hn)
    rw [← hl2, ← sum_count_range _ idxs[j] hlt, List.map_map]
    congr 1
    apply List.map_congr_left
    intro b _
    simp [List.getD_eq_getElem?_getD, hj']

theorem searchsorted_mono (sp : List Spike) {a b : Nat} (h : a ≤ b) : searchsorted sp a ≤ searchsorted sp b := by
  unfold searchsorted
  apply List.countP_mono_left
  intro p _ hp
  simp only [decide_eq_true_eq] at hp ⊢
  omega

theorem searchsorted_le (sp : List Spike) (v : Nat) : searchsorted sp v ≤ sp.length := List.countP_le_length

theorem length_chunkOf (off chunk : Nat) (sp : List Spike) :
    (chunkOf off chunk sp).length = searchsorted sp (off + chunk) - searchsorted sp off := by
  have := searchsorted_le sp (off + chunk)
  simp only [chunkOf, List.length_map, List.length_take, List.length_drop]
  omega

/-- Chunks lose no spike: the chunk lengths telescope. -/
theorem sum_chunks (chunk : Nat) (sp : List Spike) (n : Nat) :
    ((List.range n).map (fun ch => (chunkOf (ch * chunk) chunk sp).length)).sum = searchsorted sp (n * chunk) := by
  induction n with
  | zero => simp [searchsorted]
  | succ n ih =>
    rw [List.range_succ, List.map_append, List.sum_append, ih]
    simp only [List.map_cons, List.map_nil, List.sum_cons, List.sum_nil, length_chunkOf]
    have h1 : n * chunk + chunk = (n + 1) * chunk := by rw [Nat.add_mul]; omega
    rw [h1]
    have := searchsorted_mono sp (show n * chunk ≤ (n + 1) * chunk from Nat.mul_le_mul_right _ (by omega))
    omega

theorem searchsorted_all (sp : List Spike) (v : Nat) (h : ∀ p ∈ sp, p.1 < v) : searchsorted sp v = sp.length := by
  unfold searchsorted
  rw [List.countP_eq_length]
  intro p hp
  simpa using h p hp

theorem sample_le_maxSample (sorters : List (List Spike)) (mx : Nat) (h : maxSample sorters = some mx)
    (j : Nat) (hj : j < sorters.length) : sorters[j] ≠ [] ∧ ∀ p ∈ sorters[j], p.1 ≤ mx := by
  unfold maxSample at h
  split at h
  · simp at h
  · rename_i hne
    simp only [Option.some.injEq] at h
    subst h
    refine ⟨?_, ?_⟩
    · intro he
      apply hne
      simp only [List.any_eq_true, List.isEmpty_iff]
      exact ⟨sorters[j], List.getElem_mem hj, he⟩
    · intro p hp
      have h1 : p.1 ≤ maxL (sorters[j].map (·.1)) := mem_le_maxL _ _ (List.mem_map_of_mem hp)
      have h2 : maxL (sorters[j].map (·.1)) ≤ maxL (sorters.map (fun sp => maxL (sp.map (·.1)))) :=
        mem_le_maxL _ _ (List.mem_map_of_mem (f := fun sp => maxL (sp.map (·.1))) (List.getElem_mem hj))
      omega

theorem code_pos (L : Nat) (cs : List Nat) (h1 : 0 < L) (h2 : L ≤ maxL cs) : 0 < code L cs := by
  induction cs with
  | nil => simp [maxL] at h2; omega
  | cons c cs ih =>
    simp only [maxL, List.foldr_cons] at h2 ih
    simp only [code]
    by_cases hc : L ≤ c
    · simp only [hc, if_true]
      have := Nat.two_pow_pos cs.length
      omega
    · have := ih (by omega)
      omega

theorem peel_codes_range (k : Nat) (cols : List (List Nat)) (hk : ∀ cs ∈ cols, cs.length = k) :
    ∀ c ∈ peel cols, 1 ≤ c ∧ c < 2 ^ k := by
  intro c hc
  unfold peel at hc
  simp only [List.mem_flatMap, List.mem_map, List.mem_filter, List.mem_range, decide_eq_true_eq] at hc
  obtain ⟨i, _, cs, ⟨hcs, hi⟩, rfl⟩ := hc
  refine ⟨code_pos _ _ (by omega) (by omega), ?_⟩
  rw [← hk cs hcs]
  exact code_lt _ _

theorem sum_filter_indicator (P : Nat → Bool) (a n : Nat) (h1 : 1 ≤ a) (h2 : a ≤ n) :
    (((List.range n).filter (fun r => P (r + 1))).map (fun r => if a == r + 1 then 1 else 0)).sum
      = if P a then 1 else 0 := by
  have key : ∀ m, (((List.range m).filter (fun r => P (r + 1))).map (fun r => if a == r + 1 then 1 else 0)).sum
      = if a ≤ m ∧ P a then 1 else 0 := by
    intro m
    induction m with
    | zero =>
      have : ¬ a ≤ 0 := by omega
      simp [this]
    | succ m ih =>
      rw [List.range_succ, List.filter_append, List.map_append, List.sum_append, ih]
      by_cases ham : a = m + 1
      · subst ham
        by_cases hp : P (m + 1) <;> simp [hp]
      · by_cases hp : P (m + 1) <;> by_cases hpa : P a <;> by_cases hle : a ≤ m <;>
          simp [hp, hpa, hle, ham] <;> omega
  rw [key]; simp [h2]

theorem getD_tally (k : Nat) (codes : List Nat) (r : Nat) (hr : r < 2 ^ k - 1) :
    (tally k codes).getD r 0 = codes.count (r + 1) := by
  simp [tally, List.getD_eq_getElem?_getD, hr]

theorem regionSum_tally (k j : Nat) (codes : List Nat) (h : ∀ c ∈ codes, 1 ≤ c ∧ c < 2 ^ k) :
    regionSum k j (tally k codes) = codes.countP (fun c => c.testBit (k - 1 - j)) := by
  unfold regionSum
  have e : ((List.range (2 ^ k - 1)).filter (fun r => (r + 1).testBit (k - 1 - j))).map
        (fun r => (tally k codes).getD r 0)
      = ((List.range (2 ^ k - 1)).filter (fun r => (r + 1).testBit (k - 1 - j))).map
        (fun r => codes.count (r + 1)) := by
    apply List.map_congr_left
    intro r hr
    exact getD_tally k codes r (List.mem_range.mp (List.mem_filter.mp hr).1)
  rw [e]
  clear e
  induction codes with
  | nil =>
    have : ∀ l : List Nat, (List.map (fun _ => 0) l).sum = 0 := by
      intro l; induction l <;> simp_all
    simpa using this _
  | cons a t ih =>
    have ih := ih (fun c hc => h c (List.mem_cons_of_mem _ hc))
    have ha := h a List.mem_cons_self
    have : (fun r => (a :: t).count (r + 1)) = (fun r => t.count (r + 1) + (if a == r + 1 then 1 else 0)) := by
      funext r; simp [List.count_cons]
    rw [this, sum_map_add, ih,
      sum_filter_indicator (fun c => c.testBit (k - 1 - j)) a (2 ^ k - 1) ha.1 (by omega), List.countP_cons]


/-- What a successful run returns: the tally of the codes of every chunk, each chunk's columns being defined. -/
theorem venn_ok (sorters : List (List Spike)) (sbin cbin nch chunk : Nat) (res : List Nat)
    (h : venn sorters sbin cbin nch chunk = .ok res) :
    0 < chunk ∧ ∃ mx cc, maxSample sorters = some mx ∧
      allSome ((List.range (mx / chunk + 1)).map (chunkCodes sbin cbin nch chunk sorters)) = some cc ∧
      res = tally sorters.length cc.flatten := by
  unfold venn at h
  split at h
  · simp at h
  · rename_i hd
    split at h
    · simp at h
    · rename_i mx hmx
      split at h
      · simp at h
      · rename_i cc hcc
        simp only [Res.ok.injEq] at h
        exact ⟨by omega, mx, cc, hmx, hcc, h.symm⟩

theorem venn_conservation_aux (sorters : List (List Spike)) (sbin cbin nch chunk : Nat) (res : List Nat)
    (h : venn sorters sbin cbin nch chunk = .ok res) (j : Nat) (hj : j < sorters.length) :
    regionSum sorters.length j res = sorters[j].length := by
  obtain ⟨hchunk, mx, cc, hmx, hcc, rfl⟩ := venn_ok _ _ _ _ _ _ h
  obtain ⟨hl, hi⟩ := allSome_map _ _ _ hcc
  simp only [List.length_range] at hl hi
  -- every chunk: columns exist, codes = peel columns
  have hch : ∀ ch (hc : ch < cc.length), ∃ cols,
      chunkColumns sbin cbin nch chunk (ch * chunk) sorters = some cols ∧ cc[ch] = peel cols := by
    intro ch hc
    have := hi ch (by omega) hc
    simp only [List.getElem_range, chunkCodes, Option.map_eq_some_iff] at this
    obtain ⟨cols, h1, h2⟩ := this
    exact ⟨cols, h1, h2.symm⟩
  have hrange : ∀ c ∈ cc.flatten, 1 ≤ c ∧ c < 2 ^ sorters.length := by
    intro c hc
    obtain ⟨l, hl', hcl⟩ := List.mem_flatten.mp hc
    obtain ⟨ch, hch', rfl⟩ := List.getElem_of_mem hl'
    obtain ⟨cols, h1, h2⟩ := hch ch hch'
    rw [h2] at hcl
    exact peel_codes_range _ cols (chunkColumns_spec _ _ _ _ _ _ _ h1).1 c hcl
  rw [regionSum_tally _ _ _ hrange, List.countP_flatten]
  have hmap : cc.map (List.countP (fun c => c.testBit (sorters.length - 1 - j)))
      = (List.range (mx / chunk + 1)).map (fun ch => (chunkOf (ch * chunk) chunk sorters[j]).length) := by
    apply List.ext_getElem
    · simp [hl]
    · intro ch h1 h2
      simp only [List.length_map] at h1
      obtain ⟨cols, hc1, hc2⟩ := hch ch h1
      obtain ⟨hk, hs⟩ := chunkColumns_spec _ _ _ _ _ _ _ hc1
      simp only [List.getElem_map, List.getElem_range, hc2]
      rw [peel_count _ j hj cols hk, hs j hj]
  rw [hmap, sum_chunks]
  apply searchsorted_all
  intro p hp
  have := (sample_le_maxSample _ _ hmx j hj).2 p hp
  have := Nat.lt_mul_div_succ mx hchunk
  rw [Nat.mul_comm] at this
  omega


theorem take_searchsorted (sp : List Spike) (b : Nat) (hs : sp.Pairwise (fun p q => p.1 ≤ q.1)) :
    sp.take (searchsorted sp b) = sp.filter (fun p => p.1 < b) := by
  induction sp with
  | nil => simp [searchsorted]
  | cons p t ih =>
    rw [List.pairwise_cons] at hs
    have ih := ih hs.2
    unfold searchsorted at ih ⊢
    by_cases hp : p.1 < b
    · simp [hp, ih]
    · have h0 : t.countP (fun p => decide (p.1 < b)) = 0 := by
        rw [List.countP_eq_zero]
        intro q hq
        have := hs.1 q hq
        simp; omega
      have hf : t.filter (fun p => decide (p.1 < b)) = [] := by
        rw [List.filter_eq_nil_iff]
        intro q hq
        have := hs.1 q hq
        simp; omega
      simp [hp, h0, hf]

theorem drop_searchsorted (sp : List Spike) (a : Nat) (hs : sp.Pairwise (fun p q => p.1 ≤ q.1)) :
    sp.drop (searchsorted sp a) = sp.filter (fun p => a ≤ p.1) := by
  induction sp with
  | nil => simp [searchsorted]
  | cons p t ih =>
    rw [List.pairwise_cons] at hs
    have ih := ih hs.2
    unfold searchsorted at ih ⊢
    by_cases hp : p.1 < a
    · have : ¬ a ≤ p.1 := by omega
      simp [hp, ih, this]
    · have h0 : t.countP (fun p => decide (p.1 < a)) = 0 := by
        rw [List.countP_eq_zero]
        intro q hq
        have := hs.1 q hq
        simp; omega
      have hf : t.filter (fun p => decide (a ≤ p.1)) = t := by
        rw [List.filter_eq_self]
        intro q hq
        have := hs.1 q hq
        simp; omega
      have : a ≤ p.1 := by omega
      simp [hp, h0, hf, this]

/-- On a time-ordered train the `searchsorted` slice is exactly the set of spikes with
`off ≤ sample < off + chunk`, in order. -/
theorem slice_eq_filter (sp : List Spike) (a b : Nat) (hs : sp.Pairwise (fun p q => p.1 ≤ q.1)) :
    (sp.drop (searchsorted sp a)).take (searchsorted sp b - searchsorted sp a)
      = sp.filter (fun p => a ≤ p.1 ∧ p.1 < b) := by
  rw [← List.drop_take, take_searchsorted sp b hs]
  have hs' : (sp.filter (fun p => p.1 < b)).Pairwise (fun p q => p.1 ≤ q.1) := hs.filter _
  by_cases hab : a ≤ b
  · have e : searchsorted sp a = searchsorted (sp.filter (fun p => p.1 < b)) a := by
      unfold searchsorted
      rw [List.countP_filter]
      apply List.countP_congr
      intro p _
      simp; omega
    rw [e, drop_searchsorted _ a hs', List.filter_filter]
    apply List.filter_congr
    intro p _
    simp
  · have e1 : sp.filter (fun p => decide (a ≤ p.1 ∧ p.1 < b)) = [] := by
      rw [List.filter_eq_nil_iff]; intro p _; simp; omega
    rw [e1]
    have : (sp.filter (fun p => decide (p.1 < b))).length ≤ searchsorted sp a := by
      unfold searchsorted
      rw [← List.countP_eq_length_filter]
      apply List.countP_mono_left
      intro p _ hp
      simp at hp ⊢; omega
    exact List.drop_eq_nil_of_le this


theorem levels_sum_max (N : Nat) (cols : List (List Nat)) (hN : ∀ cs ∈ cols, maxL cs ≤ N) :
    ((List.range N).map (fun i => cols.countP (fun cs => decide (i < maxL cs)))).sum
      = (cols.map maxL).sum := by
  induction cols with
  | nil =>
    have : ∀ l : List Nat, (List.map (fun _ => 0) l).sum = 0 := by
      intro l; induction l <;> simp_all
    simpa using this _
  | cons cs t ih =>
    have ih := ih (fun cs h => hN cs (List.mem_cons_of_mem _ h))
    simp only [List.countP_cons, List.map_cons, List.sum_cons]
    rw [sum_map_add, ih, sum_map_ite]
    have := countP_levels N (maxL cs) (maxL cs) (Nat.le_refl _) (hN cs List.mem_cons_self)
    have e : (List.range N).countP (fun i => decide (i < maxL cs))
        = (List.range N).countP (fun i => decide (i < maxL cs) && decide (maxL cs - i ≤ maxL cs)) := by
      apply List.countP_congr; intro i _; simp
    rw [e, this]; omega

/-- The number of region increments of one chunk is the sum over bins of the largest per-sorter count. -/
theorem length_peel (cols : List (List Nat)) : (peel cols).length = (cols.map maxL).sum := by
  unfold peel
  rw [List.length_flatMap, ← levels_sum_max (maxL (cols.map maxL)) cols
    (fun cs h => mem_le_maxL _ _ (List.mem_map_of_mem h))]
  congr 1
  apply List.map_congr_left
  intro i _
  rw [List.length_map, List.countP_eq_length_filter]

theorem sum_tally (k : Nat) (codes : List Nat) (h : ∀ c ∈ codes, 1 ≤ c ∧ c < 2 ^ k) :
    (tally k codes).sum = codes.length := by
  have key := sum_filter_indicator (fun _ => true)
  induction codes with
  | nil =>
    have : ∀ l : List Nat, (List.map (fun _ => 0) l).sum = 0 := by
      intro l; induction l <;> simp_all
    simpa [tally] using this _
  | cons a t ih =>
    have ih := ih (fun c hc => h c (List.mem_cons_of_mem _ hc))
    have ha := h a List.mem_cons_self
    unfold tally at ih ⊢
    have : (fun r => (a :: t).count (r + 1)) = (fun r => t.count (r + 1) + (if a == r + 1 then 1 else 0)) := by
      funext r; simp [List.count_cons]
    rw [this, sum_map_add, ih]
    have := key a (2 ^ k - 1) ha.1 (by omega)
    have hft : (List.range (2 ^ k - 1)).filter (fun _ => true) = List.range (2 ^ k - 1) :=
      List.filter_eq_self.mpr (fun _ _ => rfl)
    rw [hft] at this
    rw [this, List.length_cons]
    simp


theorem allSome_map_map {α β γ : Type} (f : α → Option β) (g : β → γ) (l : List α) (r : List γ)
    (h : allSome (l.map (fun a => (f a).map g)) = some r) :
    ∃ r', allSome (l.map f) = some r' ∧ r = r'.map g := by
  induction l generalizing r with
  | nil => simp [allSome] at h; subst h; exact ⟨[], rfl, rfl⟩
  | cons a t ih =>
    simp only [List.map_cons] at h ⊢
    cases hfa : f a with
    | none => simp [hfa, allSome] at h
    | some b =>
      simp only [hfa, Option.map_some, allSome, Option.map_eq_some_iff] at h ⊢
      obtain ⟨r1, hr1, rfl⟩ := h
      obtain ⟨r', hr', rfl⟩ := ih r1 hr1
      exact ⟨b :: r', ⟨r', hr', rfl⟩, rfl⟩

theorem venn_total_aux (sorters : List (List Spike)) (sbin cbin nch chunk : Nat) (res : List Nat)
    (h : venn sorters sbin cbin nch chunk = .ok res) :
    ∃ mx colss, maxSample sorters = some mx ∧
      allSome ((List.range (mx / chunk + 1)).map
        (fun ch => chunkColumns sbin cbin nch chunk (ch * chunk) sorters)) = some colss ∧
      (∀ cols ∈ colss, ∀ c ∈ peel cols, 1 ≤ c ∧ c < 2 ^ sorters.length) ∧
      res.sum = (colss.map (fun cols => (cols.map maxL).sum)).sum := by
  obtain ⟨_, mx, cc, hmx, hcc, rfl⟩ := venn_ok _ _ _ _ _ _ h
  have hcc' : allSome ((List.range (mx / chunk + 1)).map
      (fun ch => (chunkColumns sbin cbin nch chunk (ch * chunk) sorters).map peel)) = some cc := hcc
  obtain ⟨colss, hcols, rfl⟩ := allSome_map_map _ peel _ _ hcc'
  obtain ⟨hl, hi⟩ := allSome_map _ _ _ hcols
  have hrange : ∀ cols ∈ colss, ∀ c ∈ peel cols, 1 ≤ c ∧ c < 2 ^ sorters.length := by
    intro cols hc
    obtain ⟨ch, hch, rfl⟩ := List.getElem_of_mem hc
    have := hi ch (by omega) hch
    exact peel_codes_range _ _ (chunkColumns_spec _ _ _ _ _ _ _ this).1
  refine ⟨mx, colss, hmx, hcols, hrange, ?_⟩
  rw [sum_tally]
  · rw [List.length_flatten, List.map_map]
    congr 1
    apply List.map_congr_left
    intro cols _
    exact length_peel cols
  · intro c hc
    obtain ⟨l, hl', hcl⟩ := List.mem_flatten.mp hc
    obtain ⟨cols, hcols', rfl⟩ := List.mem_map.mp hl'
    exact hrange cols hcols' c hcl

end IblVerif.Venn
