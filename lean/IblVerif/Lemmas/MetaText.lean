/-
C09 helper lemmas, text level: line splitting, `key=value` splitting, `split(",")`/`join`, decimal digits.
-/
import IblVerif.Model.Meta

namespace IblVerif.Meta

/-- no `str.splitlines` boundary inside -/
def NoBreak (s : Str) : Prop := ∀ c ∈ s, isBreak c = false

theorem isBreak_newline : isBreak '\n' = true := by decide
theorem isBreak_cr : isBreak '\r' = true := by decide
theorem isBreak_eq : isBreak '=' = false := by decide

theorem NoBreak.nil : NoBreak [] := by intro c hc; cases hc

theorem NoBreak.cons {c : Char} {s : Str} (hc : isBreak c = false) (hs : NoBreak s) : NoBreak (c :: s) := by
  intro x hx
  rcases List.mem_cons.mp hx with rfl | h
  · exact hc
  · exact hs x h

theorem NoBreak.append {a b : Str} (ha : NoBreak a) (hb : NoBreak b) : NoBreak (a ++ b) := by
  intro x hx
  rcases List.mem_append.mp hx with h | h
  · exact ha x h
  · exact hb x h

theorem NoBreak.of_cons {c : Char} {s : Str} (h : NoBreak (c :: s)) : isBreak c = false ∧ NoBreak s :=
  ⟨h c (List.mem_cons_self ..), fun x hx => h x (List.mem_cons_of_mem _ hx)⟩

/-! ### universal newlines -/

theorem univNlAux_id (t : Str) (h : '\r' ∉ t) : univNlAux t false = t := by
  induction t with
  | nil => rfl
  | cons c r ih =>
    have hc : c ≠ '\r' := fun e => h (e ▸ List.mem_cons_self ..)
    have hr : '\r' ∉ r := fun e => h (List.mem_cons_of_mem _ e)
    simp [univNlAux, hc, ih hr]

theorem univNl_id (t : Str) (h : '\r' ∉ t) : univNl t = t := univNlAux_id t h

theorem univNlAux_no_cr (t : Str) (b : Bool) : '\r' ∉ univNlAux t b := by
  induction t generalizing b with
  | nil => simp [univNlAux]
  | cons c r ih =>
    unfold univNlAux
    split
    · intro h
      rcases List.mem_cons.mp h with h | h
      · exact absurd h (by decide)
      · exact ih _ h
    · split
      · exact ih _
      · rename_i hc _
        intro h
        rcases List.mem_cons.mp h with h | h
        · exact hc h.symm
        · exact ih _ h

/-! ### splitlines -/

theorem splitlines_line (l : Str) (rest : Str) (hl : NoBreak l) :
    splitlines (l ++ '\n' :: rest) = l :: splitlines rest := by
  induction l with
  | nil => simp [splitlines, isBreak_newline]
  | cons c r ih =>
    have ⟨hc, hr⟩ := hl.of_cons
    simp [splitlines, hc, ih hr]

theorem splitlines_unlines (ls : List Str) (h : ∀ l ∈ ls, NoBreak l) : splitlines (unlines ls) = ls := by
  induction ls with
  | nil => rfl
  | cons l r ih =>
    simp only [unlines]
    rw [splitlines_line l _ (h l (List.mem_cons_self ..))]
    rw [ih (fun x hx => h x (List.mem_cons_of_mem _ hx))]

theorem splitlines_noBreak (t : Str) : ∀ l ∈ splitlines t, NoBreak l := by
  induction t with
  | nil => intro l hl; cases hl
  | cons c r ih =>
    intro l hl
    unfold splitlines at hl
    split at hl
    · rcases List.mem_cons.mp hl with rfl | h
      · exact NoBreak.nil
      · exact ih l h
    · rename_i hc
      have hc' : isBreak c = false := by simpa using hc
      split at hl
      · rcases List.mem_cons.mp hl with rfl | h
        · exact NoBreak.cons hc' NoBreak.nil
        · cases h
      · rename_i l0 ls heq
        rcases List.mem_cons.mp hl with rfl | h
        · exact NoBreak.cons hc' (ih l0 (heq ▸ List.mem_cons_self ..))
        · exact ih l (heq ▸ List.mem_cons_of_mem _ h)

/-! ### key = value -/

theorem splitEq_append (k v : Str) (hk : '=' ∉ k) : splitEq (k ++ '=' :: v) = some (k, v) := by
  induction k with
  | nil => simp [splitEq]
  | cons c r ih =>
    have hc : c ≠ '=' := fun e => hk (e ▸ List.mem_cons_self ..)
    have hr : '=' ∉ r := fun e => hk (List.mem_cons_of_mem _ e)
    simp [splitEq, hc, ih hr]

theorem splitEq_spec (a k v : Str) (h : splitEq a = some (k, v)) : a = k ++ '=' :: v ∧ '=' ∉ k := by
  induction a generalizing k v with
  | nil => simp [splitEq] at h
  | cons c r ih =>
    unfold splitEq at h
    split at h
    · rename_i hc
      simp at h
      obtain ⟨rfl, rfl⟩ := h
      simp [hc]
    · rename_i hc
      cases hr : splitEq r with
      | none => simp [hr] at h
      | some kv =>
        obtain ⟨k', v'⟩ := kv
        simp [hr] at h
        obtain ⟨rfl, rfl⟩ := h
        have ⟨e, hk⟩ := ih k' v' hr
        refine ⟨by rw [e]; rfl, ?_⟩
        intro hm
        rcases List.mem_cons.mp hm with h1 | h1
        · exact hc h1.symm
        · exact hk h1

theorem removeTilde_id (k : Str) (h : '~' ∉ k) : removeTilde k = k := by
  unfold removeTilde
  rw [List.filter_eq_self]
  intro a ha
  have : a ≠ '~' := fun e => h (e ▸ ha)
  simpa using this

theorem removeTilde_mem (k : Str) (c : Char) (h : c ∈ removeTilde k) : c ∈ k ∧ c ≠ '~' := by
  unfold removeTilde at h
  have := List.mem_filter.mp h
  exact ⟨this.1, by simpa using this.2⟩

/-! ### split / join -/

theorem splitOn_ne_nil (sep : Char) (s : Str) : splitOn sep s ≠ [] := by
  induction s with
  | nil => simp [splitOn]
  | cons c r ih =>
    unfold splitOn
    split
    · simp
    · split <;> simp

theorem splitOn_noSep (sep : Char) (s : Str) (h : sep ∉ s) : splitOn sep s = [s] := by
  induction s with
  | nil => rfl
  | cons c r ih =>
    have hc : c ≠ sep := fun e => h (e ▸ List.mem_cons_self ..)
    have hr : sep ∉ r := fun e => h (List.mem_cons_of_mem _ e)
    simp [splitOn, hc, ih hr]

theorem splitOn_append (sep : Char) (a rest : Str) (h : sep ∉ a) :
    splitOn sep (a ++ sep :: rest) = a :: splitOn sep rest := by
  induction a with
  | nil => simp [splitOn]
  | cons c r ih =>
    have hc : c ≠ sep := fun e => h (e ▸ List.mem_cons_self ..)
    have hr : sep ∉ r := fun e => h (List.mem_cons_of_mem _ e)
    simp [splitOn, hc, ih hr]

theorem splitOn_joinWith (sep : Char) (parts : List Str) (hne : parts ≠ [])
    (h : ∀ p ∈ parts, sep ∉ p) : splitOn sep (joinWith sep parts) = parts := by
  induction parts with
  | nil => exact absurd rfl hne
  | cons a r ih =>
    cases r with
    | nil => simp [joinWith, splitOn_noSep sep a (h a (List.mem_cons_self ..))]
    | cons b r' =>
      simp only [joinWith]
      rw [splitOn_append sep a _ (h a (List.mem_cons_self ..))]
      rw [ih (by simp) (fun p hp => h p (List.mem_cons_of_mem _ hp))]

theorem mem_joinWith (sep : Char) (parts : List Str) (c : Char) (h : c ∈ joinWith sep parts) :
    c = sep ∨ ∃ p ∈ parts, c ∈ p := by
  induction parts with
  | nil => simp [joinWith] at h
  | cons a r ih =>
    cases r with
    | nil => exact Or.inr ⟨a, List.mem_cons_self .., by simpa [joinWith] using h⟩
    | cons b r' =>
      simp only [joinWith] at h
      rcases List.mem_append.mp h with h1 | h1
      · exact Or.inr ⟨a, List.mem_cons_self .., h1⟩
      · rcases List.mem_cons.mp h1 with h2 | h2
        · exact Or.inl h2
        · rcases ih h2 with h3 | ⟨p, hp, hc⟩
          · exact Or.inl h3
          · exact Or.inr ⟨p, List.mem_cons_of_mem _ hp, hc⟩

theorem joinWith_ne_nil (sep : Char) (parts : List Str) (hne : parts ≠ []) (h : ∀ p ∈ parts, p ≠ []) :
    joinWith sep parts ≠ [] := by
  cases parts with
  | nil => exact absurd rfl hne
  | cons a r =>
    have ha := h a (List.mem_cons_self ..)
    cases r with
    | nil => simpa [joinWith] using ha
    | cons b r' =>
      simp only [joinWith]
      intro e
      exact ha (List.append_eq_nil_iff.mp e).1

/-! ### decimal digits -/

theorem digit_facts : ∀ m, m < 10 → isDig (digitChar m) = true ∧ digitVal (digitChar m) = m := by decide

theorem isDig_not_break (c : Char) (h : isDig c = true) : isBreak c = false := by
  simp only [isDig, Bool.and_eq_true, decide_eq_true_eq] at h
  simp only [isBreak, Bool.or_eq_false_iff, beq_eq_false_iff_ne, ne_eq]
  omega

theorem isDig_ne (c : Char) (h : isDig c = true) : c ≠ '.' ∧ c ≠ ',' ∧ c ≠ '=' ∧ c ≠ '~' := by
  simp only [isDig, Bool.and_eq_true, decide_eq_true_eq] at h
  refine ⟨?_, ?_, ?_, ?_⟩ <;> (rintro rfl; revert h; decide)

theorem digitsToNat_foldl (s : Str) (a : Nat) :
    s.foldl (fun a c => 10 * a + digitVal c) a = a * 10 ^ s.length + digitsToNat s := by
  induction s generalizing a with
  | nil => simp [digitsToNat]
  | cons c r ih =>
    simp only [List.foldl_cons, digitsToNat, List.length_cons]
    rw [ih, ih (10 * 0 + digitVal c)]
    simp only [Nat.pow_succ]
    rw [Nat.add_mul, Nat.add_mul]
    simp only [Nat.mul_zero, Nat.zero_mul, Nat.zero_add]
    rw [Nat.add_assoc]
    congr 1
    rw [Nat.mul_comm 10 a, Nat.mul_assoc, Nat.mul_comm 10]

theorem digitsToNat_cons (c : Char) (r : Str) :
    digitsToNat (c :: r) = digitVal c * 10 ^ r.length + digitsToNat r := by
  simp only [digitsToNat, List.foldl_cons]
  rw [digitsToNat_foldl]
  simp [digitsToNat]

theorem natDigitsAux_spec (fuel n : Nat) (acc : Str) (h : n < fuel) :
    ∃ ds : Str, natDigitsAux fuel n acc = ds ++ acc ∧ ds ≠ [] ∧ (∀ c ∈ ds, isDig c = true) ∧
      digitsToNat ds = n := by
  induction fuel generalizing n acc with
  | zero => omega
  | succ f ih =>
    have hm := digit_facts (n % 10) (Nat.mod_lt _ (by omega))
    unfold natDigitsAux
    split
    · rename_i h0
      refine ⟨[digitChar (n % 10)], rfl, by simp, ?_, ?_⟩
      · intro c hc
        rw [List.mem_singleton.mp hc]; exact hm.1
      · simp [digitsToNat, hm.2]; omega
    · rename_i h0
      obtain ⟨ds, e, _, hd, hv⟩ := ih (n / 10) (digitChar (n % 10) :: acc) (by omega)
      refine ⟨ds ++ [digitChar (n % 10)], by rw [e]; simp, by simp, ?_, ?_⟩
      · intro c hc
        rcases List.mem_append.mp hc with h1 | h1
        · exact hd c h1
        · rw [List.mem_singleton.mp h1]; exact hm.1
      · unfold digitsToNat
        rw [List.foldl_append]
        simp only [List.foldl_cons, List.foldl_nil]
        have : List.foldl (fun a c => 10 * a + digitVal c) 0 ds = n / 10 := hv
        rw [this, hm.2]
        omega

theorem natDigits_spec (n : Nat) :
    natDigits n ≠ [] ∧ (∀ c ∈ natDigits n, isDig c = true) ∧ digitsToNat (natDigits n) = n := by
  obtain ⟨ds, e, hne, hd, hv⟩ := natDigitsAux_spec (n + 1) n [] (by omega)
  unfold natDigits
  rw [e, List.append_nil]
  exact ⟨hne, hd, hv⟩

end IblVerif.Meta
