/-
Helper lemmas: the channel-subset tokens (`_get_savedChans_subset` / `_get_chans`) and the metadata map.
Core Lean only.
-/
import IblVerif.Model.Split

namespace IblVerif.Split

/-! ### runs of consecutive channel numbers -/

/-- Every element is its predecessor plus one. -/
def Consec : List Nat → Prop
  | [] => True
  | [_] => True
  | a :: b :: rest => b = a + 1 ∧ Consec (b :: rest)

theorem consec_range' : ∀ (r : List Nat) (a : Nat), Consec (a :: r) →
    a :: r = List.range' a (r.length + 1) ∧ (a :: r).getLast (by simp) = a + r.length
  | [], a, _ => by simp
  | b :: r, a, h => by
    obtain ⟨hb, hc⟩ := h
    obtain ⟨h1, h2⟩ := consec_range' r b hc
    subst hb
    constructor
    · rw [List.length_cons, List.range'_succ, ← h1]
    · rw [List.getLast_cons (by simp), h2, List.length_cons]; omega

theorem runs_spec (l : List Nat) :
    (runs l).flatten = l ∧ ∀ r ∈ runs l, r ≠ [] ∧ Consec r := by
  fun_induction runs l with
  | case1 => simp
  | case2 a => simp [Consec]
  | case3 a rest r rs hr ih =>
    rw [hr] at ih
    obtain ⟨ih1, ih2⟩ := ih
    simp only [List.flatten_cons] at ih1
    constructor
    · simp only [List.flatten_cons, List.cons_append, ih1]
    · intro x hx
      rcases List.mem_cons.mp hx with rfl | hx
      · refine ⟨by simp, ?_⟩
        have hr1 := ih2 r List.mem_cons_self
        cases r with
        | nil => exact absurd rfl hr1.1
        | cons c r' =>
          have : c = a + 1 := by
            have := congrArg List.head? ih1
            simpa using this
          subst this
          exact ⟨rfl, hr1.2⟩
      · exact ih2 x (List.mem_cons_of_mem _ hx)
  | case4 a rest hr ih =>
    have : (runs ((a + 1) :: rest)).flatten = (a + 1) :: rest := ih.1
    rw [hr] at this
    simp at this
  | case5 a b rest hb ih =>
    obtain ⟨ih1, ih2⟩ := ih
    constructor
    · simp only [List.flatten_cons, ih1, List.singleton_append]
    · intro x hx
      rcases List.mem_cons.mp hx with rfl | hx
      · simp [Consec]
      · exact ih2 x hx

/-- Parsing the tokens of a list of non-empty consecutive runs gives back their concatenation, provided
`g` is the position of the first run and `len` the total length (so that only a final one-element run
is printed without a colon). -/
theorem parse_toksFrom (len : Nat) : ∀ (rs : List (List Nat)) (g : Nat),
    (∀ r ∈ rs, r ≠ [] ∧ Consec r) → g + rs.flatten.length = len →
    parseToks (toksFrom len g rs) = rs.flatten
  | [], _, _, _ => rfl
  | [] :: rs, g, h, _ => absurd rfl (h [] List.mem_cons_self).1
  | (a :: r) :: rs, g, h, hl => by
    have hc := (h (a :: r) List.mem_cons_self).2
    obtain ⟨h1, h2⟩ := consec_range' r a hc
    have ih := parse_toksFrom len rs (g + (r.length + 1))
      (fun x hx => h x (List.mem_cons_of_mem _ hx))
      (by simp only [List.flatten_cons, List.length_append, List.length_cons] at hl; omega)
    simp only [toksFrom, List.flatten_cons]
    simp only [List.flatten_cons, List.length_append, List.length_cons] at hl
    by_cases hg : g < len - 1
    · simp only [hg, if_true, parseToks, ih, h2]
      rw [show a + r.length + 1 - a = r.length + 1 by omega, ← h1]
    · simp only [hg, if_false, parseToks, ih]
      have hr : r.length = 0 := by omega
      have : r = [] := List.eq_nil_of_length_eq_zero hr
      subst this
      rfl

/-- `_get_chans(_get_savedChans_subset(chns)) = chns` for every non-empty channel list. -/
theorem parse_subsetToks (chns : List Nat) (h : chns ≠ []) :
    ∃ t, subsetToks chns = .ok t ∧ parseToks t = chns := by
  refine ⟨toksFrom chns.length 0 (runs chns), by simp [subsetToks, h], ?_⟩
  have hs := runs_spec chns
  rw [parse_toksFrom chns.length (runs chns) 0 hs.2 (by rw [hs.1]; omega), hs.1]

/-! ### metadata map -/

theorem get_set (m : Meta) (k k' : String) (v : MVal) :
    (m.set k v).get k' = if k' = k then some v else m.get k' := by
  induction m with
  | nil =>
    simp only [Meta.set, Meta.get, List.lookup_cons, List.lookup_nil]
    by_cases h : k' = k
    · simp [h]
    · have hb : (k' == k) = false := by simpa using h
      simp [h, hb]
  | cons kv m ih =>
    obtain ⟨k0, v0⟩ := kv
    simp only [Meta.get] at ih
    simp only [Meta.set]
    by_cases hk : k = k0
    · subst hk
      simp only [beq_self_eq_true, if_true, Meta.get, List.lookup_cons]
      by_cases h : k' = k
      · simp [h]
      · have hb : (k' == k) = false := by simpa using h
        simp [h, hb]
    · have hb0 : (k == k0) = false := by simpa using hk
      simp only [hb0, Bool.false_eq_true, if_false, Meta.get, List.lookup_cons]
      by_cases h0 : k' = k0
      · subst h0
        have : ¬ (k' = k) := fun e => hk e.symm
        simp [this]
      · have hb : (k' == k0) = false := by simpa using h0
        simp only [hb, ih]

theorem get_filter_ne (m : Meta) (k k' : String) :
    Meta.get (m.filter (fun kv => !(kv.1 == k))) k' = if k' = k then none else m.get k' := by
  induction m with
  | nil => simp [Meta.get, List.lookup]
  | cons kv m ih =>
    obtain ⟨k0, v0⟩ := kv
    simp only [Meta.get] at ih ⊢
    by_cases hk : k0 = k
    · subst hk
      simp only [List.filter_cons, beq_self_eq_true, Bool.not_true, Bool.false_eq_true, if_false, ih,
        List.lookup_cons]
      by_cases h : k' = k0
      · simp [h]
      · have : (k' == k0) = false := by simpa using h
        simp [h, this]
    · have : (k0 == k) = false := by simpa using hk
      simp only [List.filter_cons, this, Bool.not_false, if_true, List.lookup_cons]
      by_cases h0 : k' = k0
      · subst h0
        simp [hk]
      · have : (k' == k0) = false := by simpa using h0
        simp only [this, ih]

theorem get_pop (m m' : Meta) (k k' : String) (h : m.pop k = .ok m') :
    m'.get k' = if k' = k then none else m.get k' := by
  unfold Meta.pop at h
  split at h
  · exact absurd h (by simp)
  · simp only [Except.ok.injEq] at h
    subst h
    exact get_filter_ne m k k'

theorem pop_ok (m : Meta) (k : String) (v : MVal) (h : m.get k = some v) :
    ∃ m', m.pop k = .ok m' := by
  unfold Meta.pop
  simp [h]

theorem setHead_ok (m : Meta) (k : String) (x a : Int) (tl : List Int)
    (h : m.get k = some (.ints (a :: tl))) :
    m.setHead k x = .ok (m.set k (.ints (x :: tl))) := by
  unfold Meta.setHead
  simp [h]

end IblVerif.Split
