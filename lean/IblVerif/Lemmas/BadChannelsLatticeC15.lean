/-
C15: site distances on the NP1 / NP2 lattices around the donor radius of the default interpolation parameters
(72.12 µm): no squared distance lies strictly between 68² = 4624 and 75² = 5625 µm², and `≤ 4624` is a simple rule on the
row / column offsets.  Integer arithmetic only.
-/
import IblVerif.Model.BadChannels
import Mathlib.Tactic.Linarith
import Mathlib.Tactic.IntervalCases
import Mathlib.Tactic.Ring

namespace IblVerif.BadChannels

/-- row of a site (two sites per row on both lattices) -/
def siteRow (j : Nat) : Int := ((j / 2 : Nat) : Int)

private theorem sq_gap15 (k dx2 : Int) (hdx : dx2 = 0 ∨ dx2 = 1024) :
    (dx2 + (15 * k) ^ 2 ≤ 4624 ↔ -4 ≤ k ∧ k ≤ 4) ∧ (dx2 + (15 * k) ^ 2 ≤ 4624 ∨ 5625 ≤ dx2 + (15 * k) ^ 2) := by
  by_cases h : -4 ≤ k ∧ k ≤ 4
  · obtain ⟨h1, h2⟩ := h
    have : dx2 + (15 * k) ^ 2 ≤ 4624 := by
      interval_cases k <;> rcases hdx with e | e <;> subst e <;> norm_num
    exact ⟨⟨fun _ => ⟨h1, h2⟩, fun _ => this⟩, Or.inl this⟩
  · have hk : 25 ≤ k * k := by
      rcases not_and_or.mp h with h' | h'
      · nlinarith
      · nlinarith
    have : 5625 ≤ dx2 + (15 * k) ^ 2 := by
      rcases hdx with e | e <;> subst e <;> nlinarith
    refine ⟨⟨fun hle => absurd hle (by omega), fun hk' => absurd hk' h⟩, Or.inr this⟩

/-- NP2: a site is within 68 µm iff it is at most 4 rows away (either column); otherwise it is at least 75 µm away. -/
theorem np2_sqDist (i j : Nat) :
    (sqDist (np2Site i) (np2Site j) ≤ defaultDonorSq ↔ -4 ≤ siteRow j - siteRow i ∧ siteRow j - siteRow i ≤ 4) ∧
    (sqDist (np2Site i) (np2Site j) ≤ 4624 ∨ 5625 ≤ sqDist (np2Site i) (np2Site j)) := by
  have hx : (27 + 32 * ((j % 2 : Nat) : Int) - (27 + 32 * ((i % 2 : Nat) : Int))) ^ 2 = 0 ∨
      (27 + 32 * ((j % 2 : Nat) : Int) - (27 + 32 * ((i % 2 : Nat) : Int))) ^ 2 = 1024 := by
    rcases Nat.mod_two_eq_zero_or_one i with a | a <;> rcases Nat.mod_two_eq_zero_or_one j with b | b <;>
      rw [a, b] <;> norm_num
  have hy : (20 + 15 * ((j / 2 : Nat) : Int) - (20 + 15 * ((i / 2 : Nat) : Int))) =
      15 * (siteRow j - siteRow i) := by unfold siteRow; ring
  simp only [sqDist, np2Site, defaultDonorSq, hy]
  exact sq_gap15 (siteRow j - siteRow i) _ hx

private theorem sq_gap20 (k dx2 : Int) (hdx : dx2 = 0 ∨ dx2 = 256 ∨ dx2 = 1024 ∨ dx2 = 2304) :
    (dx2 + (20 * k) ^ 2 ≤ 4624 ↔ (-2 ≤ k ∧ k ≤ 2) ∨ ((k = 3 ∨ k = -3) ∧ dx2 ≤ 1024)) ∧
    (dx2 + (20 * k) ^ 2 ≤ 4624 ∨ 5625 ≤ dx2 + (20 * k) ^ 2) := by
  by_cases h : -3 ≤ k ∧ k ≤ 3
  · obtain ⟨h1, h2⟩ := h
    interval_cases k <;> rcases hdx with e | e | e | e <;> subst e <;> norm_num
  · have hk : 16 ≤ k * k := by
      rcases not_and_or.mp h with h' | h'
      · nlinarith
      · nlinarith
    have h0 : 0 ≤ dx2 := by rcases hdx with e | e | e | e <;> subst e <;> norm_num
    have : 5625 ≤ dx2 + (20 * k) ^ 2 := by nlinarith
    refine ⟨⟨fun hle => absurd hle (by omega), fun hk' => ?_⟩, Or.inr this⟩
    exfalso
    rcases hk' with ⟨a, b⟩ | ⟨a | a, _⟩ <;> apply h <;> omega

/-- NP1: a site is within 68 µm iff it is at most 2 rows away, or 3 rows away and at most 32 µm sideways; otherwise it is
at least 75 µm away. -/
theorem np1_sqDist (i j : Nat) :
    (sqDist (np1Site i) (np1Site j) ≤ defaultDonorSq ↔
      (-2 ≤ siteRow j - siteRow i ∧ siteRow j - siteRow i ≤ 2) ∨
      ((siteRow j - siteRow i = 3 ∨ siteRow j - siteRow i = -3) ∧
        ((np1Site j).1 - (np1Site i).1) ^ 2 ≤ 1024)) ∧
    (sqDist (np1Site i) (np1Site j) ≤ 4624 ∨ 5625 ≤ sqDist (np1Site i) (np1Site j)) := by
  have hx : ((np1Site j).1 - (np1Site i).1) ^ 2 = 0 ∨ ((np1Site j).1 - (np1Site i).1) ^ 2 = 256 ∨
      ((np1Site j).1 - (np1Site i).1) ^ 2 = 1024 ∨ ((np1Site j).1 - (np1Site i).1) ^ 2 = 2304 := by
    have hi : i % 4 < 4 := Nat.mod_lt _ (by norm_num)
    have hj : j % 4 < 4 := Nat.mod_lt _ (by norm_num)
    simp only [np1Site]
    interval_cases (i % 4) <;> interval_cases (j % 4) <;> norm_num
  have hy : (np1Site j).2 - (np1Site i).2 = 20 * (siteRow j - siteRow i) := by
    simp only [np1Site, siteRow]; ring
  simp only [sqDist, defaultDonorSq, hy]
  exact sq_gap20 (siteRow j - siteRow i) _ hx

end IblVerif.BadChannels
