/-
C09 helper lemmas for the decision tables.
-/
import IblVerif.Lemmas.MetaNum

namespace IblVerif.Meta

/-- a dictionary value equals at most one integer literal -/
theorem eqNat_unique (p : Val) (a b : Nat) (ha : p.eqNat a = true) (hb : p.eqNat b = true) : a = b := by
  cases p with
  | num x =>
    cases x with
    | fin w =>
      simp only [Val.eqNat, beq_iff_eq] at ha hb
      exact Nat.eq_of_mul_eq_mul_right U_pos (ha.symm.trans hb)
    | inf => simp [Val.eqNat] at ha
  | int i =>
    simp only [Val.eqNat, beq_iff_eq] at ha hb
    omega
  | str _ => simp [Val.eqNat] at ha
  | list _ => simp [Val.eqNat] at ha
  | none => simp [Val.eqNat] at ha

theorem eqNat_excl (p : Val) (a b : Nat) (hab : a ≠ b) (ha : p.eqNat a = true) : p.eqNat b = false := by
  cases hb : p.eqNat b with
  | false => rfl
  | true => exact absurd (eqNat_unique p a b ha hb) hab

end IblVerif.Meta
