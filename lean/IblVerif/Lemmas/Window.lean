/-
Helper lemmas on the window generator model (L-Win).  Core Lean only.
-/
import IblVerif.Model.Window

namespace IblVerif.Window

/-- Structural facts about every window produced by the loop started at `first`. -/
theorem aux_mem (ns w ov first : Nat) :
    ∀ fl ∈ firstlastAux ns w ov first,
      first ≤ fl.1 ∧ fl.2 = min (fl.1 + w) ns ∧ (fl.1 - first) % (w - ov) = 0 := by
  fun_induction firstlastAux ns w ov first with
  | case1 first h ih =>
    intro fl hfl
    rcases List.mem_cons.mp hfl with rfl | hfl
    · simp; omega
    · have := ih fl hfl
      refine ⟨by omega, this.2.1, ?_⟩
      have h3 := this.2.2
      have : fl.1 - first = (fl.1 - (first + (w - ov))) + (w - ov) := by omega
      rw [this, Nat.add_mod_right]; exact h3
  | case2 first h =>
    intro fl hfl
    simp at hfl
    subst hfl
    simp

theorem aux_ne_nil (ns w ov first : Nat) : firstlastAux ns w ov first ≠ [] := by
  unfold firstlastAux; split <;> simp

/-- The first window starts where the loop starts. -/
theorem aux_head (ns w ov first : Nat) :
    ∃ l rest, firstlastAux ns w ov first = (first, l) :: rest := by
  unfold firstlastAux; split
  · exact ⟨_, _, rfl⟩
  · exact ⟨_, _, rfl⟩

/-- Chain property: consecutive windows `(f,l)`, `(f',l')`: `l = f + w`, `f' = f + (w-ov)`, so
`l - f' = ov` exactly; and the last window ends at `ns` (when the start is inside the signal). -/
def Chain (ns w ov : Nat) : List (Nat × Nat) → Prop
  | [] => True
  | [fl] => fl.2 = ns ∧ fl.2 = min (fl.1 + w) ns
  | fl :: fl' :: rest =>
      fl.2 = fl.1 + w ∧ fl.2 < ns ∧ fl'.1 = fl.1 + (w - ov) ∧ Chain ns w ov (fl' :: rest)

theorem aux_chain (ns w ov first : Nat) (hov : ov < w) (hf : first ≤ ns) :
    Chain ns w ov (firstlastAux ns w ov first) := by
  fun_induction firstlastAux ns w ov first with
  | case1 first h ih =>
    have ih := ih (by omega)
    obtain ⟨l, rest, hL⟩ := aux_head ns w ov (first + (w - ov))
    rw [hL] at ih ⊢
    exact ⟨rfl, h.1, rfl, ih⟩
  | case2 first h =>
    simp [Chain]; omega

/-- Length of the list produced by the loop started at `first`. -/
theorem aux_length (ns w ov first : Nat) (hov : ov < w) :
    (firstlastAux ns w ov first).length = (ns - (first + w) + (w - ov) - 1) / (w - ov) + 1 := by
  fun_induction firstlastAux ns w ov first with
  | case1 first h ih =>
    simp only [List.length_cons, ih]
    have hs : 0 < w - ov := by omega
    by_cases hc : ns - (first + w) ≥ w - ov
    · have e : ns - (first + w) + (w - ov) - 1 = (ns - (first + (w - ov) + w) + (w - ov) - 1) + (w - ov) := by
        omega
      rw [e, Nat.add_div_right _ hs]
    · have e1 : ns - (first + (w - ov) + w) + (w - ov) - 1 = (w - ov) - 1 := by omega
      have h1 : ((w - ov) - 1) / (w - ov) = 0 := Nat.div_eq_of_lt (by omega)
      have h2 : (ns - (first + w) + (w - ov) - 1) / (w - ov) = 1 := by
        apply Nat.div_eq_of_lt_le <;> omega
      rw [e1, h1, h2]
  | case2 first h =>
    have hs : 0 < w - ov := by omega
    have : ns - (first + w) = 0 := by omega
    simp [this, Nat.div_eq_of_lt (show w - ov - 1 < w - ov by omega)]

end IblVerif.Window
