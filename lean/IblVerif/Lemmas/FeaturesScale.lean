/-
Helper lemmas for C14: every stage of the pipeline commutes with scaling the waveform by `c > 0`.
-/
import IblVerif.Lemmas.FeaturesBasic

namespace IblVerif.Features

/-- scaling of a per-waveform state: values × c, indices and the sign column untouched -/
def scaleSt (c : ℚ) (s : St) : St :=
  { s with pv := c * s.pv, trv := c * s.trv, real := s.real.map (c * ·), arr := s.arr.map (c * ·) }

theorem argmaxV_map {α β} (lt : α → α → Bool) (lt' : β → β → Bool) (f : α → β)
    (h : ∀ a b, lt' (f a) (f b) = lt a b) (xs : List α) (x : α) :
    argmaxV lt' (f x) (xs.map f) = ((argmaxV lt x xs).1, f (argmaxV lt x xs).2) := by
  induction xs generalizing x with
  | nil => rfl
  | cons y ys ih =>
    simp only [List.map_cons, argmaxV, ih y, h]
    split <;> rfl

theorem argmaxBy_map {α β} (lt : α → α → Bool) (lt' : β → β → Bool) (f : α → β)
    (h : ∀ a b, lt' (f a) (f b) = lt a b) (l : List α) : argmaxBy lt' (l.map f) = argmaxBy lt l := by
  cases l with
  | nil => rfl
  | cons x xs => simp only [List.map_cons, argmaxBy, argmaxV_map lt lt' f h]

variable {c : ℚ}

theorem ltQ_scale (hc : 0 < c) (a b : ℚ) : ltQ (c * a) (c * b) = ltQ a b := by
  simp only [ltQ, decide_eq_decide]
  exact mul_lt_mul_iff_right₀ hc

theorem ltBot_scale (hc : 0 < c) (a b : Option ℚ) :
    ltBot (a.map (c * ·)) (b.map (c * ·)) = ltBot a b := by
  cases a <;> cases b <;> simp only [Option.map, ltBot, decide_eq_decide]
  exact mul_lt_mul_iff_right₀ hc

theorem qabs_scale (hc : 0 < c) (x : ℚ) : qabs (c * x) = c * qabs x := by
  rw [qabs_eq_abs, qabs_eq_abs, abs_mul, abs_of_pos hc]

theorem qsign_scale (hc : 0 < c) (x : ℚ) : qsign (c * x) = qsign x := by
  unfold qsign
  have h1 : 0 < c * x ↔ 0 < x := by constructor <;> intro h <;> nlinarith
  have h2 : c * x < 0 ↔ x < 0 := by constructor <;> intro h <;> nlinarith
  simp only [h1, h2]

theorem invertSign_scale (hc : 0 < c) (x : ℚ) : invertSign (c * x) = invertSign x := by
  unfold invertSign; rw [qsign_scale hc]

theorem pos_scale (hc : 0 < c) (x : ℚ) : 0 < c * x ↔ 0 < x := by
  constructor <;> intro h <;> nlinarith

theorem invertRow_scale (hc : 0 < c) (r : Row) (pv : ℚ) :
    invertRow (r.map (c * ·)) (c * pv) = (invertRow r pv).map (c * ·) := by
  unfold invertRow
  by_cases h : 0 < pv
  · simp only [(pos_scale hc pv).mpr h, h, if_true, List.map_map]
    congr 1; funext x; simp
  · have : ¬ 0 < c * pv := fun h' => h ((pos_scale hc pv).mp h')
    simp only [this, h, if_false]

theorem listMax_scale (hc : 0 < c) (l : List ℚ) :
    listMax (l.map (c * ·)) = (listMax l).map (c * ·) := by
  cases l with
  | nil => rfl
  | cons x xs =>
    simp only [List.map_cons, listMax, pure_eq_ok, Except.map]
    congr 1
    induction xs generalizing x with
    | nil => rfl
    | cons y ys ih =>
      simp only [List.map_cons, List.foldl_cons]
      by_cases h : x < y
      · have : c * x < c * y := (mul_lt_mul_iff_right₀ hc).mpr h
        simp only [h, this, if_true]; exact ih y
      · have : ¬ c * x < c * y := fun h' => h ((mul_lt_mul_iff_right₀ hc).mp h')
        simp only [h, this, if_false]; exact ih x

theorem maskPre_scale (a : Row) (p : Nat) : preMask (a.map (c * ·)) p = (preMask a p).map (Option.map (c * ·)) := by
  apply List.ext_getElem?
  intro t
  simp only [preMask, List.getElem?_mapIdx, List.getElem?_map]
  cases a[t]? with
  | none => rfl
  | some x => by_cases h : t < p <;> simp [h]

theorem maskPost_scale (a : Row) (p : Nat) : postMask (a.map (c * ·)) p = (postMask a p).map (Option.map (c * ·)) := by
  apply List.ext_getElem?
  intro t
  simp only [postMask, List.getElem?_mapIdx, List.getElem?_map]
  cases a[t]? with
  | none => rfl
  | some x => by_cases h : p ≤ t <;> simp [h]

theorem nanargmax_scale (hc : 0 < c) (l : List (Option ℚ)) :
    nanargmax (l.map (Option.map (c * ·))) = nanargmax l := by
  unfold nanargmax
  have h1 : (l.map (Option.map (c * ·))).all (·.isNone) = l.all (·.isNone) := by
    rw [List.all_map]; congr 1; funext x; cases x <;> rfl
  rw [h1, argmaxBy_map ltBot ltBot (Option.map (c * ·)) (ltBot_scale hc)]

theorem gt0_scale (hc : 0 < c) (x : Option ℚ) : gt0 (x.map (c * ·)) = gt0 x := by
  cases x with
  | none => rfl
  | some x => simp only [Option.map, gt0, decide_eq_decide]; exact pos_scale hc x

theorem idx_map {α β} (f : α → β) (l : List α) (i : Nat) : idx (l.map f) i = (idx l i).map f := by
  unfold idx
  rw [List.getElem?_map]
  cases l[i]? <;> rfl


theorem mapM_map_comm {α α' β β'} (g : α → α') (h : β → β') (F : α → Except Err β) (F' : α' → Except Err β')
    (hF : ∀ x, F' (g x) = (F x).map h) (l : List α) :
    (l.map g).mapM F' = (l.mapM F).map (List.map h) := by
  induction l with
  | nil => rfl
  | cons x xs ih =>
    simp only [List.map_cons, List.mapM_cons, hF, ih]
    cases F x with
    | error e => rfl
    | ok y =>
      cases List.mapM F xs with
      | error e => rfl
      | ok ys => rfl

theorem map_map_except {ε α β γ} (x : Except ε α) (f : α → β) (g : β → γ) : (x.map f).map g = x.map (g ∘ f) := by
  cases x <;> rfl

theorem pickMaxima_scale (hc : 0 < c) (w : Wave) :
    pickMaxima (scaleWave c w) = (pickMaxima w).map (List.map fun im => (im.1, c * im.2)) := by
  unfold pickMaxima scaleWave
  apply mapM_map_comm
  intro r
  have h1 : (r.map fun x => c * x).map qabs = (r.map qabs).map (c * ·) := by
    simp only [List.map_map]; congr 1; funext x; exact qabs_scale hc x
  simp only [h1, listMax_scale hc, argmaxBy_map ltQ ltQ (c * ·) (ltQ_scale hc)]
  cases listMax (r.map qabs) <;> rfl

theorem findPeak_scale (hc : 0 < c) (w : Wave) :
    findPeak (scaleWave c w) = (findPeak w).map fun pk => { pk with v := c * pk.v } := by
  unfold findPeak
  rw [pickMaxima_scale hc]
  cases pickMaxima w with
  | error e => rfl
  | ok mx =>
    simp only [Except.map, ok_bind]
    have hemp : (mx.map fun im => (im.1, c * im.2)).isEmpty = mx.isEmpty := by cases mx <;> rfl
    rw [hemp]
    by_cases he : mx.isEmpty = true
    · simp [he]
    · simp only [he]
      have h2 : (mx.map fun im => (im.1, c * im.2)).map (·.2) = (mx.map (·.2)).map (c * ·) := by
        simp only [List.map_map]; rfl
      rw [h2, argmaxBy_map ltQ ltQ (c * ·) (ltQ_scale hc), idx_map]
      simp only [Bool.false_eq_true, if_false, ok_bind, pure_eq_ok]
      cases idx mx (argmaxBy ltQ (mx.map (·.2))) with
      | error e => rfl
      | ok m =>
        simp only [Except.map, ok_bind, scaleWave, idx_map]
        cases idx w (argmaxBy ltQ (mx.map (·.2))) with
        | error e => rfl
        | ok r =>
          simp only [Except.map, ok_bind, idx_map]
          cases idx r m.1 <;> rfl

theorem initRow_scale (hc : 0 < c) (w : Wave) : initRow (scaleWave c w) = (initRow w).map (scaleSt c) := by
  unfold initRow
  rw [findPeak_scale hc]
  cases findPeak w with
  | error e => rfl
  | ok pk =>
    simp only [Except.map, ok_bind, scaleWave, idx_map]
    cases idx w pk.trace with
    | error e => rfl
    | ok r =>
      simp only [Except.map, ok_bind, pure_eq_ok, scaleSt, invertSign_scale hc, invertRow_scale hc, mul_zero]

theorem findTroughRow_scale (hc : 0 < c) (s : St) :
    findTroughRow (scaleSt c s) = (findTroughRow s).map (scaleSt c) := by
  unfold findTroughRow
  simp only [scaleSt, maskPost_scale, nanargmax_scale hc, idx_map]
  cases nanargmax (postMask s.arr s.p) with
  | error e => rfl
  | ok tr =>
    simp only [ok_bind]
    cases idx s.arr tr with
    | error e => rfl
    | ok x => simp only [Except.map, ok_bind, pure_eq_ok, mul_assoc, scaleSt]

theorem swapCond_scale (hc : 0 < c) (s : St) : swapCond (scaleSt c s) = swapCond s := by
  unfold swapCond scaleSt
  have h1 : (0 < c * s.pv) ↔ (0 < s.pv) := pos_scale hc _
  have h2 : (c * s.trv = 0) ↔ (s.trv = 0) := by
    constructor
    · intro h; rcases mul_eq_zero.mp h with h | h
      · exact absurd h (ne_of_gt hc)
      · exact h
    · intro h; rw [h, mul_zero]
  have h3 : c * s.pv / (c * s.trv) = s.pv / s.trv := mul_div_mul_left _ _ (ne_of_gt hc)
  simp only [h1, h2, h3]

/-- the state `swapRow` hands to `find_trough` -/
def swapPre (s : St) : St := { s with pv := s.trv, p := s.tr, sgn := invertSign s.trv, arr := invertRow s.real s.trv }

theorem swapRow_eq (s : St) : swapRow s = findTroughRow (swapPre s) := rfl

theorem swapPre_scale (hc : 0 < c) (s : St) : swapPre (scaleSt c s) = scaleSt c (swapPre s) := by
  simp only [swapPre, scaleSt, invertSign_scale hc, invertRow_scale hc]

theorem swapRow_scale (hc : 0 < c) (s : St) : swapRow (scaleSt c s) = (swapRow s).map (scaleSt c) := by
  rw [swapRow_eq, swapRow_eq, swapPre_scale hc, findTroughRow_scale hc]

theorem swapStep_scale (hc : 0 < c) (s : St) : swapStep (scaleSt c s) = (swapStep s).map (scaleSt c) := by
  unfold swapStep
  rw [swapCond_scale hc, swapRow_scale hc]
  split <;> rfl


def scaleTip (c : ℚ) (t : StTip) : StTip := ⟨scaleSt c t.s, t.tip, c * t.tipv⟩
def scaleHalf (c : ℚ) (h : StHalf) : StHalf := ⟨scaleTip c h.t, h.post, h.pre, c * h.postv, c * h.prev⟩

theorem findTipRow_scale (hc : 0 < c) (s : St) : findTipRow (scaleSt c s) = (findTipRow s).map (scaleTip c) := by
  unfold findTipRow
  simp only [scaleSt, maskPre_scale, nanargmax_scale hc, idx_map]
  cases nanargmax (preMask s.arr s.p) with
  | error e => rfl
  | ok tip =>
    simp only [ok_bind]
    cases idx s.arr tip with
    | error e => rfl
    | ok x => simp only [Except.map, ok_bind, pure_eq_ok, mul_assoc, scaleTip, scaleSt]

theorem map_gt0_scale (hc : 0 < c) (l : List (Option ℚ)) : (l.map (Option.map (c * ·))).map gt0 = l.map gt0 := by
  rw [List.map_map]; congr 1; funext x; exact gt0_scale hc x

theorem halfRow_scale (hc : 0 < c) (t : StTip) : halfRow (scaleTip c t) = (halfRow t).map (scaleHalf c) := by
  unfold halfRow
  have hsub : ((scaleTip c t).s.arr.map fun x => x - (scaleTip c t).s.pv / 2 * (scaleTip c t).s.sgn)
      = (t.s.arr.map fun x => x - t.s.pv / 2 * t.s.sgn).map (c * ·) := by
    simp only [scaleTip, scaleSt, List.map_map]
    congr 1; funext x; simp only [Function.comp]; ring
  simp only [hsub]
  simp only [maskPre_scale, maskPost_scale, map_gt0_scale hc, ← List.map_reverse, List.length_map]
  simp only [scaleTip, scaleSt, idx_map]
  cases idx t.s.arr (firstTrue ((postMask (t.s.arr.map fun x => x - t.s.pv / 2 * t.s.sgn) t.s.p).map gt0)) with
  | error e => rfl
  | ok y1 =>
    simp only [Except.map, ok_bind]
    cases idx t.s.arr (firstTrue (oneHot (preMask (t.s.arr.map fun x => x - t.s.pv / 2 * t.s.sgn) t.s.p).reverse.length
        (firstTrue ((preMask (t.s.arr.map fun x => x - t.s.pv / 2 * t.s.sgn) t.s.p).reverse.map gt0))).reverse) with
    | error e => rfl
    | ok y2 => simp only [ok_bind, pure_eq_ok, scaleHalf, scaleTip, scaleSt, mul_assoc]

theorem recoveryRow_scale (k T : Nat) (h : StHalf) :
    recoveryRow k T (scaleHalf c h) = (recoveryRow k T h).map (Feat.scale c) := by
  obtain ⟨⟨s, tip, tipv⟩, post, pre, postv, prev⟩ := h
  show recoveryRow k T ⟨⟨scaleSt c s, tip, c * tipv⟩, post, pre, c * postv, c * prev⟩ = _
  unfold recoveryRow
  have harr : (scaleSt c s).arr = s.arr.map (c * ·) := rfl
  have htr : (scaleSt c s).tr = s.tr := rfl
  simp only [harr, htr, idx_map]
  generalize (if s.tr + k ≥ T then T - 1 else s.tr + k) = i
  cases idx s.arr i with
  | error e => rfl
  | ok x => simp only [Except.map, ok_bind, pure_eq_ok, Feat.scale, mul_assoc, scaleSt]

theorem rowTail_scale (hc : 0 < c) (k T : Nat) (s : St) :
    rowTail k T (scaleSt c s) = (rowTail k T s).map (Feat.scale c) := by
  unfold rowTail
  rw [findTipRow_scale hc]
  cases findTipRow s with
  | error e => rfl
  | ok s3 =>
    simp only [Except.map, ok_bind]
    rw [halfRow_scale hc]
    cases halfRow s3 with
    | error e => rfl
    | ok s4 =>
      simp only [Except.map, ok_bind]
      by_cases hk : k ≥ T
      · simp only [hk, if_true]; rfl
      · simp only [hk, if_false]
        rw [recoveryRow_scale]
        cases recoveryRow k T s4 <;> rfl

/-- Scaling a waveform by `c > 0` scales every value column and leaves every index (and the error) unchanged. -/
theorem rowFeatures_scale (hc : 0 < c) (k T : Nat) (w : Wave) :
    rowFeatures k T (scaleWave c w) = (rowFeatures k T w).map (Feat.scale c) := by
  unfold rowFeatures
  rw [initRow_scale hc]
  cases initRow w with
  | error e => rfl
  | ok s0 =>
    simp only [Except.map, ok_bind]
    rw [findTroughRow_scale hc]
    cases findTroughRow s0 with
    | error e => rfl
    | ok s1 =>
      simp only [Except.map, ok_bind]
      rw [swapStep_scale hc]
      cases swapStep s1 with
      | error e => rfl
      | ok s2 =>
        simp only [Except.map, ok_bind]
        rw [rowTail_scale hc]
        cases rowTail k T s2 <;> rfl


/-! ### derived columns -/

theorem xdiv_scale_left (hc : 0 < c) (a b : ℚ) : xdiv (c * a) b = (xdiv a b).scale c := by
  unfold xdiv
  by_cases hb : b = 0
  · have h1 : c * a = 0 ↔ a = 0 := by
      constructor
      · intro h; rcases mul_eq_zero.mp h with h | h
        · exact absurd h (ne_of_gt hc)
        · exact h
      · intro h; rw [h, mul_zero]
    simp only [hb, if_true, h1, pos_scale hc]
    split
    · rfl
    · split <;> rfl
  · simp only [hb, if_false, XRat.scale, mul_div_assoc]

theorem xdiv_scale_both (hc : 0 < c) (a b : ℚ) : xdiv (c * a) (c * b) = xdiv a b := by
  unfold xdiv
  have h0 : c * b = 0 ↔ b = 0 := by
    constructor
    · intro h; rcases mul_eq_zero.mp h with h | h
      · exact absurd h (ne_of_gt hc)
      · exact h
    · intro h; rw [h, mul_zero]
  have h1 : c * a = 0 ↔ a = 0 := by
    constructor
    · intro h; rcases mul_eq_zero.mp h with h | h
      · exact absurd h (ne_of_gt hc)
      · exact h
    · intro h; rw [h, mul_zero]
  simp only [h0, h1, pos_scale hc, mul_div_mul_left _ _ (ne_of_gt hc)]

/-- Under scaling by `c > 0` the ratio and the durations are unchanged and the three slopes scale by `c`. -/
theorem derived_scale (hc : 0 < c) (f : Feat) (fs : ℚ) :
    (f.scale c).ratio = f.ratio ∧
    (f.scale c).peakToTroughDuration fs = f.peakToTroughDuration fs ∧
    (f.scale c).halfPeakDuration fs = f.halfPeakDuration fs ∧
    (f.scale c).depolSlope fs = (f.depolSlope fs).scale c ∧
    (f.scale c).repolSlope fs = (f.repolSlope fs).scale c ∧
    (f.scale c).recoverySlope fs = (f.recoverySlope fs).scale c := by
  refine ⟨?_, rfl, rfl, ?_, ?_, ?_⟩
  · simp only [Feat.ratio, Feat.scale, xdiv_scale_both hc]
  · simp only [Feat.depolSlope, Feat.scale, ← mul_sub, xdiv_scale_left hc]
  · simp only [Feat.repolSlope, Feat.scale, ← mul_sub, xdiv_scale_left hc]
  · simp only [Feat.recoverySlope, Feat.scale, ← mul_sub, xdiv_scale_left hc]

end IblVerif.Features
