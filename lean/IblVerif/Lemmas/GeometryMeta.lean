/-
C08: `geometry_from_meta` as a whole — unfolding lemmas connecting the string-level function with the
table-level lemmas of `Lemmas/Geometry*.lean`.
-/
import IblVerif.Lemmas.GeometryEnc

namespace IblVerif.Geometry
open IblVerif.Generated

/-- With a non-empty site table the function is `geomUnsplit` followed by `finishGeom`. -/
theorem geometryFromMeta_map {m : Meta} {cm : RawMap}
    (hcm : mapChannels m.shankMap m.geomMap = .ok (some cm)) (srt : Bool) (nc : Nat) :
    geometryFromMeta m srt nc =
      match geomUnsplit cm m.major with
      | .error e => .error e
      | .ok th =>
        match finishGeom th m.np24Shank srt with
        | .error e => .error e
        | .ok r => .ok (some r) := by
  simp only [geometryFromMeta, hcm, bind, Except.bind, pure, Except.pure]
  cases geomUnsplit cm m.major with
  | error e => rfl
  | ok th =>
    simp only
    cases finishGeom th m.np24Shank srt <;> rfl

/-- Without a site table (no key, or a key without tuples) the defaults are returned. -/
theorem geometryFromMeta_nomap {m : Meta}
    (hcm : mapChannels m.shankMap m.geomMap = .ok none) (srt : Bool) (nc : Nat) :
    geometryFromMeta m srt nc =
      match m.major with
      | none => .ok none
      | some v =>
        match traceHeader v 1 with
        | .error e => .error e
        | .ok th => .ok (some ({ th with flag := some (th.x.map fun x => x * 0 + 1) }, List.range nc)) := by
  simp only [geometryFromMeta, hcm, bind, Except.bind, pure, Except.pure]
  cases m.major with
  | none => rfl
  | some v =>
    simp only
    cases traceHeader v 1 <;> rfl

theorem column_tupleRow (ts : List (Nat × Nat × Nat × Nat)) :
    column (ts.map tupleRow) 0 = ts.map (Int.ofNat ·.1) ∧
    column (ts.map tupleRow) 1 = ts.map (Int.ofNat ·.2.1) ∧
    column (ts.map tupleRow) 2 = ts.map (Int.ofNat ·.2.2.1) ∧
    column (ts.map tupleRow) 3 = ts.map (Int.ofNat ·.2.2.2) := by
  simp [column, tupleRow, List.map_map, Function.comp_def]

/-- A rendered `snsShankMap` is parsed into the table of its tuples. -/
theorem mapChannels_render_shank (hdr : List Char) (hh : ':' ∉ hdr) (ts : List (Nat × Nat × Nat × Nat))
    (hne : ts ≠ []) (hok : ∀ t ∈ ts, fieldsOk t) (gm : Option (List Char)) :
    mapChannels (some (renderMap hdr ts)) gm = .ok (some (tableOf .shankMap ts)) := by
  obtain ⟨h0, h1, h2, h3⟩ := column_tupleRow ts
  have he : (ts.map tupleFields).isEmpty = false := by
    cases ts with
    | nil => exact absurd rfl hne
    | cons t ts => rfl
  simp only [mapChannels, findTuples_renderMap hdr hh, he, parseTable_fields ts hok, h0, h1, h2, h3, tableOf]
  rfl

/-- A rendered `snsGeomMap` (no `snsShankMap` key) is parsed into the table of its tuples. -/
theorem mapChannels_render_geom (hdr : List Char) (hh : ':' ∉ hdr) (ts : List (Nat × Nat × Nat × Nat))
    (hne : ts ≠ []) (hok : ∀ t ∈ ts, fieldsOk t) :
    mapChannels none (some (renderMap hdr ts)) = .ok (some (tableOf .geomMap ts)) := by
  obtain ⟨h0, h1, h2, h3⟩ := column_tupleRow ts
  have he : (ts.map tupleFields).isEmpty = false := by
    cases ts with
    | nil => exact absurd rfl hne
    | cons t ts => rfl
  simp only [mapChannels, findTuples_renderMap hdr hh, he, parseTable_fields ts hok, h0, h1, h2, h3, tableOf]
  rfl

/-- A map string without tuples gives no table (the all-`None` dict). -/
theorem mapChannels_render_nil (hdr : List Char) (hh : ':' ∉ hdr) :
    mapChannels (some (renderMap hdr [])) none = .ok none ∧
    mapChannels none (some (renderMap hdr [])) = .ok none := by
  constructor <;> simp [mapChannels, findTuples_renderMap hdr hh]

theorem tableOf_wf (enc : Encoding) (ts : List (Nat × Nat × Nat × Nat)) : (tableOf enc ts).WF ts.length :=
  ⟨by simp [tableOf], by simp [tableOf], by simp [tableOf], by simp [tableOf]⟩

/-- The sorted result is the sort block applied to the unsorted result. -/
theorem finishGeom_true_of_false {th : Geom} {sh : Option Int} {g : Geom} {inds : List Nat}
    (h : finishGeom th sh false = .ok (g, inds)) : finishGeom th sh true = sortGeom g := by
  cases sh with
  | none =>
    simp only [finishGeom, pure, Except.pure, bind, Except.bind, Bool.false_eq_true, if_false,
      Except.ok.injEq, Prod.mk.injEq] at h
    simp only [finishGeom, pure, Except.pure, bind, Except.bind, if_true, ← h.1]
  | some s =>
    simp only [finishGeom, pure, Except.pure, bind, Except.bind, Bool.false_eq_true, if_false] at h
    simp only [finishGeom, pure, Except.pure, bind, Except.bind, if_true]
    cases hr : restrict th s with
    | error e => rw [hr] at h; cases h
    | ok th' =>
      rw [hr] at h
      simp only [Except.ok.injEq, Prod.mk.injEq] at h
      simp only [← h.1]

/-- The shank-map site columns in closed form. -/
theorem siteCols_shankMap (ts : List (Nat × Nat × Nat × Nat)) (v : Version) :
    siteCols (tableOf .shankMap ts) v =
      let col : Nat × Nat × Nat × Nat → Int := fun t =>
        if v = .v1 then -(Int.ofNat t.2.1) * 2 + 2 + Int.ofNat t.2.2.1 % 2 else Int.ofNat t.2.1
      .ok (ts.map fun t => (rc2xy v 0 (col t)).1, ts.map fun t => (rc2xy v (Int.ofNat t.2.2.1) 0).2,
           ts.map (Int.ofNat ·.2.2.1), ts.map col) := by
  by_cases hv : v = .v1
  · subst hv
    simp [siteCols, tableOf, rc2xyCols, List.zipWith_map_left, List.zipWith_map_right, List.map_map,
      Function.comp_def]
  · simp [siteCols, tableOf, rc2xyCols, hv, List.map_map, Function.comp_def]

end IblVerif.Geometry
