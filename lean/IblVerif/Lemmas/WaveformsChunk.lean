/-
Chunk-local extraction equals the global window (model of `write_wfs_chunk`).
-/
import IblVerif.Lemmas.WaveformsExtract
namespace IblVerif.Waveforms

/-- the waveform of a table row cut from the whole recording -/
def gw (rec : Arr) (cn : List (List Nat)) (off len : Nat) (r : Row) : Wf :=
  waveform rec.addNan cn off len (r.sample, r.peak)

theorem allowed_iff (ns off len : Nat) (s : Int) :
    allowed ns off len s = true ↔ (off : Int) < s ∧ s < (ns : Int) - ((len : Int) - off) := by
  unfold allowed; simp

theorem nchunks_eq (ns cs : Nat) : (chunkStarts ns cs).length = (ns + cs - 1) / cs := by
  simp [chunkStarts]

theorem lt_nchunks_iff (ns cs i : Nat) (hcs : 0 < cs) : i < (ns + cs - 1) / cs ↔ i * cs < ns := by
  rw [Nat.lt_div_iff_mul_lt hcs]
  constructor <;> intro h <;> omega

/-- One job writes, for every row handed to it, the waveform cut from the WHOLE recording at the row's
absolute sample: the chunk-local sample numbers, the 42-sample lead-in of the snippet and the clipping of the
snippet at the end of the file cancel out. -/
theorem writeChunk_eq_global (rec : Arr) (cn : List (List Nat)) (off len cs nchunks i : Nat) (rows : List Row)
    (hol : off ≤ len) (hoc : off ≤ cs) (hi : i * cs < rec.ns)
    (hcn : ∀ row ∈ cn, ∀ c ∈ row, c < rec.nrows + 1)
    (hrows : ∀ r ∈ rows, ((i * cs : Nat) : Int) ≤ r.sample ∧ r.sample < (chunkEnd rec.ns cs nchunks i : Nat) ∧
        allowed rec.ns off len r.sample = true ∧ 0 ≤ r.peak ∧ r.peak < cn.length) :
    writeChunk rec cn off len cs rec.ns nchunks i rows
      = .ok (rows.map fun r => (r.wi, gw rec cn off len r)) := by
  unfold writeChunk
  by_cases hemp : rows = []
  · simp [hemp]
  have hne : rows.isEmpty = false := by
    cases rows with
    | nil => exact absurd rfl hemp
    | cons _ _ => rfl
  rw [hne]
  simp only [Bool.false_eq_true, if_false]
  -- abbreviations
  generalize hoffset : (if i = 0 then 0 else off : Nat) = offset
  have hoff_le : offset ≤ i * cs := by
    by_cases h0 : i = 0
    · simp [h0] at hoffset; omega
    · simp [h0] at hoffset
      have : cs ≤ i * cs := Nat.le_mul_of_pos_left cs (Nat.pos_of_ne_zero h0)
      omega
  have hoff_cases : (i * cs = 0 ∧ offset = 0) ∨ offset = off := by
    by_cases h0 : i = 0
    · left; simp [h0] at hoffset; exact ⟨by simp [h0], hoffset.symm⟩
    · right; simp [h0] at hoffset; exact hoffset.symm
  generalize hce : chunkEnd rec.ns cs nchunks i = ce at hrows
  generalize hs0 : i * cs = s0 at hi hrows hoff_le hoff_cases
  -- the snippet
  have ha : sliceBound rec.ns ((s0 : Int) - (offset : Int)) = s0 - offset := by
    unfold sliceBound; rw [if_neg (by omega)]; omega
  have hb : sliceBound rec.ns ((ce : Int) + (len : Int) - (off : Int)) = min (ce + (len - off)) rec.ns := by
    unfold sliceBound; rw [if_neg (by omega)]; omega
  have hsnip_ns : (snippet rec ((s0 : Int) - (offset : Int)) ((ce : Int) + (len : Int) - (off : Int))).addNan.ns
      = min (ce + (len - off)) rec.ns - (s0 - offset) := by
    simp only [snippet, Arr.addNan]; rw [ha, hb]
  have hsnip_rows : (snippet rec ((s0 : Int) - (offset : Int)) ((ce : Int) + (len : Int) - (off : Int))).addNan.nrows
      = rec.nrows + 1 := by
    simp only [snippet, Arr.addNan]
  -- facts per row
  obtain ⟨m, hm, hm1⟩ : ∃ m, min (ce + (len - off)) rec.ns = m ∧ (m = ce + (len - off) ∨ m = rec.ns) :=
    ⟨_, rfl, by omega⟩
  rw [hm] at hsnip_ns
  have hrow : ∀ r ∈ rows, (off : Int) ≤ r.sample + (offset : Int) - (s0 : Int) ∧
      r.sample + (offset : Int) - (s0 : Int) + ((len : Int) - off)
        < ((m - (s0 - offset) : Nat) : Int) := by
    intro r hr
    obtain ⟨h1, h2, h3, _, _⟩ := hrows r hr
    rw [allowed_iff] at h3
    rcases hoff_cases with ⟨h00, h0⟩ | h0 <;> rcases hm1 with h | h <;> omega
  -- the extraction succeeds
  obtain ⟨lastRow, hlast⟩ : ∃ lr, rows.getLast? = some lr := by
    cases h : rows.getLast? with
    | none => exact absurd (List.getLast?_eq_none_iff.mp h) hemp
    | some lr => exact ⟨lr, rfl⟩
  have hlast_mem : lastRow ∈ rows := List.mem_of_getLast? hlast
  rw [extract_ok _ cn _ off len
      (lastRow.sample + (offset : Int) - (s0 : Int), lastRow.peak)
      (by rw [List.getLast?_map, hlast]; rfl)
      (by rw [hsnip_ns]; exact (hrow lastRow hlast_mem).2)
      (by
        intro sp hsp
        rw [List.mem_map] at hsp
        obtain ⟨r, hr, rfl⟩ := hsp
        obtain ⟨_, _, _, hp0, hp1⟩ := hrows r hr
        apply spikeOk_of_window
        · exact (hrow r hr).1
        · rw [hsnip_ns]; exact Int.le_of_lt (hrow r hr).2
        · exact hp0
        · exact hp1
        · rw [hsnip_rows]; exact hcn)]
  simp only [List.map_map]
  rw [List.zip_map']
  congr 1
  apply List.map_congr_left
  intro r hr
  obtain ⟨h1, h2, h3, hp0, hp1⟩ := hrows r hr
  rw [allowed_iff] at h3
  have hloc := (hrow r hr).1
  simp only [Function.comp, gw]
  congr 1
  rw [waveform_of_window _ _ _ _ _ hloc hp0, waveform_of_window _ _ _ _ (r.sample, r.peak) (by simp; omega) hp0]
  apply List.map_congr_left
  intro c _
  apply List.map_congr_left
  intro t _
  simp only [snippet, Arr.addNan, ha]
  have : s0 - offset + ((r.sample + (offset : Int) - (s0 : Int) - (off : Int)).toNat + t)
      = (r.sample - (off : Int)).toNat + t := by omega
  rw [this]

end IblVerif.Waveforms
