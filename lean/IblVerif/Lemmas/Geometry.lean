/-
Lemmas about the geometry model (C08): fancy indexing, well-formed geometries (all columns of one
length), the sort block of `geometry_from_meta`, restriction to one shank, and their commutation.
Core Lean only.
-/
import IblVerif.Model.Geometry
import IblVerif.Lemmas.StableSort
import IblVerif.Lemmas.AdcTable

namespace IblVerif.Geometry
open IblVerif.StableSort IblVerif.Generated

/-! ### list indexing helpers -/

theorem map_getD_range {α} (l : List α) (d : α) : (List.range l.length).map (l.getD · d) = l := by
  apply List.ext_getElem
  · simp
  · intro i h1 h2
    simp [List.getD_eq_getElem?_getD, List.getElem?_eq_getElem h2]

theorem getD_map_of_lt {α β} (f : α → β) (l : List α) (i : Nat) (d : α) (e : β) (h : i < l.length) :
    (l.map f).getD i e = f (l.getD i d) := by
  simp [List.getD_eq_getElem?_getD, List.getElem?_eq_getElem h]

/-- Filtering positions by a predicate on the entry and reading the entry = filtering the list. -/
theorem map_filter_range {α β} (l : List α) (d : α) (q : α → Bool) (f : α → β) :
    ((List.range l.length).filter (fun p => q (l.getD p d))).map (fun p => f (l.getD p d)) =
      (l.filter q).map f := by
  have h := map_getD_range l d
  conv => rhs; rw [← h]
  rw [List.filter_map, List.map_map]
  rfl

/-! ### fancy indexing -/

/-- Pure fancy indexing (for indices known to be in range). -/
def gatherP (c : List Int) (idx : List Nat) : List Int := idx.map (c.getD · 0)

theorem gather_ok {c : List Int} {idx : List Nat} (h : ∀ i ∈ idx, i < c.length) :
    gather c idx = .ok (gatherP c idx) := by
  induction idx with
  | nil => rfl
  | cons i idx ih =>
    have hi : i < c.length := h i (List.mem_cons_self ..)
    simp only [gather, ih (fun j hj => h j (List.mem_cons_of_mem _ hj)), List.getElem?_eq_getElem hi]
    simp [gatherP, List.getD_eq_getElem?_getD, List.getElem?_eq_getElem hi]

theorem gather_error {c : List Int} {idx : List Nat} (h : ∃ i ∈ idx, c.length ≤ i) :
    gather c idx = .error .indexError := by
  induction idx with
  | nil => obtain ⟨i, hi, _⟩ := h; cases hi
  | cons j idx ih =>
    obtain ⟨i, hi, hle⟩ := h
    simp only [gather]
    rcases List.mem_cons.mp hi with rfl | hi
    · rw [List.getElem?_eq_none hle]
    · rw [ih ⟨i, hi, hle⟩]
      split <;> simp_all

theorem length_gatherP (c : List Int) (idx : List Nat) : (gatherP c idx).length = idx.length := by
  simp [gatherP]

theorem gatherP_gatherP (c : List Int) (J I : List Nat) (h : ∀ i ∈ I, i < J.length) :
    gatherP (gatherP c J) I = gatherP c (I.map (J.getD · 0)) := by
  simp only [gatherP, List.map_map]
  apply List.map_congr_left
  intro i hi
  exact getD_map_of_lt _ J i 0 0 (h i hi)

theorem gatherP_range (c : List Int) : gatherP c (List.range c.length) = c := map_getD_range c 0

/-! ### well-formed geometries -/

/-- Pure column map. -/
def Geom.mapCols (g : Geom) (f : List Int → List Int) : Geom :=
  { shank := f g.shank, col := f g.col, row := f g.row, x := f g.x, y := f g.y,
    flag := g.flag.map f, sampleShift := g.sampleShift.map f, adc := g.adc.map f, ind := g.ind.map f,
    shiftDen := g.shiftDen }

def optLen (o : Option (List Int)) (n : Nat) : Prop := ∀ c, o = some c → c.length = n

/-- Every column that is present has length `n`. -/
structure Geom.WF (g : Geom) (n : Nat) : Prop where
  shank : g.shank.length = n
  col : g.col.length = n
  row : g.row.length = n
  x : g.x.length = n
  y : g.y.length = n
  flag : optLen g.flag n
  sampleShift : optLen g.sampleShift n
  adc : optLen g.adc n
  ind : optLen g.ind n

theorem optColM_ok {f : List Int → Except Err (List Int)} {f' : List Int → List Int} {n : Nat}
    (hf : ∀ c, c.length = n → f c = .ok (f' c)) {o : Option (List Int)} (ho : optLen o n) :
    optColM f o = .ok (o.map f') := by
  cases o with
  | none => rfl
  | some c => simp [optColM, hf c (ho c rfl)]

theorem mapColsM_ok {g : Geom} {n : Nat} (wf : g.WF n) {f : List Int → Except Err (List Int)}
    {f' : List Int → List Int} (hf : ∀ c, c.length = n → f c = .ok (f' c)) :
    g.mapColsM f = .ok (g.mapCols f') := by
  simp only [Geom.mapColsM, hf _ wf.shank, hf _ wf.col, hf _ wf.row, hf _ wf.x, hf _ wf.y,
    optColM_ok hf wf.flag, optColM_ok hf wf.sampleShift, optColM_ok hf wf.adc, optColM_ok hf wf.ind,
    bind, Except.bind, pure, Except.pure, Geom.mapCols]

theorem optLen_map {o : Option (List Int)} {f : List Int → List Int} {m : Nat}
    (hf : ∀ c, (f c).length = m) : optLen (o.map f) m := by
  intro c hc
  cases o with
  | none => cases hc
  | some c' => simp at hc; rw [← hc]; exact hf c'

theorem wf_mapCols {g : Geom} {f : List Int → List Int} {m : Nat} (hf : ∀ c, (f c).length = m) :
    (g.mapCols f).WF m :=
  ⟨hf _, hf _, hf _, hf _, hf _, optLen_map hf, optLen_map hf, optLen_map hf, optLen_map hf⟩

/-! ### the sort block -/

/-- Sort key of site `i`: `(shank, row, -col)`, primary key first. -/
def keyOf (g : Geom) (i : Nat) : Int × Int × Int := (g.shank.getD i 0, g.row.getD i 0, -(g.col.getD i 0))

def keyLe (a b : (Int × Int × Int) × Nat) : Bool := lexLe a.1 b.1

def keyed (g : Geom) : List ((Int × Int × Int) × Nat) :=
  (List.range g.col.length).map fun i => (keyOf g i, i)

/-- The permutation computed by `np.lexsort` on a well-formed geometry. -/
def sortInds (g : Geom) : List Nat := (sortBy keyLe (keyed g)).map (·.2)

theorem keyLe_total (a b : (Int × Int × Int) × Nat) : keyLe a b = true ∨ keyLe b a = true :=
  lexLe_total a.1 b.1

theorem keyLe_trans (a b c : (Int × Int × Int) × Nat) :
    keyLe a b = true → keyLe b c = true → keyLe a c = true := lexLe_trans a.1 b.1 c.1

theorem lexsortInds_eq {g : Geom} {n : Nat} (wf : g.WF n) :
    lexsortInds g.col g.row g.shank = .ok (sortInds g) := by
  simp only [lexsortInds, wf.col, wf.row, wf.shank, ne_eq, not_true_eq_false, or_self, if_false]
  simp only [sortInds, keyed, keyOf, wf.col]
  rfl

theorem sortInds_perm (g : Geom) : (sortInds g).Perm (List.range g.col.length) := by
  have h := (sortBy_perm keyLe (keyed g)).map (·.2)
  have h2 : (keyed g).map (·.2) = List.range g.col.length := by
    simp [keyed, List.map_map, Function.comp_def]
  rw [h2] at h
  exact h

theorem sortInds_lt (g : Geom) : ∀ i ∈ sortInds g, i < g.col.length := by
  intro i hi
  exact List.mem_range.mp ((sortInds_perm g).mem_iff.mp hi)

theorem length_sortInds (g : Geom) : (sortInds g).length = g.col.length := by
  simpa using (sortInds_perm g).length_eq

theorem sortGeom_eq {g : Geom} {n : Nat} (wf : g.WF n) :
    sortGeom g = .ok (g.mapCols (gatherP · (sortInds g)), sortInds g) := by
  have hg : g.mapColsM (fun c => gather c (sortInds g)) = .ok (g.mapCols (gatherP · (sortInds g))) := by
    apply mapColsM_ok wf
    intro c hc
    apply gather_ok
    intro i hi
    rw [hc, ← wf.col]
    exact sortInds_lt g i hi
  simp only [sortGeom, lexsortInds_eq wf, hg, bind, Except.bind, pure, Except.pure]

/-- The sorted index list is strictly increasing for the order "key, then original index". -/
theorem sortInds_order (g : Geom) :
    (sortInds g).Pairwise fun i j =>
      lexLt (keyOf g i) (keyOf g j) = true ∨ (keyOf g i = keyOf g j ∧ i < j) := by
  have hS : (keyed g).Pairwise (fun a b => a.2 < b.2) := by
    simp only [keyed, List.pairwise_map]
    exact List.pairwise_lt_range
  have h := sortBy_stable keyLe_total keyLe_trans hS
  simp only [sortInds, List.pairwise_map]
  refine h.imp_of_mem ?_
  intro a b ha hb hab
  have hka : a.1 = keyOf g a.2 := by
    obtain ⟨i, _, rfl⟩ := List.mem_map.mp (mem_sortBy.mp ha); rfl
  have hkb : b.1 = keyOf g b.2 := by
    obtain ⟨i, _, rfl⟩ := List.mem_map.mp (mem_sortBy.mp hb); rfl
  obtain ⟨h1, h2⟩ := hab
  simp only [keyLe] at h1 h2
  rw [← hka, ← hkb]
  by_cases he : a.1 = b.1
  · right
    refine ⟨he, h2 ?_⟩
    rw [he]
    rcases lexLe_total b.1 b.1 with h | h <;> exact h
  · left
    exact (lexLt_iff _ _).mpr ⟨h1, he⟩

/-! ### restriction to one shank, and its commutation with the sort -/

/-- Site `i` lies on shank `s`. -/
def inShank (g : Geom) (s : Int) (i : Nat) : Bool := g.shank[i]? == some s

theorem whereEq_lt (c : List Int) (s : Int) : ∀ i ∈ whereEq c s, i < c.length := by
  intro i hi
  exact List.mem_range.mp (List.mem_filter.mp hi).1

theorem restrict_eq {g : Geom} {n : Nat} (wf : g.WF n) (s : Int) :
    restrict g s = .ok (g.mapCols (gatherP · (whereEq g.shank s))) := by
  apply mapColsM_ok wf
  intro c hc
  apply gather_ok
  intro i hi
  rw [hc, ← wf.shank]
  exact whereEq_lt _ _ i hi

/-- Restricting the sorted geometry reads the original columns at the sorted indices lying on the shank. -/
theorem gatherP_sorted_restrict (g : Geom) (n : Nat) (wf : g.WF n) (s : Int) (c : List Int) :
    gatherP (gatherP c (sortInds g)) (whereEq (gatherP g.shank (sortInds g)) s) =
      gatherP c ((sortInds g).filter (inShank g s)) := by
  have hlen : (sortInds g).length = n := by rw [length_sortInds, wf.col]
  have hW : whereEq (gatherP g.shank (sortInds g)) s =
      (List.range (sortInds g).length).filter (fun p => inShank g s ((sortInds g).getD p 0)) := by
    simp only [whereEq, length_gatherP]
    apply List.filter_congr
    intro p hp
    have hp' : p < (sortInds g).length := List.mem_range.mp hp
    have hi : (sortInds g)[p] < g.shank.length := by
      rw [wf.shank, ← wf.col]; exact sortInds_lt g _ (List.getElem_mem hp')
    simp [gatherP, inShank, List.getD_eq_getElem?_getD, List.getElem?_eq_getElem hp',
      List.getElem?_eq_getElem hi]
  rw [hW, gatherP_gatherP _ _ _ (fun i hi => List.mem_range.mp (List.mem_filter.mp hi).1)]
  congr 1
  have := map_filter_range (sortInds g) 0 (inShank g s) (fun x => x)
  simpa using this

/-- Key lemma: sorting the restricted geometry and mapping back to parent indices = restricting the
parent's sorted index list. -/
theorem sortInds_restrict (g : Geom) (n : Nat) (wf : g.WF n) (s : Int) :
    (sortInds (g.mapCols (gatherP · (whereEq g.shank s)))).map ((whereEq g.shank s).getD · 0) =
      (sortInds g).filter (inShank g s) := by
  let mk : Nat → (Int × Int × Int) × Nat := fun i => (keyOf g i, i)
  have hJ : (List.range g.col.length).filter (inShank g s) = whereEq g.shank s := by
    simp only [whereEq, wf.col, wf.shank]; rfl
  -- right-hand side
  have hR : (sortInds g).filter (inShank g s) = (sortBy keyLe ((whereEq g.shank s).map mk)).map (·.2) := by
    simp only [sortInds, List.filter_map]
    rw [sortBy_filter _ keyLe_total keyLe_trans]
    congr 2
    simp only [keyed, List.filter_map]
    rw [← hJ]
    rfl
  -- left-hand side
  let J := whereEq g.shank s
  let B := g.mapCols (gatherP · J)
  let φ : (Int × Int × Int) × Nat → (Int × Int × Int) × Nat := fun a => (a.1, J.getD a.2 0)
  have hB : B.col.length = J.length := length_gatherP _ _
  have hkey : ∀ j, j < J.length → keyOf B j = keyOf g (J.getD j 0) := by
    intro j hj
    simp only [keyOf, B, Geom.mapCols, gatherP]
    rw [getD_map_of_lt _ J j 0 0 hj, getD_map_of_lt _ J j 0 0 hj, getD_map_of_lt _ J j 0 0 hj]
  have hK : (keyed B).map φ = J.map mk := by
    simp only [keyed, hB, List.map_map]
    conv => rhs; rw [← map_getD_range J 0, List.map_map]
    apply List.map_congr_left
    intro j hj
    simp only [Function.comp_def, φ, mk, hkey j (List.mem_range.mp hj)]
  have hL : (sortInds B).map (J.getD · 0) = (sortBy keyLe (J.map mk)).map (·.2) := by
    rw [← hK, ← sortBy_map (le := keyLe) φ (fun _ _ => rfl)]
    simp only [sortInds, List.map_map]
    rfl
  rw [hR]
  exact hL

/-! ### the tail of `geometry_from_meta` -/

/-- Equal on every key except `ind`. -/
structure Geom.SameSites (a b : Geom) : Prop where
  shank : a.shank = b.shank
  col : a.col = b.col
  row : a.row = b.row
  x : a.x = b.x
  y : a.y = b.y
  flag : a.flag = b.flag
  sampleShift : a.sampleShift = b.sampleShift
  adc : a.adc = b.adc
  shiftDen : a.shiftDen = b.shiftDen

/-- `th["ind"] = np.arange(th["col"].size)`. -/
def withInd (th : Geom) : Geom := { th with ind := some (natCol (List.range th.col.length)) }

theorem withInd_wf {th : Geom} {n : Nat} (wf : th.WF n) : (withInd th).WF n :=
  ⟨wf.shank, wf.col, wf.row, wf.x, wf.y, wf.flag, wf.sampleShift, wf.adc,
    fun c hc => by simp only [withInd, Option.some.injEq] at hc; rw [← hc]; simp [natCol, wf.col]⟩

theorem gatherP_natCol_range {n : Nat} {idx : List Nat} (h : ∀ i ∈ idx, i < n) :
    gatherP (natCol (List.range n)) idx = natCol idx := by
  simp only [gatherP, natCol]
  apply List.map_congr_left
  intro i hi
  rw [getD_map_of_lt Int.ofNat (List.range n) i 0 0 (by simpa using h i hi)]
  simp [List.getD_eq_getElem?_getD, List.getElem?_range (h i hi)]

theorem finishGeom_none {th : Geom} {n : Nat} (wf : th.WF n) (srt : Bool) :
    finishGeom th none srt = .ok (if srt then ((withInd th).mapCols (gatherP · (sortInds th)), sortInds th)
                                 else (withInd th, List.range n)) := by
  cases srt
  · simp [finishGeom, withInd, wf.col, pure, Except.pure, bind, Except.bind]
  · have h := sortGeom_eq (withInd_wf wf)
    simp only [finishGeom, pure, Except.pure, bind, Except.bind, if_true]
    exact h

theorem finishGeom_some {th : Geom} {n : Nat} (wf : th.WF n) (s : Int) (srt : Bool) :
    finishGeom th (some s) srt =
      let B := th.mapCols (gatherP · (whereEq th.shank s))
      .ok (if srt then ((withInd B).mapCols (gatherP · (sortInds B)), sortInds B)
           else (withInd B, List.range (whereEq th.shank s).length)) := by
  have hB : (th.mapCols (gatherP · (whereEq th.shank s))).WF (whereEq th.shank s).length :=
    wf_mapCols (fun c => length_gatherP c _)
  have h := finishGeom_none hB srt
  simp only [finishGeom, restrict_eq wf, pure, Except.pure, bind, Except.bind] at h ⊢
  exact h

/-- Splitting commutes with everything downstream: the geometry of the split recording equals the
restriction of the parent's geometry on every key, and its `ind` column numbers the shank's sites in
their parent order (`J` lists the parent indices of the shank's sites). -/
theorem finishGeom_split {th : Geom} {n : Nat} (wf : th.WF n) (s : Int) (srt : Bool) :
    ∃ P indsP S indsS R,
      finishGeom th none srt = .ok (P, indsP) ∧
      finishGeom th (some s) srt = .ok (S, indsS) ∧
      restrict P s = .ok R ∧
      R.SameSites S ∧
      S.ind = some (natCol indsS) ∧
      R.ind = some (natCol (indsS.map ((whereEq th.shank s).getD · 0))) := by
  let J := whereEq th.shank s
  let B := th.mapCols (gatherP · J)
  have hB : B.WF J.length := wf_mapCols (fun c => length_gatherP c _)
  have hJlt : ∀ i ∈ J, i < n := fun i hi => by
    have := whereEq_lt th.shank s i hi; rwa [wf.shank] at this
  cases srt
  · -- unsorted
    refine ⟨withInd th, List.range n, withInd B, List.range J.length,
      (withInd th).mapCols (gatherP · J), ?_, ?_, ?_, ?_, ?_, ?_⟩
    · simpa using finishGeom_none wf false
    · simpa using finishGeom_some wf s false
    · exact restrict_eq (withInd_wf wf) s
    · exact ⟨rfl, rfl, rfl, rfl, rfl, rfl, rfl, rfl, rfl⟩
    · simp [withInd, B, Geom.mapCols, length_gatherP, J]
    · show Option.map _ (some _) = _
      simp only [Option.map_some, wf.col]
      rw [gatherP_natCol_range hJlt, map_getD_range]
  · -- sorted
    have hwf' := withInd_wf wf
    have hP : ((withInd th).mapCols (gatherP · (sortInds th))).WF n := by
      apply wf_mapCols; intro c; rw [length_gatherP, length_sortInds, wf.col]
    have hBlt : ∀ i ∈ sortInds B, i < J.length := fun i hi => by
      have := sortInds_lt B i hi; rwa [hB.col] at this
    have hkey := sortInds_restrict th n wf s
    have hcol : ∀ c : List Int,
        gatherP (gatherP c (sortInds th)) (whereEq (gatherP th.shank (sortInds th)) s) =
          gatherP (gatherP c J) (sortInds B) := by
      intro c
      rw [gatherP_sorted_restrict th n wf s c, gatherP_gatherP c J _ hBlt, hkey]
    have hopt : ∀ o : Option (List Int),
        (o.map (gatherP · (sortInds th))).map (gatherP · (whereEq (gatherP th.shank (sortInds th)) s)) =
          (o.map (gatherP · J)).map (gatherP · (sortInds B)) := by
      intro o; cases o <;> simp [hcol]
    refine ⟨(withInd th).mapCols (gatherP · (sortInds th)), sortInds th,
      (withInd B).mapCols (gatherP · (sortInds B)), sortInds B,
      ((withInd th).mapCols (gatherP · (sortInds th))).mapCols
        (gatherP · (whereEq (gatherP th.shank (sortInds th)) s)), ?_, ?_, ?_, ?_, ?_, ?_⟩
    · simpa using finishGeom_none wf true
    · simpa using finishGeom_some wf s true
    · exact restrict_eq hP s
    · exact ⟨hcol _, hcol _, hcol _, hcol _, hcol _, hopt _, hopt _, hopt _, rfl⟩
    · show Option.map _ (some _) = _
      simp only [Option.map_some]
      rw [show B.col.length = J.length from hB.col, gatherP_natCol_range hBlt]
    · show Option.map _ (Option.map _ (some _)) = _
      simp only [Option.map_some]
      rw [show th.col.length = n from wf.col, hcol, gatherP_gatherP _ _ _ hBlt,
        gatherP_natCol_range]
      intro i hi
      obtain ⟨j, hj, rfl⟩ := List.mem_map.mp hi
      have hj' := hBlt j hj
      have : J.getD j 0 ∈ J := by
        rw [List.getD_eq_getElem?_getD, List.getElem?_eq_getElem hj']; exact List.getElem_mem hj'
      exact hJlt _ this

end IblVerif.Geometry
