/-
Helper lemmas about the matching model `IblVerif.SyncTs` (first pass, second pass, merge).
-/
import IblVerif.Model.SyncTs
import Mathlib.Tactic.Linarith
import Mathlib.Algebra.Order.Field.Rat
import Mathlib.Algebra.Order.Ring.Abs

namespace IblVerif.SyncTs

theorem qabs_eq_abs (x : ℚ) : qabs x = |x| := by
  unfold qabs
  split
  · rw [abs_of_neg ‹_›]
  · rw [abs_of_nonneg (not_lt.mp ‹_›)]

/-! ### generic: indices of a `zipIdx`-`filterMap` are strictly increasing -/

theorem zipIdx_pairwise_snd {α : Type} (l : List α) (k : Nat) :
    (l.zipIdx k).Pairwise (fun p q => p.2 < q.2) := by
  induction l generalizing k with
  | nil => simp
  | cons x xs ih =>
    rw [List.zipIdx_cons, List.pairwise_cons]
    refine ⟨?_, ih (k + 1)⟩
    intro q hq
    have := List.le_snd_of_mem_zipIdx hq
    simp only at this ⊢
    omega

/-! ### first pass -/

theorem mem_window {Δ θ : ℚ} {tsb : List ℚ} {a : ℚ} {j : Nat} {d : ℚ} :
    (j, d) ∈ window Δ θ tsb a ↔ ∃ b, tsb[j]? = some b ∧ d = qabs (a - Δ - b) ∧ d < θ := by
  unfold window
  simp only [List.mem_filterMap, List.mem_zipIdx_iff_getElem?]
  constructor
  · rintro ⟨⟨b, k⟩, hk, h⟩
    simp only at hk h
    split at h
    · rename_i hlt
      simp only [Option.some.injEq, Prod.mk.injEq] at h
      obtain ⟨rfl, rfl⟩ := h
      exact ⟨b, hk, rfl, hlt⟩
    · simp at h
  · rintro ⟨b, hb, rfl, hlt⟩
    exact ⟨(b, j), hb, by simp [hlt]⟩

theorem window_pairwise (Δ θ : ℚ) (tsb : List ℚ) (a : ℚ) :
    (window Δ θ tsb a).Pairwise (fun p q => p.1 < q.1) := by
  unfold window
  refine List.Pairwise.filterMap _ ?_ (zipIdx_pairwise_snd tsb 0)
  intro p q hpq x hx y hy
  simp only at hx hy
  split at hx <;> split at hy <;> simp only [Option.some.injEq, reduceCtorEq] at hx hy
  subst hx; subst hy
  exact hpq

theorem argminFirst_isSome {α : Type} {l : List (α × ℚ)} (h : l ≠ []) : ∃ x, argminFirst l = some x := by
  cases l with
  | nil => exact absurd rfl h
  | cons p rest => exact ⟨_, rfl⟩

/-- Whatever the first loop assigns to an event is one of the indices in its window. -/
theorem pass1Pick_mem {used : List (Option Nat)} {w : List (Nat × ℚ)} {j : Nat}
    (h : pass1Pick used w = some j) : ∃ d, (j, d) ∈ w := by
  unfold pass1Pick at h
  split at h
  · simp at h
  · rename_i p
    simp only [Option.some.injEq] at h
    exact ⟨p.2, by rw [← h]; simp⟩
  · split at h
    · simp at h
    · rename_i p hp
      simp only [Option.some.injEq] at h
      have : p ∈ w.filter (fun p => !(used.contains (some p.1))) := by rw [hp]; simp
      exact ⟨p.2, by rw [← h]; exact (List.mem_filter.mp this).1⟩
    · cases hm : argminFirst w with
      | none => simp [hm] at h
      | some x =>
        simp only [hm, Option.map_some, Option.some.injEq] at h
        exact ⟨x.2, by rw [← h]; exact argminFirst_mem _ _ hm⟩

/-- A window whose entries all carry the index `j` (and there is one) yields `j`. -/
theorem pass1Pick_of_unique {used : List (Option Nat)} {w : List (Nat × ℚ)} {j : Nat}
    (hp : w.Pairwise (fun p q => p.1 < q.1)) (hne : w ≠ []) (hall : ∀ p ∈ w, p.1 = j) :
    pass1Pick used w = some j := by
  match w, hne, hp, hall with
  | [p], _, _, hall => simp [pass1Pick, hall p]
  | p :: q :: r, _, hp, hall =>
    have h1 := hall p (by simp)
    have h2 := hall q (by simp)
    have := (List.pairwise_cons.mp hp).1 q (by simp)
    omega

theorem pass1Pick_nil (used : List (Option Nat)) : pass1Pick used [] = none := rfl

theorem pass1Aux_eq (Δ θ : ℚ) (tsb : List ℚ) (tsa : List ℚ) (acc : List (Option Nat)) :
    ∃ tail, pass1Aux Δ θ tsb tsa acc = acc ++ tail ∧ tail.length = tsa.length ∧
      ∀ k a, tsa[k]? = some a →
        tail[k]? = some (pass1Pick (acc ++ tail.take k) (window Δ θ tsb a)) := by
  induction tsa generalizing acc with
  | nil => exact ⟨[], by simp [pass1Aux]⟩
  | cons a rest ih =>
    obtain ⟨tail, h1, h2, h3⟩ := ih (acc ++ [pass1Pick acc (window Δ θ tsb a)])
    refine ⟨pass1Pick acc (window Δ θ tsb a) :: tail, ?_, ?_, ?_⟩
    · simp [pass1Aux, h1]
    · simp [h2]
    · intro k x hk
      cases k with
      | zero =>
        simp only [List.getElem?_cons_zero, Option.some.injEq] at hk
        subst hk
        simp
      | succ k =>
        simp only [List.getElem?_cons_succ] at hk
        have := h3 k x hk
        simp only [List.getElem?_cons_succ, List.take_succ_cons]
        rw [this]
        simp

theorem pass1_length (Δ θ : ℚ) (tsa tsb : List ℚ) : (pass1 Δ θ tsa tsb).length = tsa.length := by
  obtain ⟨tail, h1, h2, _⟩ := pass1Aux_eq Δ θ tsb tsa []
  simp [pass1, h1, h2]

/-- Entry `i` of the first-pass vector is the pick of event `i` given the earlier entries. -/
theorem pass1_get {Δ θ : ℚ} {tsa tsb : List ℚ} {i : Nat} {a : ℚ} (h : tsa[i]? = some a) :
    (pass1 Δ θ tsa tsb)[i]? =
      some (pass1Pick ((pass1 Δ θ tsa tsb).take i) (window Δ θ tsb a)) := by
  obtain ⟨tail, h1, _, h3⟩ := pass1Aux_eq Δ θ tsb tsa []
  simp only [pass1, h1, List.nil_append] at *
  exact h3 i a h

/-- Every first-pass assignment `(i, j)` lies strictly inside the threshold window of the coarse map. -/
theorem pass1_some {Δ θ : ℚ} {tsa tsb : List ℚ} {i j : Nat}
    (h : (pass1 Δ θ tsa tsb)[i]? = some (some j)) :
    ∃ a b, tsa[i]? = some a ∧ tsb[j]? = some b ∧ qabs (a - Δ - b) < θ := by
  have hi : i < tsa.length := by
    have := (List.getElem?_eq_some_iff.mp h).1
    rwa [pass1_length] at this
  have ha : tsa[i]? = some tsa[i] := List.getElem?_eq_getElem hi
  rw [pass1_get ha] at h
  simp only [Option.some.injEq] at h
  obtain ⟨d, hd⟩ := pass1Pick_mem h
  obtain ⟨b, hb, rfl, hlt⟩ := mem_window.mp hd
  exact ⟨_, b, ha, hb, hlt⟩

/-! ### second pass -/

theorem mem_missA {ib : List (Option Nat)} {fa : List ℚ} {i : Nat} {f : ℚ} :
    (i, f) ∈ missA ib fa ↔ ib[i]? = some none ∧ fa[i]? = some f := by
  unfold missA
  simp only [List.mem_filterMap, List.mem_zipIdx_iff_getElem?]
  constructor
  · rintro ⟨⟨⟨o, g⟩, k⟩, hk, h⟩
    simp only at hk h
    split at h
    · rename_i hn
      simp only [Option.some.injEq, Prod.mk.injEq] at h
      obtain ⟨rfl, rfl⟩ := h
      rw [List.getElem?_zip_eq_some] at hk
      cases o with
      | none => exact hk
      | some _ => simp at hn
    · simp at h
  · rintro ⟨h1, h2⟩
    refine ⟨((none, f), i), ?_, by simp⟩
    simp only
    rw [List.getElem?_zip_eq_some]
    exact ⟨h1, h2⟩

theorem missA_pairwise (ib : List (Option Nat)) (fa : List ℚ) :
    (missA ib fa).Pairwise (fun p q => p.1 < q.1) := by
  unfold missA
  refine List.Pairwise.filterMap _ ?_ (zipIdx_pairwise_snd _ 0)
  intro p q hpq x hx y hy
  try simp only at hx hy
  split at hx <;> split at hy <;> simp only [Option.some.injEq, reduceCtorEq] at hx hy
  subst hx; subst hy
  exact hpq

theorem mem_missB {ib : List (Option Nat)} {tsb : List ℚ} {j : Nat} {b : ℚ} :
    (j, b) ∈ missB ib tsb ↔ tsb[j]? = some b ∧ some j ∉ ib := by
  unfold missB
  simp only [List.mem_filterMap, List.mem_zipIdx_iff_getElem?]
  constructor
  · rintro ⟨⟨c, k⟩, hk, h⟩
    simp only at hk h
    split at h
    · simp at h
    · rename_i hn
      simp only [Option.some.injEq, Prod.mk.injEq] at h
      obtain ⟨rfl, rfl⟩ := h
      exact ⟨hk, by simpa using hn⟩
  · rintro ⟨h1, h2⟩
    exact ⟨(b, j), h1, by simp [h2]⟩

theorem missB_pairwise (ib : List (Option Nat)) (tsb : List ℚ) :
    (missB ib tsb).Pairwise (fun p q => p.1 < q.1) := by
  unfold missB
  refine List.Pairwise.filterMap _ ?_ (zipIdx_pairwise_snd _ 0)
  intro p q hpq x hx y hy
  try simp only at hx hy
  split at hx <;> split at hy <;> simp only [Option.some.injEq, reduceCtorEq] at hx hy
  subst hx; subst hy
  exact hpq

theorem mem_entries {θ : ℚ} {A B : List (Nat × ℚ)} {i j : Nat} {d : ℚ} :
    ((i, j), d) ∈ entries θ A B ↔
      ∃ f b, (i, f) ∈ A ∧ (j, b) ∈ B ∧ d = qabs (f - b) ∧ d ≤ θ := by
  unfold entries
  simp only [List.mem_flatMap, List.mem_filterMap]
  constructor
  · rintro ⟨⟨j', b⟩, hb, ⟨i', f⟩, ha, h⟩
    simp only at h
    split at h
    · rename_i hle
      simp only [Option.some.injEq, Prod.mk.injEq] at h
      obtain ⟨⟨rfl, rfl⟩, rfl⟩ := h
      exact ⟨f, b, ha, hb, rfl, hle⟩
    · simp at h
  · rintro ⟨f, b, ha, hb, rfl, hle⟩
    exact ⟨(j, b), hb, (i, f), ha, by simp [hle]⟩

theorem bestEntry_some {θ : ℚ} {A B : List (Nat × ℚ)} {i j : Nat} (h : bestEntry θ A B = some (i, j)) :
    ∃ d, ((i, j), d) ∈ entries θ A B := by
  unfold bestEntry at h
  cases hm : argminFirst (entries θ A B) with
  | none => simp [hm] at h
  | some x =>
    simp only [hm, Option.map_some, Option.some.injEq] at h
    exact ⟨x.2, by rw [← h]; exact argminFirst_mem _ _ hm⟩

theorem bestEntry_none {θ : ℚ} {A B : List (Nat × ℚ)} (h : bestEntry θ A B = none) :
    entries θ A B = [] := by
  unfold bestEntry at h
  cases he : entries θ A B with
  | nil => rfl
  | cons p r => simp [he, argminFirst] at h

theorem mem_dropIdx {k : Nat} {l : List (Nat × ℚ)} {p : Nat × ℚ} :
    p ∈ dropIdx k l ↔ p ∈ l ∧ p.1 ≠ k := by
  simp [dropIdx]

/-- Each second-pass assignment joins a residual `a` event and a residual `b` event within `θ` of the fitted map. -/
theorem pass2Loop_mem (θ : ℚ) (A B : List (Nat × ℚ)) :
    ∀ i j, (i, j) ∈ pass2Loop θ A B → ∃ f b, (i, f) ∈ A ∧ (j, b) ∈ B ∧ qabs (f - b) ≤ θ := by
  fun_induction pass2Loop θ A B with
  | case1 A B h => intro i j hm; simp at hm
  | case2 A B i0 j0 h ih =>
    intro i j hm
    rcases List.mem_cons.mp hm with heq | hm
    · simp only [Prod.mk.injEq] at heq
      obtain ⟨rfl, rfl⟩ := heq
      obtain ⟨d, hd⟩ := bestEntry_some h
      obtain ⟨f, b, ha, hb, rfl, hle⟩ := mem_entries.mp hd
      exact ⟨f, b, ha, hb, hle⟩
    · obtain ⟨f, b, ha, hb, hle⟩ := ih i j hm
      exact ⟨f, b, (mem_dropIdx.mp ha).1, (mem_dropIdx.mp hb).1, hle⟩

/-- No `a` index and no `b` index is assigned twice by the second pass. -/
theorem pass2Loop_nodup (θ : ℚ) (A B : List (Nat × ℚ)) :
    ((pass2Loop θ A B).map (·.1)).Nodup ∧ ((pass2Loop θ A B).map (·.2)).Nodup := by
  fun_induction pass2Loop θ A B with
  | case1 A B h => simp
  | case2 A B i0 j0 h ih =>
    simp only [List.map_cons, List.nodup_cons]
    refine ⟨⟨?_, ih.1⟩, ⟨?_, ih.2⟩⟩
    · intro hm
      obtain ⟨⟨i, j⟩, hp, rfl⟩ := List.mem_map.mp hm
      obtain ⟨f, b, ha, _, _⟩ := pass2Loop_mem θ _ _ i j hp
      exact (mem_dropIdx.mp ha).2 rfl
    · intro hm
      obtain ⟨⟨i, j⟩, hp, rfl⟩ := List.mem_map.mp hm
      obtain ⟨f, b, _, hb, _⟩ := pass2Loop_mem θ _ _ i j hp
      exact (mem_dropIdx.mp hb).2 rfl

/-- If the finite entries of the distance matrix form a partial injection (each residual `a` and each residual `b`
occurs in at most one of them), the greedy loop assigns every one of them. -/
theorem pass2Loop_complete (θ : ℚ) (A B : List (Nat × ℚ))
    (hfun : ∀ i j j' d d', ((i, j), d) ∈ entries θ A B → ((i, j'), d') ∈ entries θ A B → j = j')
    (hinj : ∀ i i' j d d', ((i, j), d) ∈ entries θ A B → ((i', j), d') ∈ entries θ A B → i = i') :
    ∀ i j d, ((i, j), d) ∈ entries θ A B → (i, j) ∈ pass2Loop θ A B := by
  fun_induction pass2Loop θ A B with
  | case1 A B h =>
    intro i j d hm
    rw [bestEntry_none h] at hm
    simp at hm
  | case2 A B i0 j0 h ih =>
    intro i j d hm
    obtain ⟨d0, hd0⟩ := bestEntry_some h
    have hsub : ∀ i j d, ((i, j), d) ∈ entries θ (dropIdx i0 A) (dropIdx j0 B) → ((i, j), d) ∈ entries θ A B := by
      intro i j d hm
      obtain ⟨f, b, ha, hb, hd, hle⟩ := mem_entries.mp hm
      exact mem_entries.mpr ⟨f, b, (mem_dropIdx.mp ha).1, (mem_dropIdx.mp hb).1, hd, hle⟩
    by_cases hi : i = i0
    · subst hi
      have := hfun i j j0 d d0 hm hd0
      subst this
      exact List.mem_cons_self
    · have hj : j ≠ j0 := by
        intro hj; subst hj
        exact hi (hinj i i0 j d d0 hm hd0)
      refine List.mem_cons_of_mem _ (ih ?_ ?_ i j d ?_)
      · intro i j j' d d' h1 h2
        exact hfun i j j' d d' (hsub _ _ _ h1) (hsub _ _ _ h2)
      · intro i i' j d d' h1 h2
        exact hinj i i' j d d' (hsub _ _ _ h1) (hsub _ _ _ h2)
      · obtain ⟨f, b, ha, hb, hd, hle⟩ := mem_entries.mp hm
        exact mem_entries.mpr ⟨f, b, mem_dropIdx.mpr ⟨ha, hi⟩, mem_dropIdx.mpr ⟨hb, hj⟩, hd, hle⟩

/-! ### merge and the returned pairs -/

theorem lookup_eq_some_of_nodup {l : List (Nat × Nat)} (hn : (l.map (·.1)).Nodup) {i j : Nat} :
    l.lookup i = some j ↔ (i, j) ∈ l := by
  induction l with
  | nil => simp
  | cons p r ih =>
    obtain ⟨k, v⟩ := p
    simp only [List.map_cons, List.nodup_cons] at hn
    by_cases hk : i = k
    · subst hk
      simp only [List.lookup_cons_self, Option.some.injEq, List.mem_cons, Prod.mk.injEq, true_and]
      constructor
      · intro h; left; exact h.symm
      · rintro (h | h)
        · exact h.symm
        · exact absurd (List.mem_map.mpr ⟨(i, j), h, rfl⟩) hn.1
    · have : (i == k) = false := by simpa using hk
      simp only [List.lookup_cons, this, List.mem_cons, Prod.mk.injEq, hk, false_and, false_or]
      exact ih hn.2

theorem lookup_some_mem {l : List (Nat × Nat)} {i j : Nat} (h : l.lookup i = some j) : (i, j) ∈ l := by
  induction l with
  | nil => simp at h
  | cons p r ih =>
    obtain ⟨k, v⟩ := p
    by_cases hk : i = k
    · subst hk
      simp only [List.lookup_cons_self, Option.some.injEq] at h
      subst h; exact List.mem_cons_self
    · have : (i == k) = false := by simpa using hk
      simp only [List.lookup_cons, this] at h
      exact List.mem_cons_of_mem _ (ih h)

theorem merge_get (ib : List (Option Nat)) (new : List (Nat × Nat)) (i : Nat) :
    (merge ib new)[i]? = (ib[i]?).map fun o => match o with
      | some j => some j
      | none => new.lookup i := by
  unfold merge
  simp only [List.getElem?_map, List.getElem?_zipIdx, Option.map_map, Nat.zero_add]
  cases ib[i]? <;> rfl

theorem mem_pairs {ib : List (Option Nat)} {i j : Nat} : (i, j) ∈ pairs ib ↔ ib[i]? = some (some j) := by
  unfold pairs
  simp only [List.mem_filterMap, List.mem_zipIdx_iff_getElem?]
  constructor
  · rintro ⟨⟨o, k⟩, hk, h⟩
    simp only at hk h
    cases o with
    | none => simp at h
    | some v =>
      simp only [Option.map_some, Option.some.injEq, Prod.mk.injEq] at h
      obtain ⟨rfl, rfl⟩ := h
      exact hk
  · intro h
    exact ⟨(some j, i), h, rfl⟩

theorem pairs_pairwise (ib : List (Option Nat)) : (pairs ib).Pairwise (fun p q => p.1 < q.1) := by
  unfold pairs
  refine List.Pairwise.filterMap _ ?_ (zipIdx_pairwise_snd _ 0)
  intro p q hpq x hx y hy
  obtain ⟨po, pk⟩ := p
  obtain ⟨qo, qk⟩ := q
  cases po <;> cases qo <;> simp only [Option.map_none, Option.map_some, Option.some.injEq, reduceCtorEq] at hx hy
  subst hx; subst hy
  exact hpq

/-- A returned pair comes from the first pass, or from the second pass on an event the first pass left open. -/
theorem mem_pairs_finish {θ : ℚ} {ib : List (Option Nat)} {fa tsb : List ℚ} {i j : Nat} :
    (i, j) ∈ pairs (finish θ ib fa tsb) ↔
      ib[i]? = some (some j) ∨
      (ib[i]? = some none ∧ (i, j) ∈ pass2Loop θ (missA ib fa) (missB ib tsb)) := by
  rw [mem_pairs]
  unfold finish
  rw [merge_get]
  have hn := (pass2Loop_nodup θ (missA ib fa) (missB ib tsb)).1
  cases h : ib[i]? with
  | none => simp
  | some o =>
    cases o with
    | some v => simp
    | none =>
      simp only [Option.map_some, Option.some.injEq, reduceCtorEq, false_or, true_and]
      exact lookup_eq_some_of_nodup hn

end IblVerif.SyncTs
