/-
Helper lemmas on the trajectory-matrix index model (`Model/Cadzow.lean`).  Core Lean only.
-/
import IblVerif.Model.Cadzow
import IblVerif.Lemmas.Stack
namespace IblVerif.Cadzow
open IblVerif.Stack (unique mem_unique)

/-- Every grid index `g < n` is read somewhere in `traj_matrix_indices(n)`. -/
theorem trajIdx_surj (n g : Nat) (hg : g < n) :
    ∃ a b, a < nrows n ∧ b < ncols n ∧ trajIdx n a b = g := by
  refine ⟨g - min g (ncols n - 1), ncols n - 1 - min g (ncols n - 1), ?_, ?_, ?_⟩ <;>
    simp only [nrows, ncols, trajIdx] <;> omega

/-- … and nothing outside the grid is read. -/
theorem trajIdx_lt (n a b : Nat) (ha : a < nrows n) (hb : b < ncols n) : trajIdx n a b < n := by
  simp only [nrows, ncols, trajIdx] at *; omega

theorem siteAt_trajOfIdx (ix iy : List Nat) (nx ny A B : Nat)
    (hA : A < nrows nx * nrows ny) (hB : B < ncols nx * ncols ny) :
    (trajOfIdx ix iy nx ny).siteAt A B = siteOf ix iy (gxOf nx ny A B) (gyOf ny A B) := by
  simp [trajOfIdx, Traj.siteAt, List.getD_eq_getElem?_getD, hA, hB]

theorem siteAt_none_of_ge (ix iy : List Nat) (nx ny A B : Nat)
    (h : ¬ (A < nrows nx * nrows ny ∧ B < ncols nx * ncols ny)) :
    (trajOfIdx ix iy nx ny).siteAt A B = none := by
  simp only [trajOfIdx, Traj.siteAt, List.getD_eq_getElem?_getD]
  by_cases hA : A < nrows nx * nrows ny
  · have hB : ¬ B < ncols nx * ncols ny := fun hB => h ⟨hA, hB⟩
    simp [hA, hB]
  · simp [hA]

/-- No two sites share a grid position, and all lie inside the `nx × ny` grid. -/
structure Valid (ix iy : List Nat) (nx ny : Nat) : Prop where
  len : ix.length = iy.length
  inside : ∀ c, c < ix.length → ix.getD c 0 < nx ∧ iy.getD c 0 < ny
  distinct : ∀ c c', c < ix.length → c' < ix.length →
    ix.getD c 0 = ix.getD c' 0 → iy.getD c 0 = iy.getD c' 0 → c = c'

theorem siteOf_self (ix iy : List Nat) (nx ny : Nat) (hv : Valid ix iy nx ny) (c : Nat) (hc : c < ix.length) :
    siteOf ix iy (ix.getD c 0) (iy.getD c 0) = some c := by
  unfold siteOf
  simp only [List.head?_filter]
  rw [List.find?_range_eq_some]
  refine ⟨by simp, List.mem_range.mpr hc, ?_⟩
  intro j hj
  simp only [Bool.not_eq_true', Bool.and_eq_false_iff, beq_eq_false_iff_ne, ne_eq]
  by_cases h1 : ix.getD j 0 = ix.getD c 0
  · by_cases h2 : iy.getD j 0 = iy.getD c 0
    · have := hv.distinct j c (by omega) hc h1 h2; omega
    · exact Or.inr h2
  · exact Or.inl h1

theorem siteOf_some (ix iy : List Nat) (p q c : Nat) (h : siteOf ix iy p q = some c) :
    c < ix.length ∧ ix.getD c 0 = p ∧ iy.getD c 0 = q := by
  unfold siteOf at h
  simp only [List.head?_filter] at h
  rw [List.find?_range_eq_some] at h
  obtain ⟨h1, h2, _⟩ := h
  simp only [Bool.and_eq_true, beq_iff_eq] at h1
  exact ⟨List.mem_range.mp h2, h1.1, h1.2⟩

/-- Every site is copied into the trajectory matrix at least once. -/
theorem site_occurs (ix iy : List Nat) (nx ny : Nat) (hv : Valid ix iy nx ny) (c : Nat) (hc : c < ix.length) :
    ∃ A B, A < nrows nx * nrows ny ∧ B < ncols nx * ncols ny ∧
      (trajOfIdx ix iy nx ny).siteAt A B = some c := by
  obtain ⟨hx, hy⟩ := hv.inside c hc
  obtain ⟨ax, bx, hax, hbx, hgx⟩ := trajIdx_surj nx _ hx
  obtain ⟨ay, byy, hay, hby, hgy⟩ := trajIdx_surj ny _ hy
  have hNy : 0 < nrows ny := by simp [nrows]
  have hCy : 0 < ncols ny := by simp only [ncols] at hby ⊢; omega
  refine ⟨ax * nrows ny + ay, bx * ncols ny + byy, ?_, ?_, ?_⟩
  · calc ax * nrows ny + ay < ax * nrows ny + nrows ny := by omega
      _ = (ax + 1) * nrows ny := by rw [Nat.add_mul]; omega
      _ ≤ nrows nx * nrows ny := Nat.mul_le_mul_right _ (by omega)
  · calc bx * ncols ny + byy < bx * ncols ny + ncols ny := by omega
      _ = (bx + 1) * ncols ny := by rw [Nat.add_mul]; omega
      _ ≤ ncols nx * ncols ny := Nat.mul_le_mul_right _ (by omega)
  · have hA : ax * nrows ny + ay < nrows nx * nrows ny := by
      calc ax * nrows ny + ay < ax * nrows ny + nrows ny := by omega
        _ = (ax + 1) * nrows ny := by rw [Nat.add_mul]; omega
        _ ≤ nrows nx * nrows ny := Nat.mul_le_mul_right _ (by omega)
    have hB : bx * ncols ny + byy < ncols nx * ncols ny := by
      calc bx * ncols ny + byy < bx * ncols ny + ncols ny := by omega
        _ = (bx + 1) * ncols ny := by rw [Nat.add_mul]; omega
        _ ≤ ncols nx * ncols ny := Nat.mul_le_mul_right _ (by omega)
    rw [siteAt_trajOfIdx _ _ _ _ _ _ hA hB]
    have e1 : (ax * nrows ny + ay) / nrows ny = ax := by
      rw [Nat.mul_comm, Nat.mul_add_div hNy, Nat.div_eq_of_lt hay]; omega
    have e2 : (ax * nrows ny + ay) % nrows ny = ay := by
      rw [Nat.mul_comm, Nat.mul_add_mod, Nat.mod_eq_of_lt hay]
    have e3 : (bx * ncols ny + byy) / ncols ny = bx := by
      rw [Nat.mul_comm, Nat.mul_add_div hCy, Nat.div_eq_of_lt hby]; omega
    have e4 : (bx * ncols ny + byy) % ncols ny = byy := by
      rw [Nat.mul_comm, Nat.mul_add_mod, Nat.mod_eq_of_lt hby]
    simp only [gxOf, gyOf, e1, e2, e3, e4, hgx, hgy]
    exact siteOf_self ix iy nx ny hv c hc


theorem mem_pos (t : Traj) (p : Nat × Nat × Nat) :
    p ∈ t.pos ↔ p.1 < t.rows ∧ p.2.1 < t.cols ∧ t.siteAt p.1 p.2.1 = some p.2.2 := by
  obtain ⟨A, B, c⟩ := p
  simp only [Traj.pos, List.mem_flatMap, List.mem_range, List.mem_filterMap, Option.map_eq_some_iff,
    Prod.mk.injEq]
  constructor
  · rintro ⟨A', hA, B', hB, c', hs, rfl, rfl, rfl⟩
    exact ⟨hA, hB, hs⟩
  · rintro ⟨hA, hB, hs⟩
    exact ⟨A, hA, B, hB, c, hs, rfl, rfl, rfl⟩

theorem le_foldr_max (l : List Nat) (x : Nat) (h : x ∈ l) : x ≤ l.foldr max 0 := by
  induction l with
  | nil => simp at h
  | cons a t ih =>
    simp only [List.foldr_cons]
    rcases List.mem_cons.mp h with rfl | h
    · omega
    · have := ih h; omega

theorem foldr_max_le (l : List Nat) (b : Nat) (h : ∀ x ∈ l, x ≤ b) : l.foldr max 0 ≤ b := by
  induction l with
  | nil => simp
  | cons a t ih =>
    simp only [List.foldr_cons]
    have := ih (fun x hx => h x (List.mem_cons_of_mem _ hx))
    have := h a List.mem_cons_self
    omega

theorem getD_trcount (t : Traj) (c : Nat) (hc : c < (trcount t).length) :
    (trcount t).getD c 0 = (t.pos.filter (fun p => p.2.2 == c)).length := by
  simp only [trcount, List.length_map, List.length_range] at hc
  simp [trcount, List.getD_eq_getElem?_getD, hc]

/-- On a valid layout `np.bincount(itr)` has one strictly positive entry per site. -/
theorem trcount_valid (ix iy : List Nat) (nx ny : Nat) (hv : Valid ix iy nx ny) :
    (trcount (trajOfIdx ix iy nx ny)).length = ix.length ∧
    ∀ c, c < ix.length → 0 < ((trajOfIdx ix iy nx ny).pos.filter (fun p => p.2.2 == c)).length := by
  have hocc : ∀ c, c < ix.length → ∃ p ∈ (trajOfIdx ix iy nx ny).pos, p.2.2 = c := by
    intro c hc
    obtain ⟨A, B, hA, hB, hs⟩ := site_occurs ix iy nx ny hv c hc
    exact ⟨(A, B, c), (mem_pos _ _).mpr ⟨hA, hB, hs⟩, rfl⟩
  have hlt : ∀ p ∈ (trajOfIdx ix iy nx ny).pos, p.2.2 < ix.length := by
    intro p hp
    obtain ⟨hA, hB, hs⟩ := (mem_pos _ _).mp hp
    have hA' : p.1 < nrows nx * nrows ny := hA
    have hB' : p.2.1 < ncols nx * ncols ny := hB
    rw [siteAt_trajOfIdx _ _ _ _ _ _ hA' hB'] at hs
    exact (siteOf_some _ _ _ _ _ hs).1
  refine ⟨?_, ?_⟩
  · simp only [trcount, List.length_map, List.length_range]
    apply Nat.le_antisymm
    · apply foldr_max_le
      intro x hx
      obtain ⟨p, hp, rfl⟩ := List.mem_map.mp hx
      have := hlt p hp
      omega
    · by_cases h0 : ix.length = 0
      · omega
      · obtain ⟨p, hp, hpc⟩ := hocc (ix.length - 1) (by omega)
        have := le_foldr_max _ _ (List.mem_map_of_mem (f := fun p : Nat × Nat × Nat => p.2.2 + 1) hp)
        omega
  · intro c hc
    obtain ⟨p, hp, hpc⟩ := hocc c hc
    apply List.length_pos_of_mem (a := p)
    simp [List.mem_filter, hp, hpc]


theorem getD_inverse (l : List Int) (c : Nat) (hc : c < l.length) :
    (inverse l).getD c 0 = (unique l).idxOf l[c] := by
  simp [inverse, List.getD_eq_getElem?_getD, hc]

theorem idxOf_inj' (l : List Int) (a b : Int) (ha : a ∈ l) (h : l.idxOf a = l.idxOf b) : a = b := by
  have h1 : l.idxOf a < l.length := List.idxOf_lt_length_of_mem ha
  have h2 : l.idxOf b < l.length := by omega
  have e1 : l[l.idxOf a] = a := List.getElem_idxOf h1
  have e2 : l[l.idxOf b] = b := List.getElem_idxOf h2
  rw [← e1, ← e2]
  congr 1

/-- Sites with pairwise distinct coordinates give a valid layout for `trajectory(x, y)`. -/
theorem trajectory_valid (x y : List Int) (hlen : x.length = y.length)
    (hd : ∀ c c' (h : c < x.length) (h' : c' < x.length), x[c] = x[c'] → y[c] = y[c'] → c = c') :
    Valid (inverse x) (inverse y) (unique x).length (unique y).length := by
  have hix : (inverse x).length = x.length := by simp [inverse]
  have hiy : (inverse y).length = y.length := by simp [inverse]
  refine ⟨by omega, ?_, ?_⟩
  · intro c hc
    rw [hix] at hc
    rw [getD_inverse x c hc, getD_inverse y c (by omega)]
    exact ⟨List.idxOf_lt_length_of_mem ((mem_unique x _).mpr (List.getElem_mem hc)),
      List.idxOf_lt_length_of_mem ((mem_unique y _).mpr (List.getElem_mem (by omega)))⟩
  · intro c c' hc hc' h1 h2
    rw [hix] at hc hc'
    rw [getD_inverse x c hc, getD_inverse x c' hc'] at h1
    rw [getD_inverse y c (by omega), getD_inverse y c' (by omega)] at h2
    have e1 : x[c] = x[c'] := by
      exact idxOf_inj' _ _ _ ((mem_unique x _).mpr (List.getElem_mem hc)) h1
    have e2 : y[c] = y[c'] := by
      exact idxOf_inj' _ _ _ ((mem_unique y _).mpr (List.getElem_mem (by omega))) h2
    exact hd c c' hc hc' e1 e2

end IblVerif.Cadzow
