/-
Natural-number facts about the channel windows of `cadzow_np1` (`Model/C20CadzowNp1.lean`): the number of windows on the
documented domain ("ntr - nswx has to be a multiple of nswx - ovx"), where each window lies, which windows contain a row.
Core Lean only.
-/
import IblVerif.Model.C20CadzowNp1

namespace IblVerif.CadzowNp1

/-- `(k + 1) s = k s + s`, with the literal `k + 1` (the form `omega` sees as the same atom as in the goals). -/
theorem succ_mul' (k s : Nat) : (k + 1) * s = k * s + s := by rw [Nat.add_mul, Nat.one_mul]

/-- On the documented domain `ntr = m (nswx - ovx) + nswx`, `npad = 0`, there are exactly `m + 1` windows. -/
theorem nwinx_eq (nswx ovx m : Nat) (hov : ovx < nswx) :
    nwinx (m * (nswx - ovx) + nswx) nswx ovx 0 = m + 1 := by
  unfold nwinx
  have hs : 0 < nswx - ovx := by omega
  generalize hS : nswx - ovx = s at *
  have e : (m + 1) * s = m * s + s := succ_mul' m s
  have e2 : (m + 1 + 1) * s = (m + 1) * s + s := succ_mul' (m + 1) s
  apply Nat.div_eq_of_lt_le <;> omega

/-- The documented domain, as the docstring states it, gives the parametrisation used above. -/
theorem domain_param (ntr nswx ovx : Nat) (hn : nswx ≤ ntr) (hm : (ntr - nswx) % (nswx - ovx) = 0) :
    ntr = (ntr - nswx) / (nswx - ovx) * (nswx - ovx) + nswx := by
  have := Nat.div_add_mod (ntr - nswx) (nswx - ovx)
  rw [hm, Nat.mul_comm] at this
  omega

theorem mul_step_le {k q s : Nat} (h : k < q) : k * s + s ≤ q * s := by
  have : (k + 1) * s ≤ q * s := Nat.mul_le_mul_right s h
  rwa [succ_mul'] at this

/-- A window containing row `i = q s + r` (`r < s`, `nswx = s + ovx ≤ 2 s`) is window `q`, or window `q - 1` when the row
lies in the first `ovx` rows of window `q`. -/
theorem window_mem (s nswx ovx q r k : Nat) (hsn : nswx = s + ovx) (hov : ovx ≤ s) (hr : r < s)
    (h1 : k * s ≤ q * s + r) (h2 : q * s + r < k * s + nswx) : k = q ∨ (k + 1 = q ∧ r < ovx) := by
  rcases Nat.lt_trichotomy k q with h | h | h
  · right
    rcases Nat.lt_or_ge (k + 1) q with h' | h'
    · have a := mul_step_le (s := s) h'
      have b := succ_mul' k s
      omega
    · have hq : q = k + 1 := by omega
      subst hq
      have b := succ_mul' k s
      exact ⟨rfl, by omega⟩
  · exact Or.inl h
  · have a := mul_step_le (s := s) h
    omega

theorem firstx_eq_zero_iff (nswx ovx k : Nat) (hov : ovx < nswx) : firstx nswx ovx k = 0 ↔ k = 0 := by
  unfold firstx
  constructor
  · intro h
    rcases Nat.mul_eq_zero.mp h with h | h <;> omega
  · intro h; subst h; simp

theorem kindOf_zero (ntr nswx ovx : Nat) : kindOf ntr nswx ovx 0 = .first := by
  simp [kindOf, firstx]

/-- On the domain, window `k ≥ 1` is tapered as the last one exactly when it is the last one. -/
theorem kindOf_pos (nswx ovx m k : Nat) (hov : ovx < nswx) (hk : 0 < k) :
    kindOf (m * (nswx - ovx) + nswx) nswx ovx k = if k = m then .last else .mid := by
  unfold kindOf
  have h0 : ¬ firstx nswx ovx k = 0 := by
    rw [firstx_eq_zero_iff _ _ _ hov]; omega
  simp only [h0, if_false]
  unfold lastx firstx
  by_cases hkm : k = m
  · subst hkm; simp
  · have : ¬ (k * (nswx - ovx) + nswx = m * (nswx - ovx) + nswx) := by
      intro h
      have h' : k * (nswx - ovx) = m * (nswx - ovx) := by omega
      exact hkm (Nat.eq_of_mul_eq_mul_right (by omega) h')
    simp [hkm]
    omega

/-- Every window lies inside the `ntr` rows and the last one ends exactly at `ntr`; consecutive windows overlap by `ovx`. -/
theorem windows_inside (nswx ovx m k : Nat) (hov : ovx ≤ nswx) (hk : k ≤ m) :
    lastx nswx ovx k ≤ m * (nswx - ovx) + nswx ∧ lastx nswx ovx m = m * (nswx - ovx) + nswx ∧
    firstx nswx ovx (k + 1) + ovx = lastx nswx ovx k := by
  unfold lastx firstx
  have := Nat.mul_le_mul_right (nswx - ovx) hk
  have e := succ_mul' k (nswx - ovx)
  refine ⟨by omega, rfl, by omega⟩

/-- The model returns the `m + 1` windows on the domain (no error branch is taken). -/
theorem windows_ok (nswx ovx m : Nat) (ho : 2 ≤ ovx) (hw : 2 * ovx ≤ nswx) :
    windows (m * (nswx - ovx) + nswx) nswx ovx 0 =
      .ok ((List.range (m + 1)).map fun k =>
        (firstx nswx ovx k, lastx nswx ovx k, kindOf (m * (nswx - ovx) + nswx) nswx ovx k)) := by
  unfold windows
  have h1 : ¬ (ovx < 2 ∨ m * (nswx - ovx) + nswx < 0 + 2 ∨ m * (nswx - ovx) + nswx + 2 * 0 < ovx) := by omega
  have h2 : ¬ nswx = ovx := by omega
  have h3 : ¬ nswx < 2 * ovx := by omega
  simp only [h1, h2, h3, if_false, nwinx_eq nswx ovx m (by omega)]
  have hany : ((List.range (m + 1)).map fun k =>
      (firstx nswx ovx k, lastx nswx ovx k, kindOf (m * (nswx - ovx) + nswx) nswx ovx k)).any
      (fun w => totalRows (m * (nswx - ovx) + nswx) 0 < w.2.1) = false := by
    rw [List.any_eq_false]
    intro w hw'
    simp only [List.mem_map, List.mem_range] at hw'
    obtain ⟨k, hk, rfl⟩ := hw'
    have := (windows_inside nswx ovx m k (by omega) (by omega)).1
    intro hc
    have hc' := of_decide_eq_true hc
    simp only [totalRows] at hc'
    omega
  simp only [hany]
  rfl

end IblVerif.CadzowNp1
