/-
Core-Lean lemmas (generic in the scalar type: they hold of the `Float` twin and of the `ℝ` instance alike) that connect the
integer skeleton of round h (stage lists, clipped positions, frequency-domain entry point, N-d layout) to the numeric model:

* executing the stage list `planReal` with the model's own primitives IS `fshiftCore` (so the tie theorem
  `Tie.C07.fshift_scalar_eq : translated source = planReal` is a statement about the function all C07 theorems are about);
* `fshiftCore = irfft ∘ fshiftFreq ∘ rfft` (time-domain call = frequency-domain call between the two transforms);
* one row of the vectorised `parabolic_max` equals the 1-D function (the clipped positions are the unclipped ones away from the
  edges, and the edge rows are overwritten);
* `fshiftND`: every trace of an array of any dimension, along any axis, receives its own shift; on a 1-D array it is `fshift1`.
-/
import IblVerif.Lemmas.FShift
import IblVerif.Model.FShiftND

namespace IblVerif.FShift

set_option linter.unusedSectionVars false
set_option linter.unusedVariables false

variable {R : Type} [Add R] [Sub R] [Mul R] [Div R] [Neg R] [NatCast R]

/-! ### stage list -/

/-- the impulse built by `put 1 1` on zeros is `delta1` -/
theorem impulse_fun_eq :
    (fun t : Nat => if (t : Int) = 1 then ((1 : Nat) : R) else ((0 : Nat) : R)) = delta1 (R := R) := by
  funext t
  unfold delta1
  by_cases h : t = 1
  · subst h; simp
  · have : ¬ ((t : Int) = 1) := by omega
    simp [h, this]

/-- **Executing the stage list of the source with the model's primitives is `fshiftCore`** (scalar shift or the shift of one
trace of a per-trace call; any axis label; `ns` = the length of the trace). -/
theorem runPlan_planReal (T : Trig R) (x : Array R) (s : R) (perTrace : Bool) (axis : Int) :
    runPlan T x s (planReal perTrace axis (x.size : Int)) = some (fshiftCore T x s) := by
  cases perTrace <;>
    simp [runPlan, planReal, List.foldl, execStage, PlanState.init, fshiftCore, phase, dephasAngle, impulse_fun_eq]

/-- a stage list without the transform of the data produces no result: the order and presence of the stages matter -/
theorem runPlan_planFreq (T : Trig R) (x : Array R) (s : R) (axis : Int) : runPlan T x s (planFreq axis) = none := by
  simp [runPlan, planFreq, List.foldl, execStage, PlanState.init]

/-! ### frequency-domain entry point -/

@[simp] theorem fshiftFreq_size (T : Trig R) (W : Array (R × R)) (ns : Nat) (s : R) : (fshiftFreq T W ns s).size = W.size := by
  simp [fshiftFreq]

/-- **`fshift(w, s)` on a real trace = inverse transform of `fshift(rfft(w), s, ns=n)`** -/
theorem fshiftCore_eq_freq (T : Trig R) (x : Array R) (s : R) :
    fshiftCore T x s = irfft T (fshiftFreq T (rfft T x) x.size s) x.size := rfl

theorem fshiftFreq1_ok (T : Trig R) (W : Array (R × R)) (ns : Nat) (s : R) (hn : 2 ≤ ns) (hW : W.size = ns / 2 + 1) :
    fshiftFreq1 T W ns s = .ok (fshiftFreq T W ns s) := by
  have h1 : ¬ ns < 2 := by omega
  simp [fshiftFreq1, h1, hW]

/-! ### `parabolic_max`: one row of the 2-D branch = the 1-D function -/

/-- `np.argmax` returns a valid position (any scalar type, any comparison) -/
theorem argmax_lt_size (lt : R → R → Bool) (x : Array R) (hx : 0 < x.size) : argmax lt x < x.size := by
  unfold argmax
  have key : ∀ (k : Nat) (b : Nat), b < x.size → k ≤ x.size →
      (List.range k).foldl (fun best i => if lt (at0 x best) (at0 x i) then i else best) b < x.size := by
    intro k
    induction k with
    | zero => intro b hb _; simpa using hb
    | succ k ih =>
      intro b hb hk
      rw [List.range_succ, List.foldl_append]
      simp only [List.foldl_cons, List.foldl_nil]
      have := ih b hb (by omega)
      split
      · omega
      · exact this
  exact key x.size 0 hx (Nat.le_refl _)

/-- **A row of the vectorised branch gives what the 1-D function gives on that row** (every non-empty row, every scalar type:
in particular for the `Float` twin, NaN samples included). -/
theorem parabolicMaxRow_eq (half : R) (isZero : R → Bool) (lt : R → R → Bool) (x : Array R) (hx : 0 < x.size) :
    parabolicMaxRow half isZero lt x = parabolicMax half isZero lt x := by
  have hlt := argmax_lt_size lt x hx
  unfold parabolicMaxRow parabolicMax pmaxIdx
  by_cases h : argmax lt x = 0 ∨ argmax lt x = x.size - 1
  · simp only [h, if_true]
  · simp only [h, if_false]
    have hm : min (argmax lt x + 1) (x.size - 1) = argmax lt x + 1 := by omega
    rw [hm]

/-- the vectorised function is the map of the scalar function over the rows -/
theorem parabolicMax2_eq_map (half : R) (isZero : R → Bool) (lt : R → R → Bool) (w : Array (Array R))
    (hw : ∀ i (h : i < w.size), 0 < w[i].size) :
    parabolicMax2 half isZero lt w = w.map (parabolicMax half isZero lt) := by
  unfold parabolicMax2
  apply Array.ext
  · simp
  · intro i h1 h2
    simp only [Array.getElem_map]
    exact parabolicMaxRow_eq half isZero lt _ (hw i (by simpa using h1))

/-! ### N-d arrays -/

theorem nd_index (o t i n inner : Nat) (ht : t < n) (hi : i < inner) :
    ((o * n + t) * inner + i) / inner / n * inner + ((o * n + t) * inner + i) % inner = o * inner + i
      ∧ ((o * n + t) * inner + i) / inner % n = t := by
  have hpos : 0 < inner := by omega
  have h1 : ((o * n + t) * inner + i) / inner = o * n + t := by
    rw [Nat.mul_comm, Nat.mul_add_div hpos, Nat.div_eq_of_lt hi, Nat.add_zero]
  have h2 : ((o * n + t) * inner + i) % inner = i := by
    rw [Nat.mul_comm, Nat.mul_add_mod, Nat.mod_eq_of_lt hi]
  have hn : 0 < n := by omega
  have h3 : (o * n + t) / n = o := by
    rw [Nat.mul_comm, Nat.mul_add_div hn, Nat.div_eq_of_lt ht, Nat.add_zero]
  have h4 : (o * n + t) % n = t := by
    rw [Nat.mul_comm, Nat.mul_add_mod, Nat.mod_eq_of_lt ht]
  rw [h1, h2, h3, h4]
  exact ⟨rfl, rfl⟩

theorem nd_bound (o t i outer n inner : Nat) (ho : o < outer) (ht : t < n) (hi : i < inner) :
    (o * n + t) * inner + i < outer * n * inner := by
  have h1 : o * n + t < outer * n := by
    calc o * n + t < o * n + n := by omega
      _ = (o + 1) * n := (Nat.succ_mul _ _).symm
      _ ≤ outer * n := Nat.mul_le_mul_right _ (by omega)
  calc (o * n + t) * inner + i < (o * n + t) * inner + inner := by omega
    _ = (o * n + t + 1) * inner := (Nat.succ_mul _ _).symm
    _ ≤ outer * n * inner := Nat.mul_le_mul_right _ (by omega)

theorem nd_trace_bound (o i outer inner : Nat) (ho : o < outer) (hi : i < inner) : o * inner + i < outer * inner := by
  calc o * inner + i < o * inner + inner := by omega
    _ = (o + 1) * inner := (Nat.succ_mul _ _).symm
    _ ≤ outer * inner := Nat.mul_le_mul_right _ (by omega)

/-- the shift vector has one entry per trace of an N-d array (or is a scalar) -/
def Shift.fitsND (s : Shift R) (outer inner : Nat) : Prop :=
  match s with
  | .scalar _ => True
  | .perTrace a => a.size = outer * inner

/-- **Each trace of an array of any dimension receives its own shift along any axis.**  With `ax` the normalised axis,
`outer`/`inner` the products of the extents before/after it and `n ≥ 2` the extent along it: the call succeeds, the result has
the size of the input, and its sample `(o, t, i)` is sample `t` of the trace `(o, i)` shifted (as a 1-D trace, by
`fshiftCore`) by entry `o * inner + i` of the shift vector (or by the scalar). -/
theorem fshiftND_spec (T : Trig R) (shape : List Nat) (data : Array R) (s : Shift R) (axis : Int) (ax : Nat)
    (hax : normAxis shape.length axis = some ax) (hn : 2 ≤ shape.getD ax 0)
    (hs : s.fitsND (extentProd (shape.take ax)) (extentProd (shape.drop (ax + 1)))) :
    ∃ y, fshiftND T shape data s axis = .ok y
      ∧ y.size = extentProd (shape.take ax) * shape.getD ax 0 * extentProd (shape.drop (ax + 1))
      ∧ ∀ o t i, o < extentProd (shape.take ax) → t < shape.getD ax 0 → i < extentProd (shape.drop (ax + 1)) →
          at0 y ((o * shape.getD ax 0 + t) * extentProd (shape.drop (ax + 1)) + i)
            = at0 (fshiftCore T (traceND data (shape.getD ax 0) (extentProd (shape.drop (ax + 1))) o i)
                (s.get (o * extentProd (shape.drop (ax + 1)) + i))) t := by
  have h1 : ¬ shape.getD ax 0 < 2 := by omega
  have hy : fshiftND T shape data s axis = .ok (Array.ofFn
      (n := extentProd (shape.take ax) * shape.getD ax 0 * extentProd (shape.drop (ax + 1))) fun p =>
      at0 ((shiftedTraces T data (extentProd (shape.take ax)) (shape.getD ax 0) (extentProd (shape.drop (ax + 1))) s).getD
        (p.val / extentProd (shape.drop (ax + 1)) / shape.getD ax 0 * extentProd (shape.drop (ax + 1))
          + p.val % extentProd (shape.drop (ax + 1))) #[]) (p.val / extentProd (shape.drop (ax + 1)) % shape.getD ax 0)) := by
    unfold fshiftND
    simp only [hax, h1, if_false]
    cases s with
    | scalar v => simp only [Bool.false_eq_true, if_false]
    | perTrace a =>
      have h2 : a.size = extentProd (shape.take ax) * extentProd (shape.drop (ax + 1)) := hs
      have h3 : ¬ (a.size ≠ extentProd (shape.take ax) * extentProd (shape.drop (ax + 1)) * shiftExtentAlongAxis) := by
        simp [h2, shiftExtentAlongAxis]
      simp only [h3, decide_false, Bool.false_eq_true, if_false]
  refine ⟨_, hy, by simp, ?_⟩
  intro o t i ho ht hi
  have hb := nd_bound o t i _ _ _ ho ht hi
  have ⟨hq, htt⟩ := nd_index o t i _ _ ht hi
  have hqb := nd_trace_bound o i _ _ ho hi
  rw [at0_ofFn _ _ hb]
  simp only [hq, htt, shiftedTraces]
  rw [getD_ofFn _ _ _ hqb]
  have e1 : (o * extentProd (shape.drop (ax + 1)) + i) / extentProd (shape.drop (ax + 1)) = o := by
    have hpos : 0 < extentProd (shape.drop (ax + 1)) := by omega
    rw [Nat.mul_comm, Nat.mul_add_div hpos, Nat.div_eq_of_lt hi, Nat.add_zero]
  have e2 : (o * extentProd (shape.drop (ax + 1)) + i) % extentProd (shape.drop (ax + 1)) = i := by
    rw [Nat.mul_comm, Nat.mul_add_mod, Nat.mod_eq_of_lt hi]
  simp only [e1, e2]

theorem traceND_one (x : Array R) : traceND x x.size 1 0 0 = x := by
  apply Array.ext
  · simp [traceND]
  · intro t h1 h2
    simp [traceND, at0, Array.getD]

theorem normAxis_one (axis : Int) : normAxis 1 axis = if axis = 0 ∨ axis = -1 then some 0 else none := by
  unfold normAxis
  by_cases h0 : axis = 0
  · subst h0; simp
  · by_cases h1 : axis = -1
    · subst h1; simp
    · have ha : ¬ (0 ≤ axis ∧ axis < 1) := by omega
      have hb : ¬ (-1 ≤ axis ∧ axis < 0) := by omega
      have hc : ¬ (axis = 0 ∨ axis = -1) := by omega
      simp [ha, hb, hc]

/-- **A 1-D array: `fshiftND` is `fshift1`** (same result, same error branches), so the theorems about `fshift1` /
`fshiftCore` are theorems about the N-d model. -/
theorem fshiftND_one_dim (T : Trig R) (x : Array R) (s : Shift R) (axis : Int) :
    fshiftND T [x.size] x s axis = fshift1 T x s axis := by
  by_cases hax : axis = 0 ∨ axis = -1
  · have hnorm : normAxis [x.size].length axis = some 0 := by
      rw [List.length_singleton, normAxis_one, if_pos hax]
    have hnorm' : normAxis 1 axis = some 0 := by rw [normAxis_one, if_pos hax]
    by_cases hn : x.size < 2
    · unfold fshiftND fshift1
      simp [hnorm', hax, hn]
    · have hfit : ∀ v : R, ∃ y, fshiftND T [x.size] x (.scalar v) axis = .ok y ∧ y = fshiftCore T x v := by
        intro v
        obtain ⟨y, hy, hsz, hval⟩ := fshiftND_spec T [x.size] x (.scalar v) axis 0 hnorm (by simp; omega) trivial
        refine ⟨y, hy, ?_⟩
        simp only [List.getD_cons_zero, List.take_zero, List.drop_succ_cons, List.drop_nil, extentProd, List.foldl_nil] at hsz hval
        apply Array.ext
        · simp [hsz]
        · intro t h1 h2
          have ht : t < x.size := by simpa using h2
          have := hval 0 t 0 (by omega) ht (by omega)
          simp only [Nat.zero_mul, Nat.zero_add, Nat.mul_one, Nat.add_zero, traceND_one, Shift.get] at this
          rw [← at0_eq_getElem _ _ h1, this, at0_eq_getElem _ _ h2]
      cases s with
      | scalar v =>
        obtain ⟨y, hy, rfl⟩ := hfit v
        rw [hy]; unfold fshift1; simp [hax, hn]
      | perTrace a =>
        by_cases ha : a.size = 1
        · obtain ⟨y, hy, hsz, hval⟩ := fshiftND_spec T [x.size] x (.perTrace a) axis 0 hnorm (by simp; omega)
            (by simp [Shift.fitsND, extentProd, ha])
          rw [hy]; unfold fshift1; simp only [hax, not_true_eq_false, if_false, hn, ha, ne_eq]
          congr 1
          simp only [List.getD_cons_zero, List.take_zero, List.drop_succ_cons, List.drop_nil, extentProd, List.foldl_nil] at hsz hval
          apply Array.ext
          · simp [hsz]
          · intro t h1 h2
            have ht : t < x.size := by simpa using h2
            have := hval 0 t 0 (by omega) ht (by omega)
            simp only [Nat.zero_mul, Nat.zero_add, Nat.mul_one, Nat.add_zero, traceND_one, Shift.get] at this
            rw [← at0_eq_getElem _ _ h1, this, at0_eq_getElem _ _ h2]
        · unfold fshiftND fshift1
          simp [hnorm', hax, hn, ha, extentProd, shiftExtentAlongAxis]
  · unfold fshiftND fshift1
    simp [normAxis_one, hax]

/-! ### 2-D arrays: the N-d model and `fshift2` -/

/-- a 2-D array given as rows, in C order -/
def flatten2 (w : Array (Array R)) (ncol : Nat) : Array R :=
  Array.ofFn (n := w.size * ncol) fun p => at0 (w.getD (p.val / ncol) #[]) (p.val % ncol)

theorem normAxis_two (axis : Int) :
    normAxis 2 axis = if axis = 0 ∨ axis = -2 then some 0 else if axis = 1 ∨ axis = -1 then some 1 else none := by
  unfold normAxis
  by_cases h0 : axis = 0
  · subst h0; simp
  · by_cases h1 : axis = 1
    · subst h1; simp
    · by_cases h2 : axis = -1
      · subst h2; simp
      · by_cases h3 : axis = -2
        · subst h3; simp
        · have ha : ¬ (0 ≤ axis ∧ axis < 2) := by omega
          have hb : ¬ (-2 ≤ axis ∧ axis < 0) := by omega
          have hc : ¬ (axis = 0 ∨ axis = -2) := by omega
          have hd : ¬ (axis = 1 ∨ axis = -1) := by omega
          simp [ha, hb, hc, hd]

theorem at0_flatten2 (w : Array (Array R)) (ncol i t : Nat) (hi : i < w.size) (ht : t < ncol) :
    at0 (flatten2 w ncol) (i * ncol + t) = at0 (w.getD i #[]) t := by
  unfold flatten2
  have hb : i * ncol + t < w.size * ncol := by
    calc i * ncol + t < i * ncol + ncol := by omega
      _ = (i + 1) * ncol := (Nat.succ_mul _ _).symm
      _ ≤ w.size * ncol := Nat.mul_le_mul_right _ (by omega)
  rw [at0_ofFn _ _ hb]
  have hpos : 0 < ncol := by omega
  have e1 : (i * ncol + t) / ncol = i := by
    rw [Nat.mul_comm, Nat.mul_add_div hpos, Nat.div_eq_of_lt ht, Nat.add_zero]
  have e2 : (i * ncol + t) % ncol = t := by
    rw [Nat.mul_comm, Nat.mul_add_mod, Nat.mod_eq_of_lt ht]
  simp only [e1, e2]

/-- **2-D array, last axis: the N-d model gives row `i` its own shift exactly like `fshift2`** (`fshift2_lastAxis`:
row `i` of `fshift2` is `fshiftCore T (w.getD i #[]) (s.get i)`); `w` rectangular with rows of length `ncol`. -/
theorem fshiftND_two_dim_rows (T : Trig R) (w : Array (Array R)) (ncol : Nat) (hrect : ∀ i (h : i < w.size), w[i].size = ncol)
    (s : Shift R) (axis : Int) (hax : axis = 1 ∨ axis = -1) (hn : 2 ≤ ncol) (hs : s.fits w.size) :
    ∃ y, fshiftND T [w.size, ncol] (flatten2 w ncol) s axis = .ok y ∧ y.size = w.size * ncol ∧
      ∀ i t, i < w.size → t < ncol → at0 y (i * ncol + t) = at0 (fshiftCore T (w.getD i #[]) (s.get i)) t := by
  have hnorm : normAxis [w.size, ncol].length axis = some 1 := by
    have : ¬ (axis = 0 ∨ axis = -2) := by omega
    simp [normAxis_two, hax, this]
  have hfit : s.fitsND (extentProd ([w.size, ncol].take 1)) (extentProd ([w.size, ncol].drop (1 + 1))) := by
    cases s with
    | scalar v => trivial
    | perTrace a => have : a.size = w.size := hs; simp [Shift.fitsND, extentProd, this]
  obtain ⟨y, hy, hsz, hval⟩ := fshiftND_spec T [w.size, ncol] (flatten2 w ncol) s axis 1 hnorm (by simpa using hn) hfit
  refine ⟨y, hy, ?_, ?_⟩
  · simp [hsz, extentProd]
  · intro i t hi ht
    have := hval i t 0 (by simp [extentProd]; exact hi) (by simpa using ht) (by simp [extentProd])
    simp only [List.getD_cons_succ, List.getD_cons_zero, extentProd, List.drop_succ_cons, List.drop_nil,
      List.foldl_nil, Nat.mul_one, Nat.add_zero] at this
    rw [this]
    congr 2
    -- the trace is the row
    apply Array.ext
    · simp [traceND, Array.getD, hi, hrect i hi]
    · intro k h1 h2
      have hk : k < ncol := by simpa [traceND] using h1
      simp only [traceND, Array.getElem_ofFn, Nat.mul_one, Nat.add_zero]
      rw [at0_flatten2 w ncol i k hi hk, at0_eq_getElem _ _ h2]

/-- **2-D array, first axis: column `j` receives its own shift** (`fshift2_firstAxis` / `fshift_pertrace_cols`: entry `(i, j)`
of `fshift2` is sample `i` of `fshiftCore T (column w j) (s.get j)`). -/
theorem fshiftND_two_dim_cols (T : Trig R) (w : Array (Array R)) (ncol : Nat)
    (s : Shift R) (axis : Int) (hax : axis = 0 ∨ axis = -2) (hn : 2 ≤ w.size) (hs : s.fits ncol) :
    ∃ y, fshiftND T [w.size, ncol] (flatten2 w ncol) s axis = .ok y ∧ y.size = w.size * ncol ∧
      ∀ i j, i < w.size → j < ncol → at0 y (i * ncol + j) = at0 (fshiftCore T (column w j) (s.get j)) i := by
  have hnorm : normAxis [w.size, ncol].length axis = some 0 := by
    simp [normAxis_two, hax]
  have hfit : s.fitsND (extentProd ([w.size, ncol].take 0)) (extentProd ([w.size, ncol].drop (0 + 1))) := by
    cases s with
    | scalar v => trivial
    | perTrace a => have : a.size = ncol := hs; simp [Shift.fitsND, extentProd, this]
  obtain ⟨y, hy, hsz, hval⟩ := fshiftND_spec T [w.size, ncol] (flatten2 w ncol) s axis 0 hnorm (by simpa using hn) hfit
  refine ⟨y, hy, ?_, ?_⟩
  · simp [hsz, extentProd]
  · intro i j hi hj
    have := hval 0 i j (by simp [extentProd]) (by simpa using hi) (by simpa [extentProd] using hj)
    simp only [List.getD_cons_zero, extentProd, List.drop_succ_cons, List.drop_zero, List.foldl_cons, List.foldl_nil,
      Nat.one_mul, Nat.zero_mul, Nat.zero_add] at this
    rw [this]
    congr 2
    apply Array.ext
    · simp [traceND, column]
    · intro k h1 h2
      have hk : k < w.size := by simpa [traceND] using h1
      simp only [traceND, column, Array.getElem_ofFn, Nat.zero_mul, Nat.zero_add]
      rw [at0_flatten2 w ncol k j hk hj]

end IblVerif.FShift
