/-
C05 helper lemmas (core Lean): the traced models are the functional models, the agc window arithmetic, and the
mirrored padding of `kfilt` / `fk` (Python list form = the index map `mirrorIdx` used by `kfiltCore`).
-/
import IblVerif.Model.DestripeStages
import IblVerif.Lemmas.Destripe

namespace IblVerif.Destripe

/-! ### traced models -/

section traced
variable {α : Type} [Add α] [Sub α] [Mul α] [Div α] [OfNat α 0] [OfNat α 1]

theorem kfilt1T_fst (e : Env α) (s : KSet α) (nx ns : Nat) (x : Mat α) :
    (kfilt1T e s nx ns x).1 = kfilt1 e s nx ns x := by
  unfold kfilt1T kfilt1
  split
  · rfl
  · split
    · rfl
    · cases lagcOn s.lagc <;> rfl

theorem kfilt1T_snd (e : Env α) (s : KSet α) (nx ns : Nat) (x : Mat α) (h : s.ntrPad ≤ nx) :
    (kfilt1T e s nx ns x).2 = kfiltStages (lagcOn s.lagc).isSome nx s.ntrPad (tapOf s) := by
  unfold kfilt1T
  rw [if_neg (by omega)]
  split
  · rfl
  · cases lagcOn s.lagc <;> rfl

theorem destripeT_fst (d : DSet α) (nc ns : Nat) (ss : Nat → α) (labels : Option (Nat → Nat)) (x : Mat α) :
    (destripeT d nc ns ss labels x).1 = destripe d nc ns ss labels x := by
  unfold destripeT destripe
  cases labels <;> rfl

theorem destripeT_snd (d : DSet α) (nc ns : Nat) (ss : Nat → α) (labels : Option (Nat → Nat)) (x : Mat α) :
    (destripeT d nc ns ss labels x).2 = destripeStages d.shift.isSome labels.isSome := by
  unfold destripeT
  cases labels <;> rfl

end traced

/-- the model's `tapOf` is the source's `ntr_tap = ntr_pad if ntr_tap is None else ntr_tap` -/
theorem tapOf_eq_tapArg {α : Type} (s : KSet α) : tapOf s = tapArg s.ntrPad s.ntrTap := by
  unfold tapOf tapArg; cases s.ntrTap <;> rfl

/-! ### agc window -/

theorem roundHalf_eq_Q (n : Nat) : roundHalf n = roundHalfQ n 2 := by
  unfold roundHalf roundHalfQ
  have := Nat.mod_two_eq_zero_or_one n
  split <;> split <;> (try split) <;> (try split) <;> omega

theorem agcWin_eq_Q (lagc : Nat) : agcWin lagc = agcWinQ lagc 1 1 1 := by
  unfold agcWin agcWinQ
  rw [roundHalf_eq_Q]; simp

theorem roundHalfQ_bounds (n d : Nat) : n / d ≤ roundHalfQ n d ∧ roundHalfQ n d ≤ n / d + 1 := by
  unfold roundHalfQ
  split
  · omega
  · split
    · omega
    · split <;> omega

/-! ### mirrored padding -/

section pad
variable {β : Type}

theorem padRows_length (pad : Nat) (hpos : 0 < pad) (l : List β) :
    (padRows pad l).length = l.length + 2 * min pad l.length := by
  unfold padRows
  simp only [pyLast, if_neg (by omega : ¬ pad = 0), List.length_append, List.length_reverse, List.length_take,
    List.length_drop]
  omega

/-- element `p` of the padded list is element `mirrorIdx` of the original one (`pad ≤ length`) -/
theorem padRows_getElem? (pad : Nat) (hpos : 0 < pad) (l : List β) (h : pad ≤ l.length) (p : Nat)
    (hp : p < l.length + pad * 2) : (padRows pad l)[p]? = l[mirrorIdx l.length pad p]? := by
  unfold padRows mirrorIdx pyLast
  rw [if_neg (by omega : ¬ pad = 0)]
  by_cases h1 : p < pad
  · rw [if_pos h1, List.append_assoc, List.getElem?_append_left (by simp; omega),
      List.getElem?_reverse (by simp; omega)]
    simp only [List.length_take, List.getElem?_take]
    rw [if_pos (by omega)]
    congr 1; omega
  · rw [if_neg h1]
    by_cases h2 : p < pad + l.length
    · rw [if_pos h2, List.append_assoc, List.getElem?_append_right (by simp; omega)]
      simp only [List.length_reverse, List.length_take]
      rw [List.getElem?_append_left (by omega)]
      congr 1; omega
    · rw [if_neg h2, List.getElem?_append_right (by simp; omega)]
      simp only [List.length_append, List.length_reverse, List.length_take]
      rw [List.getElem?_reverse (by simp; omega)]
      simp only [List.length_drop, List.getElem?_drop]
      congr 1; omega

/-- **Stripping the padding returns exactly the original rows**, for every list and every `pad ≤ length`. -/
theorem strip_padRows (pad : Nat) (hpos : 0 < pad) (l : List β) (h : pad ≤ l.length) :
    stripRows pad (padRows pad l) = l := by
  unfold stripRows
  rw [padRows_length pad hpos, Nat.min_eq_left h]
  unfold padRows
  rw [List.take_left' (by simp; omega)]
  exact List.drop_left' (by simp; omega)

theorem strip_padRowsIf (pad : Nat) (l : List β) (h : pad ≤ l.length) : stripRowsIf pad (padRowsIf pad l) = l := by
  unfold stripRowsIf padRowsIf
  split
  · exact strip_padRows pad (by omega) l h
  · rfl

/-- Without the guard `if ntr_pad > 0` the statement would double the array: `l[-0:]` is the whole list. -/
theorem padRows_zero (l : List β) : padRows 0 l = l ++ l.reverse := by
  simp [padRows, pyLast]

end pad

theorem padIdx_length (nx pad : Nat) (h : pad ≤ nx) : (padIdx nx pad).length = nxpOf nx pad := by
  unfold padIdx padRowsIf nxpOf
  split
  · rw [padRows_length pad (by omega)]; simp; omega
  · simp; omega

/-- the padded row indices are the index map `mirrorIdx` used by the model of `kfilt` -/
theorem padIdx_getElem? (nx pad : Nat) (h : pad ≤ nx) (p : Nat) (hp : p < nx + pad * 2) :
    (padIdx nx pad)[p]? = some (mirrorIdx nx pad p) := by
  have hm : mirrorIdx nx pad p < nx := by
    unfold mirrorIdx; split
    · omega
    · split <;> omega
  unfold padIdx padRowsIf
  split
  · have := padRows_getElem? pad (by omega) (List.range nx) (by simpa using h) p (by simpa using hp)
    rw [this]; simp [hm]
  · have h0 : pad = 0 := by omega
    subst h0
    have hp' : p < nx := by omega
    have : mirrorIdx nx 0 p = p := by
      unfold mirrorIdx; rw [if_neg (by omega), if_pos (by omega)]; omega
    rw [this]; simp [hp']

theorem mirrorIdx_inner (nx pad c : Nat) (hc : c < nx) : mirrorIdx nx pad (c + pad) = c := by
  unfold mirrorIdx
  rw [if_neg (by omega), if_pos (by omega)]; omega

/-- the padding is a mirror about the array edges (the edge row itself is repeated): `k` rows out on the left is row
`k` of the data, `k` rows out on the right is row `nx - 1 - k` -/
theorem mirrorIdx_edges (nx pad k : Nat) (hk : k < pad) :
    mirrorIdx nx pad (pad - 1 - k) = k ∧ mirrorIdx nx pad (pad + nx + k) = nx - 1 - k := by
  unfold mirrorIdx
  constructor
  · rw [if_pos (by omega)]; omega
  · rw [if_neg (by omega), if_neg (by omega)]; omega

end IblVerif.Destripe
