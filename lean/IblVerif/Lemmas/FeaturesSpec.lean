/-
C14 — the vocabulary in which the property theorems are stated (definitions only, no lemmas).
`w : Wave` is one waveform, channel-major: `smp w c t = arr_in[n, t, c]`.
-/
import IblVerif.Model.Features
import Mathlib.Algebra.Order.Field.Rat

namespace IblVerif.Features

/-- sample `arr_in[n, t, c]` of a waveform (0 outside the array; only used inside it) -/
def smp (w : Wave) (c t : Nat) : ℚ := (w.getD c []).getD t 0

/-- the waveform is a `T × C` array: every channel has `T` samples -/
def Rect (T : Nat) (w : Wave) : Prop := ∀ r ∈ w, r.length = T

/-- `(c, t)` is where the largest absolute deflection of the waveform is first reached: no sample is
larger in absolute value, every channel before `c` stays strictly below it, and so does channel `c`
before sample `t` (NumPy's first-occurrence `argmax`, over time and then over channels). -/
def IsPeakLoc (T : Nat) (w : Wave) (c t : Nat) : Prop :=
  c < w.length ∧ t < T ∧
  (∀ c' t', c' < w.length → t' < T → |smp w c' t'| ≤ |smp w c t|) ∧
  (∀ c' t', c' < c → t' < T → |smp w c' t'| < |smp w c t|) ∧
  (∀ t', t' < t → |smp w c t'| < |smp w c t|)

/-- `-1` for a spike with positive peak value `v`, `+1` otherwise: the factor that turns the trace into a
negative-going spike (the column `invert_sign_peak`, whenever `v ≠ 0`) -/
def flipSign (v : ℚ) : ℚ := if 0 < v then -1 else 1

/-- `q` is the first sample in `[lo, hi)` at which `σ · trace` is maximal over `[lo, hi)`
(`σ = 1`: first maximum, `σ = -1`: first minimum of channel `c`). -/
def IsFirstExtremum (w : Wave) (c : Nat) (σ : ℚ) (lo hi q : Nat) : Prop :=
  lo ≤ q ∧ q < hi ∧ (∀ t, lo ≤ t → t < hi → σ * smp w c t ≤ σ * smp w c q) ∧
    (∀ t, lo ≤ t → t < q → σ * smp w c t < σ * smp w c q)

/-- "weakly positive spike": the extremum at `(c, p)` is positive and the first minimum `q` of the
channel from `p` on satisfies `|peak / trough| ≤ 1.5` -/
def WeaklyPositive (T : Nat) (w : Wave) (c p q : Nat) : Prop :=
  0 < smp w c p ∧ IsFirstExtremum w c (-1) p T q ∧ 2 * |smp w c p| ≤ 3 * |smp w c q|

/-- the trace is back within half of the peak value `v` at the sample value `x` -/
def WithinHalf (v x : ℚ) : Prop := if 0 < v then x < v / 2 else v / 2 < x

/-- exactly one channel reaches the largest absolute deflection -/
def UniqueMaxChannel (T : Nat) (w : Wave) : Prop :=
  ∃ c t, c < w.length ∧ t < T ∧ ∀ c' t', c' < w.length → c' ≠ c → t' < T → |smp w c' t'| < |smp w c t|

/-- a non-empty batch `arr_in[N, T, C]` with `N ≥ 1`, `T ≥ 1`, `C ≥ 1` -/
def RectBatch (T : Nat) (ws : List Wave) : Prop := ws ≠ [] ∧ 0 < T ∧ ∀ w ∈ ws, w ≠ [] ∧ Rect T w

end IblVerif.Features
