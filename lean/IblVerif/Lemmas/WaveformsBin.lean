/-
Lemmas about `extractBin` (model of `extract_wfs_cbin`): the chunk slices partition the table, every memmap
row is written exactly once, the final sort puts row `k` where `waveform_index = k`.
-/
import IblVerif.Lemmas.WaveformsChunk
import IblVerif.Lemmas.WaveformsTable
namespace IblVerif.Waveforms

/-! ### A. slices of a table whose sample column is ascending -/

/-- number of rows with `sample < v` -/
def cntLt (rows : List Row) (v : Int) : Nat := (rows.filter (fun r => decide (r.sample < v))).length

theorem searchLeft_rows (rows : List Row) (v : Int) :
    searchLeft (rows.map (·.sample)) v = cntLt rows v := by
  unfold searchLeft cntLt
  rw [List.filter_map, List.length_map]
  rfl

theorem cntLt_mono (rows : List Row) (v w : Int) (h : v ≤ w) : cntLt rows v ≤ cntLt rows w := by
  unfold cntLt
  rw [← List.countP_eq_length_filter, ← List.countP_eq_length_filter]
  apply List.countP_mono_left
  intro r _ hr
  simp only [decide_eq_true_eq] at hr ⊢
  omega

theorem cntLt_le (rows : List Row) (v : Int) : cntLt rows v ≤ rows.length := by
  unfold cntLt; exact List.length_filter_le _ _

theorem take_drop_cnt : ∀ (rows : List Row), rows.Pairwise (fun a b => a.sample ≤ b.sample) → ∀ v : Int,
    rows.take (cntLt rows v) = rows.filter (fun r => decide (r.sample < v)) ∧
    rows.drop (cntLt rows v) = rows.filter (fun r => !decide (r.sample < v))
  | [], _, v => by simp [cntLt]
  | r :: rs, hp, v => by
    rw [List.pairwise_cons] at hp
    have ih := take_drop_cnt rs hp.2 v
    by_cases hr : r.sample < v
    · have hc : cntLt (r :: rs) v = cntLt rs v + 1 := by simp [cntLt, hr]
      rw [hc]
      simp only [List.take_succ_cons, List.drop_succ_cons, List.filter_cons, hr, decide_true, if_true,
        Bool.not_true, Bool.false_eq_true, if_false]
      exact ⟨by rw [ih.1], ih.2⟩
    · have hall : ∀ x ∈ rs, ¬ x.sample < v := fun x hx => by have := hp.1 x hx; omega
      have hnil : rs.filter (fun r => decide (r.sample < v)) = [] :=
        List.filter_eq_nil_iff.mpr (fun x hx => by simp [hall x hx])
      have hself : rs.filter (fun r => !decide (r.sample < v)) = rs :=
        List.filter_eq_self.mpr (fun x hx => by simp [hall x hx])
      have hc : cntLt (r :: rs) v = 0 := by simp [cntLt, hr, hnil]
      rw [hc]
      simp [List.filter_cons, hr, hnil, hself]

/-- rows of a slice `[#(< a), #(< b))` of an ascending table have `a ≤ sample < b` -/
theorem mem_slice (rows : List Row) (hp : rows.Pairwise (fun a b => a.sample ≤ b.sample)) (a b : Int) (r : Row)
    (hr : r ∈ (rows.drop (cntLt rows a)).take (cntLt rows b - cntLt rows a)) : a ≤ r.sample ∧ r.sample < b := by
  constructor
  · have h1 : r ∈ rows.drop (cntLt rows a) := List.mem_of_mem_take hr
    rw [(take_drop_cnt rows hp a).2, List.mem_filter] at h1
    have := h1.2
    simp only [Bool.not_eq_true', decide_eq_false_iff_not] at this
    omega
  · rw [← List.drop_take] at hr
    have h1 : r ∈ rows.take (cntLt rows b) := List.mem_of_mem_drop hr
    rw [(take_drop_cnt rows hp b).1, List.mem_filter] at h1
    simpa using h1.2

/-! ### B. consecutive slices concatenate to the whole -/

theorem slice_append {α} (l : List α) (a b c : Nat) (hab : a ≤ b) (hbc : b ≤ c) :
    (l.drop a).take (b - a) ++ (l.drop b).take (c - b) = (l.drop a).take (c - a) := by
  have h : c - a = (b - a) + (c - b) := by omega
  rw [h, List.take_add, List.drop_drop]
  congr 3
  omega

theorem slices_flatten {α} (l : List α) (cut : Nat → Nat) : ∀ m, (∀ i, i < m → cut i ≤ cut (i + 1)) →
    cut 0 ≤ cut m ∧
    ((List.range m).map fun i => (l.drop (cut i)).take (cut (i + 1) - cut i)).flatten
      = (l.drop (cut 0)).take (cut m - cut 0)
  | 0, _ => by simp
  | m + 1, h => by
    have ih := slices_flatten l cut m (fun i hi => h i (by omega))
    have hm := h m (by omega)
    refine ⟨by omega, ?_⟩
    rw [List.range_succ, List.map_append, List.flatten_append, ih.2]
    simp only [List.map_cons, List.map_nil, List.flatten_cons, List.flatten_nil, List.append_nil]
    exact slice_append l (cut 0) (cut m) (cut (m + 1)) ih.1 hm

/-- the sample bound that separates chunk `j-1` from chunk `j` (`ns` after the last chunk) -/
def cutv (ns cs nchunks j : Nat) : Int := if j = nchunks then (ns : Int) else ((j * cs : Nat) : Int)

theorem chunkEnd_eq_cutv (ns cs nchunks i : Nat) :
    ((chunkEnd ns cs nchunks i : Nat) : Int) = cutv ns cs nchunks (i + 1) := by
  unfold chunkEnd cutv
  split
  · rfl
  · rw [Nat.succ_mul]

theorem chunkRows_eq (rows : List Row) (ns cs nchunks i : Nat) (hi : i < nchunks) :
    chunkRows rows ns cs nchunks i =
      (rows.drop (cntLt rows (cutv ns cs nchunks i))).take
        (cntLt rows (cutv ns cs nchunks (i + 1)) - cntLt rows (cutv ns cs nchunks i)) := by
  unfold chunkRows
  simp only [searchLeft_rows, chunkEnd_eq_cutv]
  have : cutv ns cs nchunks i = ((i * cs : Nat) : Int) := by
    unfold cutv; rw [if_neg (by omega)]
  rw [this]

theorem chunks_partition (rows : List Row) (ns cs : Nat) (hcs : 0 < cs) (hns : 0 < ns)
    (h0 : ∀ r ∈ rows, 0 ≤ r.sample) (h1 : ∀ r ∈ rows, r.sample < ns) :
    ((List.range ((ns + cs - 1) / cs)).map (chunkRows rows ns cs ((ns + cs - 1) / cs))).flatten = rows := by
  generalize hm : (ns + cs - 1) / cs = m
  have hmpos : 0 < m := by
    rw [← hm]; exact (lt_nchunks_iff ns cs 0 hcs).mpr (by omega)
  have hcong : (List.range m).map (chunkRows rows ns cs m) =
      (List.range m).map fun i => (rows.drop (cntLt rows (cutv ns cs m i))).take
        (cntLt rows (cutv ns cs m (i + 1)) - cntLt rows (cutv ns cs m i)) := by
    apply List.map_congr_left
    intro i hi
    exact chunkRows_eq rows ns cs m i (List.mem_range.mp hi)
  rw [hcong]
  have hmono : ∀ i, i < m → cntLt rows (cutv ns cs m i) ≤ cntLt rows (cutv ns cs m (i + 1)) := by
    intro i hi
    apply cntLt_mono
    unfold cutv
    rw [if_neg (by omega)]
    split
    · have : i * cs < ns := (lt_nchunks_iff ns cs i hcs).mp (by rw [hm]; exact hi)
      omega
    · rw [Nat.succ_mul]; omega
  have := (slices_flatten rows (fun j => cntLt rows (cutv ns cs m j)) m hmono).2
  rw [this]
  have hc0 : cntLt rows (cutv ns cs m 0) = 0 := by
    unfold cutv cntLt
    rw [if_neg (by omega)]
    simp only [Nat.zero_mul, Int.ofNat_zero, List.length_eq_zero_iff]
    apply List.filter_eq_nil_iff.mpr
    intro r hr
    have := h0 r hr
    simp only [decide_eq_true_eq]; omega
  have hcm : cntLt rows (cutv ns cs m m) = rows.length := by
    unfold cutv cntLt
    rw [if_pos rfl]
    congr 1
    apply List.filter_eq_self.mpr
    intro r hr
    have := h1 r hr
    simp only [decide_eq_true_eq]; omega
  rw [hc0, hcm]
  simp

/-! ### C. the schedule -/

theorem runSched_ok (job : Nat → Except Err (List (Nat × Wf))) (w : Nat → List (Nat × Wf)) :
    ∀ sched : List Nat, (∀ i ∈ sched, job i = .ok (w i)) → runSched job sched = .ok ((sched.map w).flatten)
  | [], _ => rfl
  | i :: is, h => by
    unfold runSched
    rw [h i (by simp), runSched_ok job w is (fun j hj => h j (by simp [hj]))]
    rfl

/-! ### D. order relations -/

theorem leRow_iff (a b : Row) : leRow a b = true ↔
    a.cluster < b.cluster ∨ (a.cluster = b.cluster ∧ a.sample ≤ b.sample) := by
  unfold leRow; simp

theorem leRow_trans (a b c : Row) : leRow a b = true → leRow b c = true → leRow a c = true := by
  simp only [leRow_iff]; omega

theorem leRow_total (a b : Row) : (leRow a b || leRow b a) = true := by
  simp only [Bool.or_eq_true, leRow_iff]; omega

theorem leCluster_trans (cl : Nat → Int) (a b c : Nat) :
    leCluster cl a b = true → leCluster cl b c = true → leCluster cl a c = true := by
  unfold leCluster; simp only [decide_eq_true_eq]; omega

theorem leCluster_total (cl : Nat → Int) (a b : Nat) : (leCluster cl a b || leCluster cl b a) = true := by
  unfold leCluster; simp only [Bool.or_eq_true, decide_eq_true_eq]; omega

/-- the stable argsort of the cluster column -/
def orderOf (cl : Nat → Int) (n : Nat) : List Nat := (List.range n).wvSort (leCluster cl)

theorem orderOf_perm (cl : Nat → Int) (n : Nat) : (orderOf cl n).Perm (List.range n) :=
  List.wvSort_perm _ _

theorem orderOf_nodup (cl : Nat → Int) (n : Nat) : (orderOf cl n).Nodup :=
  (orderOf_perm cl n).nodup_iff.mpr List.nodup_range

theorem orderOf_length (cl : Nat → Int) (n : Nat) : (orderOf cl n).length = n := by
  rw [(orderOf_perm cl n).length_eq, List.length_range]

theorem mem_orderOf (cl : Nat → Int) (n k : Nat) : k ∈ orderOf cl n ↔ k < n := by
  rw [(orderOf_perm cl n).mem_iff, List.mem_range]

theorem orderOf_pairwise (cl : Nat → Int) (n : Nat) :
    (orderOf cl n).Pairwise (fun a b => cl a ≤ cl b ∧ (cl b ≤ cl a → a < b)) := by
  have h := wvSort_stable_pairwise (leCluster_trans cl) (leCluster_total cl) (List.range n) List.nodup_range
  apply h.imp
  intro a b ⟨h1, h2⟩
  unfold leCluster at h1 h2
  simp only [decide_eq_true_eq] at h1 h2
  refine ⟨h1, fun hba => ?_⟩
  have hsub := h2 hba
  have : List.Pairwise (· < ·) [a, b] := List.Pairwise.sublist hsub List.pairwise_lt_range
  simpa using this

/-- the position of `k` in the argsort: `waveform_index` of row `k` -/
theorem idxOf_orderOf_lt (cl : Nat → Int) (n k : Nat) (hk : k < n) : (orderOf cl n).idxOf k < n := by
  have := List.idxOf_lt_length_iff.mpr ((mem_orderOf cl n k).mpr hk)
  rwa [orderOf_length] at this

theorem idxOf_orderOf_inj (cl : Nat → Int) (n a b : Nat) (ha : a < n) (hb : b < n)
    (h : (orderOf cl n).idxOf a = (orderOf cl n).idxOf b) : a = b := by
  have h1 := List.idxOf_lt_length_iff.mpr ((mem_orderOf cl n a).mpr ha)
  have h2 := List.idxOf_lt_length_iff.mpr ((mem_orderOf cl n b).mpr hb)
  have e1 := List.getElem_idxOf h1
  have e2 := List.getElem_idxOf h2
  rw [← e1, ← e2]
  congr 1

/-! ### E. properties of a table with distinct `index`, `wi = position in the argsort` -/

structure GoodTable (rows : List Row) (cl : Nat → Int) : Prop where
  hidx : ∀ k (hk : k < rows.length), rows[k].index = k
  hcl : ∀ k (hk : k < rows.length), rows[k].cluster = cl k
  hwi : ∀ k (hk : k < rows.length), rows[k].wi = (orderOf cl rows.length).idxOf k
  hmono : rows.Pairwise (fun a b => a.sample ≤ b.sample)

theorem GoodTable.pairwise_index {rows : List Row} {cl : Nat → Int} (g : GoodTable rows cl) :
    rows.Pairwise (fun a b => a.index < b.index) := by
  rw [List.pairwise_iff_getElem]
  intro i j hi hj hij
  rw [g.hidx i hi, g.hidx j hj]; exact hij

theorem GoodTable.nodup {rows : List Row} {cl : Nat → Int} (g : GoodTable rows cl) : rows.Nodup :=
  g.pairwise_index.imp (fun h heq => by rw [heq] at h; omega)

theorem GoodTable.wi_nodup {rows : List Row} {cl : Nat → Int} (g : GoodTable rows cl) :
    (rows.map (·.wi)).Nodup := by
  unfold List.Nodup
  rw [List.pairwise_map, List.pairwise_iff_getElem]
  intro i j hi hj hij heq
  rw [g.hwi i hi, g.hwi j hj] at heq
  have := idxOf_orderOf_inj cl rows.length i j hi hj heq
  omega

/-- the row that carries `waveform_index = k` -/
theorem GoodTable.row_of_wi {rows : List Row} {cl : Nat → Int} (g : GoodTable rows cl) (k : Nat)
    (hk : k < rows.length) :
    ∃ (h : (orderOf cl rows.length)[k]'(by rw [orderOf_length]; exact hk) < rows.length),
      (rows[(orderOf cl rows.length)[k]'(by rw [orderOf_length]; exact hk)]).wi = k := by
  have hk' : k < (orderOf cl rows.length).length := by rw [orderOf_length]; exact hk
  have hmem : (orderOf cl rows.length)[k] ∈ orderOf cl rows.length := List.getElem_mem hk'
  have hlt := (mem_orderOf cl rows.length _).mp hmem
  refine ⟨hlt, ?_⟩
  rw [g.hwi _ hlt]
  exact List.Nodup.idxOf_getElem (orderOf_nodup cl rows.length) k hk'

/-- **the final sort**: sorting the table by (cluster, sample) puts at position `k` the row whose
`waveform_index` is `k` -/
theorem GoodTable.sorted_eq {rows : List Row} {cl : Nat → Int} (g : GoodTable rows cl) :
    rows.wvSort leRow = (orderOf cl rows.length).map (fun k => rows.getD k default) := by
  let LT3 : Row → Row → Prop := fun a b => leRow a b = true ∧ (leRow b a = true → a.index < b.index)
  have hrows : (List.range rows.length).map (fun k => rows.getD k default) = rows := by
    apply List.ext_getElem
    · simp
    · intro k h1 h2
      have hk : k < rows.length := by simpa using h1
      simp [List.getD_eq_getElem?_getD, List.getElem?_eq_getElem hk]
  apply List.Perm.eq_of_pairwise (le := LT3)
  · intro a b _ _ h1 h2
    have := h1.2 h2.1
    have := h2.2 h1.1
    omega
  · -- the stable sort
    have h := wvSort_stable_pairwise leRow_trans leRow_total rows g.nodup
    apply h.imp
    intro a b ⟨h1, h2⟩
    refine ⟨h1, fun hba => ?_⟩
    have : List.Pairwise (fun a b => a.index < b.index) [a, b] := List.Pairwise.sublist (h2 hba) g.pairwise_index
    simpa using this
  · -- the argsort
    rw [List.pairwise_map]
    apply List.Pairwise.imp_of_mem _ (orderOf_pairwise cl rows.length)
    intro a b ha hb ⟨h1, h2⟩
    have ha' := (mem_orderOf cl rows.length a).mp ha
    have hb' := (mem_orderOf cl rows.length b).mp hb
    simp only [List.getD_eq_getElem?_getD, List.getElem?_eq_getElem ha', List.getElem?_eq_getElem hb',
      Option.getD_some]
    show leRow rows[a] rows[b] = true ∧ (leRow rows[b] rows[a] = true → rows[a].index < rows[b].index)
    rw [leRow_iff, leRow_iff, g.hcl a ha', g.hcl b hb', g.hidx a ha', g.hidx b hb']
    by_cases hlt : cl a < cl b
    · exact ⟨Or.inl hlt, fun h => by omega⟩
    · have hab : a < b := h2 (by omega)
      have hs : rows[a].sample ≤ rows[b].sample := (List.pairwise_iff_getElem.mp g.hmono) a b ha' hb' hab
      exact ⟨Or.inr ⟨by omega, hs⟩, fun _ => hab⟩
  · refine (List.wvSort_perm rows leRow).trans ?_
    have := (orderOf_perm cl rows.length).map (fun k => rows.getD k default)
    rw [hrows] at this
    exact this.symm

/-- the table produced by `makeTable` is a good table -/
theorem tableRows_good (sp : List Spike) (idx : List Nat) (hidx : idx.Pairwise (· < ·))
    (hlt : ∀ j ∈ idx, j < sp.length) (hsp : sp.Pairwise (fun a b => a.sample ≤ b.sample)) :
    GoodTable (tableRows sp idx) (fun a => (sp.getD (idx.getD a 0) default).cluster) := by
  have hlen := tableRows_length sp idx
  refine ⟨?_, ?_, ?_, ?_⟩
  · intro k hk; simp [tableRows]
  · intro k hk; simp [tableRows]
  · intro k hk
    rw [hlen]
    simp [tableRows, orderOf]
  · rw [List.pairwise_iff_getElem]
    intro i j hi hj hij
    have hi' : i < idx.length := by rw [← hlen]; exact hi
    have hj' : j < idx.length := by rw [← hlen]; exact hj
    have h1 : idx[i] < idx[j] := (List.pairwise_iff_getElem.mp hidx) i j hi' hj' hij
    have hli : idx[i] < sp.length := hlt _ (List.getElem_mem hi')
    have hlj : idx[j] < sp.length := hlt _ (List.getElem_mem hj')
    have h2 := (List.pairwise_iff_getElem.mp hsp) idx[i] idx[j] hli hlj h1
    simp only [tableRows, List.getElem_map, List.getElem_range, List.getD_eq_getElem?_getD,
      List.getElem?_eq_getElem hi', List.getElem?_eq_getElem hj', Option.getD_some,
      List.getElem?_eq_getElem hli, List.getElem?_eq_getElem hlj]
    exact h2

/-! ### F. the memmap -/

theorem mmRow_of_perm {rows : List Row} {cl : Nat → Int} (g : GoodTable rows cl) (f : Row → Wf)
    (writes : List (Nat × Wf)) (hw : writes.Perm (rows.map fun r => (r.wi, f r))) (nnb len k : Nat)
    (hk : k < rows.length) :
    mmRow nnb len writes k = f (rows.getD ((orderOf cl rows.length).getD k 0) default) := by
  obtain ⟨hlt, hwi⟩ := g.row_of_wi k hk
  have hk' : k < (orderOf cl rows.length).length := by rw [orderOf_length]; exact hk
  have hr : rows.getD ((orderOf cl rows.length).getD k 0) default = rows[(orderOf cl rows.length)[k]] := by
    simp [List.getD_eq_getElem?_getD, List.getElem?_eq_getElem hk', List.getElem?_eq_getElem hlt]
  rw [hr]
  generalize hrdef : rows[(orderOf cl rows.length)[k]] = r at hwi
  have hmem : r ∈ rows := by rw [← hrdef]; exact List.getElem_mem hlt
  have h1 : (rows.map fun r => (r.wi, f r)).filter (fun w => w.1 == k) = [(r.wi, f r)] := by
    rw [List.filter_map]
    have : rows.filter ((fun w : Nat × Wf => w.1 == k) ∘ fun r => (r.wi, f r)) = [r] := by
      rw [← filter_eq_singleton (·.wi) rows r g.wi_nodup hmem]
      apply List.filter_congr
      intro y _
      simp only [Function.comp, hwi]
      by_cases h : y.wi = k <;> simp [h]
    rw [this]; rfl
  have h2 : writes.filter (fun w => w.1 == k) = [(r.wi, f r)] := by
    have := hw.filter (fun w => w.1 == k)
    rw [h1] at this
    exact List.perm_singleton.mp this
  unfold mmRow
  rw [h2]
  rfl

/-! ### G. `index_within_clusters` can be computed (no ValueError) -/

theorem insertU_of_lt_all (x : Int) : ∀ l : List Int, (∀ y ∈ l, x < y) → insertU x l = x :: l
  | [], _ => rfl
  | y :: ys, h => by
    unfold insertU
    rw [if_pos (h y (by simp))]

theorem insertU_of_mem (x : Int) : ∀ l : List Int, l.Pairwise (· < ·) → x ∈ l → insertU x l = l
  | [], _, h => by simp at h
  | y :: ys, hp, h => by
    rw [List.pairwise_cons] at hp
    unfold insertU
    rcases List.mem_cons.mp h with rfl | h'
    · simp
    · have : y < x := hp.1 x h'
      rw [if_neg (by omega), if_neg (by omega), insertU_of_mem x ys hp.2 h']

theorem cumsumM1_length : ∀ (a : Int) (l : List Int), (cumsumM1 a l).length = l.length
  | _, [] => rfl
  | a, x :: xs => by simp [cumsumM1, cumsumM1_length (a + x) xs]

theorem iwcSteps_ok : ∀ (cl : List Int) (prev : Int) (counts : List Int),
    (prev :: cl).Pairwise (· ≤ ·) → counts.length + 1 = (unique (prev :: cl)).length →
    ∃ steps, iwcSteps prev cl counts = .ok steps ∧ steps.length = cl.length
  | [], prev, counts, _, hc => by
    have : counts = [] := by
      have : (unique [prev]).length = 1 := by simp [unique, insertU]
      rw [this] at hc
      exact List.length_eq_zero_iff.mp (by omega)
    subst this
    exact ⟨[], rfl, rfl⟩
  | c :: cs, prev, counts, hp, hc => by
    have hp' : (c :: cs).Pairwise (· ≤ ·) := (List.pairwise_cons.mp hp).2
    have hprev : ∀ y ∈ c :: cs, prev ≤ y := (List.pairwise_cons.mp hp).1
    have huniq : unique (prev :: c :: cs) = insertU prev (unique (c :: cs)) := rfl
    by_cases hcp : c = prev
    · subst hcp
      have : insertU c (unique (c :: cs)) = unique (c :: cs) :=
        insertU_of_mem c _ (unique_sorted _) ((mem_unique c _).mpr (by simp))
      rw [huniq, this] at hc
      obtain ⟨steps, h1, h2⟩ := iwcSteps_ok cs c counts hp' hc
      refine ⟨1 :: steps, ?_, by simp [h2]⟩
      cases counts <;> simp [iwcSteps, h1] <;> rfl
    · have hlt : prev < c := by have := hprev c (by simp); omega
      have hall : ∀ y ∈ unique (c :: cs), prev < y := by
        intro y hy
        have hy' := (mem_unique y _).mp hy
        rcases List.mem_cons.mp hy' with rfl | hy''
        · exact hlt
        · have := (List.pairwise_cons.mp hp').1 y hy''; omega
      rw [huniq, insertU_of_lt_all prev _ hall] at hc
      simp only [List.length_cons] at hc
      cases counts with
      | nil =>
        have : 0 < (unique (c :: cs)).length := by
          have : c ∈ unique (c :: cs) := (mem_unique c _).mpr (by simp)
          exact List.length_pos_of_mem this
        simp only [List.length_nil] at hc; omega
      | cons n ns =>
        simp only [List.length_cons] at hc
        obtain ⟨steps, h1, h2⟩ := iwcSteps_ok cs c ns hp' (by omega)
        refine ⟨(-n + 1) :: steps, ?_, by simp [h2]⟩
        simp [iwcSteps, hcp, h1]; rfl

end IblVerif.Waveforms
