/-
Helper lemmas for C14: `pick_maxima` / `pick_maximum` / `find_peak` on one waveform.
-/
import IblVerif.Lemmas.FeaturesBasic

namespace IblVerif.Features

/-- what `pick_maxima` returns for one channel -/
theorem pickMaxima_row (r : Row) (hne : r ≠ []) :
    ∃ m, (do let a := r.map qabs; let m ← listMax a; pure (argmaxBy ltQ a, m) : Except Err (Nat × Rat)) = .ok (argmaxBy ltQ (r.map qabs), m) ∧
      (r.map qabs)[argmaxBy ltQ (r.map qabs)]? = some m ∧ ∀ y ∈ r, qabs y ≤ m := by
  have hne' : r.map qabs ≠ [] := by simpa using hne
  obtain ⟨m, hm, _, hmax⟩ := listMax_spec _ hne'
  refine ⟨m, by simp [hm], listMax_eq_argmax _ _ hm, ?_⟩
  intro y hy
  exact hmax _ (List.mem_map_of_mem hy)

theorem findPeak_spec (T : Nat) (w : Wave) (hR : Rect T w) (hT : 0 < T) (hw : w ≠ []) :
    ∃ pk row, findPeak w = .ok pk ∧ w[pk.trace]? = some row ∧ row[pk.p]? = some pk.v ∧
      IsPeakLoc T w pk.trace pk.p := by
  have hrow_ne : ∀ r ∈ w, r ≠ [] := by
    intro r hr h; have := hR r hr; rw [h] at this; simp at this; omega
  -- pick_maxima
  obtain ⟨mx, hmx⟩ := mapM_ok_of_forall (f := fun r => (do let a := r.map qabs; let m ← listMax a; pure (argmaxBy ltQ a, m) : Except Err (Nat × Rat)))
    (l := w) (fun r hr => by obtain ⟨m, h, _⟩ := pickMaxima_row r (hrow_ne r hr); exact ⟨_, h⟩)
  obtain ⟨hlen, hidx⟩ := mapM_ok_iff.mp hmx
  have hmx_c : ∀ (c : Nat) r b, w[c]? = some r → mx[c]? = some b →
      b.1 = argmaxBy ltQ (r.map qabs) ∧ (r.map qabs)[b.1]? = some b.2 ∧ ∀ y ∈ r, qabs y ≤ b.2 := by
    intro c r b hr hb
    have h1 := hidx c r b hr hb
    obtain ⟨m, h2, h3, h4⟩ := pickMaxima_row r (hrow_ne r (List.mem_of_getElem? hr))
    rw [h2] at h1
    cases h1
    exact ⟨rfl, h3, h4⟩
  have hmx_ne : mx ≠ [] := by
    intro h; rw [h] at hlen; simp at hlen; exact hw (List.eq_nil_of_length_eq_zero hlen.symm)
  have hvals_ne : mx.map (·.2) ≠ [] := by simpa using hmx_ne
  obtain ⟨M, hM, hMmax, hMfirst⟩ := argmaxBy_spec strictWeak_ltQ _ hvals_ne
  set trace := argmaxBy ltQ (mx.map (·.2)) with htrace
  have htr_lt : trace < mx.length := by
    have := argmaxBy_lt_length strictWeak_ltQ _ hvals_ne; simpa using this
  have hb : mx[trace]? = some mx[trace] := List.getElem?_eq_getElem htr_lt
  have hrw : w[trace]? = some w[trace] := List.getElem?_eq_getElem (by omega)
  obtain ⟨e1, e2, e3⟩ := hmx_c trace _ _ hrw hb
  have hM' : (mx[trace]).2 = M := by
    rw [List.getElem?_map, hb] at hM; simpa using hM
  -- the peak value
  have hp_lt : (mx[trace]).1 < (w[trace]).length := by
    have := (List.getElem?_eq_some_iff.mp e2).1; simpa using this
  have hv : (w[trace])[(mx[trace]).1]? = some ((w[trace])[(mx[trace]).1]) := List.getElem?_eq_getElem hp_lt
  have hqv : qabs ((w[trace])[(mx[trace]).1]) = M := by
    rw [List.getElem?_map, hv] at e2; simp at e2; rw [e2, hM']
  refine ⟨⟨trace, (mx[trace]).1, (w[trace])[(mx[trace]).1]⟩, w[trace], ?_, hrw, hv, ?_⟩
  · unfold findPeak
    simp only [pickMaxima]
    rw [hmx]
    simp [hmx_ne, ← htrace, idx_ok hb, idx_ok hrw, idx_ok hv]
  · show IsPeakLoc T w trace (mx[trace]).1
    have hTrow : (w[trace]).length = T := rect_row hR hrw
    have hsmp : smp w trace (mx[trace]).1 = (w[trace])[(mx[trace]).1] := smp_of_getElem? hrw hv
    refine ⟨by omega, by omega, ?_, ?_, ?_⟩
    · intro c' t' hc' ht'
      obtain ⟨r', hr', hl', hx'⟩ := getElem?_of_rect hR hc' ht'
      have hb' : mx[c']? = some mx[c'] := List.getElem?_eq_getElem (by omega)
      obtain ⟨_, _, f3⟩ := hmx_c c' _ _ hr' hb'
      have h1 := f3 _ (List.mem_of_getElem? hx')
      have h2 := hMmax c' (mx[c']).2 (by rw [List.getElem?_map, hb']; rfl)
      simp [ltQ] at h2
      rw [hsmp, ← qabs_eq_abs, ← qabs_eq_abs, hqv]
      exact le_trans h1 h2
    · intro c' t' hc' ht'
      have hc'' : c' < w.length := by omega
      obtain ⟨r', hr', hl', hx'⟩ := getElem?_of_rect hR hc'' ht'
      have hb' : mx[c']? = some mx[c'] := List.getElem?_eq_getElem (by omega)
      obtain ⟨_, _, f3⟩ := hmx_c c' _ _ hr' hb'
      have h1 := f3 _ (List.mem_of_getElem? hx')
      have h2 := hMfirst c' (mx[c']).2 hc' (by rw [List.getElem?_map, hb']; rfl)
      simp [ltQ] at h2
      rw [hsmp, ← qabs_eq_abs, ← qabs_eq_abs, hqv]
      exact lt_of_le_of_lt h1 h2
    · intro t' ht'
      have ht'' : t' < T := by omega
      obtain ⟨r', hr', hl', hx'⟩ := getElem?_of_rect hR (by omega : trace < w.length) ht''
      rw [hrw] at hr'; cases hr'
      obtain ⟨m0, g0, _, gfirst⟩ := argmaxBy_spec strictWeak_ltQ ((w[trace]).map qabs) (by simpa using hrow_ne _ (List.mem_of_getElem? hrw))
      rw [← e1] at g0 gfirst
      rw [e2] at g0; cases g0
      have := gfirst t' (qabs (smp w trace t')) ht' (by rw [List.getElem?_map, hx']; rfl)
      simp [ltQ] at this
      rw [hsmp, ← qabs_eq_abs, ← qabs_eq_abs, hqv, ← hM']
      exact this

end IblVerif.Features
