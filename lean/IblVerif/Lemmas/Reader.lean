/-
Lemmas about `Reader.readM` (Model/Reader.lean): agreement with the NumPy-indexing specification `selectM`,
the mtscomp sample axis on the selector kinds it supports, closed form for slice × slice reads.  Core Lean only.
-/
import IblVerif.Model.Reader
import IblVerif.Lemmas.PySlice

-- needed to `decide` concrete witnesses of the model results
deriving instance DecidableEq for Except

namespace IblVerif.Reader
open IblVerif.PySlice

/-- Uncompressed file: `read` is NumPy indexing of the whole calibrated array, for every selector pair. -/
theorem readM_bin_eq_selectM {α β γ : Type} (cast : Int → α) (mul : α → γ → β) (r : Rec γ)
    (hb : r.cbin = false) (nsel csel : Sel) :
    readM cast mul r nsel csel = selectM (calibratedAt cast mul r) r.ns r.nc nsel csel := by
  unfold readM readAt selectM
  simp only [hb, Bool.false_eq_true, if_false]
  cases hc : axisSel csel r.nc with
  | error e => rfl
  | ok cpos =>
    cases hr : axisSel nsel r.ns with
    | error e => rfl
    | ok rpos =>
      cases rpos <;> cases cpos <;>
        simp [Axis.map, calibratedAt, bind, Except.bind, List.zipWith_map, List.map_map, Function.comp_def]

/-- The selector kinds mtscomp serves like NumPy: a Python int that is not below `-ns`, a slice whose step is
`None` or positive. -/
def CbinSupported (nsel : Sel) (ns : Nat) : Prop :=
  match nsel with
  | .int i => -(ns : Int) ≤ i
  | .slice s => 0 < s.stepVal
  | _ => False

theorem cbinValidate_eq_adjust (v : Int) (n : Nat) (d : Int) (st : Int) (hst : 0 < st) :
    cbinValidate (some v) d n = adjust v n st := by
  unfold cbinValidate adjust
  simp only
  repeat' split
  all_goals omega

theorem rowsCbin_eq_axisSel (nsel : Sel) (ns : Nat) (h : CbinSupported nsel ns) :
    rowsCbin nsel ns = axisSel nsel ns := by
  cases nsel with
  | int i =>
    simp only [CbinSupported] at h
    unfold rowsCbin axisSel normIndex
    by_cases h0 : 0 ≤ i
    · by_cases h1 : i < ns
      · simp [h0, h1, liftIdx, show ¬ i < 0 by omega, Except.map]
      · simp [h0, h1, liftIdx, show ¬ i < 0 by omega, Except.map]
    · have hneg : i < 0 := by omega
      have hn : (0 : Int) < ns := by omega
      have hm : i % (ns : Int) = i + ns := by
        have e : (i + (ns : Int)) % (ns : Int) = i % (ns : Int) := Int.add_emod_right i ns
        rw [← e]
        exact Int.emod_eq_of_lt (by omega) (by omega)
      simp [hneg, hm, h, liftIdx, Except.map, show ¬ (0 ≤ i ∧ i < (ns : Int)) by omega,
        show 0 ≤ i + (ns : Int) by omega]
      omega
  | npint i => exact absurd h (by simp [CbinSupported])
  | list l => exact absurd h (by simp [CbinSupported])
  | slice s =>
    simp only [CbinSupported] at h
    have h0 : s.stepVal ≠ 0 := by omega
    have hi : indices s ns = some
        (cbinValidate s.start 0 ns, cbinValidate s.stop ns ns, s.stepVal) := by
      unfold indices
      simp only [h0, if_false, show ¬ s.stepVal < 0 by omega]
      cases hs : s.start <;> cases hp : s.stop <;>
        simp [cbinValidate_eq_adjust _ _ _ _ h] <;> (simp [cbinValidate]) <;> omega
    unfold rowsCbin axisSel sliceIndices
    simp only [hi, h0, if_false, show ¬ s.stepVal < 0 by omega]
    split
    · rename_i hle
      have : rangeLen (cbinValidate s.start 0 ns) (cbinValidate s.stop ns ns) s.stepVal = 0 :=
        (rangeLen_eq_zero_iff _ _ _ h0).mpr ⟨fun _ => hle, fun hh => by omega⟩
      rw [pyRange_eq_map _ _ _ h0, this]
      rfl
    · rfl

/-- Compressed file, supported selector kinds: `read` is NumPy indexing of the whole calibrated array. -/
theorem readM_cbin_eq_selectM {α β γ : Type} (cast : Int → α) (mul : α → γ → β) (r : Rec γ)
    (nsel csel : Sel) (h : CbinSupported nsel r.ns) :
    readM cast mul r nsel csel = selectM (calibratedAt cast mul r) r.ns r.nc nsel csel := by
  by_cases hb : r.cbin = false
  · exact readM_bin_eq_selectM cast mul r hb nsel csel
  · have hb' : r.cbin = true := by simpa using hb
    have e1 : readM cast mul r nsel csel = readM cast mul { r with cbin := false } nsel csel := by
      unfold readM readAt
      simp only [hb', if_true, Bool.false_eq_true, if_false, rowsCbin_eq_axisSel nsel r.ns h]
    rw [e1, readM_bin_eq_selectM cast mul { r with cbin := false } rfl nsel csel]
    rfl

/-- `sr[(i, j, k, …)]` with a tuple of another length than two: the tuple is the sample selector. -/
theorem getitemM_intTuple {α β γ : Type} (cast : Int → α) (mul : α → γ → β) (r : Rec γ) (l : List Int)
    (hl : l.length ≠ 2) :
    getitemM cast mul r (.intTuple l) = readAt cast mul r (rowsTuple r.cbin l r.ns) (.slice Slice.all) := by
  match l, hl with
  | [], _ => rfl
  | [_], _ => rfl
  | [_, _], h => exact absurd rfl h
  | _ :: _ :: _ :: _, _ => rfl

/-- Slice × slice on an uncompressed file, entry by entry: row `p`, column `q` of the result is the raw sample
`start_n + p·step_n` of on-disk channel `order (start_c + q·step_c)` times that channel's factor. -/
theorem readM_slice_slice {α β γ : Type} (cast : Int → α) (mul : α → γ → β) (r : Rec γ)
    (hb : r.cbin = false) (sn sc : Slice) (a b st a' b' st' : Int)
    (hn : indices sn r.ns = some (a, b, st)) (hc : indices sc r.nc = some (a', b', st')) :
    readM cast mul r (.slice sn) (.slice sc) =
      .ok (.mat (rangeLen a' b' st')
        ((List.range (rangeLen a b st)).map fun p : Nat =>
          (List.range (rangeLen a' b' st')).map fun q : Nat =>
            mul (cast (r.raw (a + p * st).toNat (r.order (a' + q * st').toNat)))
              (r.s2v (r.order (a' + q * st').toNat)))) := by
  rw [readM_bin_eq_selectM cast mul r hb]
  simp only [selectM, axisSel, sliceIndices_spec sn r.ns a b st hn, sliceIndices_spec sc r.nc a' b' st' hc]
  simp [bind, Except.bind, calibratedAt, List.map_map, Function.comp_def]

end IblVerif.Reader
