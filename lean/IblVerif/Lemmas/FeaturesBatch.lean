/-
Helper lemmas for C14: the vectorised batch pipeline (`batch`, with the `df_index` sub-selection and
write-back of the peak/trough swap) computes `rowFeatures` on every waveform.
-/
import IblVerif.Lemmas.FeaturesBasic
import Mathlib.Data.List.Nodup

namespace IblVerif.Features

instance : Inhabited St := ⟨⟨0, 0, 0, 0, 0, 0, [], []⟩⟩

/-! ### `df.loc[df_index] = df_rows` -/

theorem writeBack_cons {ss : List St} {j : Nat} {ix : List Nat} {r : St} {rows : List St} :
    writeBack ss (j :: ix) (r :: rows) = writeBack (ss.set j r) ix rows := by
  simp [writeBack]

theorem writeBack_length (ss : List St) (ix : List Nat) (rows : List St) :
    (writeBack ss ix rows).length = ss.length := by
  induction ix generalizing ss rows with
  | nil => simp [writeBack]
  | cons j ix ih =>
    cases rows with
    | nil => simp [writeBack]
    | cons r rows => rw [writeBack_cons, ih]; simp

theorem writeBack_not_mem (ss : List St) (ix : List Nat) (rows : List St) (i : Nat) (hi : i ∉ ix) :
    (writeBack ss ix rows)[i]? = ss[i]? := by
  induction ix generalizing ss rows with
  | nil => simp [writeBack]
  | cons j ix ih =>
    cases rows with
    | nil => simp [writeBack]
    | cons r rows =>
      rw [writeBack_cons, ih _ _ (fun h => hi (List.mem_cons_of_mem _ h))]
      have : j ≠ i := fun h => hi (h ▸ List.mem_cons_self)
      rw [List.getElem?_set_ne this]

theorem writeBack_mem (ss : List St) (ix : List Nat) (rows : List St) (hnd : ix.Nodup)
    (hlt : ∀ j ∈ ix, j < ss.length) (m i : Nat) (r : St) (hm : ix[m]? = some i) (hr : rows[m]? = some r) :
    (writeBack ss ix rows)[i]? = some r := by
  induction ix generalizing ss rows m with
  | nil => simp at hm
  | cons j ix ih =>
    cases rows with
    | nil => simp at hr
    | cons r0 rows =>
      rw [writeBack_cons]
      have hnd' := List.nodup_cons.mp hnd
      cases m with
      | zero =>
        simp at hm hr; subst hm hr
        rw [writeBack_not_mem _ _ _ _ hnd'.1]
        rw [List.getElem?_set_self (hlt j List.mem_cons_self)]
      | succ m =>
        exact ih _ _ hnd'.2 (fun j' hj' => by simpa using hlt j' (List.mem_cons_of_mem _ hj')) m
          (by simpa using hm) (by simpa using hr)

/-! ### `df_index` -/

theorem mem_condIdx (ss : List St) (i : Nat) : i ∈ condIdx ss ↔ ∃ s, ss[i]? = some s ∧ swapCond s = true := by
  unfold condIdx
  rw [List.mem_filter, List.mem_range]
  constructor
  · rintro ⟨hi, h⟩
    rw [List.getElem?_eq_getElem hi] at h
    exact ⟨ss[i], List.getElem?_eq_getElem hi, h⟩
  · rintro ⟨s, hs, hc⟩
    have hi : i < ss.length := (List.getElem?_eq_some_iff.mp hs).1
    refine ⟨hi, ?_⟩
    rw [hs]; exact hc

theorem condIdx_nodup (ss : List St) : (condIdx ss).Nodup := by
  unfold condIdx
  exact List.Nodup.filter _ List.nodup_range

theorem condIdx_lt (ss : List St) : ∀ j ∈ condIdx ss, j < ss.length := by
  intro j hj
  obtain ⟨s, hs, _⟩ := (mem_condIdx ss j).mp hj
  exact (List.getElem?_eq_some_iff.mp hs).1

theorem select_ok_iff (ss : List St) (ix : List Nat) (rows : List St) :
    select ss ix = .ok rows ↔ rows.length = ix.length ∧
      ∀ (m : Nat) j r, ix[m]? = some j → rows[m]? = some r → ss[j]? = some r := by
  unfold select
  rw [mapM_ok_iff]
  constructor
  · rintro ⟨h1, h2⟩
    exact ⟨h1, fun m j r hj hr => idx_eq_ok.mp (h2 m j r hj hr)⟩
  · rintro ⟨h1, h2⟩
    exact ⟨h1, fun m j r hj hr => idx_eq_ok.mpr (h2 m j r hj hr)⟩

/-- the swap block of `find_tip_trough` is `swapStep` on every row -/
theorem swapBlock_ok_iff (s1 s2 : List St) :
    swapBlock s1 = .ok s2 ↔ s1.mapM swapStep = .ok s2 := by
  unfold swapBlock
  simp only
  by_cases hemp : (condIdx s1).isEmpty = true
  · rw [if_pos hemp]
    have hnil : condIdx s1 = [] := List.isEmpty_iff.mp hemp
    have hstep : ∀ s ∈ s1, swapStep s = .ok s := by
      intro s hs
      obtain ⟨i, hi, rfl⟩ := List.getElem_of_mem hs
      have : i ∉ condIdx s1 := by rw [hnil]; simp
      rw [mem_condIdx] at this
      have hc : swapCond s1[i] = false := by
        by_contra h
        exact this ⟨_, List.getElem?_eq_getElem hi, by simpa using h⟩
      simp [swapStep, hc]
    have : s1.mapM swapStep = .ok s1 := by
      have := mapM_map_ok (f := swapStep) (g := id) (l := s1) hstep
      simpa using this
    rw [this]
    simp
  · rw [if_neg hemp]
    constructor
    · intro h
      obtain ⟨rows, hsel, h⟩ := bind_eq_ok.mp h
      obtain ⟨rows', hrows', h⟩ := bind_eq_ok.mp h
      simp only [pure_eq_ok, Except.ok.injEq] at h
      subst h
      obtain ⟨hl1, hsel'⟩ := (select_ok_iff _ _ _).mp hsel
      obtain ⟨hl2, hsw⟩ := mapM_ok_iff.mp hrows'
      rw [mapM_ok_iff]
      refine ⟨writeBack_length _ _ _, ?_⟩
      intro i a b ha hb
      by_cases hmem : i ∈ condIdx s1
      · obtain ⟨m, hm, hmi⟩ := List.getElem_of_mem hmem
        have hm' : (condIdx s1)[m]? = some i := by rw [List.getElem?_eq_getElem hm, hmi]
        have hr : rows[m]? = some rows[m] := List.getElem?_eq_getElem (by omega)
        have hr' : rows'[m]? = some rows'[m] := List.getElem?_eq_getElem (by omega)
        have e1 := hsel' m i _ hm' hr
        rw [ha] at e1; cases e1
        have e2 := writeBack_mem s1 (condIdx s1) rows' (condIdx_nodup s1) (condIdx_lt s1) m i _ hm' hr'
        rw [hb] at e2; cases e2
        obtain ⟨s, hs, hc⟩ := (mem_condIdx s1 i).mp hmem
        rw [ha] at hs; cases hs
        simp only [swapStep, hc, if_true]
        exact hsw m _ _ hr hr'
      · rw [writeBack_not_mem _ _ _ _ hmem, ha] at hb
        cases hb
        have hc : swapCond a = false := by
          by_contra h
          exact hmem ((mem_condIdx s1 i).mpr ⟨a, ha, by simpa using h⟩)
        simp [swapStep, hc]
    · intro h
      obtain ⟨hl, hstep⟩ := mapM_ok_iff.mp h
      have hlt := condIdx_lt s1
      -- the selected rows and their swapped versions
      have hsel : select s1 (condIdx s1) = .ok ((condIdx s1).map fun j => s1.getD j default) := by
        rw [select_ok_iff]
        refine ⟨by simp, ?_⟩
        intro m j r hj hr
        rw [List.getElem?_map, hj] at hr
        simp at hr
        have hjl : j < s1.length := hlt j (List.mem_of_getElem? hj)
        rw [← hr, List.getElem?_eq_getElem hjl]; rfl
      have hrows' : ((condIdx s1).map fun j => s1.getD j default).mapM swapRow
          = .ok ((condIdx s1).map fun j => s2.getD j default) := by
        rw [mapM_ok_iff]
        refine ⟨by simp, ?_⟩
        intro m a b ha hb
        rw [List.getElem?_map] at ha hb
        cases hj : (condIdx s1)[m]? with
        | none => rw [hj] at ha; simp at ha
        | some j =>
          rw [hj] at ha hb
          simp at ha hb
          have hjl : j < s1.length := hlt j (List.mem_of_getElem? hj)
          have hja : s1[j]? = some a := by
            rw [← ha, List.getElem?_eq_getElem hjl]; rfl
          have hjb : s2[j]? = some b := by
            rw [← hb, List.getElem?_eq_getElem (by omega : j < s2.length)]; rfl
          have := hstep j a b hja hjb
          obtain ⟨s, hs, hc⟩ := (mem_condIdx s1 j).mp (List.mem_of_getElem? hj)
          rw [hja] at hs; cases hs
          simpa [swapStep, hc] using this
      rw [hsel]
      simp only [ok_bind, hrows', pure_eq_ok, Except.ok.injEq]
      apply List.ext_getElem?
      intro i
      by_cases hmem : i ∈ condIdx s1
      · obtain ⟨m, hm, hmi⟩ := List.getElem_of_mem hmem
        have hm' : (condIdx s1)[m]? = some i := by rw [List.getElem?_eq_getElem hm, hmi]
        have hil : i < s1.length := hlt i hmem
        have hr' : ((condIdx s1).map fun j => s2.getD j default)[m]? = some s2[i] := by
          rw [List.getElem?_map, hm']
          simp [List.getD_eq_getElem?_getD, List.getElem?_eq_getElem (by omega : i < s2.length)]
        rw [writeBack_mem s1 (condIdx s1) _ (condIdx_nodup s1) hlt m i _ hm' hr']
        rw [List.getElem?_eq_getElem]
      · rw [writeBack_not_mem _ _ _ _ hmem]
        by_cases hil : i < s1.length
        · have ha : s1[i]? = some s1[i] := List.getElem?_eq_getElem hil
          have hb : s2[i]? = some s2[i] := List.getElem?_eq_getElem (by omega)
          have := hstep i _ _ ha hb
          have hc : swapCond s1[i] = false := by
            by_contra h
            exact hmem ((mem_condIdx s1 i).mpr ⟨_, ha, by simpa using h⟩)
          simp [swapStep, hc] at this
          rw [ha, hb, this]
        · rw [List.getElem?_eq_none (by omega), List.getElem?_eq_none (by omega)]


/-! ### a chain of vectorised steps is the per-element chain -/

theorem mapM_comp_ok_iff {α β γ} {f : α → Except Err β} {g : β → Except Err γ} {l : List α} {z : List γ} :
    l.mapM (fun x => f x >>= g) = .ok z ↔ ∃ r, l.mapM f = .ok r ∧ r.mapM g = .ok z := by
  constructor
  · intro h
    obtain ⟨hl, hi⟩ := mapM_ok_iff.mp h
    have hex : ∀ x ∈ l, ∃ y, f x = .ok y := by
      intro x hx
      obtain ⟨i, hi', rfl⟩ := List.getElem_of_mem hx
      have := hi i _ _ (List.getElem?_eq_getElem hi') (List.getElem?_eq_getElem (by omega : i < z.length))
      obtain ⟨y, hy, _⟩ := bind_eq_ok.mp this
      exact ⟨y, hy⟩
    obtain ⟨r, hr⟩ := mapM_ok_of_forall hex
    obtain ⟨hrl, hri⟩ := mapM_ok_iff.mp hr
    refine ⟨r, hr, ?_⟩
    rw [mapM_ok_iff]
    refine ⟨by omega, ?_⟩
    intro i b c hb hc
    have hil : i < l.length := by have := (List.getElem?_eq_some_iff.mp hb).1; omega
    have ha : l[i]? = some l[i] := List.getElem?_eq_getElem hil
    have h1 := hri i _ _ ha hb
    have h2 := hi i _ _ ha hc
    rw [h1] at h2
    exact h2
  · rintro ⟨r, hr, hz⟩
    obtain ⟨hrl, hri⟩ := mapM_ok_iff.mp hr
    obtain ⟨hzl, hzi⟩ := mapM_ok_iff.mp hz
    rw [mapM_ok_iff]
    refine ⟨by omega, ?_⟩
    intro i a c ha hc
    have hil : i < l.length := (List.getElem?_eq_some_iff.mp ha).1
    have hb : r[i]? = some r[i] := List.getElem?_eq_getElem (by omega)
    rw [hri i _ _ ha hb]
    exact hzi i _ _ hb hc

theorem mapM_guard_ok_iff {β γ} {g : β → Except Err γ} {c : Prop} [Decidable c] {e : Err} {l : List β} {z : List γ}
    (hne : l ≠ []) :
    l.mapM (fun x => if c then (Except.error e : Except Err γ) else g x) = .ok z ↔ ¬ c ∧ l.mapM g = .ok z := by
  by_cases hc : c
  · simp only [hc, if_true, not_true_eq_false, false_and, iff_false]
    cases l with
    | nil => exact absurd rfl hne
    | cons x xs => simp [List.mapM_cons]
  · simp [hc]

theorem rowTail_unfold (k T : Nat) :
    rowTail k T = fun s2 => findTipRow s2 >>= fun s3 => halfRow s3 >>= fun s4 =>
      if k ≥ T then (Except.error .offsetOOB : Except Err Feat) else recoveryRow k T s4 := by
  funext s2
  unfold rowTail
  by_cases hk : k ≥ T <;> simp [hk]

/-- The vectorised batch pipeline succeeds exactly when the per-waveform pipeline succeeds on every
waveform, with the same results. -/
theorem batch_ok_iff_mapM (k T : Nat) (ws : List Wave) (hne : ws ≠ []) (fs : List Feat) :
    batch k T ws = .ok fs ↔ ws.mapM (rowFeatures k T) = .ok fs := by
  have hrow : rowFeatures k T = fun w => initRow w >>= fun s0 => findTroughRow s0 >>= fun s1 =>
      swapStep s1 >>= rowTail k T := by
    funext w; rfl
  rw [hrow, mapM_comp_ok_iff]
  unfold batch
  rw [bind_eq_ok]
  apply exists_congr; intro s0
  apply and_congr_right; intro h0
  have hl0 : s0.length = ws.length := (mapM_ok_iff.mp h0).1
  rw [mapM_comp_ok_iff, bind_eq_ok]
  apply exists_congr; intro s1
  apply and_congr_right; intro h1
  have hl1 : s1.length = s0.length := (mapM_ok_iff.mp h1).1
  rw [mapM_comp_ok_iff, bind_eq_ok]
  apply exists_congr; intro s2
  rw [swapBlock_ok_iff]
  apply and_congr_right; intro h2
  have hl2 : s2.length = s1.length := (mapM_ok_iff.mp h2).1
  rw [rowTail_unfold, mapM_comp_ok_iff, bind_eq_ok]
  apply exists_congr; intro s3
  apply and_congr_right; intro h3
  have hl3 : s3.length = s2.length := (mapM_ok_iff.mp h3).1
  rw [mapM_comp_ok_iff, bind_eq_ok]
  apply exists_congr; intro s4
  apply and_congr_right; intro h4
  have hl4 : s4.length = s3.length := (mapM_ok_iff.mp h4).1
  have hne4 : s4 ≠ [] := by
    intro h; rw [h] at hl4; simp at hl4
    have : ws.length = 0 := by omega
    exact hne (List.eq_nil_of_length_eq_zero this)
  rw [mapM_guard_ok_iff hne4]
  by_cases hk : k ≥ T <;> simp [hk]

theorem batch_ok_iff (k T : Nat) (ws : List Wave) (hne : ws ≠ []) (fs : List Feat) :
    batch k T ws = .ok fs ↔ fs.length = ws.length ∧
      ∀ (i : Nat) w f, ws[i]? = some w → fs[i]? = some f → rowFeatures k T w = .ok f := by
  rw [batch_ok_iff_mapM k T ws hne, mapM_ok_iff]

end IblVerif.Features
