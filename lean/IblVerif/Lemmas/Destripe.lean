/-
Helper lemmas for the destriping model (`Model/Destripe.lean`): tables are invisible, boolean-mask
extraction / assignment, the loop over channel groups.  Core Lean only.
-/
import IblVerif.Model.Destripe

namespace IblVerif.Destripe

/-! ### tables -/

@[simp] theorem Vec.get_tab {β : Type} (n : Nat) (f : Nat → β) (i : Nat) : (Vec.tab n f).get i = f i := by
  unfold Vec.get Vec.tab
  split <;> simp

@[simp] theorem Vec.get_tab_fun {β : Type} (n : Nat) (f : Nat → β) : (Vec.tab n f).get = f :=
  funext (Vec.get_tab n f)

@[simp] theorem Vec.get_ofFn {β : Type} (f : Nat → β) (i : Nat) : (Vec.ofFn f).get i = f i := by
  simp [Vec.get, Vec.ofFn]

@[simp] theorem Mat.get_tab {α : Type} (nc ns : Nat) (f : Nat → Nat → α) (c t : Nat) :
    (Mat.tab nc ns f).get c t = f c t := by
  unfold Mat.get Mat.tab
  split
  · split <;> simp
  · rfl

@[simp] theorem Mat.get_tab_fun {α : Type} (nc ns : Nat) (f : Nat → Nat → α) (c : Nat) :
    (Mat.tab nc ns f).get c = f c :=
  funext (Mat.get_tab nc ns f c)

@[simp] theorem Mat.get_ofFn {α : Type} (f : Nat → Nat → α) (c t : Nat) : (Mat.ofFn f).get c t = f c t := by
  simp [Mat.get, Mat.ofFn]

@[simp] theorem Mat.row_get {α : Type} (m : Mat α) (c t : Nat) : (m.row c).get t = m.get c t := by
  simp [Mat.row]

/-! ### boolean masks -/

theorem selIdx_succ (n : Nat) (sel : Nat → Bool) :
    selIdx (n + 1) sel = selIdx n sel ++ (if sel n then [n] else []) := by
  unfold selIdx
  rw [List.range_succ, List.filter_append]
  cases h : sel n <;> simp [h]

theorem rank_eq (sel : Nat → Bool) (i : Nat) : rank sel i = (selIdx i sel).length := rfl

/-- Row `rank sel i` of `x[sel, :]` is row `i` of `x` (for a selected `i < nc`). -/
theorem selIdx_rank (sel : Nat → Bool) (nc i : Nat) (hi : i < nc) (hs : sel i = true) :
    rank sel i < (selIdx nc sel).length ∧ (selIdx nc sel)[rank sel i]? = some i := by
  induction nc with
  | zero => omega
  | succ n ih =>
    rw [selIdx_succ]
    by_cases hin : i = n
    · subst hin
      simp [hs, rank_eq]
    · have hlt : i < n := by omega
      obtain ⟨h1, h2⟩ := ih hlt
      refine ⟨by rw [List.length_append]; omega, ?_⟩
      rw [List.getElem?_append_left h1]; exact h2

section generic
variable {α : Type}

theorem subRows_get (idx : List Nat) (ns : Nat) (x : Mat α) (k t : Nat) :
    (subRows idx ns x).get k t = x.get (idx.getD k 0) t := by
  simp [subRows, List.getD_eq_getElem?_getD]

/-- the `rank`-th row of `x[sel, :]` is row `i` of `x` -/
theorem subRows_rank (sel : Nat → Bool) (nc ns i t : Nat) (x : Mat α) (hi : i < nc) (hs : sel i = true) :
    (subRows (selIdx nc sel) ns x).get (rank sel i) t = x.get i t := by
  rw [subRows_get, List.getD_eq_getElem?_getD, (selIdx_rank sel nc i hi hs).2]
  rfl

theorem assignRows_get (sel : Nat → Bool) (nc ns : Nat) (xout y : Mat α) (i t : Nat) :
    (assignRows sel nc ns xout y).get i t = if sel i then y.get (rank sel i) t else xout.get i t := by
  simp [assignRows]

/-! ### `np.unique` -/

theorem mem_uniqIns (a b : Int) (l : List Int) : a ∈ uniqIns b l ↔ a = b ∨ a ∈ l := by
  induction l with
  | nil => simp [uniqIns]
  | cons c r ih =>
    unfold uniqIns
    split
    · simp
    · split
      · rename_i h; subst h; simp
      · simp only [List.mem_cons, ih]; exact or_left_comm

theorem mem_unique (a : Int) (l : List Int) : a ∈ unique l ↔ a ∈ l := by
  induction l with
  | nil => simp [unique]
  | cons c r ih =>
    have : unique (c :: r) = uniqIns c (unique r) := rfl
    rw [this, mem_uniqIns, ih]; simp

/-! ### the loop over groups -/

/-- what `f` is applied to for the group with value `c` -/
def groupArg (nc ns : Nat) (coll : Nat → Int) (x : Mat α) (c : Int) : Nat × Mat α :=
  ((selIdx nc (groupSel coll c)).length, subRows (selIdx nc (groupSel coll c)) ns x)

theorem groupLoop_ok (f : Nat → Mat α → Except Err (Mat α)) (nc ns : Nat) (coll : Nat → Int) (x : Mat α) :
    ∀ (cs : List Int) (xout y : Mat α), groupLoop f nc ns coll x cs xout = .ok y →
      ∀ i t, (coll i ∈ cs → ∃ yg, f (groupArg nc ns coll x (coll i)).1 (groupArg nc ns coll x (coll i)).2 = .ok yg ∧
                y.get i t = yg.get (rank (groupSel coll (coll i)) i) t) ∧
             (coll i ∉ cs → y.get i t = xout.get i t) := by
  intro cs
  induction cs with
  | nil =>
    intro xout y h i t
    simp only [groupLoop] at h
    cases h
    simp
  | cons c cs ih =>
    intro xout y h i t
    simp only [groupLoop, groupStep] at h
    cases hf : f (selIdx nc (groupSel coll c)).length (subRows (selIdx nc (groupSel coll c)) ns x) with
    | error err => rw [hf] at h; simp at h
    | ok yg =>
      rw [hf] at h
      simp only at h
      obtain ⟨h1, h2⟩ := ih _ y h i t
      constructor
      · intro hmem
        by_cases hin : coll i ∈ cs
        · exact h1 hin
        · have hc : coll i = c := by
            rcases List.mem_cons.mp hmem with h' | h'
            · exact h'
            · exact absurd h' hin
          refine ⟨yg, by rw [hc]; exact hf, ?_⟩
          rw [h2 hin, assignRows_get]
          simp [groupSel, hc]
      · intro hnot
        have hne : coll i ≠ c := fun h' => hnot (by rw [h']; exact List.mem_cons_self)
        have hin : coll i ∉ cs := fun h' => hnot (List.mem_cons_of_mem _ h')
        rw [h2 hin, assignRows_get]
        simp [groupSel, hne]

theorem groupLoop_error (f : Nat → Mat α → Except Err (Mat α)) (nc ns : Nat) (coll : Nat → Int) (x : Mat α) :
    ∀ (cs : List Int) (xout : Mat α) (err : Err), groupLoop f nc ns coll x cs xout = .error err →
      ∃ c ∈ cs, f (groupArg nc ns coll x c).1 (groupArg nc ns coll x c).2 = .error err := by
  intro cs
  induction cs with
  | nil => intro xout err h; simp [groupLoop] at h
  | cons c cs ih =>
    intro xout err h
    simp only [groupLoop, groupStep] at h
    cases hf : f (selIdx nc (groupSel coll c)).length (subRows (selIdx nc (groupSel coll c)) ns x) with
    | error e' =>
      rw [hf] at h
      simp only at h
      cases h
      exact ⟨c, List.mem_cons_self, hf⟩
    | ok yg =>
      rw [hf] at h
      simp only at h
      obtain ⟨c', hc', hf'⟩ := ih _ err h
      exact ⟨c', List.mem_cons_of_mem _ hc', hf'⟩

theorem grouped_ok [OfNat α 0] (f : Nat → Mat α → Except Err (Mat α)) (nc ns : Nat) (coll : Nat → Int) (x y : Mat α)
    (h : grouped f nc ns coll x = .ok y) (i : Nat) (hi : i < nc) (t : Nat) :
    ∃ yg, f (groupArg nc ns coll x (coll i)).1 (groupArg nc ns coll x (coll i)).2 = .ok yg ∧
      y.get i t = yg.get (rank (groupSel coll (coll i)) i) t := by
  have hmem : coll i ∈ unique ((List.range nc).map coll) := by
    rw [mem_unique]; exact List.mem_map.mpr ⟨i, List.mem_range.mpr hi, rfl⟩
  exact (groupLoop_ok f nc ns coll x _ _ y h i t).1 hmem

theorem grouped_error [OfNat α 0] (f : Nat → Mat α → Except Err (Mat α)) (nc ns : Nat) (coll : Nat → Int) (x : Mat α)
    (err : Err) (h : grouped f nc ns coll x = .error err) :
    ∃ i, i < nc ∧ f (groupArg nc ns coll x (coll i)).1 (groupArg nc ns coll x (coll i)).2 = .error err := by
  obtain ⟨c, hc, hf⟩ := groupLoop_error f nc ns coll x _ _ err h
  rw [mem_unique] at hc
  obtain ⟨i, hi, rfl⟩ := List.mem_map.mp hc
  exact ⟨i, List.mem_range.mp hi, hf⟩

/-- the channels of the group of channel `i` (all channels when there is no collection) -/
def groupMembers (nc : Nat) (coll : Option (Nat → Int)) (i : Nat) : List Nat :=
  match coll with
  | none => List.range nc
  | some g => selIdx nc (groupSel g (g i))

theorem mem_groupMembers_self (nc : Nat) (coll : Option (Nat → Int)) (i : Nat) (hi : i < nc) :
    i ∈ groupMembers nc coll i := by
  cases coll with
  | none => exact List.mem_range.mpr hi
  | some g => simp [groupMembers, selIdx, groupSel, hi]

theorem mem_groupMembers (nc : Nat) (coll : Option (Nat → Int)) (i j : Nat) (h : j ∈ groupMembers nc coll i) :
    j < nc ∧ ∀ g, coll = some g → g j = g i := by
  cases coll with
  | none => exact ⟨List.mem_range.mp h, by intro g hg; cases hg⟩
  | some g =>
    simp only [groupMembers, selIdx, groupSel, List.mem_filter, List.mem_range, beq_iff_eq] at h
    exact ⟨h.1, by intro g' hg; cases hg; exact h.2⟩

/-! ### sorting -/

theorem insertBy_length (le : α → α → Bool) (a : α) (l : List α) : (insertBy le a l).length = l.length + 1 := by
  induction l with
  | nil => rfl
  | cons b r ih => unfold insertBy; split <;> simp [ih]

theorem sortBy_length (le : α → α → Bool) (l : List α) : (sortBy le l).length = l.length := by
  induction l with
  | nil => rfl
  | cons b r ih =>
    have : sortBy le (b :: r) = insertBy le b (sortBy le r) := rfl
    rw [this, insertBy_length, ih]; rfl

/-- a map that preserves the order commutes with the insertion -/
theorem insertBy_map (le : α → α → Bool) (f : α → α) (hf : ∀ a b, le (f a) (f b) = le a b) (a : α) (l : List α) :
    insertBy le (f a) (l.map f) = (insertBy le a l).map f := by
  induction l with
  | nil => rfl
  | cons b r ih =>
    simp only [List.map_cons, insertBy, hf]
    split
    · rfl
    · simp [ih]

theorem sortBy_map (le : α → α → Bool) (f : α → α) (hf : ∀ a b, le (f a) (f b) = le a b) (l : List α) :
    sortBy le (l.map f) = (sortBy le l).map f := by
  induction l with
  | nil => rfl
  | cons b r ih =>
    have h1 : sortBy le ((b :: r).map f) = insertBy le (f b) (sortBy le (r.map f)) := rfl
    have h2 : sortBy le (b :: r) = insertBy le b (sortBy le r) := rfl
    rw [h1, h2, ih, insertBy_map le f hf]

theorem insertBy_replicate (le : α → α → Bool) (a : α) (n : Nat) :
    insertBy le a (List.replicate n a) = List.replicate (n + 1) a := by
  induction n with
  | zero => rfl
  | succ k ih =>
    simp only [List.replicate_succ, insertBy]
    split
    · rfl
    · rw [ih]; rfl

theorem sortBy_replicate (le : α → α → Bool) (a : α) (n : Nat) :
    sortBy le (List.replicate n a) = List.replicate n a := by
  induction n with
  | zero => rfl
  | succ k ih =>
    have h1 : sortBy le (List.replicate (k + 1) a) = insertBy le a (sortBy le (List.replicate k a)) := rfl
    rw [h1, ih, insertBy_replicate]

/-- the column of `x[idx, :]` at sample `t` lists the rows `idx` of `x` -/
theorem col_subRows (idx : List Nat) (ns : Nat) (x : Mat α) (t : Nat) :
    col idx.length (subRows idx ns x) t = idx.map (fun j => x.get j t) := by
  unfold col
  apply List.ext_getElem
  · simp
  · intro k h1 h2
    simp only [List.getElem_map, List.getElem_range, subRows_get]
    simp only [List.length_map, List.length_range] at h1
    rw [List.getD_eq_getElem?_getD, List.getElem?_eq_getElem h1]; rfl

end generic

end IblVerif.Destripe
