/-
Helper lemmas on the stacking model (`Model/Stack.lean`).  Core Lean only.
-/
import IblVerif.Model.Stack
namespace IblVerif.Stack

theorem mem_insertSorted (a x : Int) (l : List Int) : x ∈ insertSorted a l ↔ x = a ∨ x ∈ l := by
  induction l with
  | nil => simp [insertSorted]
  | cons b t ih =>
    simp only [insertSorted]
    split
    · simp
    · split
      · rename_i h; subst h; simp
      · simp only [List.mem_cons, ih]
        constructor
        · rintro (h | h | h) <;> simp [h]
        · rintro (h | h | h) <;> simp [h]

theorem sorted_insertSorted (a : Int) (l : List Int) (h : l.Pairwise (· < ·)) :
    (insertSorted a l).Pairwise (· < ·) := by
  induction l with
  | nil => simp [insertSorted]
  | cons b t ih =>
    rw [List.pairwise_cons] at h
    simp only [insertSorted]
    split
    · rename_i hab
      rw [List.pairwise_cons]
      refine ⟨?_, List.pairwise_cons.mpr h⟩
      intro x hx
      rcases List.mem_cons.mp hx with rfl | hx
      · exact hab
      · have := h.1 x hx; omega
    · split
      · exact List.pairwise_cons.mpr h
      · rw [List.pairwise_cons]
        refine ⟨?_, ih h.2⟩
        intro x hx
        rcases (mem_insertSorted a x t).mp hx with rfl | hx
        · omega
        · exact h.1 x hx

theorem mem_unique (word : List Int) (x : Int) : x ∈ unique word ↔ x ∈ word := by
  induction word with
  | nil => simp [unique]
  | cons a t ih =>
    simp only [unique, List.foldr_cons] at ih ⊢
    rw [mem_insertSorted, ih, List.mem_cons]

theorem sorted_unique (word : List Int) : (unique word).Pairwise (· < ·) := by
  induction word with
  | nil => simp [unique]
  | cons a t ih => exact sorted_insertSorted a _ ih

theorem nodup_unique (word : List Int) : (unique word).Nodup := by
  have := sorted_unique word
  exact this.imp (fun h => by omega)

/-- In a duplicate-free list `idxOf a = s` exactly when `a` is the entry at `s`. -/
theorem idxOf_eq_iff (g : List Int) (hg : g.Nodup) (a : Int) (ha : a ∈ g) (s : Nat) (hs : s < g.length) :
    g.idxOf a = s ↔ g[s] = a := by
  constructor
  · intro h; subst h; exact List.getElem_idxOf _
  · intro h; subst h; exact hg.idxOf_getElem s hs

theorem sum_map_add' {α : Type} (l : List α) (f g : α → Nat) :
    (l.map (fun i => f i + g i)).sum = (l.map f).sum + (l.map g).sum := by
  induction l with
  | nil => simp
  | cons a l ih => simp only [List.map_cons, List.sum_cons, ih]; omega

theorem sum_indicator (g : List Int) (hg : g.Nodup) (x : Int) (hx : x ∈ g) :
    (g.map (fun a => if x = a then 1 else 0)).sum = 1 := by
  induction g with
  | nil => simp at hx
  | cons b t ih =>
    rw [List.nodup_cons] at hg
    simp only [List.map_cons, List.sum_cons]
    by_cases hxb : x = b
    · subst hxb
      have : (t.map (fun a => if x = a then 1 else 0)).sum = 0 := by
        have hz : ∀ a ∈ t, (if x = a then 1 else 0) = 0 := by
          intro a ha
          have : x ≠ a := fun h => hg.1 (h ▸ ha)
          simp [this]
        rw [List.map_congr_left hz]
        have : ∀ l : List Int, (List.map (fun _ => 0) l).sum = 0 := by
          intro l; induction l <;> simp_all
        exact this t
      simp [this]
    · have hxt : x ∈ t := by
        rcases List.mem_cons.mp hx with h | h
        · exact absurd h hxb
        · exact h
      simp [hxb, ih hg.2 hxt]

/-- The fold accounts for every trace exactly once. -/
theorem sum_counts (word : List Int) : (counts (unique word) word).sum = word.length := by
  unfold counts
  have hg := nodup_unique word
  have hm : ∀ x ∈ word, x ∈ unique word := fun x hx => (mem_unique word x).mpr hx
  generalize unique word = g at hg hm
  induction word with
  | nil =>
    have : ∀ l : List Int, (List.map (fun _ => 0) l).sum = 0 := by
      intro l; induction l <;> simp_all
    simpa using this g
  | cons x t ih =>
    have ih := ih (fun y hy => hm y (List.mem_cons_of_mem _ hy))
    have : (fun a => (x :: t).count a) = (fun a => t.count a + (if x = a then 1 else 0)) := by
      funext a; simp [List.count_cons]
    rw [this, sum_map_add', ih, sum_indicator g hg x (hm x List.mem_cons_self), List.length_cons]

/-- Selecting by inverse index = selecting by label. -/
theorem select_eq {ρ : Type} (word : List Int) (data : List ρ) (s : Nat)
    (hs : s < (unique word).length) :
    select (inverse (unique word) word) data s
      = ((word.zip data).filter (fun p => p.1 == (unique word)[s])).map (·.2) := by
  unfold select inverse
  have hg := nodup_unique word
  have hm : ∀ x ∈ word, x ∈ unique word := fun x hx => (mem_unique word x).mpr hx
  generalize unique word = g at hg hm hs
  induction word generalizing data with
  | nil => simp
  | cons x t ih =>
    cases data with
    | nil => simp
    | cons d ds =>
      have ih := ih ds (fun y hy => hm y (List.mem_cons_of_mem _ hy))
      have hx := hm x List.mem_cons_self
      have hiff := idxOf_eq_iff g hg x hx s hs
      simp only [List.map_cons, List.zip_cons_cons, List.filter_cons]
      by_cases h : g.idxOf x = s
      · have h' : x = g[s] := (hiff.mp h).symm
        simp only [h, beq_self_eq_true, if_true, List.map_cons, ih]
        simp [h']
      · have h' : ¬ x = g[s] := fun e => h (hiff.mpr e.symm)
        simp only [beq_iff_eq, h, h', if_false, ih]

end IblVerif.Stack
