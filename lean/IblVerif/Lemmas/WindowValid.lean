/-
Helper lemmas: cover, indexed overlap, `valid` partition and splicing recursion (L-Win, part 2).
Core Lean only.
-/
import IblVerif.Lemmas.Window

namespace IblVerif.Window

/-- Lower end of the `valid` range of a window starting at `first`. -/
def lo (ov first : Nat) : Nat := if first = 0 then 0 else first + ov / 2

theorem validCount_cons (v : Nat × Nat × Nat × Nat) (vs) (t : Nat) :
    validCount (v :: vs) t = (if v.2.2.1 ≤ t ∧ t < v.2.2.2 then 1 else 0) + validCount vs t := by
  unfold validCount
  rw [List.filter_cons]
  split <;> rename_i h
  · have : v.2.2.1 ≤ t ∧ t < v.2.2.2 := by simpa using h
    simp [this]; omega
  · have : ¬ (v.2.2.1 ≤ t ∧ t < v.2.2.2) := by simpa using h
    simp [this]

theorem aux_validCount (ns w ov first t : Nat) (hov : ov < w) (he : ov % 2 = 0) (ht : t < ns) :
    validCount ((firstlastAux ns w ov first).map (validOf ns ov)) t
      = if lo ov first ≤ t then 1 else 0 := by
  fun_induction firstlastAux ns w ov first with
  | case1 first h ih =>
    rw [List.map_cons, validCount_cons, ih]
    simp only [lo, validOf]
    grind
  | case2 first h =>
    rw [List.map_cons, List.map_nil, validCount_cons]
    simp only [lo, validOf, validCount, List.filter_nil, List.length_nil]
    grind

/-- Every sample from the start of the loop on lies in some window. -/
theorem aux_cover (ns w ov first t : Nat) (hov : ov < w) (h1 : first ≤ t) (h2 : t < ns) :
    ∃ fl ∈ firstlastAux ns w ov first, fl.1 ≤ t ∧ t < fl.2 := by
  fun_induction firstlastAux ns w ov first with
  | case1 first h ih =>
    by_cases hc : t < first + w
    · exact ⟨(first, first + w), List.mem_cons_self, h1, hc⟩
    · obtain ⟨fl, hm, hh⟩ := ih (by omega)
      exact ⟨fl, List.mem_cons_of_mem _ hm, hh⟩
  | case2 first h =>
    refine ⟨(first, min (first + w) ns), List.mem_singleton.mpr rfl, h1, ?_⟩
    simp only; omega

/-- Indexed form of the chain property. -/
theorem chain_index (ns w ov : Nat) (L : List (Nat × Nat)) (hc : Chain ns w ov L)
    (i : Nat) (hi : i + 1 < L.length) :
    (L[i]'(by omega)).2 = (L[i]'(by omega)).1 + w ∧ (L[i]'(by omega)).2 < ns ∧
      (L[i+1]'hi).1 = (L[i]'(by omega)).1 + (w - ov) := by
  induction L generalizing i with
  | nil => simp at hi
  | cons a rest ih =>
    cases rest with
    | nil => simp at hi
    | cons b rest' =>
      obtain ⟨c1, c2, c3, c4⟩ := hc
      cases i with
      | zero => exact ⟨c1, c2, c3⟩
      | succ j =>
        have := ih c4 j (by simpa using hi)
        simpa using this

theorem chain_last (ns w ov : Nat) (L : List (Nat × Nat)) (hc : Chain ns w ov L) (hne : L ≠ []) :
    (L.getLast hne).2 = ns := by
  induction L with
  | nil => exact absurd rfl hne
  | cons a rest ih =>
    cases rest with
    | nil => exact hc.1
    | cons b rest' =>
      rw [List.getLast_cons (by simp)]
      exact ih hc.2.2.2 (by simp)

/-- Splicing sum along the loop.  `G first t` is what the windows from `first` on contribute at `t`. -/
theorem aux_spliceSum {α : Type} [OfNat α 1] [OfNat α 0] [Add α] (ramp : Nat → α)
    (zero_add : ∀ x : α, x + 0 = x)
    (ns w ov first t : Nat) (hov : ov < w) (h2 : 2 * ov ≤ w)
    (hcomp : ∀ j, j < ov → ramp (ov - 1 - j) + ramp j = 1)
    (h1 : first ≤ t) (ht : t < ns) :
    spliceSum ramp ns ov (firstlastAux ns w ov first) t
      = if first ≠ 0 ∧ t - first < ov then ramp (t - first) else 1 := by
  fun_induction firstlastAux ns w ov first with
  | case1 first h ih =>
    simp only [spliceSum]
    by_cases hc : t < first + w
    · have hin : first ≤ t ∧ t < first + w := ⟨h1, hc⟩
      simp only [hin, and_self, if_true]
      by_cases hn : first + (w - ov) ≤ t
      · -- overlap zone with the next window
        have ih := ih hn
        have hz : first + (w - ov) ≠ 0 ∧ t - (first + (w - ov)) < ov := by omega
        rw [if_pos hz] at ih
        rw [ih]
        have ha : ampAt ramp ns ov (first, first + w) t
            = ramp (ov - 1 - (t - (first + (w - ov)))) := by
          unfold ampAt
          have : first + w ≠ ns ∧ first + w - first - ov ≤ t - first :=
            ⟨by omega, by omega⟩
          rw [if_pos this]
          congr 1; omega
        rw [ha, hcomp _ hz.2]
        have : ¬ (first ≠ 0 ∧ t - first < ov) := by omega
        rw [if_neg this]
      · -- only this window contains t
        have hrest : spliceSum ramp ns ov (firstlastAux ns w ov (first + (w - ov))) t = 0 := by
          have hmem := aux_mem ns w ov (first + (w - ov))
          generalize firstlastAux ns w ov (first + (w - ov)) = L at hmem
          induction L with
          | nil => rfl
          | cons a rest ihL =>
            simp only [spliceSum]
            have ha := (hmem a List.mem_cons_self).1
            have : ¬ (a.1 ≤ t ∧ t < a.2) := by omega
            rw [if_neg this]
            exact ihL (fun fl hfl => hmem fl (List.mem_cons_of_mem _ hfl))
        rw [hrest, zero_add]
        unfold ampAt
        have : ¬ (first + w ≠ ns ∧ first + w - first - ov ≤ t - first) := by omega
        simp only [this, if_false]
    · have hnot : ¬ (first ≤ t ∧ t < first + w) := by omega
      simp only [hnot, if_false]
      rw [ih (by omega)]
      have a1 : ¬ (first + (w - ov) ≠ 0 ∧ t - (first + (w - ov)) < ov) := by omega
      have a2 : ¬ (first ≠ 0 ∧ t - first < ov) := by omega
      rw [if_neg a1, if_neg a2]
  | case2 first h =>
    simp only [spliceSum]
    have hin : first ≤ t ∧ t < min (first + w) ns := by omega
    simp only [hin, and_self, if_true, zero_add]
    unfold ampAt
    have : ¬ (min (first + w) ns ≠ ns ∧ min (first + w) ns - first - ov ≤ t - first) := by omega
    simp only [this, if_false]

end IblVerif.Window
