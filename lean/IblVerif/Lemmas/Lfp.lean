/-
Helper lemmas for the LF path of the NP2 converter (C12).  Core Lean only; reuses the window lemmas (L-Win).
-/
import IblVerif.Model.Lfp
import IblVerif.Lemmas.Window

namespace IblVerif.Lfp
open IblVerif.Window

/-- The parameter sets the proofs are about: decimation by 12, window / taper multiples of 12, the overlap
is four tapers (so that "drop two tapers on each side" tiles), stride positive. -/
structure WF (p : Params) : Prop where
  ratio : p.ratio = 12
  window : p.window % 12 = 0
  taper : p.taper % 12 = 0
  overlap : p.overlap = 4 * p.taper
  stride : p.overlap < p.window

/-- Lower end (AP index) of what window `first` and its successors write. -/
def lo (p : Params) (first : Nat) : Nat := if first = 0 then 0 else first + 2 * p.taper

/-- What the property's index map demands of one written LF sample, for a recording of `ns` samples. -/
def Entry.Good (p : Params) (ns : Nat) (e : Entry) : Prop :=
  e.first ≤ e.src ∧ e.src < e.last ∧ e.off % 12 = 0 ∧
  (e.first = 0 ∨ 2 * p.taper ≤ e.off) ∧ (e.last = ns ∨ e.src + 2 * p.taper < e.last)

theorem map_mul_range' (a n : Nat) : (List.range' a n).map (· * 12) = List.range' (a * 12) n 12 := by
  induction n generalizing a with
  | zero => simp
  | succ n ih =>
    rw [List.range'_succ, List.map_cons, ih, List.range'_succ]
    congr 2
    omega

theorem src_map (f l : Nat) (offs : List Nat) :
    (offs.map (fun o => ({ first := f, last := l, off := o } : Entry))).map Entry.src
      = offs.map (fun o => f + o) := by
  simp [List.map_map, Entry.src, Function.comp_def]

/-- Sources written by one window. -/
theorem windowKeep_src (f l a n : Nat) :
    (((List.range' a n).map (· * 12)).map (fun o => ({ first := f, last := l, off := o } : Entry))).map Entry.src
      = List.range' (f + a * 12) n 12 := by
  rw [src_map, map_mul_range', List.map_add_range']

/-- Main induction over the window loop started at `first` with `wg.iw = iw`. -/
theorem aux_entries (p : Params) (hp : WF p) (ns nwinT first : Nat) :
    ∀ iw, first % 12 = 0 → (iw = 0 ↔ first = 0) →
      iw + (firstlastAux ns p.window p.overlap first).length = nwinT →
      (first = 0 → p.taper ≤ ns) → (first ≠ 0 → first + p.overlap < ns) →
      ∃ es, entriesAux p nwinT iw (firstlastAux ns p.window p.overlap first) = .ok es ∧
        es.map Entry.src = List.range' (lo p first) (decimLen ns 12 - lo p first / 12) 12 ∧
        ∀ e ∈ es, (e.first, e.last) ∈ firstlastAux ns p.window p.overlap first ∧ e.Good p ns := by
  obtain ⟨hr, hw, ht, hov, hst⟩ := hp
  fun_induction firstlastAux ns p.window p.overlap first with
  | case1 first h ih =>
    intro iw hdiv hiw hlen hinv1 hinv2
    have hrest : 1 ≤ (firstlastAux ns p.window p.overlap (first + (p.window - p.overlap))).length := by
      have := aux_ne_nil ns p.window p.overlap (first + (p.window - p.overlap))
      cases hL : firstlastAux ns p.window p.overlap (first + (p.window - p.overlap)) with
      | nil => exact absurd hL this
      | cons a r => simp
    simp only [List.length_cons] at hlen
    obtain ⟨es', hes', hsrc', hgood'⟩ := ih (iw + 1) (by omega) (by constructor <;> intro <;> omega)
      (by omega) (by intro; omega) (by intro; omega)
    have hnl : ¬ (iw + 1 = nwinT) := by omega
    have hL : ¬ (first + p.window - first < p.taper) := by omega
    simp only [entriesAux, windowKeep, hL, if_false, hes', ind2save, hnl, sliceIdx, decimLen, hr]
    refine ⟨_, rfl, ?_, ?_⟩
    · rw [List.map_append, windowKeep_src, hsrc']
      by_cases h0 : first = 0
      · have hi : iw = 0 := hiw.mpr h0
        subst h0
        simp only [hi, if_true, lo, Nat.zero_add, Nat.zero_mul]
        have e1 : (0 : Nat) + (p.window - p.overlap) ≠ 0 := by omega
        simp only [Nat.zero_add] at e1 ⊢
        simp only [e1, if_false]
        have key : p.window - p.overlap + 2 * p.taper
            = 0 + 12 * (min ((p.window - p.taper * 2) / 12) ((p.window - 0 + 12 - 1) / 12) - 0) := by omega
        rw [key, List.range'_append]
        congr 1
        simp only [decimLen]
        omega
      · have hi : ¬ iw = 0 := fun c => h0 (hiw.mp c)
        have e1 : first + (p.window - p.overlap) ≠ 0 := by omega
        simp only [hi, if_false, lo, h0, e1]
        have key : first + (p.window - p.overlap) + 2 * p.taper
            = (first + p.taper * 2 / 12 * 12)
              + 12 * (min ((p.window - p.taper * 2) / 12) ((first + p.window - first + 12 - 1) / 12)
                  - p.taper * 2 / 12) := by omega
        have key2 : first + 2 * p.taper = first + p.taper * 2 / 12 * 12 := by omega
        rw [key, key2, List.range'_append]
        congr 1
        simp only [decimLen]
        omega
    · intro e he
      rcases List.mem_append.mp he with he | he
      · obtain ⟨o, ho, rfl⟩ := List.mem_map.mp he
        obtain ⟨j, hj, rfl⟩ := List.mem_map.mp ho
        have hj' := List.mem_range'_1.mp hj
        simp only [Entry.Good, Entry.src]
        by_cases h0 : first = 0
        · have hi : iw = 0 := hiw.mpr h0
          simp only [hi, if_true] at hj'
          refine ⟨List.mem_cons_self, by omega, by omega, by omega, Or.inl h0, Or.inr (by omega)⟩
        · have hi : ¬ iw = 0 := fun c => h0 (hiw.mp c)
          simp only [hi, if_false] at hj'
          refine ⟨List.mem_cons_self, by omega, by omega, by omega, Or.inr (by omega), Or.inr (by omega)⟩
      · exact ⟨List.mem_cons_of_mem _ (hgood' e he).1, (hgood' e he).2⟩
  | case2 first h =>
    intro iw hdiv hiw hlen hinv1 hinv2
    simp only [List.length_cons, List.length_nil] at hlen
    have hl : iw + 1 = nwinT := by omega
    have hle : first ≤ ns := by
      by_cases h0 : first = 0
      · omega
      · have := hinv2 h0; omega
    have hmin : min (first + p.window) ns = ns := by omega
    have hL : ¬ (ns - first < p.taper) := by
      by_cases h0 : first = 0
      · have := hinv1 h0; omega
      · have := hinv2 h0; omega
    simp only [entriesAux, windowKeep, hmin, hL, if_false, ind2save, hl, if_true, sliceIdx, decimLen, hr,
      List.append_nil]
    refine ⟨_, rfl, ?_, ?_⟩
    · rw [windowKeep_src]
      by_cases h0 : first = 0
      · have hi : iw = 0 := hiw.mpr h0
        subst h0
        simp only [hi, if_true, lo, Nat.zero_add, Nat.zero_mul]
        congr 1
        omega
      · have hi : ¬ iw = 0 := fun c => h0 (hiw.mp c)
        have := hinv2 h0
        simp only [hi, if_false, lo, h0]
        have key2 : first + 2 * p.taper = first + p.taper * 2 / 12 * 12 := by omega
        rw [key2]
        congr 1
        omega
    · intro e he
      obtain ⟨o, ho, rfl⟩ := List.mem_map.mp he
      obtain ⟨j, hj, rfl⟩ := List.mem_map.mp ho
      have hj' := List.mem_range'_1.mp hj
      simp only [Entry.Good, Entry.src]
      by_cases h0 : first = 0
      · have hi : iw = 0 := hiw.mpr h0
        simp only [hi, if_true] at hj'
        refine ⟨List.mem_singleton.mpr rfl, by omega, by omega, by omega, Or.inl h0, Or.inl trivial⟩
      · have hi : ¬ iw = 0 := fun c => h0 (hiw.mp c)
        have := hinv2 h0
        simp only [hi, if_false] at hj'
        refine ⟨List.mem_singleton.mpr rfl, by omega, by omega, by omega, Or.inr (by omega), Or.inl trivial⟩

/-- The whole run. -/
theorem entries_spec (p : Params) (hp : WF p) (ns : Nat) (hns : p.taper ≤ ns) :
    ∃ es, lfEntries p ns = .ok es ∧
      es.map Entry.src = List.range' 0 (decimLen ns 12) 12 ∧
      ∀ e ∈ es, (e.first, e.last) ∈ firstlast ns p.window p.overlap ∧ e.Good p ns := by
  have hst := hp.stride
  have hlen : 0 + (firstlastAux ns p.window p.overlap 0).length = nwin ns p.window p.overlap := by
    rw [aux_length ns p.window p.overlap 0 hst]
    simp [nwin]
  obtain ⟨es, h1, h2, h3⟩ := aux_entries p hp ns (nwin ns p.window p.overlap) 0 0 (by omega)
    (by simp) hlen (fun _ => hns) (fun h => absurd rfl h)
  refine ⟨es, ?_, ?_, ?_⟩
  · unfold lfEntries firstlast
    have : ¬ p.window ≤ p.overlap := by omega
    simp only [this, if_false, hst, if_true]
    exact h1
  · simpa [lo] using h2
  · unfold firstlast
    simp only [hst, if_true]
    exact h3

/-- A first window shorter than the taper stops the conversion. -/
theorem entries_short (p : Params) (hst : p.overlap < p.window) (ns : Nat) (hns : ns < p.taper) :
    lfEntries p ns = .error .valueErrorTaper := by
  unfold lfEntries firstlast
  have : ¬ p.window ≤ p.overlap := by omega
  simp only [this, if_false, hst, if_true]
  unfold firstlastAux
  split
  · rename_i h
    have hL : p.window < p.taper := by omega
    simp [entriesAux, windowKeep, hL]
  · have hL : min p.window ns < p.taper := by omega
    simp [entriesAux, windowKeep, hL]

/-- `init_params` succeeds exactly on windows that are multiples of the ratio and then yields the repo's
constants; together with `overlap < window` the result is well formed. -/
theorem initParams_ok (w : Nat) (hw0 : w ≠ 0) (hw : w % 12 = 0) :
    initParams w = .ok { ratio := 12, window := w, overlap := Generated.CONV_OVERLAP,
                         taper := Generated.CONV_OVERLAP / Generated.CONV_TAPER_DIV } := by
  have hr : Generated.CONV_FS_AP / Generated.CONV_FS_LF = 12 := by decide
  have h2 : Generated.CONV_OVERLAP % 12 = 0 := by decide
  have h3 : Generated.CONV_OVERLAP / Generated.CONV_TAPER_DIV % 12 = 0 := by decide
  simp [initParams, hw0, hr, hw, h2, h3]

theorem repo_wf (w : Nat) (hw : w % 12 = 0) (hgt : Generated.CONV_OVERLAP < w) :
    WF { ratio := 12, window := w, overlap := Generated.CONV_OVERLAP,
         taper := Generated.CONV_OVERLAP / Generated.CONV_TAPER_DIV } :=
  ⟨rfl, hw, by show Generated.CONV_OVERLAP / Generated.CONV_TAPER_DIV % 12 = 0; decide,
    by show Generated.CONV_OVERLAP = 4 * (Generated.CONV_OVERLAP / Generated.CONV_TAPER_DIV); decide, hgt⟩

theorem range'_eq_map (n : Nat) : List.range' 0 n 12 = (List.range n).map (fun m => 12 * m) := by
  apply List.ext_getElem <;> simp

/-- A column of the LF file, read through the index map: sample `m` is the processed value of the window
that keeps it, at the local offset of AP sample `12 m`. -/
theorem column_spec {α : Type} (p : Params) (hp : WF p) (ns : Nat) (hns : p.taper ≤ ns)
    (G : Nat × Nat → Nat → α) :
    ∃ es col, lfEntries p ns = .ok es ∧ lfColumn p ns G = .ok col ∧
      col.length = decimLen ns 12 ∧ es.length = decimLen ns 12 ∧
      ∀ m (hm : m < es.length) (hc : m < col.length),
        col[m] = G ((es[m]).first, (es[m]).last) (es[m]).off ∧ (es[m]).src = 12 * m ∧
        ((es[m]).first, (es[m]).last) ∈ firstlast ns p.window p.overlap ∧ (es[m]).Good p ns := by
  obtain ⟨es, h1, h2, h3⟩ := entries_spec p hp ns hns
  have hlen : es.length = decimLen ns 12 := by
    have := congrArg List.length h2
    simpa using this
  refine ⟨es, es.map (fun e => G (e.first, e.last) e.off), h1, ?_, by simpa using hlen, hlen, ?_⟩
  · simp [lfColumn, h1, Except.map]
  · intro m hm hc
    refine ⟨by simp, ?_, h3 _ (List.getElem_mem hm)⟩
    have : (es.map Entry.src)[m]'(by simpa using hm) = (List.range' 0 (decimLen ns 12) 12)[m]'(by
        simpa using (hlen ▸ hm)) := by
      simp only [h2]
    simpa using this

/-- `mapM` in `Except`: every result comes from an argument, in order. -/
theorem mapM_ok {α β ε : Type} (f : α → Except ε β) :
    ∀ (l : List α) (r : List β), l.mapM f = .ok r →
      r.length = l.length ∧ ∀ i (h1 : i < l.length) (h2 : i < r.length), f l[i] = .ok r[i] := by
  intro l
  induction l with
  | nil => intro r h; simp [List.mapM_nil, pure, Except.pure] at h; subst h; simp
  | cons a t ih =>
    intro r h
    rw [List.mapM_cons] at h
    cases hfa : f a with
    | error e => simp [hfa, bind, Except.bind] at h
    | ok b =>
      cases ht : t.mapM f with
      | error e => simp [hfa, ht, bind, Except.bind] at h
      | ok r' =>
        simp [hfa, ht, bind, Except.bind, pure, Except.pure] at h
        subst h
        obtain ⟨hl, hi⟩ := ih r' ht
        refine ⟨by simp [hl], ?_⟩
        intro i h1 h2
        cases i with
        | zero => simpa using hfa
        | succ j => simpa using hi j (by simpa using h1) (by simpa using h2)

/-- What a successfully written shank file looks like. -/
theorem lfFileOf_ok (v : Version) (m : Meta) (sm : List Nat) (rows sh : Nat) (f : LfFile)
    (h : lfFileOf v m sm rows sh = .ok f) :
    f.rows = rows ∧ f.sh = sh ∧ f.nbytes = f.rows * f.chns.length * 2 ∧
      f.chns = shankChns sm sh m.nSavedChans m.sns.2.2 ∧
      f.md = writeMetaLf v m f.chns f.nbytes f.sh := by
  unfold lfFileOf splitWidth at h
  by_cases hc : ((shankChns sm sh m.nSavedChans m.sns.2.2).all
      (fun x => decide (x < chunkWidth m.sns.1 m.nSavedChans))) = true
  · simp only [hc, if_true] at h
    cases h
    exact ⟨rfl, rfl, rfl, rfl, rfl⟩
  · simp only [hc] at h
    cases h

end IblVerif.Lfp
