/-
Helper definitions and lemmas for C16 (flags part): the array program `Saturation.flags` equals, sample by
sample, the counting rule.  Core Lean only.
-/
import IblVerif.Model.Saturation

namespace IblVerif.Saturation

variable {α μ φ : Type}

/-- The `[nc, ns]` array with entries `x c t`, as the list of rows the model consumes.  Every rectangular
list of rows arises this way. -/
def toRows {nc ns : Nat} (x : Fin nc → Fin ns → α) : List (List α) :=
  List.ofFn fun c => List.ofFn (x c)

/-- Number of channels `c` with `|x c t| > 0.98 · range c` (in the arithmetic of `ops`). -/
def countOver (ops : Ops α μ φ) {nc ns : Nat} (x : Fin nc → Fin ns → α) (r : Fin nc → μ) (t : Fin ns) : Nat :=
  (List.finRange nc).countP fun c => ops.over (x c t) (r c)

/-- Number of channels `c` whose step from sample `t` into sample `t + 1` reaches the slew limit. -/
def countSlew (ops : Ops α μ φ) {nc ns : Nat} (x : Fin nc → Fin ns → α) (t : Nat) (h : t + 1 < ns) : Nat :=
  (List.finRange nc).countP fun c => ops.slew (x c ⟨t, by omega⟩) (x c ⟨t + 1, h⟩)

/-- The rule for one sample: more than the proportion of channels over 98 % of range, or more than the
proportion over the slew limit into the next sample (the last sample has no next sample: the code
compares the literal `0` with the proportion there). -/
def rule (ops : Ops α μ φ) {nc ns : Nat} (x : Fin nc → Fin ns → α) (r : Fin nc → μ) (t : Fin ns) : Bool :=
  ops.gt (ops.mean (countOver ops x r t) nc) ||
  (if h : t.1 + 1 < ns then ops.gt (ops.mean (countSlew ops x t.1 h) nc) else ops.gt ops.zero)

theorem ofFn_eq_map_finRange {β : Type} {n : Nat} (f : Fin n → β) :
    List.ofFn f = (List.finRange n).map f := by
  apply List.ext_getElem
  · simp
  · intro i h1 h2
    simp

theorem toRows_length {nc ns : Nat} (x : Fin nc → Fin ns → α) : (toRows x).length = nc := by
  simp [toRows]

theorem toRows_row_length {nc ns : Nat} (x : Fin nc → Fin ns → α) :
    ∀ row ∈ toRows x, row.length = ns := by
  intro row h
  simp only [toRows, List.mem_ofFn] at h
  obtain ⟨c, rfl⟩ := h
  simp

/-- a scalar range broadcasts to every row -/
theorem broadcastRows_scalar (data : List (List α)) (m : μ) :
    broadcastRows data [m] = .ok (data.map fun r => (r, m)) := by
  unfold broadcastRows
  split
  · rename_i h
    match data, h with
    | [row], _ => rfl
  · rfl

/-- a per-channel range of the right length pairs up with the rows -/
theorem broadcastRows_perChannel (data : List (List α)) (mv : List μ) (h : data.length = mv.length) :
    broadcastRows data mv = .ok (data.zip mv) := by
  unfold broadcastRows
  simp [h]

/-- column `t` of the over-threshold matrix: count = `countOver` -/
theorem count_overMat (ops : Ops α μ φ) {nc ns : Nat} (x : Fin nc → Fin ns → α) (r : Fin nc → μ) (t : Fin ns) :
    (overMat ops ((toRows x).zip (List.ofFn r))).countP (fun row => row.getD t.1 false) = countOver ops x r t := by
  unfold overMat toRows countOver
  rw [ofFn_eq_map_finRange (fun c => List.ofFn (x c)), ofFn_eq_map_finRange r, List.zip_map', List.map_map,
    List.countP_map]
  apply List.countP_congr
  intro c _
  have ht := t.2
  simp [List.getD_eq_getElem?_getD, ht]

theorem overMat_length (ops : Ops α μ φ) {nc ns : Nat} (x : Fin nc → Fin ns → α) (r : Fin nc → μ) :
    (overMat ops ((toRows x).zip (List.ofFn r))).length = nc := by
  simp [overMat, toRows]

/-- column `t` of the slew matrix: count = `countSlew` -/
theorem count_slewMat (ops : Ops α μ φ) {nc ns : Nat} (x : Fin nc → Fin ns → α) (t : Nat) (h : t + 1 < ns) :
    (slewMat ops (toRows x)).countP (fun row => row.getD t false) = countSlew ops x t h := by
  unfold slewMat toRows countSlew
  rw [ofFn_eq_map_finRange (fun c => List.ofFn (x c)), List.map_map, List.countP_map]
  apply List.countP_congr
  intro c _
  have h0 : t < ns := by omega
  simp [List.getD_eq_getElem?_getD, List.getElem?_zipWith, h, h0]

theorem slewMat_length (ops : Ops α μ φ) {nc ns : Nat} (x : Fin nc → Fin ns → α) :
    (slewMat ops (toRows x)).length = nc := by
  simp [slewMat, toRows]

theorem colMeans_over (ops : Ops α μ φ) {nc ns : Nat} (x : Fin nc → Fin ns → α) (r : Fin nc → μ) :
    colMeans ops ns (overMat ops ((toRows x).zip (List.ofFn r)))
      = List.ofFn fun t : Fin ns => ops.mean (countOver ops x r t) nc := by
  apply List.ext_getElem
  · simp [colMeans]
  · intro t h1 h2
    have ht : t < ns := by simpa using h2
    simp only [colMeans, List.getElem_map, List.getElem_range, List.getElem_ofFn]
    rw [count_overMat ops x r ⟨t, ht⟩, overMat_length]

theorem colMeans_slew (ops : Ops α μ φ) {nc ns : Nat} (x : Fin nc → Fin ns → α) :
    colMeans ops (ns - 1) (slewMat ops (toRows x))
      = List.ofFn fun t : Fin (ns - 1) => ops.mean (countSlew ops x t.1 (by omega)) nc := by
  apply List.ext_getElem
  · simp [colMeans]
  · intro t h1 h2
    have ht : t < ns - 1 := by simpa using h2
    simp only [colMeans, List.getElem_map, List.getElem_range, List.getElem_ofFn]
    rw [count_slewMat ops x t (by omega), slewMat_length]

/-- The array program equals the per-sample rule (per-channel ranges). -/
theorem flags_perChannel (ops : Ops α μ φ) {nc ns : Nat} (x : Fin nc → Fin ns → α) (r : Fin nc → μ) :
    flags ops ns (toRows x) (List.ofFn r) = .ok (List.ofFn (rule ops x r)) := by
  unfold flags
  rw [broadcastRows_perChannel _ _ (by simp [toRows])]
  simp only
  rw [colMeans_over, colMeans_slew]
  congr 1
  apply List.ext_getElem
  · simp; omega
  · intro t h1 h2
    have ht : t < ns := by simpa using h2
    simp only [List.getElem_zipWith, List.getElem_ofFn, rule, List.getElem_append, List.length_ofFn]
    congr 1
    by_cases hn : t + 1 < ns
    · have : t < ns - 1 := by omega
      simp [this, hn]
    · have : ¬ t < ns - 1 := by omega
      simp [this, hn]

/-- every row of the scalar broadcast carries the same range -/
theorem map_pair_eq_zip_ofFn {nc ns : Nat} (x : Fin nc → Fin ns → α) (m : μ) :
    ((toRows x).map fun r => (r, m)) = (toRows x).zip (List.ofFn fun _ : Fin nc => m) := by
  unfold toRows
  rw [ofFn_eq_map_finRange (fun c => List.ofFn (x c)), ofFn_eq_map_finRange (fun _ : Fin nc => m),
    List.zip_map', List.map_map]
  rfl

/-- The array program equals the per-sample rule (one scalar range for all channels). -/
theorem flags_scalar (ops : Ops α μ φ) {nc ns : Nat} (x : Fin nc → Fin ns → α) (m : μ) :
    flags ops ns (toRows x) [m] = .ok (List.ofFn (rule ops x fun _ => m)) := by
  have h := flags_perChannel ops x (fun _ => m)
  unfold flags at h ⊢
  rw [broadcastRows_perChannel _ _ (by simp [toRows])] at h
  rw [broadcastRows_scalar, map_pair_eq_zip_ofFn]
  exact h

end IblVerif.Saturation

namespace IblVerif.Saturation

/-- `max_voltage`: one scalar for all channels, or one value per channel. -/
inductive Range (μ : Type) (nc : Nat) where
  | scalar (m : μ)
  | perChannel (r : Fin nc → μ)

/-- what `np.atleast_1d(max_voltage)` holds -/
def Range.toList {μ : Type} {nc : Nat} : Range μ nc → List μ
  | .scalar m => [m]
  | .perChannel r => List.ofFn r

/-- the full-scale voltage of channel `c` -/
def Range.at {μ : Type} {nc : Nat} : Range μ nc → Fin nc → μ
  | .scalar m => fun _ => m
  | .perChannel r => r

theorem flags_eq_rule {α μ φ : Type} (ops : Ops α μ φ) {nc ns : Nat} (x : Fin nc → Fin ns → α) (rg : Range μ nc) :
    flags ops ns (toRows x) rg.toList = .ok (List.ofFn (rule ops x rg.at)) := by
  cases rg with
  | scalar m => exact flags_scalar ops x m
  | perChannel r => exact flags_perChannel ops x r

/-- whenever the function returns, its second value is `mute window flags` of its first value -/
theorem saturation_mute_eq {α μ φ β : Type} [OfNat β 0] [OfNat β 1] [Add β] [Mul β] [Sub β] [Max β]
    (ops : Ops α μ φ) (winOf : Nat → List β) (ns : Nat) (data : List (List α)) (mv : List μ) (M : Int)
    (f : List Bool) (g : List β) (h : saturation ops winOf ns data mv M = .ok (f, g)) :
    g = mute (winOf M.toNat) f := by
  unfold saturation at h
  cases hfl : flags ops ns data mv with
  | error e => simp [hfl] at h
  | ok fl =>
    simp only [hfl] at h
    by_cases hM : M < 0
    · simp [hM] at h
    · by_cases hw : (winOf M.toNat).isEmpty
      · simp [hM, hw] at h
      · simp [hM, hw] at h
        obtain ⟨rfl, rfl⟩ := h
        rfl

end IblVerif.Saturation
