/-
L-Sort: lemmas about the generic stable insertion sort `Model/StableSort.lean`.

For a Boolean relation `le` that is total and transitive (a linear pre-order, e.g. comparison of a key):
  * `sortBy_perm`      the result is a permutation of the input
  * `sortBy_sorted`    the result is sorted (`Pairwise le`)
  * `sortBy_stable`    elements that compare equal keep the relative order they had in the input
  * `sortBy_filter`    sorting commutes with filtering (restriction to a sub-family)
  * `sortBy_map`       sorting commutes with any map that preserves the comparison
  * `sortBy_eq_of_sorted`  an already sorted list is left unchanged
Core Lean only (no Mathlib).
-/
import IblVerif.Model.StableSort

namespace IblVerif.StableSort

variable {α β : Type}

theorem insertBy_perm (le : α → α → Bool) (a : α) (l : List α) : (insertBy le a l).Perm (a :: l) := by
  induction l with
  | nil => exact List.Perm.refl _
  | cons b l ih =>
    simp only [insertBy]
    split
    · exact List.Perm.refl _
    · exact (List.Perm.cons b ih).trans (List.Perm.swap a b l)

/-- The sorted list is a permutation of the input. -/
theorem sortBy_perm (le : α → α → Bool) (l : List α) : (sortBy le l).Perm l := by
  induction l with
  | nil => exact List.Perm.refl _
  | cons a l ih => exact (insertBy_perm le a _).trans (List.Perm.cons a ih)

theorem mem_insertBy {le : α → α → Bool} {a x : α} {l : List α} : x ∈ insertBy le a l ↔ x = a ∨ x ∈ l := by
  rw [(insertBy_perm le a l).mem_iff]; simp

theorem mem_sortBy {le : α → α → Bool} {x : α} {l : List α} : x ∈ sortBy le l ↔ x ∈ l :=
  (sortBy_perm le l).mem_iff

theorem length_sortBy (le : α → α → Bool) (l : List α) : (sortBy le l).length = l.length :=
  (sortBy_perm le l).length_eq

/-- The relation established by a stable sort: sorted, and ties keep the original relation `S`. -/
def StableRel (le : α → α → Bool) (S : α → α → Prop) (x y : α) : Prop :=
  le x y = true ∧ (le y x = true → S x y)

theorem insertBy_pairwise {le : α → α → Bool} {S : α → α → Prop}
    (htot : ∀ a b, le a b = true ∨ le b a = true)
    (htr : ∀ a b c, le a b = true → le b c = true → le a c = true)
    {a : α} {l : List α} (hl : l.Pairwise (StableRel le S)) (hS : ∀ b ∈ l, S a b) :
    (insertBy le a l).Pairwise (StableRel le S) := by
  induction l with
  | nil => simp [insertBy]
  | cons b l ih =>
    simp only [insertBy]
    have hl' := List.pairwise_cons.mp hl
    split
    next h =>
      refine List.pairwise_cons.mpr ⟨?_, hl⟩
      intro c hc
      refine ⟨?_, fun _ => hS c hc⟩
      rcases List.mem_cons.mp hc with rfl | hc
      · exact h
      · exact htr a b c h (hl'.1 c hc).1
    next h =>
      refine List.pairwise_cons.mpr ⟨?_, ih hl'.2 (fun c hc => hS c (List.mem_cons_of_mem _ hc))⟩
      intro c hc
      rcases mem_insertBy.mp hc with rfl | hc
      · refine ⟨?_, fun h' => absurd h' h⟩
        rcases htot c b with h1 | h1
        · exact absurd h1 h
        · exact h1
      · exact hl'.1 c hc

/-- Stability: if the input satisfies `S` pairwise ("comes before"), the output is sorted and elements
that compare equal (`le` both ways) are still related by `S`. -/
theorem sortBy_stable {le : α → α → Bool} {S : α → α → Prop}
    (htot : ∀ a b, le a b = true ∨ le b a = true)
    (htr : ∀ a b c, le a b = true → le b c = true → le a c = true)
    {l : List α} (hl : l.Pairwise S) : (sortBy le l).Pairwise (StableRel le S) := by
  induction l with
  | nil => simp [sortBy]
  | cons a l ih =>
    have hl' := List.pairwise_cons.mp hl
    exact insertBy_pairwise htot htr (ih hl'.2) (fun b hb => hl'.1 b (mem_sortBy.mp hb))

/-- The output is sorted. -/
theorem sortBy_sorted {le : α → α → Bool}
    (htot : ∀ a b, le a b = true ∨ le b a = true)
    (htr : ∀ a b c, le a b = true → le b c = true → le a c = true)
    (l : List α) : (sortBy le l).Pairwise (fun x y => le x y = true) := by
  have h : l.Pairwise (fun _ _ => True) := List.pairwise_of_forall (fun _ _ => trivial)
  exact (sortBy_stable (S := fun _ _ => True) htot htr h).imp (fun h => h.1)

theorem insertBy_eq_cons {le : α → α → Bool} {a : α} {l : List α} (h : ∀ b ∈ l, le a b = true) :
    insertBy le a l = a :: l := by
  cases l with
  | nil => rfl
  | cons b l => simp [insertBy, h b (List.mem_cons_self ..)]

/-- A sorted list is left unchanged. -/
theorem sortBy_eq_of_sorted {le : α → α → Bool} {l : List α} (h : l.Pairwise (fun x y => le x y = true)) :
    sortBy le l = l := by
  induction l with
  | nil => rfl
  | cons a l ih =>
    have h' := List.pairwise_cons.mp h
    simp only [sortBy, ih h'.2]
    exact insertBy_eq_cons h'.1

theorem filter_insertBy_neg {le : α → α → Bool} {p : α → Bool} {a : α} (l : List α) (hp : p a = false) :
    (insertBy le a l).filter p = l.filter p := by
  induction l with
  | nil => simp [insertBy, hp]
  | cons b l ih =>
    simp only [insertBy]
    split
    · simp [List.filter_cons, hp]
    · simp [List.filter_cons, ih]

theorem filter_insertBy_pos {le : α → α → Bool} {p : α → Bool} {a : α}
    (htr : ∀ a b c, le a b = true → le b c = true → le a c = true)
    {l : List α} (hl : l.Pairwise (fun x y => le x y = true)) (hp : p a = true) :
    (insertBy le a l).filter p = insertBy le a (l.filter p) := by
  induction l with
  | nil => simp [insertBy, hp]
  | cons b l ih =>
    have hl' := List.pairwise_cons.mp hl
    simp only [insertBy]
    split
    next h =>
      rw [List.filter_cons, if_pos hp]
      refine (insertBy_eq_cons ?_).symm
      intro c hc
      have hc' := (List.mem_filter.mp hc).1
      rcases List.mem_cons.mp hc' with rfl | hc'
      · exact h
      · exact htr a b c h (hl'.1 c hc')
    next h =>
      rw [List.filter_cons, List.filter_cons, ih hl'.2]
      cases hb : p b
      · simp
      · simp [insertBy, h]

/-- Sorting commutes with restriction to the elements satisfying `p`. -/
theorem sortBy_filter {le : α → α → Bool} (p : α → Bool)
    (htot : ∀ a b, le a b = true ∨ le b a = true)
    (htr : ∀ a b c, le a b = true → le b c = true → le a c = true)
    (l : List α) : (sortBy le l).filter p = sortBy le (l.filter p) := by
  induction l with
  | nil => rfl
  | cons a l ih =>
    simp only [sortBy, List.filter_cons]
    cases hp : p a
    · simp only [Bool.false_eq_true, if_false]
      rw [filter_insertBy_neg _ hp, ih]
    · simp only [if_true]
      rw [filter_insertBy_pos htr (sortBy_sorted htot htr l) hp, ih, sortBy]

theorem map_insertBy {le : α → α → Bool} {le' : β → β → Bool} (f : α → β)
    (hf : ∀ a b, le' (f a) (f b) = le a b) (a : α) (l : List α) :
    (insertBy le a l).map f = insertBy le' (f a) (l.map f) := by
  induction l with
  | nil => rfl
  | cons b l ih =>
    simp only [insertBy, List.map_cons, hf]
    split
    · rfl
    · simp [ih]

/-- Sorting commutes with a map that preserves the comparison (e.g. one that leaves the key alone). -/
theorem sortBy_map {le : α → α → Bool} {le' : β → β → Bool} (f : α → β)
    (hf : ∀ a b, le' (f a) (f b) = le a b) (l : List α) :
    (sortBy le l).map f = sortBy le' (l.map f) := by
  induction l with
  | nil => rfl
  | cons a l ih => simp only [sortBy, List.map_cons, map_insertBy f hf, ih]

/-! ### sorting by a key -/

theorem sortOn_perm (k : α → β) (le : β → β → Bool) (l : List α) : (sortOn k le l).Perm l :=
  sortBy_perm _ l

/-- Sorted by key, ties in input order (`S` = "comes before in the input"). -/
theorem sortOn_stable {k : α → β} {le : β → β → Bool} {S : α → α → Prop}
    (htot : ∀ a b, le a b = true ∨ le b a = true)
    (htr : ∀ a b c, le a b = true → le b c = true → le a c = true)
    {l : List α} (hl : l.Pairwise S) :
    (sortOn k le l).Pairwise fun x y => le (k x) (k y) = true ∧ (le (k y) (k x) = true → S x y) :=
  sortBy_stable (le := fun a b => le (k a) (k b)) (fun a b => htot (k a) (k b))
    (fun a b c => htr (k a) (k b) (k c)) hl

theorem sortOn_filter {k : α → β} {le : β → β → Bool} (p : α → Bool)
    (htot : ∀ a b, le a b = true ∨ le b a = true)
    (htr : ∀ a b c, le a b = true → le b c = true → le a c = true)
    (l : List α) : (sortOn k le l).filter p = sortOn k le (l.filter p) :=
  sortBy_filter p (fun a b => htot (k a) (k b)) (fun a b c => htr (k a) (k b) (k c)) l

/-! ### the lexicographic order on `Int × Int × Int` -/

theorem lexLe_total (a b : Int × Int × Int) : lexLe a b = true ∨ lexLe b a = true := by
  simp only [lexLe, Bool.or_eq_true, Bool.and_eq_true, decide_eq_true_eq, beq_iff_eq]
  omega

theorem lexLe_trans (a b c : Int × Int × Int) : lexLe a b = true → lexLe b c = true → lexLe a c = true := by
  simp only [lexLe, Bool.or_eq_true, Bool.and_eq_true, decide_eq_true_eq, beq_iff_eq]
  omega

theorem lexLe_antisymm (a b : Int × Int × Int) : lexLe a b = true → lexLe b a = true → a = b := by
  obtain ⟨a1, a2, a3⟩ := a
  obtain ⟨b1, b2, b3⟩ := b
  simp only [lexLe, Bool.or_eq_true, Bool.and_eq_true, decide_eq_true_eq, beq_iff_eq, Prod.mk.injEq]
  omega

theorem lexLt_iff (a b : Int × Int × Int) : lexLt a b = true ↔ (lexLe a b = true ∧ a ≠ b) := by
  obtain ⟨a1, a2, a3⟩ := a
  obtain ⟨b1, b2, b3⟩ := b
  simp only [lexLe, lexLt, Bool.or_eq_true, Bool.and_eq_true, decide_eq_true_eq, beq_iff_eq, ne_eq,
    Prod.mk.injEq]
  omega

end IblVerif.StableSort
