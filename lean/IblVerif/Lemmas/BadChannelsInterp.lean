/-
Helper lemmas for C15, interpolation part, generic in the scalar type (no Mathlib): which rows the loop
writes, and on which rows of the input a repaired row depends.
-/
import IblVerif.Model.BadChannels

namespace IblVerif.BadChannels
variable {α : Type} [Zero α] [Add α] [Mul α] [Div α] [LT α] [DecidableLT α]

theorem mem_badChannels {nc : Nat} {labels : Nat → Nat} {c : Nat} :
    c ∈ badChannels nc labels ↔ c < nc ∧ isBad labels c = true := by
  simp [badChannels, List.mem_filter, List.mem_range]

/-- A row that is not visited by the loop is not written. -/
theorem interpolateOrd_not_mem (nc : Nat) (thr : α) (labels : Nat → Nat) (W : Nat → Nat → α)
    (ord : List Nat) (data : Nat → Nat → α) (c : Nat) (h : c ∉ ord) :
    interpolateOrd nc thr labels W ord data c = data c := by
  induction ord generalizing data with
  | nil => rfl
  | cons i r ih =>
    have hci : c ≠ i := fun e => h (e ▸ List.mem_cons_self)
    have hcr : c ∉ r := fun e => h (List.mem_cons_of_mem _ e)
    show interpolateOrd nc thr labels W r (repairStep nc thr labels W data i) c = data c
    rw [ih _ hcr]
    simp [repairStep, hci]

omit [Add α] [Mul α] [Div α] in
/-- The weight of a bad channel is zero after the cuts, whatever the cut-off. -/
theorem cutWeight_bad (thr : α) (labels : Nat → Nat) (w : Nat → α) (j : Nat) (h : isBad labels j = true) :
    cutWeight thr labels w j = 0 := by
  simp only [cutWeight, h, if_true]
  split <;> rfl

/-- A repaired row depends on the data only through the donor rows. -/
theorem repairRow_congr (nc : Nat) (thr : α) (labels : Nat → Nat) (w : Nat → α)
    (d d' : Nat → Nat → α)
    (h : ∀ j ∈ imult nc thr labels w (weightSum nc thr labels w), d j = d' j) :
    repairRow nc thr labels w d = repairRow nc thr labels w d' := by
  simp only [repairRow]
  split
  · rfl
  · funext t
    congr 1
    apply List.map_congr_left
    intro j hj
    rw [h j hj]

omit [Add α] [Mul α] in
/-- Donors are never bad channels, in any scalar type in which `0 / s` is not positive. -/
theorem imult_not_bad (hdiv : ∀ s : α, ¬ (0 : α) < 0 / s)
    (nc : Nat) (thr : α) (labels : Nat → Nat) (w : Nat → α) (s : α) (j : Nat)
    (hj : j ∈ imult nc thr labels w s) : isBad labels j = false := by
  simp only [imult, List.mem_filter, decide_eq_true_eq] at hj
  cases hb : isBad labels j with
  | false => rfl
  | true =>
    exfalso
    have := hj.2
    rw [normWeight, cutWeight_bad thr labels w j hb] at this
    exact hdiv s this

/-- The sequential in-place loop equals the "parallel" repair from the ORIGINAL data, for every visiting
order made of bad channels (repetitions allowed): repaired rows are never read. -/
theorem interpolateOrd_eq (hdiv : ∀ s : α, ¬ (0 : α) < 0 / s)
    (nc : Nat) (thr : α) (labels : Nat → Nat) (W : Nat → Nat → α) (data : Nat → Nat → α)
    (ord : List Nat) (hord : ∀ i ∈ ord, isBad labels i = true)
    (cur : Nat → Nat → α) (hcur : ∀ j, isBad labels j = false → cur j = data j) (c : Nat) :
    interpolateOrd nc thr labels W ord cur c =
      if c ∈ ord then repairRow nc thr labels (W c) data else cur c := by
  induction ord generalizing cur with
  | nil => simp [interpolateOrd]
  | cons i r ih =>
    have hi : isBad labels i = true := hord i List.mem_cons_self
    have hr : ∀ k ∈ r, isBad labels k = true := fun k hk => hord k (List.mem_cons_of_mem _ hk)
    have hstep : ∀ j, isBad labels j = false → repairStep nc thr labels W cur i j = data j := by
      intro j hj
      have hji : j ≠ i := by intro e; rw [e, hi] at hj; cases hj
      simp [repairStep, hji, hcur j hj]
    show interpolateOrd nc thr labels W r (repairStep nc thr labels W cur i) c = _
    rw [ih hr _ hstep]
    by_cases hcr : c ∈ r
    · simp [hcr]
    · by_cases hci : c = i
      · subst hci
        simp only [hcr, if_false, List.mem_cons, true_or, if_true, repairStep]
        apply repairRow_congr
        intro j hj
        exact hcur j (imult_not_bad hdiv nc thr labels (W c) _ j hj)
      · simp [hcr, hci, repairStep]

end IblVerif.BadChannels
