/-
Chunk-size independence of the Venn counting model (`Model/Venn.lean`) for chunk sizes that are multiples of the sample
bin size: the bins of consecutive chunks then tile the global bin grid, every chunk's `bin_counts` column is the column of
a global bin, and the returned dictionary is a sum over global bins that does not mention the chunk size any more.
Core Lean only.
-/
import IblVerif.Lemmas.Venn
namespace IblVerif.Venn

theorem phi_of_maxL_zero (r : Nat) (cs : List Nat) (h : maxL cs = 0) : phi r cs = 0 := by
  simp [phi, h]

theorem sum_map_zero {α : Type} (l : List α) : (l.map (fun _ => 0)).sum = 0 := by
  induction l <;> simp_all

theorem sum_map_add' {α : Type} (l : List α) (f g : α → Nat) :
    (l.map (fun i => f i + g i)).sum = (l.map f).sum + (l.map g).sum := by
  induction l with
  | nil => simp
  | cons a l ih => simp only [List.map_cons, List.sum_cons, ih]; omega

theorem sum_map_ite' {α : Type} (l : List α) (p : α → Bool) :
    (l.map (fun i => if p i then 1 else 0)).sum = l.countP p := by
  induction l with
  | nil => simp
  | cons a l ih => simp only [List.map_cons, List.sum_cons, ih, List.countP_cons]; omega

/-- Counting below a bound: only the levels `i < m` matter. -/
theorem countP_range_lt (M m : Nat) (P : Nat → Bool) (h : m ≤ M) :
    (List.range M).countP (fun i => decide (i < m) && P i) = (List.range m).countP P := by
  induction M with
  | zero =>
    have : m = 0 := by omega
    subst this; simp
  | succ M ih =>
    rw [List.range_succ, List.countP_append]
    by_cases hm : m ≤ M
    · rw [ih hm]
      have : ¬ M < m := by omega
      simp [this]
    · have hm' : m = M + 1 := by omega
      subst hm'
      rw [List.range_succ, List.countP_append]
      have e : (List.range M).countP (fun i => decide (i < M + 1) && P i) = (List.range M).countP P := by
        apply List.countP_congr
        intro i hi
        have := List.mem_range.mp hi
        simp; omega
      rw [e]
      simp

/-- The increments of region `r + 1` in one chunk, bin by bin. -/
theorem count_peel (r : Nat) (cols : List (List Nat)) :
    (peel cols).count (r + 1) = (cols.map (phi r)).sum := by
  unfold peel
  rw [List.count_eq_countP, List.countP_flatMap]
  have hN : ∀ cs ∈ cols, maxL cs ≤ maxL (cols.map maxL) := fun cs h => mem_le_maxL _ _ (List.mem_map_of_mem h)
  generalize maxL (cols.map maxL) = N at hN
  have e : ((List.range N).map (List.countP (fun x => x == r + 1) ∘ fun i =>
        (cols.filter (fun cs => decide (i < maxL cs))).map (fun cs => code (maxL cs - i) cs)))
      = (List.range N).map (fun i => cols.countP (fun cs => decide (i < maxL cs) && (code (maxL cs - i) cs == r + 1))) := by
    apply List.map_congr_left
    intro i _
    simp only [Function.comp_def]
    rw [List.countP_map, List.countP_filter]
    apply List.countP_congr
    intro cs _
    simp only [Function.comp_def, Bool.and_comm]
  rw [e]
  clear e
  induction cols with
  | nil => simpa using sum_map_zero (List.range N)
  | cons cs t ih =>
    have ih := ih (fun cs h => hN cs (List.mem_cons_of_mem _ h))
    simp only [List.countP_cons, List.map_cons, List.sum_cons]
    rw [sum_map_add', ih, sum_map_ite', countP_range_lt N (maxL cs) _ (hN cs List.mem_cons_self)]
    unfold phi
    omega

/-- A sum over a product range, row by row. -/
theorem sum_range_mul (a b : Nat) (f : Nat → Nat) :
    ((List.range (a * b)).map f).sum
      = ((List.range a).map (fun y => ((List.range b).map (fun x => f (y * b + x))).sum)).sum := by
  induction a with
  | zero => simp
  | succ a ih =>
    rw [Nat.succ_mul, List.range_add, List.map_append, List.sum_append, ih, List.range_succ, List.map_append,
      List.sum_append]
    simp [List.map_map, Function.comp_def]

/-- Exchange of two finite sums. -/
theorem sum_swap (a b : Nat) (f : Nat → Nat → Nat) :
    ((List.range a).map (fun i => ((List.range b).map (fun j => f i j)).sum)).sum
      = ((List.range b).map (fun j => ((List.range a).map (fun i => f i j)).sum)).sum := by
  induction a with
  | zero => simpa using (sum_map_zero (List.range b)).symm
  | succ a ih =>
    rw [List.range_succ, List.map_append, List.sum_append, ih]
    simp only [List.map_cons, List.map_nil, List.sum_cons, List.sum_nil, Nat.add_zero]
    rw [← sum_map_add']
    congr 1
    apply List.map_congr_left
    intro j _
    rw [List.map_append, List.sum_append]
    simp

/-- A sum whose terms vanish from `X` on does not depend on the upper bound. -/
theorem sum_range_tail (X Y : Nat) (f : Nat → Nat) (hXY : X ≤ Y) (h0 : ∀ x, X ≤ x → f x = 0) :
    ((List.range Y).map f).sum = ((List.range X).map f).sum := by
  obtain ⟨d, rfl⟩ : ∃ d, Y = X + d := ⟨Y - X, by omega⟩
  rw [List.range_add, List.map_append, List.sum_append, List.map_map]
  have : ((List.range d).map (f ∘ fun x => X + x)) = (List.range d).map (fun _ => 0) := by
    apply List.map_congr_left
    intro x _
    show f (X + x) = 0
    exact h0 _ (by omega)
  rw [this, sum_map_zero]
  omega

end IblVerif.Venn

namespace IblVerif.Venn

/-- With a chunk of `c` whole sample bins there are `c + 1` sample bins per chunk (the last one always empty). -/
theorem nScale_mul (c sbin : Nat) (hs : 0 < sbin) : nScale (c * sbin) sbin = c + 1 := by
  unfold nScale
  have e : 2 * (c * sbin) + sbin + 2 * sbin - 1 = (c + 1) * (2 * sbin) + (sbin - 1) := by
    rw [Nat.add_mul]
    have : 2 * (c * sbin) = c * (2 * sbin) := by rw [Nat.mul_left_comm]
    omega
  rw [e]
  apply Nat.div_eq_of_lt_le
  · omega
  · rw [Nat.add_mul (c + 1) 1]; omega

/-- A spike lies in chunk `ch` and in its local sample bin `X` iff it lies in the global sample bin `ch c + X` (`X < c`). -/
theorem chunk_bin_iff (sbin c ch s X : Nat) (hs : 0 < sbin) :
    (ch * (c * sbin) ≤ s ∧ s < ch * (c * sbin) + c * sbin ∧ (s - ch * (c * sbin)) / sbin = X) ↔
      (X < c ∧ s / sbin = ch * c + X) := by
  have e1 : ch * (c * sbin) = ch * c * sbin := (Nat.mul_assoc _ _ _).symm
  have e2 : ch * c * sbin + c * sbin = (ch * c + c) * sbin := (Nat.add_mul _ _ _).symm
  rw [e1, e2]
  have e3 : (s - ch * c * sbin) / sbin = s / sbin - ch * c := by
    rw [Nat.mul_comm (ch * c) sbin]; exact Nat.sub_mul_div _ _ _
  rw [e3, ← Nat.le_div_iff_mul_le hs, ← Nat.div_lt_iff_lt_mul hs]
  omega

/-- Decoding the flattened bin index. -/
theorem flat_index_iff (nx x y b : Nat) (hx : x < nx) : y * nx + x = b ↔ (x = b % nx ∧ y = b / nx) := by
  have hnx : 0 < nx := by omega
  constructor
  · intro h
    subst h
    refine ⟨?_, ?_⟩
    · rw [Nat.mul_add_mod', Nat.mod_eq_of_lt hx]
    · rw [Nat.add_comm, Nat.add_mul_div_right _ _ hnx, Nat.div_eq_of_lt hx]; omega
  · rintro ⟨rfl, rfl⟩
    exact Nat.div_add_mod' b nx

theorem sorterBins_count (sbin cbin nch chunk : Nat) (sp : List Spike) (idx : List Nat) (b : Nat)
    (h : sorterBins sbin cbin nch chunk sp = some idx) :
    idx.count b = sp.countP (fun p => binIndex sbin cbin (nScale chunk sbin) (nScale nch cbin) p == some b) := by
  unfold sorterBins at h
  induction sp generalizing idx with
  | nil => simp [allSome] at h; subst h; simp
  | cons p t ih =>
    simp only [List.map_cons] at h
    cases hb : binIndex sbin cbin (nScale chunk sbin) (nScale nch cbin) p with
    | none => simp [hb, allSome] at h
    | some a =>
      simp only [hb, allSome, Option.map_eq_some_iff] at h
      obtain ⟨idx', h', rfl⟩ := h
      rw [List.count_cons, List.countP_cons, ih idx' h', hb]
      simp

theorem chunkOf_eq_filter (sp : List Spike) (off chunk : Nat) (hs : sp.Pairwise (fun p q => p.1 ≤ q.1)) :
    chunkOf off chunk sp
      = (sp.filter (fun p => off ≤ p.1 ∧ p.1 < off + chunk)).map (fun p => (p.1 - off, p.2)) := by
  unfold chunkOf
  simp only
  rw [slice_eq_filter sp off (off + chunk) hs]

/-- Every column of a chunk of `c` whole sample bins is the column of a global bin (or the always-empty last sample bin). -/
theorem chunk_column (sorters : List (List Spike)) (sbin cbin nch c ch : Nat) (cols : List (List Nat))
    (hs : 0 < sbin) (hsorted : ∀ sp ∈ sorters, sp.Pairwise (fun p q => p.1 ≤ q.1))
    (h : chunkColumns sbin cbin nch (c * sbin) (ch * (c * sbin)) sorters = some cols) :
    cols = (List.range ((c + 1) * nScale nch cbin)).map (fun b =>
      if b % (c + 1) < c then colG sorters sbin cbin (ch * c + b % (c + 1)) (b / (c + 1))
      else sorters.map (fun _ => 0)) := by
  unfold chunkColumns at h
  simp only [Option.map_eq_some_iff] at h
  obtain ⟨idxs, hc, rfl⟩ := h
  obtain ⟨hl, hi⟩ := allSome_map _ _ _ hc
  rw [nScale_mul c sbin hs]
  apply List.map_congr_left
  intro b hb
  have hb' : b < (c + 1) * nScale nch cbin := List.mem_range.mp hb
  have hy : b / (c + 1) < nScale nch cbin := by
    rw [Nat.div_lt_iff_lt_mul (by omega), Nat.mul_comm]; exact hb'
  -- sorter by sorter
  have key : ∀ j (hj : j < sorters.length) (hj' : j < idxs.length),
      idxs[j].count b = sorters[j].countP (fun p =>
        decide (b % (c + 1) < c) && (p.1 / sbin == ch * c + b % (c + 1) && p.2 / cbin == b / (c + 1))) := by
    intro j hj hj'
    have hsb := hi j hj hj'
    rw [sorterBins_count _ _ _ _ _ _ b hsb, chunkOf_eq_filter _ _ _ (hsorted _ (List.getElem_mem hj)),
      List.countP_map, List.countP_filter, nScale_mul c sbin hs]
    apply List.countP_congr
    intro p _
    simp only [Function.comp_def, binIndex]
    have hiff := chunk_bin_iff sbin c ch p.1 (b % (c + 1)) hs
    by_cases hin : ch * (c * sbin) ≤ p.1 ∧ p.1 < ch * (c * sbin) + c * sbin
    · have hx : (p.1 - ch * (c * sbin)) / sbin < c + 1 := by
        have := (chunk_bin_iff sbin c ch p.1 _ hs).1 ⟨hin.1, hin.2, rfl⟩
        omega
      by_cases hyy : p.2 / cbin < nScale nch cbin
      · have hfl := flat_index_iff (c + 1) ((p.1 - ch * (c * sbin)) / sbin) (p.2 / cbin) b hx
        simp only [hx, hyy, and_self, if_true]
        constructor
        · intro h
          simp only [Bool.and_eq_true, beq_iff_eq, Option.some.injEq, decide_eq_true_eq] at h ⊢
          have h12 := hfl.1 h.1
          have := hiff.1 ⟨hin.1, hin.2, h12.1⟩
          exact ⟨this.1, this.2, h12.2⟩
        · intro h
          simp only [Bool.and_eq_true, beq_iff_eq, Option.some.injEq, decide_eq_true_eq] at h ⊢
          have := hiff.2 ⟨h.1, h.2.1⟩
          exact ⟨hfl.2 ⟨this.2.2, h.2.2⟩, hin⟩
      · have hno : ¬ ((p.1 - ch * (c * sbin)) / sbin < c + 1 ∧ p.2 / cbin < nScale nch cbin) := by omega
        simp only [hno, if_false]
        constructor
        · intro h; simp at h
        · intro h
          simp only [Bool.and_eq_true, beq_iff_eq, decide_eq_true_eq] at h
          omega
    · constructor
      · intro h
        simp only [Bool.and_eq_true, decide_eq_true_eq] at h
        exact absurd h.2 hin
      · intro h
        simp only [Bool.and_eq_true, beq_iff_eq, decide_eq_true_eq] at h
        have := hiff.2 ⟨h.1, h.2.1⟩
        exact absurd (And.intro this.1 this.2.1) hin
  apply List.ext_getElem
  · by_cases hlt : b % (c + 1) < c <;> simp [hlt, colG, hl]
  · intro j h1 h2
    have hj' : j < idxs.length := by simpa using h1
    have hj : j < sorters.length := by omega
    rw [List.getElem_map, key j hj hj']
    by_cases hlt : b % (c + 1) < c
    · simp [hlt, colG]
    · simp [hlt]

end IblVerif.Venn

namespace IblVerif.Venn

theorem maxL_zeros {α : Type} (l : List α) : maxL (l.map (fun _ => 0)) = 0 := by
  induction l with
  | nil => rfl
  | cons a t ih => simp only [List.map_cons, maxL, List.foldr_cons] at ih ⊢; omega

/-- Beyond the last occupied sample bin every global column is empty. -/
theorem colG_beyond (sorters : List (List Spike)) (sbin cbin mx xg yg : Nat)
    (hmx : ∀ sp ∈ sorters, ∀ p ∈ sp, p.1 ≤ mx) (hx : mx / sbin < xg) :
    colG sorters sbin cbin xg yg = sorters.map (fun _ => 0) := by
  unfold colG
  apply List.map_congr_left
  intro sp hsp
  rw [List.countP_eq_zero]
  intro p hp
  have h1 := hmx sp hsp p hp
  have h2 : p.1 / sbin ≤ mx / sbin := Nat.div_le_div_right h1
  simp only [Bool.and_eq_true, beq_iff_eq, not_and]
  intro h; omega

theorem globalCount_tail (sorters : List (List Spike)) (sbin cbin ny mx X r : Nat)
    (hmx : ∀ sp ∈ sorters, ∀ p ∈ sp, p.1 ≤ mx) (hX : mx / sbin + 1 ≤ X) :
    globalCount sorters sbin cbin ny X r = globalCount sorters sbin cbin ny (mx / sbin + 1) r := by
  unfold globalCount
  congr 1
  apply List.map_congr_left
  intro y _
  apply sum_range_tail _ _ _ hX
  intro x hx
  rw [colG_beyond sorters sbin cbin mx x y hmx (by omega)]
  exact phi_of_maxL_zero _ _ (maxL_zeros _)

/-- The per-bin sums of one chunk of `c` whole sample bins, as a sum over that chunk's slab of the global grid. -/
theorem chunk_sum (sorters : List (List Spike)) (sbin cbin c ch ny r : Nat) :
    ((List.range ((c + 1) * ny)).map (fun b => phi r
        (if b % (c + 1) < c then colG sorters sbin cbin (ch * c + b % (c + 1)) (b / (c + 1))
         else sorters.map (fun _ => 0)))).sum
      = ((List.range ny).map (fun y => ((List.range c).map (fun x =>
          phi r (colG sorters sbin cbin (ch * c + x) y))).sum)).sum := by
  rw [Nat.mul_comm (c + 1) ny, sum_range_mul]
  congr 1
  apply List.map_congr_left
  intro y _
  rw [List.range_succ, List.map_append, List.sum_append]
  have e1 : (List.range c).map (fun x => phi r
        (if (y * (c + 1) + x) % (c + 1) < c then
          colG sorters sbin cbin (ch * c + (y * (c + 1) + x) % (c + 1)) ((y * (c + 1) + x) / (c + 1))
         else sorters.map (fun _ => 0)))
      = (List.range c).map (fun x => phi r (colG sorters sbin cbin (ch * c + x) y)) := by
    apply List.map_congr_left
    intro x hx
    have hx' : x < c + 1 := by have := List.mem_range.mp hx; omega
    have hm : (y * (c + 1) + x) % (c + 1) = x := by rw [Nat.mul_add_mod', Nat.mod_eq_of_lt hx']
    have hd : (y * (c + 1) + x) / (c + 1) = y := by
      rw [Nat.add_comm, Nat.add_mul_div_right _ _ (by omega), Nat.div_eq_of_lt hx']; omega
    have hlt : x < c := List.mem_range.mp hx
    rw [hm, hd, if_pos hlt]
  rw [e1]
  have hm : (y * (c + 1) + c) % (c + 1) = c := by rw [Nat.mul_add_mod', Nat.mod_eq_of_lt (by omega)]
  simp only [List.map_cons, List.map_nil, List.sum_cons, List.sum_nil, hm, Nat.lt_irrefl, if_false]
  rw [phi_of_maxL_zero _ _ (maxL_zeros _)]
  omega

/-- All chunks together tile the global grid. -/
theorem chunks_sum (sorters : List (List Spike)) (sbin cbin c N ny r : Nat) :
    ((List.range N).map (fun ch => ((List.range ny).map (fun y => ((List.range c).map (fun x =>
        phi r (colG sorters sbin cbin (ch * c + x) y))).sum)).sum)).sum
      = globalCount sorters sbin cbin ny (N * c) r := by
  unfold globalCount
  rw [sum_swap N ny (fun ch y => ((List.range c).map (fun x => phi r (colG sorters sbin cbin (ch * c + x) y))).sum)]
  congr 1
  apply List.map_congr_left
  intro y _
  rw [sum_range_mul N c (fun xg => phi r (colG sorters sbin cbin xg y))]

/-- What `venn` returns for a chunk of `c` whole sample bins, region by region: a sum over global bins that does not
depend on `c`. -/
theorem venn_aligned (sorters : List (List Spike)) (sbin cbin nch c : Nat) (res : List Nat)
    (hsorted : ∀ sp ∈ sorters, sp.Pairwise (fun p q => p.1 ≤ q.1))
    (h : venn sorters sbin cbin nch (c * sbin) = .ok res) :
    ∃ mx, maxSample sorters = some mx ∧
      res = (List.range (2 ^ sorters.length - 1)).map
        (fun r => globalCount sorters sbin cbin (nScale nch cbin) (mx / sbin + 1) r) := by
  have hdom : 0 < sbin ∧ 0 < c := by
    unfold venn at h
    split at h
    · simp at h
    · rename_i hd
      have : 0 < c * sbin := by omega
      exact ⟨by omega, Nat.pos_of_mul_pos_right this⟩
  obtain ⟨hs, hc0⟩ := hdom
  obtain ⟨hchunk, mx, cc, hmx, hcc, rfl⟩ := venn_ok _ _ _ _ _ _ h
  refine ⟨mx, hmx, ?_⟩
  have hle : ∀ sp ∈ sorters, ∀ p ∈ sp, p.1 ≤ mx := by
    intro sp hsp p hp
    obtain ⟨j, hj, rfl⟩ := List.getElem_of_mem hsp
    exact (sample_le_maxSample _ _ hmx j hj).2 p hp
  obtain ⟨hl, hi⟩ := allSome_map _ _ _ hcc
  simp only [List.length_range] at hl hi
  unfold tally
  apply List.map_congr_left
  intro r _
  rw [List.count_flatten]
  have hmap : cc.map (List.count (r + 1)) = (List.range (mx / (c * sbin) + 1)).map (fun ch =>
      ((List.range (nScale nch cbin)).map (fun y => ((List.range c).map (fun x =>
        phi r (colG sorters sbin cbin (ch * c + x) y))).sum)).sum) := by
    apply List.ext_getElem
    · simp [hl]
    · intro ch h1 h2
      simp only [List.length_map] at h1
      have := hi ch (by omega) h1
      simp only [List.getElem_range, chunkCodes, Option.map_eq_some_iff] at this
      obtain ⟨cols, hc1, hc2⟩ := this
      simp only [List.getElem_map, List.getElem_range, ← hc2]
      rw [count_peel, chunk_column sorters sbin cbin nch c ch cols hs hsorted hc1, List.map_map]
      exact chunk_sum sorters sbin cbin c ch (nScale nch cbin) r
  rw [hmap, chunks_sum]
  apply globalCount_tail _ _ _ _ mx _ _ hle
  -- N c > mx / sbin
  have e : mx / (c * sbin) = mx / sbin / c := by rw [Nat.mul_comm, Nat.div_div_eq_div_mul]
  have := Nat.lt_mul_div_succ (mx / sbin) hc0
  rw [e, Nat.mul_comm]
  omega

end IblVerif.Venn

namespace IblVerif.Venn

/-- A run that returns has seen every spike in some chunk, so every channel lies inside the channel bins. -/
theorem channels_in_range (sorters : List (List Spike)) (sbin cbin nch chunk : Nat) (res : List Nat)
    (hsorted : ∀ sp ∈ sorters, sp.Pairwise (fun p q => p.1 ≤ q.1))
    (h : venn sorters sbin cbin nch chunk = .ok res) :
    ∀ sp ∈ sorters, ∀ p ∈ sp, p.2 / cbin < nScale nch cbin := by
  obtain ⟨hchunk, mx, cc, hmx, hcc, _⟩ := venn_ok _ _ _ _ _ _ h
  obtain ⟨hl, hi⟩ := allSome_map _ _ _ hcc
  simp only [List.length_range] at hl hi
  intro sp hsp p hp
  obtain ⟨j, hj, rfl⟩ := List.getElem_of_mem hsp
  have hple := (sample_le_maxSample _ _ hmx j hj).2 p hp
  have hch : p.1 / chunk < mx / chunk + 1 := by
    have := Nat.div_le_div_right (c := chunk) hple
    omega
  have := hi (p.1 / chunk) hch (by omega)
  simp only [List.getElem_range, chunkCodes, Option.map_eq_some_iff] at this
  obtain ⟨cols, hc1, _⟩ := this
  unfold chunkColumns at hc1
  simp only [Option.map_eq_some_iff] at hc1
  obtain ⟨idxs, hc, _⟩ := hc1
  obtain ⟨hl2, hi2⟩ := allSome_map _ _ _ hc
  have hsb := hi2 j hj (by omega)
  unfold sorterBins at hsb
  have hmapeq := allSome_eq_some _ _ hsb
  -- the spike, re-referenced to its chunk, is one of the chunk's spikes
  have hmem : (p.1 - p.1 / chunk * chunk, p.2) ∈ chunkOf (p.1 / chunk * chunk) chunk sorters[j] := by
    rw [chunkOf_eq_filter _ _ _ (hsorted _ (List.getElem_mem hj))]
    apply List.mem_map.mpr
    refine ⟨p, ?_, rfl⟩
    rw [List.mem_filter]
    refine ⟨hp, ?_⟩
    have h1 := Nat.div_mul_le_self p.1 chunk
    have h2 := Nat.lt_mul_div_succ p.1 hchunk
    rw [Nat.mul_add, Nat.mul_one, Nat.mul_comm] at h2
    simp only [decide_eq_true_eq]
    omega
  have hsome : binIndex sbin cbin (nScale chunk sbin) (nScale nch cbin) (p.1 - p.1 / chunk * chunk, p.2)
      ∈ (idxs[j]).map some := by
    rw [← hmapeq]
    exact List.mem_map_of_mem hmem
  obtain ⟨a, _, ha⟩ := List.mem_map.mp hsome
  unfold binIndex at ha
  simp only at ha
  split at ha
  · rename_i hlt; exact hlt.2
  · simp at ha

/-- For every chunk of `c` whole sample bins, `venn` returns what the chunk-free `vennGlobal` returns. -/
theorem venn_eq_vennGlobal (sorters : List (List Spike)) (sbin cbin nch c : Nat) (res : List Nat)
    (hsorted : ∀ sp ∈ sorters, sp.Pairwise (fun p q => p.1 ≤ q.1))
    (h : venn sorters sbin cbin nch (c * sbin) = .ok res) : vennGlobal sorters sbin cbin nch = .ok res := by
  obtain ⟨mx, hmx, rfl⟩ := venn_aligned sorters sbin cbin nch c res hsorted h
  have hrange := channels_in_range sorters sbin cbin nch (c * sbin) _ hsorted h
  have hdom : ¬ (sbin = 0 ∨ cbin = 0) := by
    unfold venn at h
    split at h
    · simp at h
    · rename_i hd; omega
  unfold vennGlobal
  simp only [hdom, if_false, hmx]
  have hany : sorters.any (fun sp => sp.any (fun p => decide (nScale nch cbin ≤ p.2 / cbin))) = false := by
    rw [List.any_eq_false]
    intro sp hsp
    rw [Bool.not_eq_true, List.any_eq_false]
    intro p hp
    have := hrange sp hsp p hp
    simp only [decide_eq_true_eq]
    omega
  simp [hany]

end IblVerif.Venn
