/-
Helper lemmas for C11 (core Lean only): floor arithmetic of `framesOnDisk`, unfolding of `openBin` / `openCbin`
under the round-trip law, the row-major view of the file.
-/
import IblVerif.Model.OpenSize

namespace IblVerif.OpenSize

variable {T : Type}

/-- The law the float operations have to satisfy for the sample count `k`:
`int(np.round((k / fs) * fs)) == k`.  Proved over ℝ for every rounding function of the standard model
(`seconds_roundtrip`), for `k < 2^50`, `fs > 0`. -/
def RoundTrip (A : Arith T) (fs : T) (k : Nat) : Prop :=
  A.rint (A.mul (A.div (A.ofNat k) fs) fs) = k

/-- The law behind `OnlineReader.ns`: the two float divisions followed by truncation give the floor.
Proved over ℝ in the standard model (`online_floor`) for sizes below 2^40. -/
def OnlineFloor (A : Arith T) (nc itemsize bytes : Nat) : Prop :=
  A.trunc (A.div (A.div (A.ofNat bytes) (A.ofNat itemsize)) (A.ofNat nc)) = framesOnDisk bytes nc itemsize

theorem frames_mul_le (bytes nc itemsize : Nat) :
    framesOnDisk bytes nc itemsize * nc * itemsize ≤ bytes := by
  unfold framesOnDisk
  have := Nat.div_mul_le_self bytes (itemsize * nc)
  rw [Nat.mul_assoc, Nat.mul_comm nc itemsize]
  exact this

theorem lt_frames_succ_mul (bytes nc itemsize : Nat) (hnc : 0 < nc) (hsz : 0 < itemsize) :
    bytes < (framesOnDisk bytes nc itemsize + 1) * nc * itemsize := by
  unfold framesOnDisk
  have hpos : 0 < itemsize * nc := Nat.mul_pos hsz hnc
  have := Nat.lt_mul_div_succ bytes hpos
  rw [Nat.mul_assoc, Nat.mul_comm nc itemsize, Nat.mul_comm]
  exact this

theorem frames_of_exact (nc ns itemsize : Nat) (hnc : 0 < nc) (hsz : 0 < itemsize) :
    framesOnDisk (nc * ns * itemsize) nc itemsize = ns := by
  unfold framesOnDisk
  have hpos : 0 < itemsize * nc := Nat.mul_pos hsz hnc
  have : nc * ns * itemsize = ns * (itemsize * nc) := by
    rw [Nat.mul_comm nc ns, Nat.mul_assoc, Nat.mul_comm nc itemsize]
  rw [this, Nat.mul_div_cancel _ hpos]

/-- Position of element `[i, j]` of a `(rows, nc)` view lies before the end of the view. -/
theorem flat_lt (rows nc i j : Nat) (hi : i < rows) (hj : j < nc) : i * nc + j + 1 ≤ rows * nc := by
  have h1 : (i + 1) * nc ≤ rows * nc := Nat.mul_le_mul_right nc hi
  rw [Nat.add_mul, Nat.one_mul] at h1
  omega

/-- `memmap` succeeds exactly on a non-empty file that holds the requested rows. -/
theorem memmap_ok (bytes rows nc itemsize : Nat) (hb : 0 < bytes) (hle : rows * nc * itemsize ≤ bytes) :
    memmap bytes rows nc itemsize = .ok () := by
  unfold memmap
  rw [if_neg (by omega), if_neg (by omega)]

/-- `openBin` for the offline reader with meta data, under the round-trip law for the frames on disk. -/
theorem openBin_offline_meta (A : Arith T) (nc : Nat) (fs fts : T) (itemsize bytes : Nat)
    (hnc : 0 < nc) (hsz : 0 < itemsize) (hb : 0 < bytes) (hfs : A.isZero fs = false)
    (hrt : RoundTrip A fs (framesOnDisk bytes nc itemsize)) :
    ∃ fts', openBin A .offline (.ofMeta nc fs (some fts)) itemsize bytes = .ok (.ofMeta nc fs (some fts')) ∧
      A.rint (A.mul fts' fs) = framesOnDisk bytes nc itemsize ∧
      (nc * A.rint (A.mul fts fs) * itemsize = bytes → fts' = fts) ∧
      (nc * A.rint (A.mul fts fs) * itemsize ≠ bytes →
        fts' = A.div (A.ofNat (framesOnDisk bytes nc itemsize)) fs) := by
  by_cases hc : nc * A.rint (A.mul fts fs) * itemsize = bytes
  · refine ⟨fts, ?_, ?_, fun _ => rfl, fun h => absurd hc h⟩
    · have hm : memmap bytes (A.rint (A.mul fts fs)) nc itemsize = .ok () := by
        apply memmap_ok _ _ _ _ hb
        rw [Nat.mul_comm (A.rint (A.mul fts fs)) nc]; omega
      simp [openBin, nsOf, Hdr.nsOffline, Hdr.nc, hc, hm, bind, Except.bind, pure, Except.pure]
    · rw [← hc]; exact (frames_of_exact nc _ itemsize hnc hsz).symm
  · have hpos : itemsize * nc ≠ 0 := Nat.pos_iff_ne_zero.mp (Nat.mul_pos hsz hnc)
    refine ⟨A.div (A.ofNat (framesOnDisk bytes nc itemsize)) fs, ?_, hrt, fun h => absurd h hc, fun _ => rfl⟩
    have hm : memmap bytes (A.rint (A.mul (A.div (A.ofNat (framesOnDisk bytes nc itemsize)) fs) fs)) nc itemsize
        = .ok () := by
      rw [hrt]; exact memmap_ok _ _ _ _ hb (frames_mul_le bytes nc itemsize)
    simp [openBin, nsOf, Hdr.nsOffline, Hdr.nc, Hdr.fs, Hdr.setFileTimeSecs, hc, hpos, hfs, hm, bind,
      Except.bind, pure, Except.pure]

/-- `openBin` for the online reader with meta data, under the online floor law.  `fileTimeSecs` may be absent
(recording in progress). -/
theorem openBin_online_meta (A : Arith T) (nc : Nat) (fs : T) (fts : Option T)
    (itemsize bytes : Nat)
    (hnc : 0 < nc) (hsz : 0 < itemsize) (hb : 0 < bytes) (hfs : A.isZero fs = false)
    (hon : OnlineFloor A nc itemsize bytes) :
    ∃ fts', openBin A .online (.ofMeta nc fs fts) itemsize bytes = .ok (.ofMeta nc fs fts') ∧
      nsOf A .online (.ofMeta nc fs fts') itemsize bytes = .ok (framesOnDisk bytes nc itemsize) ∧
      (nc * framesOnDisk bytes nc itemsize * itemsize ≠ bytes →
        fts' = some (A.div (A.ofNat (framesOnDisk bytes nc itemsize)) fs)) := by
  have hns : onlineNs A nc itemsize bytes = .ok (framesOnDisk bytes nc itemsize) := by
    unfold onlineNs
    rw [if_neg (by omega)]
    unfold OnlineFloor at hon
    rw [hon]
  have hm : memmap bytes (framesOnDisk bytes nc itemsize) nc itemsize = .ok () :=
    memmap_ok _ _ _ _ hb (frames_mul_le bytes nc itemsize)
  have hpos : itemsize * nc ≠ 0 := Nat.pos_iff_ne_zero.mp (Nat.mul_pos hsz hnc)
  by_cases hc : nc * framesOnDisk bytes nc itemsize * itemsize = bytes
  · refine ⟨fts, ?_, ?_, fun h => absurd hc h⟩
    · simp [openBin, nsOf, Hdr.nc, hns, hc, hm, bind, Except.bind, pure, Except.pure]
    · simp [nsOf, Hdr.nc, hns]
  · refine ⟨some (A.div (A.ofNat (framesOnDisk bytes nc itemsize)) fs), ?_, ?_, fun _ => rfl⟩
    · simp [openBin, nsOf, Hdr.nc, Hdr.fs, Hdr.setFileTimeSecs, hns, hc, hpos, hfs, hm, bind, Except.bind,
        pure, Except.pure]
    · simp [nsOf, Hdr.nc, hns]

/-- `openCbin` under the round-trip law for the announced number of samples. -/
theorem openCbin_meta (A : Arith T) (nc : Nat) (fs fts : T) (n cnc : Nat) (chfs : T)
    (hfs : A.isZero fs = false) (hrt : RoundTrip A fs n) :
    ∃ fts', openCbin A (.ofMeta nc fs (some fts)) ⟨n, cnc, chfs⟩ = .ok (.ofMeta nc fs (some fts')) ∧
      (cnc = nc → A.rint (A.mul fts' fs) = n) ∧
      ((n, cnc) ≠ (A.rint (A.mul fts fs), nc) → fts' = A.div (A.ofNat n) fs) := by
  by_cases hc : (n, cnc) = (A.rint (A.mul fts fs), nc)
  · refine ⟨fts, ?_, ?_, fun h => absurd hc h⟩
    · have hc' : n = A.rint (A.mul fts fs) ∧ cnc = nc := by
        exact ⟨congrArg Prod.fst hc, congrArg Prod.snd hc⟩
      simp [openCbin, Hdr.nsOffline, Hdr.nc, hc', bind, Except.bind]
    · intro _
      have := congrArg Prod.fst hc
      simpa using this.symm
  · refine ⟨A.div (A.ofNat n) fs, ?_, fun _ => hrt, fun _ => rfl⟩
    have hc' : ¬ (n = A.rint (A.mul fts fs) ∧ cnc = nc) := by
      intro h; exact hc (by rw [h.1, h.2])
    simp [openCbin, Hdr.nsOffline, Hdr.nc, Hdr.fs, Hdr.setFileTimeSecs, hfs, hc', bind, Except.bind]

/-! ### Row-major view -/

theorem exposed_succ (file : List Int) (rows nc : Nat) :
    exposed file (rows + 1) nc = exposed file rows nc ++ [row file nc rows] := by
  unfold exposed
  rw [List.range_succ, List.map_append]
  rfl

/-- The rows of the view, concatenated, are the first `rows * nc` samples of the file. -/
theorem exposed_flatten (file : List Int) (rows nc : Nat) :
    (exposed file rows nc).flatten = file.take (rows * nc) := by
  induction rows with
  | zero => simp [exposed]
  | succ r ih =>
    rw [exposed_succ, List.flatten_append, ih, Nat.add_mul, Nat.one_mul, List.take_add]
    simp [row]

end IblVerif.OpenSize
