/-
Helper lemmas on the file-state machine `Model/FsCompress.lean`.  Core Lean only.
-/
import IblVerif.Model.FsCompress

namespace IblVerif.FsCompress

variable {α γ : Type}

theorem writeChunks_true {β : Type} (f : Option Nat) (l p : List β) (h : writeChunks f l = (p, true)) :
    p = l := by
  unfold writeChunks at h
  split at h
  · split at h <;> simp_all
  · simp_all

theorem writeChunks_false {β : Type} (f : Option Nat) (l p : List β) (h : writeChunks f l = (p, false)) :
    ∃ j, f = some j ∧ j < l.length ∧ p = l.take j := by
  unfold writeChunks at h
  split at h
  · rename_i j
    split at h
    · exact ⟨j, rfl, by assumption, by simp_all⟩
    · simp_all
  · simp_all

theorem writeChunks_none {β : Type} (l : List β) : writeChunks none l = (l, true) := rfl

theorem map_dec_enc (c : Codec α γ) (hc : c.Lossless) (l : List α) : (l.map c.enc).map c.dec = l := by
  induction l with
  | nil => rfl
  | cons a t ih => simp [List.map, hc a, ih]

/-! ### `compress_file` -/

/-- Everything `compress_file` can do, by outcome (lossless codec). -/
theorem compressFile_cases [DecidableEq α] (c : Codec α γ) (hc : c.Lossless) (s : Fs α γ) (fb : DataName)
    (keep : Bool) (fault : Option Nat) (rf : Bool) :
    let r := compressFile c s fb keep fault rf
    -- refused before anything is written
    (r = (s, fb, .err .assertion) ∧ (fb = .cbin ∨ s.bin = none ∨ s.bin = some [])) ∨
    -- interrupted after `j` chunks: only `x.cbin_tmp` differs
    (∃ l j, fb = .bin ∧ s.bin = some l ∧ l ≠ [] ∧ fault = some j ∧ j < l.length ∧
      r = ({ s with cbinTmp := some ((l.map c.enc).take j) }, fb, .err .fault)) ∨
    -- ran to completion
    (∃ l, fb = .bin ∧ s.bin = some l ∧ l ≠ [] ∧ rf = false ∧
      r = ({ s with cbinTmp := none, ch := some (l.map c.enc), cbin := some (l.map c.enc),
                    bin := if keep then some l else none },
           (if keep then .bin else .cbin), .ok)) ∨
    -- all chunks, header and check done, the rename raised: `x.cbin_tmp` complete, `x.ch` written, nothing else
    (∃ l, fb = .bin ∧ s.bin = some l ∧ l ≠ [] ∧ rf = true ∧
      r = ({ s with cbinTmp := some (l.map c.enc), ch := some (l.map c.enc) }, fb, .err .osError)) := by
  intro r
  cases fb with
  | cbin => left; exact ⟨rfl, Or.inl rfl⟩
  | bin =>
    cases hb : s.bin with
    | none => left; refine ⟨?_, Or.inr (Or.inl rfl)⟩; simp [r, compressFile, hb]
    | some l =>
      cases l with
      | nil => left; refine ⟨?_, Or.inr (Or.inr rfl)⟩; simp [r, compressFile, hb]
      | cons a t =>
        right
        cases hw : writeChunks fault ((a :: t).map c.enc) with
        | mk p fin =>
          cases fin with
          | false =>
            left
            obtain ⟨j, hj, hlt, hp⟩ := writeChunks_false _ _ _ hw
            refine ⟨a :: t, j, rfl, rfl, by simp, hj, by simpa using hlt, ?_⟩
            simp only [r, compressFile, hb, hw, hp]
          | true =>
            right
            have hp := writeChunks_true _ _ _ hw
            subst hp
            have hchk : ((a :: t).map c.enc).map c.dec = a :: t := map_dec_enc c hc _
            cases rf with
            | false =>
              left
              refine ⟨a :: t, rfl, rfl, by simp, rfl, ?_⟩
              simp only [r, compressFile, hb, hw, hchk, ne_eq, not_true_eq_false, if_false]
              cases keep <;> simp
            | true =>
              right
              refine ⟨a :: t, rfl, rfl, by simp, rfl, ?_⟩
              simp only [r, compressFile, hb, hw, hchk, ne_eq, not_true_eq_false, if_false, if_true]

/-! ### `decompress_file` -/

/-- Everything `decompress_file` can do, by outcome. -/
theorem decompressFile_cases [DecidableEq γ] (c : Codec α γ) (s : Fs α γ) (fb : DataName) (keep : Bool)
    (out : OutName) (overwrite : Bool) (fault : Option Nat) :
    let r := decompressFile c s fb keep out overwrite fault
    -- refused before anything is touched
    (∃ e, e ≠ .fault ∧ r = (s, .err e)) ∨
    -- interrupted after `j` chunks: only the output name differs
    (∃ cs j, fb = .cbin ∧ s.cbin = some cs ∧ s.ch = some cs ∧ fault = some j ∧ j < cs.length ∧
      r = (s.setOut out (some ((cs.map c.dec).take j)), .err .fault)) ∨
    -- ran to completion
    (∃ cs, fb = .cbin ∧ s.cbin = some cs ∧ s.ch = some cs ∧ (overwrite = true ∨ s.getOut out = none) ∧
      r = ((if keep then s.setOut out (some (cs.map c.dec))
            else { s.setOut out (some (cs.map c.dec)) with cbin := none, ch := none }), .ok)) := by
  intro r
  cases fb with
  | bin => left; exact ⟨.assertion, by simp, rfl⟩
  | cbin =>
    cases hh : s.ch with
    | none => left; exact ⟨.fileNotFound, by simp, by simp [r, decompressFile, hh]⟩
    | some h =>
      cases hcb : s.cbin with
      | none => left; exact ⟨.fileNotFound, by simp, by simp [r, decompressFile, hh, hcb]⟩
      | some cs =>
        by_cases hne : h = cs
        · subst hne
          by_cases hov : (!overwrite && (s.getOut out).isSome) = true
          · left; exact ⟨.valueError, by simp, by simp [r, decompressFile, hh, hcb, hov]⟩
          · right
            have hov' : overwrite = true ∨ s.getOut out = none := by
              cases overwrite <;> cases hg : s.getOut out <;> simp_all
            cases hw : writeChunks fault (h.map c.dec) with
            | mk p fin =>
              cases fin with
              | false =>
                left
                obtain ⟨j, hj, hlt, hp⟩ := writeChunks_false _ _ _ hw
                refine ⟨h, j, rfl, rfl, rfl, hj, by simpa using hlt, ?_⟩
                simp [r, decompressFile, hh, hcb, hov, hw, hp]
              | true =>
                right
                have hp := writeChunks_true _ _ _ hw
                subst hp
                refine ⟨h, rfl, rfl, rfl, hov', ?_⟩
                cases keep <;> simp [r, decompressFile, hh, hcb, hov, hw]
        · left; exact ⟨.corruptHeader, by simp, by simp [r, decompressFile, hh, hcb, hne]⟩

/-! ### `decompress_to_scratch` -/

/-- Everything `decompress_to_scratch` can do, by outcome. -/
theorem toScratch_cases [DecidableEq γ] (c : Codec α γ) (s : Fs α γ) (fb : DataName) (scratch : Bool)
    (fault : Option Nat) (mf : Bool) :
    let r := toScratch c s fb scratch fault mf
    let s0 : Fs α γ := if scratch then { s with smeta := true } else s
    -- the decompressed file is already there
    (r = (s0, .ok) ∧ (if scratch then s.sbin else s.bin).isSome) ∨
    -- refused
    (∃ e, e ≠ .fault ∧ r = (s0, .err e) ∧ (if scratch then s.sbin else s.bin) = none) ∨
    -- interrupted: only the temporary name differs
    (∃ cs j, fb = .cbin ∧ s.cbin = some cs ∧ s.ch = some cs ∧ fault = some j ∧ j < cs.length ∧
      (if scratch then s.sbin else s.bin) = none ∧
      r = ((if scratch then { s0 with sbinTemp := some ((cs.map c.dec).take j) }
            else { s0 with binTemp := some ((cs.map c.dec).take j) }), .err .fault)) ∨
    -- ran to completion: temporary file moved to the final name
    (∃ cs, fb = .cbin ∧ s.cbin = some cs ∧ s.ch = some cs ∧ (if scratch then s.sbin else s.bin) = none ∧ mf = false ∧
      r = ((if scratch then { s0 with sbin := some (cs.map c.dec), sbinTemp := none }
            else { s0 with bin := some (cs.map c.dec), binTemp := none }), .ok)) ∨
    -- decompressed completely, the move raised: the temporary file stays (complete), nothing is published
    (∃ cs, fb = .cbin ∧ s.cbin = some cs ∧ s.ch = some cs ∧ (if scratch then s.sbin else s.bin) = none ∧ mf = true ∧
      r = ((if scratch then { s0 with sbinTemp := some (cs.map c.dec) }
            else { s0 with binTemp := some (cs.map c.dec) }), .err .osError)) := by
  intro r s0
  cases scratch with
  | true =>
    cases hsb : s.sbin with
    | some v => left; simp [r, s0, toScratch, hsb]
    | none =>
      right
      have hd := decompressFile_cases c { s with smeta := true } fb true .sbinTemp true fault
      simp only at hd
      try simp only [hsb] at hd
      rcases hd with ⟨e, he, hr⟩ | ⟨cs, j, hfb, hcb, hch, hf, hj, hr⟩ | ⟨cs, hfb, hcb, hch, _, hr⟩
      · left; refine ⟨e, he, ?_, by simp⟩
        simp [r, s0, toScratch, hsb, hr]
      · right; left; refine ⟨cs, j, hfb, hcb, hch, hf, hj, by simp, ?_⟩
        simp [r, s0, toScratch, hsb, hr, Fs.setOut]
      · right; right
        cases mf with
        | false => left; refine ⟨cs, hfb, hcb, hch, by simp, rfl, ?_⟩
                   simp [r, s0, toScratch, hsb, hr, Fs.setOut]
        | true => right; refine ⟨cs, hfb, hcb, hch, by simp, rfl, ?_⟩
                  simp [r, s0, toScratch, hsb, hr, Fs.setOut]
  | false =>
    cases hsb : s.bin with
    | some v => left; simp [r, s0, toScratch, hsb]
    | none =>
      right
      have hd := decompressFile_cases c s fb true .binTemp true fault
      simp only at hd
      try simp only [hsb] at hd
      rcases hd with ⟨e, he, hr⟩ | ⟨cs, j, hfb, hcb, hch, hf, hj, hr⟩ | ⟨cs, hfb, hcb, hch, _, hr⟩
      · left; refine ⟨e, he, ?_, by simp⟩
        simp [r, s0, toScratch, hsb, hr]
      · right; left; refine ⟨cs, j, hfb, hcb, hch, hf, hj, by simp, ?_⟩
        simp [r, s0, toScratch, hsb, hr, Fs.setOut]
      · right; right
        cases mf with
        | false => left; refine ⟨cs, hfb, hcb, hch, by simp, rfl, ?_⟩
                   simp [r, s0, toScratch, hsb, hr, Fs.setOut]
        | true => right; refine ⟨cs, hfb, hcb, hch, by simp, rfl, ?_⟩
                  simp [r, s0, toScratch, hsb, hr, Fs.setOut]

/-! ### Opening a reader -/

/-- When `Reader(entry)` opens on a data file: which file, and what must exist. -/
theorem openReader_some (s : Fs α γ) (e : Entry) (d : DataName) (h : openReader s e = .ok (some d)) :
    (d = .bin ∧ (∃ a t, s.bin = some (a :: t)) ∧ (e = .bin ∨ e = .metaFile)) ∨
    (d = .cbin ∧ s.cbin.isSome ∧ s.ch.isSome ∧ (e = .cbin ∨ (e = .metaFile ∧ s.bin = none))) := by
  rcases hb : s.bin with _ | (_ | ⟨a, t⟩) <;> cases e <;> cases d <;> cases hc : s.cbin <;>
    cases hh : s.ch <;> simp [openReader, resolve, hb, hc, hh] at h ⊢

theorem openReader_bin_of (s : Fs α γ) (a : α) (t : List α) (hb : s.bin = some (a :: t)) :
    openReader s .metaFile = .ok (some .bin) ∧ openReader s .bin = .ok (some .bin) := by
  simp [openReader, resolve, hb]

theorem openReader_cbin_of (s : Fs α γ) (hb : s.bin = none) (hc : s.cbin.isSome) (hh : s.ch.isSome) :
    openReader s .metaFile = .ok (some .cbin) ∧ openReader s .cbin = .ok (some .cbin) := by
  simp [openReader, resolve, hb, hc, hh]

/-! ### Invariants -/

/-- `Published` is preserved by every call in scope, with or without a fault (at a chunk, or at the publishing rename / move). -/
theorem published_step [DecidableEq α] [DecidableEq γ] (c : Codec α γ) (hc : c.Lossless) (b : List α)
    (s : Fs α γ) (o : Op) (hs : Published c b s) (ho : o.inScope) : Published c b (step c s o).1 := by
  cases o with
  | compress fb keep fault rf =>
    have h := compressFile_cases c hc s fb keep fault rf
    simp only at h
    simp only [step]
    rcases h with ⟨hr, _⟩ | ⟨l, j, _, _, _, _, _, hr⟩ | ⟨l, _, hl, _, _, hr⟩ | ⟨l, _, hl, _, _, hr⟩
    · rw [hr]; exact hs
    · rw [hr]; exact ⟨hs.bin, hs.cbin, hs.ch, hs.hdr, hs.sbin, hs.held⟩
    · rw [hr]
      have : l = b := by rcases hs.bin with h | h <;> simp_all
      subst this
      constructor <;> cases keep <;> simp [hs.sbin]
    · rw [hr]
      have : l = b := by rcases hs.bin with h | h <;> simp_all
      subst this
      refine ⟨hs.bin, hs.cbin, Or.inr rfl, ?_, hs.sbin, Or.inl hl⟩
      intro hsome
      rcases hs.cbin with h | h
      · simp [h] at hsome
      · simp [h]
  | decompress fb keep overwrite fault =>
    have hf : fault = none := ho
    subst hf
    have h := decompressFile_cases c s fb keep .bin overwrite none
    simp only at h
    simp only [step]
    rcases h with ⟨e, _, hr⟩ | ⟨cs, j, _, _, _, hf, _, _⟩ | ⟨cs, _, hcb, hch, _, hr⟩
    · rw [hr]; exact hs
    · simp at hf
    · rw [hr]
      have : cs = b.map c.enc := by rcases hs.cbin with h | h <;> simp_all
      subst this
      have hb := map_dec_enc c hc b
      constructor <;> cases keep <;> simp [Fs.setOut, hb, hcb, hch, hs.sbin]
  | toScratch fb scratch fault mf =>
    have h := toScratch_cases c s fb scratch fault mf
    simp only at h
    simp only [step]
    rcases h with ⟨hr, _⟩ | ⟨e, _, hr, _⟩ | ⟨cs, j, _, _, _, _, _, _, hr⟩ | ⟨cs, _, hcb, hch, hno, _, hr⟩ |
      ⟨cs, _, _, _, _, _, hr⟩
    · rw [hr]; cases scratch <;> exact ⟨hs.bin, hs.cbin, hs.ch, hs.hdr, hs.sbin, hs.held⟩
    · rw [hr]; cases scratch <;> exact ⟨hs.bin, hs.cbin, hs.ch, hs.hdr, hs.sbin, hs.held⟩
    · rw [hr]; cases scratch <;> exact ⟨hs.bin, hs.cbin, hs.ch, hs.hdr, hs.sbin, hs.held⟩
    · rw [hr]
      have : cs = b.map c.enc := by rcases hs.cbin with h | h <;> simp_all
      subst this
      have hb := map_dec_enc c hc b
      cases scratch
      · exact ⟨by simp [hb], hs.cbin, hs.ch, hs.hdr, hs.sbin, by simp [hb]⟩
      · exact ⟨hs.bin, hs.cbin, hs.ch, hs.hdr, by simp [hb], hs.held⟩
    · rw [hr]; cases scratch <;> exact ⟨hs.bin, hs.cbin, hs.ch, hs.hdr, hs.sbin, hs.held⟩

/-- `Published` holds after any sequence of calls in scope. -/
theorem published_run [DecidableEq α] [DecidableEq γ] (c : Codec α γ) (hc : c.Lossless) (b : List α)
    (ops : List Op) : ∀ (s : Fs α γ), Published c b s → (∀ o ∈ ops, o.inScope) → Published c b (run c s ops) := by
  induction ops with
  | nil => intro s hs _; exact hs
  | cons o os ih =>
    intro s hs ho
    simp only [run]
    exact ih _ (published_step c hc b s o hs (ho o (by simp))) (fun o' h' => ho o' (by simp [h']))

theorem published_initBin (c : Codec α γ) (b : List α) : Published c b (initBin b : Fs α γ) :=
  ⟨Or.inr rfl, Or.inl rfl, Or.inl rfl, by simp [initBin], Or.inl rfl, Or.inl rfl⟩

theorem published_initCbin (c : Codec α γ) (b : List α) : Published c b (initCbin c b) :=
  ⟨Or.inl rfl, Or.inr rfl, Or.inr rfl, by simp [initCbin], Or.inl rfl, Or.inr ⟨rfl, rfl⟩⟩

/-! ### Histories with rewrites of `x.bin` -/

theorem versioned_of_published (c : Codec α γ) (b : List α) (s : Fs α γ) (h : Published c b s) :
    Versioned c { fs := s, versions := [b], cur := b } := by
  refine ⟨by simp, h.bin, ?_, ?_, h.held⟩
  · rcases h.cbin with h1 | h1
    · exact Or.inl h1
    · exact Or.inr ⟨b, by simp, h1⟩
  · rcases h.sbin with h1 | h1
    · exact Or.inl h1
    · exact Or.inr ⟨b, by simp, h1⟩

/-- `Versioned` is preserved by every rewrite of `x.bin` and every call in scope, with or without a fault
(at a chunk, or at the publishing rename / move). -/
theorem versioned_step [DecidableEq α] [DecidableEq γ] (c : Codec α γ) (hc : c.Lossless)
    (g : Hist α γ) (e : Event α) (hg : Versioned c g) (he : e.inScope) : Versioned c (stepE c g e) := by
  cases e with
  | rewrite l =>
    simp only [stepE]
    refine ⟨by simp, Or.inr rfl, ?_, ?_, Or.inl rfl⟩
    · rcases hg.cbin with h1 | ⟨v, hv, h1⟩
      · exact Or.inl h1
      · exact Or.inr ⟨v, by simp [hv], h1⟩
    · rcases hg.sbin with h1 | ⟨v, hv, h1⟩
      · exact Or.inl h1
      · exact Or.inr ⟨v, by simp [hv], h1⟩
  | call o =>
    cases o with
    | compress fb keep fault rf =>
      have h := compressFile_cases c hc g.fs fb keep fault rf
      simp only at h
      simp only [stepE, step]
      rcases h with ⟨hr, _⟩ | ⟨l, j, _, _, _, _, _, hr⟩ | ⟨l, _, hl, _, _, hr⟩ | ⟨l, _, hl, _, _, hr⟩
      · rw [hr]; exact ⟨hg.cur_mem, hg.bin, hg.cbin, hg.sbin, hg.held⟩
      · rw [hr]; exact ⟨hg.cur_mem, hg.bin, hg.cbin, hg.sbin, hg.held⟩
      · rw [hr]
        have : l = g.cur := by rcases hg.bin with h | h <;> simp_all
        subst this
        refine ⟨hg.cur_mem, ?_, Or.inr ⟨g.cur, hg.cur_mem, rfl⟩, hg.sbin, ?_⟩
        · cases keep <;> simp
        · cases keep <;> simp
      · -- the rename raised: x.bin untouched, so the current content is still held by it
        rw [hr]
        have : l = g.cur := by rcases hg.bin with h | h <;> simp_all
        subst this
        exact ⟨hg.cur_mem, hg.bin, hg.cbin, hg.sbin, Or.inl hl⟩
    | decompress fb keep overwrite fault =>
      have hf : fault = none := he
      subst hf
      have h := decompressFile_cases c g.fs fb keep .bin overwrite none
      simp only at h
      simp only [stepE, step]
      rcases h with ⟨e, _, hr⟩ | ⟨cs, j, _, _, _, hf, _, _⟩ | ⟨cs, _, hcb, hch, _, hr⟩
      · rw [hr]; exact ⟨hg.cur_mem, hg.bin, hg.cbin, hg.sbin, hg.held⟩
      · simp at hf
      · rw [hr]
        obtain ⟨v, hv, hcs⟩ : ∃ v ∈ g.versions, cs = v.map c.enc := by
          rcases hg.cbin with h | ⟨v, hv, h⟩
          · simp [h] at hcb
          · exact ⟨v, hv, by simp_all⟩
        subst hcs
        have hb := map_dec_enc c hc v
        cases keep
        · simp only [Fs.setOut, hb]
          exact ⟨hv, Or.inr rfl, Or.inl rfl, hg.sbin, Or.inl rfl⟩
        · simp only [Fs.setOut, hb, if_true]
          exact ⟨hv, Or.inr rfl, Or.inr ⟨v, hv, hcb⟩, hg.sbin, Or.inl rfl⟩
    | toScratch fb scratch fault mf =>
      have h := toScratch_cases c g.fs fb scratch fault mf
      simp only at h
      simp only [stepE, step]
      rcases h with ⟨hr, _⟩ | ⟨e, _, hr, _⟩ | ⟨cs, j, _, _, _, _, _, _, hr⟩ | ⟨cs, _, hcb, hch, hno, _, hr⟩ |
        ⟨cs, _, _, _, _, _, hr⟩
      · rw [hr]; cases scratch <;> exact ⟨hg.cur_mem, hg.bin, hg.cbin, hg.sbin, hg.held⟩
      · rw [hr]; cases scratch <;> exact ⟨hg.cur_mem, hg.bin, hg.cbin, hg.sbin, hg.held⟩
      · rw [hr]; cases scratch <;> exact ⟨hg.cur_mem, hg.bin, hg.cbin, hg.sbin, hg.held⟩
      · rw [hr]
        obtain ⟨v, hv, hcs⟩ : ∃ v ∈ g.versions, cs = v.map c.enc := by
          rcases hg.cbin with h | ⟨v, hv, h⟩
          · simp [h] at hcb
          · exact ⟨v, hv, by simp_all⟩
        subst hcs
        have hb := map_dec_enc c hc v
        cases scratch
        · -- in place: x.bin was absent, so the current content is the one held by x.cbin
          simp only [Bool.false_eq_true, if_false] at hno ⊢
          have hcur : v = g.cur := by
            rcases hg.held with h | ⟨h, _⟩
            · simp [hno] at h
            · rw [hcb] at h
              have := congrArg (List.map c.dec) (Option.some.inj h)
              rwa [map_dec_enc c hc, map_dec_enc c hc] at this
          subst hcur
          exact ⟨hg.cur_mem, by simp [hb], hg.cbin, hg.sbin, by simp [hb]⟩
        · simp only [if_true]
          exact ⟨hg.cur_mem, hg.bin, hg.cbin, Or.inr ⟨v, hv, by simp [hb]⟩, hg.held⟩
      · rw [hr]; cases scratch <;> exact ⟨hg.cur_mem, hg.bin, hg.cbin, hg.sbin, hg.held⟩

theorem versioned_run [DecidableEq α] [DecidableEq γ] (c : Codec α γ) (hc : c.Lossless)
    (evs : List (Event α)) : ∀ (g : Hist α γ), Versioned c g → (∀ e ∈ evs, e.inScope) → Versioned c (runE c g evs) := by
  induction evs with
  | nil => intro g hg _; exact hg
  | cons e es ih =>
    intro g hg he
    simp only [runE]
    exact ih _ (versioned_step c hc g e hg (he e (by simp))) (fun e' h' => he e' (by simp [h']))

/-- The header always describes the compressed file next to it — for EVERY call and every chunk fault (including
faults inside the plain `decompress_file`) and every rewrite of `x.bin`, as long as no rename of `compress_file`
fails (`renameOk`); then `Err.corruptHeader` is unreachable. -/
def HdrOk (s : Fs α γ) : Prop := ∀ cs, s.cbin = some cs → s.ch = some cs

theorem hdrOk_step [DecidableEq α] [DecidableEq γ] (c : Codec α γ) (hc : c.Lossless)
    (s : Fs α γ) (o : Op) (hs : HdrOk s) (ho : o.renameOk) : HdrOk (step c s o).1 := by
  cases o with
  | compress fb keep fault rf =>
    have hrf : rf = false := ho
    subst hrf
    have h := compressFile_cases c hc s fb keep fault false
    simp only at h
    simp only [step]
    rcases h with ⟨hr, _⟩ | ⟨l, j, _, _, _, _, _, hr⟩ | ⟨l, _, hl, _, _, hr⟩ | ⟨l, _, _, _, hrf, _⟩
    · rw [hr]; exact hs
    · rw [hr]; exact hs
    · rw [hr]; intro cs h; simp at h; simp [h]
    · simp at hrf
  | decompress fb keep overwrite fault =>
    have h := decompressFile_cases c s fb keep .bin overwrite fault
    simp only at h
    simp only [step]
    rcases h with ⟨e, _, hr⟩ | ⟨cs, j, _, _, _, hf, _, hr⟩ | ⟨cs, _, hcb, hch, _, hr⟩
    · rw [hr]; exact hs
    · rw [hr]; exact hs
    · rw [hr]; cases keep
      · intro cs' h; simp [Fs.setOut] at h
      · exact hs
  | toScratch fb scratch fault mf =>
    have h := toScratch_cases c s fb scratch fault mf
    simp only at h
    simp only [step]
    rcases h with ⟨hr, _⟩ | ⟨e, _, hr, _⟩ | ⟨cs, j, _, _, _, _, _, _, hr⟩ | ⟨cs, _, hcb, hch, hno, _, hr⟩ |
      ⟨cs, _, _, _, _, _, hr⟩ <;>
      (rw [hr]; cases scratch <;> exact hs)

theorem hdrOk_run [DecidableEq α] [DecidableEq γ] (c : Codec α γ) (hc : c.Lossless)
    (ops : List Op) : ∀ (s : Fs α γ), HdrOk s → (∀ o ∈ ops, o.renameOk) → HdrOk (run c s ops) := by
  induction ops with
  | nil => intro s hs _; exact hs
  | cons o os ih =>
    intro s hs ho
    exact ih _ (hdrOk_step c hc s o hs (ho o (by simp))) (fun o' h' => ho o' (by simp [h']))

theorem hdrOk_runE [DecidableEq α] [DecidableEq γ] (c : Codec α γ) (hc : c.Lossless)
    (evs : List (Event α)) : ∀ (g : Hist α γ), HdrOk g.fs → (∀ e ∈ evs, e.renameOk) → HdrOk (runE c g evs).fs := by
  induction evs with
  | nil => intro g hg _; exact hg
  | cons e es ih =>
    intro g hg he
    simp only [runE]
    refine ih _ ?_ (fun e' h' => he e' (by simp [h']))
    cases e with
    | rewrite l => exact hg
    | call o => exact hdrOk_step c hc g.fs o hg (he (.call o) (by simp))

end IblVerif.FsCompress
