/-
Helper lemmas for C15, label part: the `cumsum(diff - 1)` rule selects exactly the contiguous run of
low-coherence channels that ends at the top of the probe; the mode.
-/
import IblVerif.Model.BadChannels

namespace IblVerif.BadChannels

/-! ### `np.cumsum(np.r_[0, np.diff(l) - 1])[k] = l[k] - l[0] - k` -/

theorem cumsum_length (acc : Int) (l : List Int) : (cumsum acc l).length = l.length := by
  induction l generalizing acc with
  | nil => rfl
  | cons x xs ih => simp [cumsum, ih]

theorem diffs_length (x : Nat) (xs : List Nat) : (diffs (x :: xs)).length = xs.length := by
  induction xs generalizing x with
  | nil => rfl
  | cons y ys ih => simp [diffs, ih]

theorem cumsum_diffs_getElem (x : Nat) (xs : List Nat) (acc : Int) (k : Nat) (hk : k < xs.length)
    (hk' : k < (cumsum acc ((diffs (x :: xs)).map (· - 1))).length) :
    (cumsum acc ((diffs (x :: xs)).map (· - 1)))[k] = acc + (xs[k] : Int) - (x : Int) - ((k : Int) + 1) := by
  induction xs generalizing x acc k with
  | nil => simp at hk
  | cons y ys ih =>
    cases k with
    | zero => simp [diffs, cumsum]; omega
    | succ k =>
      simp only [diffs, List.map_cons, cumsum, List.getElem_cons_succ]
      rw [ih y _ k (by simpa using hk)]
      push_cast
      omega

theorem gapCount_length (x : Nat) (xs : List Nat) : (gapCount (x :: xs)).length = (x :: xs).length := by
  simp [gapCount, gapStart, gapStep, cumsum, cumsum_length, diffs_length]

theorem gapCount_getElem (x : Nat) (xs : List Nat) (k : Nat) (hk : k < (x :: xs).length)
    (hk' : k < (gapCount (x :: xs)).length) :
    (gapCount (x :: xs))[k] = (((x :: xs)[k] : Nat) : Int) - (x : Int) - (k : Int) := by
  cases k with
  | zero => simp [gapCount, gapStart, gapStep, cumsum]
  | succ k =>
    simp only [gapCount, gapStart, gapStep, cumsum, List.getElem_cons_succ]
    rw [cumsum_diffs_getElem x xs _ k (by simpa using hk)]
    push_cast
    omega

/-! ### maximum of a list -/

theorem foldl_max_ge (l : List Int) (b : Int) : b ≤ l.foldl max b ∧ ∀ x ∈ l, x ≤ l.foldl max b := by
  induction l generalizing b with
  | nil => simp
  | cons y ys ih =>
    simp only [List.foldl_cons, List.mem_cons]
    obtain ⟨h1, h2⟩ := ih (max b y)
    refine ⟨by omega, ?_⟩
    intro x hx
    rcases hx with rfl | hx
    · omega
    · exact h2 x hx

theorem foldl_max_mem (l : List Int) (b : Int) : l.foldl max b = b ∨ l.foldl max b ∈ l := by
  induction l generalizing b with
  | nil => simp
  | cons y ys ih =>
    simp only [List.foldl_cons, List.mem_cons]
    rcases ih (max b y) with h | h
    · rw [h]
      by_cases hby : y ≤ b
      · left; omega
      · right; left; omega
    · right; right; exact h

/-- `np.max` returns an element that bounds all the others: it equals any such element. -/
theorem listMax_eq (l : List Int) (M : Int) (hM : M ∈ l) (hle : ∀ x ∈ l, x ≤ M) : listMax l = M := by
  cases l with
  | nil => simp at hM
  | cons x xs =>
    simp only [listMax]
    have h1 := foldl_max_ge xs x
    have h2 := foldl_max_mem xs x
    have hxM : x ≤ M := hle x List.mem_cons_self
    have hub : xs.foldl max x ≤ M := by
      rcases h2 with h | h
      · omega
      · exact hle _ (List.mem_cons_of_mem _ h)
    have hlb : M ≤ xs.foldl max x := by
      rcases List.mem_cons.mp hM with rfl | h
      · exact h1.1
      · exact h1.2 M h
    omega

/-! ### strictly increasing index vectors -/

/-- In a strictly increasing list of naturals, `l[k] + (m - k) ≤ l[m]`. -/
theorem sorted_gap (l : List Nat) (hs : List.Pairwise (· < ·) l) (k m : Nat) (hkm : k ≤ m) (hm : m < l.length) :
    l[k]'(by omega) + (m - k) ≤ l[m] := by
  induction m with
  | zero =>
    have : k = 0 := by omega
    subst this; simp
  | succ m ih =>
    by_cases hk : k = m + 1
    · subst hk; simp
    · have h1 := ih (by omega) (by omega)
      have h2 := (List.pairwise_iff_getElem.mp hs) m (m + 1) (by omega) hm (by omega)
      omega

theorem filter_range_sorted (nc : Nat) (low : Nat → Bool) :
    List.Pairwise (· < ·) ((List.range nc).filter low) :=
  List.Pairwise.filter _ List.pairwise_lt_range

/-- Membership in `ioutside[a == m]`. -/
theorem mem_zip_filter (l : List Nat) (a : List Int) (hlen : a.length = l.length) (m : Int) (v : Nat) :
    v ∈ ((l.zip a).filter fun q => q.2 == m).map (·.1) ↔
      ∃ k, ∃ (h : k < l.length), l[k] = v ∧ a[k]'(by omega) = m := by
  simp only [List.mem_map, List.mem_filter, beq_iff_eq]
  constructor
  · rintro ⟨⟨v', a'⟩, ⟨hmem, ha⟩, rfl⟩
    obtain ⟨k, hk, hk2⟩ := List.mem_iff_getElem.mp hmem
    rw [List.getElem_zip] at hk2
    simp only [List.length_zip] at hk
    refine ⟨k, by omega, ?_, ?_⟩
    · exact congrArg Prod.fst hk2
    · have := congrArg Prod.snd hk2
      simp only at this ha
      rw [this]; exact ha
  · rintro ⟨k, hk, rfl, ha⟩
    refine ⟨(l[k], a[k]'(by omega)), ⟨?_, ha⟩, rfl⟩
    apply List.mem_iff_getElem.mpr
    refine ⟨k, by simp [List.length_zip]; omega, ?_⟩
    rw [List.getElem_zip]

/-- The channels given label 3 are exactly those from which every channel up to the top of the probe
is below the low-frequency coherence threshold. -/
theorem mem_outsideBlock (nc : Nat) (low : Nat → Bool) (v : Nat) :
    v ∈ outsideBlock nc low ↔ v < nc ∧ ∀ u, v ≤ u → u < nc → low u = true := by
  have hsorted := filter_range_sorted nc low
  have hmemf : ∀ u, u ∈ (List.range nc).filter low ↔ u < nc ∧ low u = true := by
    intro u; simp [List.mem_filter, List.mem_range]
  unfold outsideBlock
  generalize hl : (List.range nc).filter low = l at hsorted hmemf
  simp only
  cases hlast : l.getLast? with
  | none =>
    have hnil : l = [] := List.getLast?_eq_none_iff.mp hlast
    subst hnil
    simp only [List.not_mem_nil, false_iff]
    rintro ⟨hv, hall⟩
    have := (hmemf v).mpr ⟨hv, hall v (Nat.le_refl _) hv⟩
    simp at this
  | some last =>
    have hne : l ≠ [] := by intro e; subst e; simp at hlast
    obtain ⟨x, xs, rfl⟩ := List.exists_cons_of_ne_nil hne
    have hlastidx : (x :: xs)[xs.length]'(by simp) = last := by
      rw [List.getLast?_eq_getElem?] at hlast
      simp only [List.length_cons, Nat.add_sub_cancel] at hlast
      rw [List.getElem?_eq_getElem (by simp)] at hlast
      exact Option.some.inj hlast
    have hlen : (x :: xs).length = xs.length + 1 := rfl
    have hlastmem : last < nc ∧ low last = true := by
      apply (hmemf last).mp
      rw [← hlastidx]; exact List.getElem_mem _
    -- every element is ≤ last
    have hle_last : ∀ u, u ∈ (x :: xs) → u ≤ last := by
      intro u hu
      obtain ⟨k, hk, rfl⟩ := List.mem_iff_getElem.mp hu
      have := sorted_gap (x :: xs) hsorted k xs.length (by omega) (by simp)
      rw [hlastidx] at this
      omega
    simp only
    split
    · -- last = nc - 1
      rename_i hlast_eq
      have hnc : 0 < nc := by omega
      rw [mem_zip_filter _ _ (gapCount_length x xs)]
      -- the maximum of a is its last entry
      have hamax : listMax (gapCount (x :: xs)) =
          ((last : Nat) : Int) - (x : Int) - ((xs.length : Nat) : Int) := by
        apply listMax_eq
        · apply List.mem_iff_getElem.mpr
          refine ⟨xs.length, by rw [gapCount_length]; omega, ?_⟩
          rw [gapCount_getElem x xs xs.length (by omega)]
          rw [hlastidx]
        · intro a ha
          obtain ⟨k, hk, rfl⟩ := List.mem_iff_getElem.mp ha
          rw [gapCount_length] at hk
          rw [gapCount_getElem x xs k hk]
          have := sorted_gap (x :: xs) hsorted k xs.length (by omega) (by omega)
          rw [hlastidx] at this
          omega
      rw [hamax]
      constructor
      · rintro ⟨k, hk, rfl, ha⟩
        rw [gapCount_getElem x xs k hk] at ha
        have hvmem := (hmemf ((x :: xs)[k])).mp (List.getElem_mem _)
        refine ⟨hvmem.1, ?_⟩
        intro u hvu hu
        -- u = l[k + (u - v)]
        have hidx : k + (u - (x :: xs)[k]) < xs.length + 1 := by omega
        have h1 := sorted_gap (x :: xs) hsorted k (k + (u - (x :: xs)[k])) (by omega) hidx
        have h2 := sorted_gap (x :: xs) hsorted (k + (u - (x :: xs)[k])) xs.length (by omega) (by omega)
        rw [hlastidx] at h2
        have hu_eq : (x :: xs)[k + (u - (x :: xs)[k])] = u := by omega
        have := (hmemf u).mp (hu_eq ▸ List.getElem_mem _)
        exact this.2
      · rintro ⟨hv, hall⟩
        -- split the range at v
        have hsplit : List.range nc = List.range' 0 v ++ List.range' v (nc - v) := by
          rw [List.range_eq_range']
          have := @List.range'_append 0 v (nc - v) 1
          simp only [Nat.one_mul, Nat.zero_add] at this
          rw [this]; congr 1; omega
        obtain ⟨p, hp⟩ : ∃ p, p = (List.range' 0 v).filter low := ⟨_, rfl⟩
        have hfil : x :: xs = p ++ List.range' v (nc - v) := by
          rw [← hl, hsplit, List.filter_append, hp]
          congr 1
          apply List.filter_eq_self.mpr
          intro u hu
          simp only [List.mem_range'_1] at hu
          exact hall u hu.1 (by omega)
        have hnlen : xs.length + 1 = p.length + (nc - v) := by
          rw [← hlen, hfil]; simp
        have hk : p.length < (x :: xs).length := by omega
        have hvk : (x :: xs)[p.length] = v := by
          have : ∀ (l : List Nat) (h : l = p ++ List.range' v (nc - v)) (hh : p.length < l.length), l[p.length] = v := by
            intro l h hh
            subst h
            rw [List.getElem_append_right (Nat.le_refl _)]
            simp
          exact this _ hfil hk
        refine ⟨p.length, hk, hvk, ?_⟩
        rw [gapCount_getElem x xs p.length hk, hvk]
        omega
    · -- last ≠ nc - 1: nothing gets label 3, and the top channel is not low
      rename_i hlast_ne
      simp only [List.not_mem_nil, false_iff]
      rintro ⟨hv, hall⟩
      have htop := (hmemf (nc - 1)).mpr ⟨by omega, hall (nc - 1) (by omega) (by omega)⟩
      have := hle_last (nc - 1) htop
      omega

/-! ### mode -/

/-- First maximiser of `f` over a strictly increasing list, computed by the `argmax` fold. -/
theorem foldl_argmax (f : Nat → Nat) (vs : List Nat) (b : Nat)
    (hb : ∀ q ∈ vs, b < q) (hs : List.Pairwise (· < ·) vs) :
    let r := vs.foldl (fun b q => if f b < f q then q else b) b
    (r = b ∨ r ∈ vs) ∧ f b ≤ f r ∧ (f b = f r → r = b) ∧
      ∀ q ∈ vs, f q ≤ f r ∧ (f q = f r → r ≤ q) := by
  induction vs generalizing b with
  | nil => simp
  | cons y ys ih =>
    simp only [List.foldl_cons]
    have hy : b < y := hb y List.mem_cons_self
    have hsy := List.pairwise_cons.mp hs
    by_cases hlt : f b < f y
    · simp only [hlt, if_true]
      have hb' : ∀ q ∈ ys, y < q := hsy.1
      obtain ⟨h1, h2, h3, h4⟩ := ih y hb' hsy.2
      refine ⟨?_, by omega, ?_, ?_⟩
      · rcases h1 with h | h
        · right; rw [h]; exact List.mem_cons_self
        · right; exact List.mem_cons_of_mem _ h
      · intro e; omega
      · intro q hq
        rcases List.mem_cons.mp hq with rfl | hq
        · exact ⟨h2, fun e => by have := h3 e; omega⟩
        · exact h4 q hq
    · simp only [hlt, if_false]
      have hb' : ∀ q ∈ ys, b < q := fun q hq => hb q (List.mem_cons_of_mem _ hq)
      obtain ⟨h1, h2, h3, h4⟩ := ih b hb' hsy.2
      refine ⟨?_, h2, h3, ?_⟩
      · rcases h1 with h | h
        · left; exact h
        · right; exact List.mem_cons_of_mem _ h
      · intro q hq
        rcases List.mem_cons.mp hq with rfl | hq
        · refine ⟨by omega, fun e => ?_⟩
          have := h3 (by omega)
          omega
        · exact h4 q hq

theorem foldl_max_nat_ge (l : List Nat) (b : Nat) : b ≤ l.foldl max b ∧ ∀ x ∈ l, x ≤ l.foldl max b := by
  induction l generalizing b with
  | nil => simp
  | cons y ys ih =>
    simp only [List.foldl_cons, List.mem_cons]
    obtain ⟨h1, h2⟩ := ih (max b y)
    refine ⟨by omega, ?_⟩
    intro x hx
    rcases hx with rfl | hx
    · omega
    · exact h2 x hx

/-- `modeOf` returns an element of the list with the largest multiplicity, the smallest such. -/
theorem modeOf_spec (l : List Nat) (hne : l ≠ []) :
    ∃ m, modeOf l = some m ∧ m ∈ l ∧ (∀ v, l.count v ≤ l.count m) ∧ (∀ v, l.count v = l.count m → m ≤ v) := by
  have hvals : ∀ v, v ∈ (List.range (l.foldl max 0 + 1)).filter (fun v => l.contains v) ↔ v ∈ l := by
    intro v
    simp only [List.mem_filter, List.mem_range, List.contains_iff_mem]
    constructor
    · exact fun h => h.2
    · intro h
      exact ⟨by have := (foldl_max_nat_ge l 0).2 v h; omega, h⟩
  have hsorted : List.Pairwise (· < ·) ((List.range (l.foldl max 0 + 1)).filter (fun v => l.contains v)) :=
    List.Pairwise.filter _ List.pairwise_lt_range
  unfold modeOf
  generalize (List.range (l.foldl max 0 + 1)).filter (fun v => l.contains v) = vals at hvals hsorted
  cases vals with
  | nil =>
    exfalso
    obtain ⟨a, as, rfl⟩ := List.exists_cons_of_ne_nil hne
    have := (hvals a).mpr List.mem_cons_self
    simp at this
  | cons v vs =>
    have hp := List.pairwise_cons.mp hsorted
    obtain ⟨h1, h2, h3, h4⟩ := foldl_argmax (fun q => l.count q) vs v hp.1 hp.2
    simp only at h1 h2 h3 h4 ⊢
    refine ⟨_, rfl, ?_, ?_, ?_⟩
    · apply (hvals _).mp
      rcases h1 with h | h
      · rw [h]; exact List.mem_cons_self
      · exact List.mem_cons_of_mem _ h
    · intro q
      by_cases hq : q ∈ l
      · rcases List.mem_cons.mp ((hvals q).mpr hq) with rfl | hq'
        · exact h2
        · exact (h4 q hq').1
      · rw [List.count_eq_zero_of_not_mem hq]; omega
    · intro q he
      have hmpos : 0 < l.count (vs.foldl (fun b q => if l.count b < l.count q then q else b) v) := by
        apply List.count_pos_iff.mpr
        apply (hvals _).mp
        rcases h1 with h | h
        · rw [h]; exact List.mem_cons_self
        · exact List.mem_cons_of_mem _ h
      have hq : q ∈ l := List.count_pos_iff.mp (by omega)
      rcases List.mem_cons.mp ((hvals q).mpr hq) with rfl | hq'
      · have := h3 he; omega
      · exact (h4 q hq').2 he

/-! ### the guard of the label-3 rule; majority -/

/-- Without the guard (`ioutside.size > 0 and ioutside[-1] == nc - 1`) nothing is labelled 3. -/
theorem outsideBlock_of_guard_false (nc : Nat) (low : Nat → Bool)
    (h : topGuard nc ((List.range nc).filter low) = false) : outsideBlock nc low = [] := by
  unfold topGuard at h
  cases hl : ((List.range nc).filter low).getLast? with
  | none => simp only [outsideBlock, hl]
  | some l =>
    rw [hl] at h
    simp only [beq_eq_false_iff_ne, ne_eq] at h
    simp only [outsideBlock, hl, h, if_false]

/-- The guard holds exactly when the last channel of the probe is itself below the threshold. -/
theorem topGuard_iff (nc : Nat) (low : Nat → Bool) :
    topGuard nc ((List.range nc).filter low) = true ↔ 0 < nc ∧ low (nc - 1) = true := by
  have hmemf : ∀ u, u ∈ (List.range nc).filter low ↔ u < nc ∧ low u = true := by
    intro u; simp [List.mem_filter, List.mem_range]
  have hsorted := filter_range_sorted nc low
  unfold topGuard
  cases hl : ((List.range nc).filter low).getLast? with
  | none =>
    have hnil := List.getLast?_eq_none_iff.mp hl
    simp only [Bool.false_eq_true, false_iff, not_and]
    intro hnc htop
    have := (hmemf (nc - 1)).mpr ⟨by omega, htop⟩
    rw [hnil] at this
    simp at this
  | some l =>
    have hmem : l ∈ (List.range nc).filter low := List.mem_of_getLast? hl
    have hl' := (hmemf l).mp hmem
    simp only [beq_iff_eq]
    constructor
    · intro e
      subst e
      exact ⟨by omega, hl'.2⟩
    · rintro ⟨hnc, htop⟩
      -- nc - 1 is in the list and the last element is the largest
      have hin := (hmemf (nc - 1)).mpr ⟨by omega, htop⟩
      obtain ⟨k, hk, hke⟩ := List.mem_iff_getElem.mp hin
      have hne : (List.range nc).filter low ≠ [] := by intro e; rw [e] at hin; simp at hin
      have hlast : ((List.range nc).filter low)[((List.range nc).filter low).length - 1]'(by
          have := List.length_pos_of_mem hin; omega) = l := by
        rw [List.getLast?_eq_getElem?] at hl
        rw [List.getElem?_eq_getElem (by have := List.length_pos_of_mem hin; omega)] at hl
        exact Option.some.inj hl
      have := sorted_gap _ hsorted k (((List.range nc).filter low).length - 1) (by omega)
        (by have := List.length_pos_of_mem hin; omega)
      rw [hlast, hke] at this
      omega

theorem count_add_count_le (l : List Nat) (a b : Nat) (h : a ≠ b) : l.count a + l.count b ≤ l.length := by
  induction l with
  | nil => simp
  | cons x xs ih =>
    simp only [List.count_cons, List.length_cons]
    have hab : ¬ b = a := fun e => h e.symm
    by_cases h1 : x = a
    · subst h1
      simp only [beq_self_eq_true, if_true, beq_iff_eq, h, if_false]
      omega
    · by_cases h2 : x = b
      · subst h2
        simp only [beq_self_eq_true, if_true, beq_iff_eq, hab, if_false]
        omega
      · simp only [beq_iff_eq, h1, h2, if_false]
        omega

/-- `mapM` into `Option` keeps the length. -/
theorem mapM_option_length {α β : Type} (f : α → Option β) :
    ∀ (l : List α) (r : List β), l.mapM f = some r → r.length = l.length
  | [], r, h => by
    simp at h; subst h; rfl
  | a :: l, r, h => by
    rw [List.mapM_cons] at h
    cases ha : f a with
    | none => simp [ha] at h
    | some b =>
      cases hl : l.mapM f with
      | none => simp [ha, hl] at h
      | some bs =>
        simp [ha, hl] at h
        subst h
        simp [mapM_option_length f l bs hl]

end IblVerif.BadChannels
