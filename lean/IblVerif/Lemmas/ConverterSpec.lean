/-
Predicates in which property C04 is stated, over the abstract disk of `Model/Converter.lean`.
Definitions only; the lemmas are in `Lemmas/Converter.lean`, the theorems in `Properties/C04.lean`.
-/
import IblVerif.Model.Converter

namespace IblVerif.Converter

/-- The original recording can be read back from its own data file: the `.bin`, or the `.cbin` together with its
`.ch` (mtscomp is lossless).  Its content id is `cfg.c` throughout: the converter never writes to it. -/
def OrigHolds (s : Disk) : Prop := origReadable s = true

/-- The files of one stream hold the complete data `d`: as `.bin`, or as `.cbin` + `.ch`. -/
def FilesHold (d : Data) (f : FileSet) : Prop :=
  f.bin = .whole d ∨ (f.cbin = some d ∧ f.ch = true)

/-- A shank folder from which that shank's columns of the original `c` can be read back bit for bit: the ap data
(bit-identical, `good c`) and the metadata that names the original channels. -/
def ShankHolds (c : Nat) (o : Option Shank) : Prop :=
  ∃ sh, o = some sh ∧ FilesHold (.good c) sh.ap ∧ sh.ap.md = true

/-- "The original samples stay recoverable byte for byte": from the original's own file, or -- NP2.4 -- by
reassembling the ap files of all `n ≥ 1` shank folders, provided they are ALL the shanks of the probe (no partial selection). -/
def Recoverable (cfg : Cfg) (s : Disk) : Prop :=
  OrigHolds s ∨ (cfg.kind = .np24 ∧ cfg.partialSel = false ∧ 0 < cfg.n ∧ ∀ i, i < cfg.n → ShankHolds cfg.c (s.shanks i))

/-- Earlier output exists: all expected shank folders (NP2.4), the lf file as `.bin` or `.cbin` (NP2.1). -/
def OutputExists (cfg : Cfg) (s : Disk) : Prop :=
  match cfg.kind with
  | .np24 => 0 < cfg.n ∧ ∀ i, i < cfg.n → (s.shanks i).isSome = true
  | .np21 => s.lf.bin ≠ .absent ∨ s.lf.cbin.isSome = true
  | .np1 => False

/-- No earlier output at all. -/
def NoOutput (cfg : Cfg) (s : Disk) : Prop :=
  match cfg.kind with
  | .np24 => ∀ i, i < cfg.n → s.shanks i = none
  | .np21 => s.lf.bin = .absent ∧ s.lf.cbin = none
  | .np1 => True

/-- One stream is complete and valid after a run with the given `compress` option: metadata written, and the data
either as a whole `.bin`, or (compressed) as `.cbin` + `.ch` with the `.bin` and the temporary file gone. -/
def FilesComplete (compress : Bool) (d : Data) (f : FileSet) : Prop :=
  f.md = true ∧
  (if compress then f.bin = .absent ∧ f.cbin = some d ∧ f.ch = true ∧ f.tmp = false else f.bin = .whole d)

/-- "A complete, valid set of per-shank files" for the original `cfg.c`. -/
def Complete (cfg : Cfg) (compress : Bool) (s : Disk) : Prop :=
  match cfg.kind with
  | .np24 => ∀ i, i < cfg.n → ∃ sh, s.shanks i = some sh ∧
      FilesComplete compress (.good cfg.c) sh.ap ∧ FilesComplete compress (.good cfg.c) sh.lf
  | .np21 => FilesComplete compress (.good cfg.c) s.lf ∧ (compress = true → s.orig = .cbin ∧ s.och = true)
  | .np1 => True

/-- The environment leaves the run alone: no exception, every shank of the probe is converted, and the split is faithful for
every shank. -/
def NoFault (cfg : Cfg) (call : Call) : Prop :=
  call.interrupt = none ∧ cfg.partialSel = false ∧ ∀ i, i < cfg.n → altered cfg call i = false

/-- The converter object whose `process` a call runs: the one the call builds, or (`reuse`) the one kept from the
previous step. -/
def actingObj (cfg : Cfg) (call : Call) (st : St) : Option Obj :=
  if call.reuse then st.obj else (construct cfg call st.disk).toOption

/-- What a live converter object believes is consistent with the disk: `check_completed` is only ever set by
`check_NP24`, which only runs with `post_check`; an object built on the original points at the original's data file as
long as there is one (and that file is readable), and was built on an existing file. -/
def ObjOk (s : Disk) (ob : Obj) : Prop :=
  (ob.checkCompleted = true → ob.opts.postCheck = true) ∧
  (ob.onShank = false → s.orig ≠ .absent → ob.srForm = s.orig ∧ origReadable s = true) ∧
  (ob.onShank = false → ob.srForm ≠ .absent)

def StOk (st : St) : Prop := ∀ ob, st.obj = some ob → ObjOk st.disk ob

/-- `process` runs on an object built on the original (not on an already split shank file) of an NP2 probe. -/
def OnOriginalNP2 (cfg : Cfg) (ob : Obj) : Prop :=
  ob.onShank = false ∧ (cfg.kind = .np24 ∨ cfg.kind = .np21)

end IblVerif.Converter
