/-
Helper lemmas for C14: the call model `Features.call` (interpretation of the stage list of `compute_spike_features`,
`Model/FeaturesCall.lean`) is `Features.batchRaw` followed by the derived columns of every row.
-/
import IblVerif.Model.FeaturesCall
import IblVerif.Lemmas.FeaturesMain

namespace IblVerif.Features

/-! ### `find_peak` / `get_array_peak` / `invert_peak_waveform` are `initRow` -/

theorem initRow_eq (w : Wave) : initRow w = findPeak w >>= fun pk => idx w pk.trace >>= fun real => pure (mkSt pk real) := rfl

/-- the trace `find_peak` reports exists (it read the peak value from it) -/
theorem findPeak_trace_ok {w : Wave} {pk : Peak} (h : findPeak w = .ok pk) : ∃ r, idx w pk.trace = .ok r := by
  unfold findPeak at h
  simp only [bind, Except.bind] at h
  split at h
  · cases h
  · rename_i mx hmx
    split at h
    · cases h
    · split at h
      · cases h
      · rename_i m hm
        split at h
        · cases h
        · rename_i r hr
          split at h
          · cases h
          · rename_i v hv
            simp only [pure, Except.pure, Except.ok.injEq] at h
            subst h
            exact ⟨r, hr⟩

theorem init_split (ws : List Wave) :
    ws.mapM initRow = (ws.mapM findPeak >>= fun pk => (ws.zip pk).mapM (fun wp => idx wp.1 wp.2.trace) >>= fun real =>
      (pure ((pk.zip real).map fun pr => mkSt pr.1 pr.2) : Except Err (List St))) := by
  induction ws with
  | nil => rfl
  | cons w ws ih =>
    simp only [List.mapM_cons]
    rw [initRow_eq]
    cases hp : findPeak w with
    | error e => rfl
    | ok pk =>
      obtain ⟨r, hr⟩ := findPeak_trace_ok hp
      simp only [ok_bind, hr, pure_eq_ok]
      rw [ih]
      cases ws.mapM findPeak with
      | error e => rfl
      | ok pks =>
        simp only [ok_bind, List.zip_cons_cons, List.mapM_cons, hr, pure_eq_ok]
        cases (ws.zip pks).mapM (fun wp => idx wp.1 wp.2.trace) with
        | error e => rfl
        | ok reals => rfl

/-! ### projections survive a vectorised step -/

theorem mapM_proj {α β γ} {F : α → Except Err β} {l : List α} {r : List β} (g : β → γ) (h : α → γ)
    (hm : l.mapM F = .ok r) (hF : ∀ a b, F a = .ok b → g b = h a) : r.map g = l.map h := by
  obtain ⟨hl, hi⟩ := mapM_ok_iff.mp hm
  apply List.ext_getElem (by simp [hl])
  intro i h1 h2
  simp only [List.length_map] at h1 h2
  simp only [List.getElem_map]
  exact hF _ _ (hi i _ _ (List.getElem?_eq_getElem h2) (List.getElem?_eq_getElem h1))

theorem halfRow_t {t : StTip} {h : StHalf} (hh : halfRow t = .ok h) : h.t = t := by
  unfold halfRow at hh
  simp only [bind, Except.bind] at hh
  split at hh
  · cases hh
  · split at hh
    · cases hh
    · simp only [pure, Except.pure, Except.ok.injEq] at hh
      subst hh; rfl

theorem recoveryRow_proj {k T : Nat} {h : StHalf} {f : Feat} (hf : recoveryRow k T h = .ok f) :
    f.peakTime = h.t.s.p ∧ f.troughTime = h.t.s.tr ∧ f.halfPost = h.post ∧ f.halfPre = h.pre := by
  unfold recoveryRow at hf
  simp only [bind, Except.bind] at hf
  split at hf
  · cases hf
  · simp only [pure, Except.pure, Except.ok.injEq] at hf
    subst hf
    exact ⟨rfl, rfl, rfl, rfl⟩

/-! ### assembling the frame -/

theorem zipRows_map (fs : ℚ) (l : List Feat) :
    zipRows l (l.map fun f => f.peakToTroughDuration fs) (l.map fun f => f.halfPeakDuration fs)
      (l.map fun f => (f.depolSlope fs, f.repolSlope fs)) (l.map fun f => f.recoverySlope fs) = l.map (fullRow fs) := by
  induction l with
  | nil => rfl
  | cons f l ih => simp only [List.map_cons, zipRows, ih, fullRow]

theorem liftE_bind {α β} (x : Except Err α) (f : α → Except Err β) :
    liftE (x >>= f) = liftE x >>= fun a => liftE (f a) := by
  cases x <;> rfl

/-- The call model is the batch pipeline (with the model's own recovery offset) followed by the derived columns of every
row: for a non-negative offset `k = recoveryOffset rdNum rdDen fs`,
`call = batchRaw k T raw` mapped through `fullRow fs`, errors included. -/
theorem call_eq (rdNum rdDen fs : Int) (T : Nat) (raw : List (List (List (Option ℚ))))
    (hk : 0 ≤ recoveryOffset rdNum rdDen fs) :
    call rdNum rdDen fs T raw =
      (liftE (batchRaw (recoveryOffset rdNum rdDen fs).toNat T raw)).map (List.map (fullRow fs)) := by
  generalize hkk : recoveryOffset rdNum rdDen fs = k at hk
  unfold call batchRaw batch
  rw [hkk]
  generalize raw.map validate = ws
  simp only [stages, runStages, List.foldlM_cons, List.foldlM_nil, runStage]
  rw [init_split]
  cases ws.mapM findPeak with
  | error e => rfl
  | ok pk =>
    simp only [liftE, ok_bind, pure_eq_ok]
    cases (ws.zip pk).mapM (fun wp => idx wp.1 wp.2.trace) with
    | error e => rfl
    | ok real =>
      simp only [liftE, ok_bind, pure_eq_ok]
      cases (List.map (fun pr => mkSt pr.1 pr.2) (pk.zip real)).mapM findTroughRow with
      | error e => rfl
      | ok s1 =>
        simp only [liftE, ok_bind]
        cases swapBlock s1 with
        | error e => rfl
        | ok s2 =>
          simp only [liftE, ok_bind]
          cases h3 : s2.mapM findTipRow with
          | error e => rfl
          | ok s3 =>
            simp only [liftE, ok_bind, pure_eq_ok]
            cases h4 : s3.mapM halfRow with
            | error e => rfl
            | ok s4 =>
              simp only [liftE, ok_bind, pure_eq_ok]
              have hneg : ¬ k < 0 := by omega
              simp only [hneg, if_false]
              by_cases hT : k.toNat ≥ T
              · simp only [hT, if_true]; rfl
              · simp only [hT, if_false]
                cases h5 : s4.mapM (recoveryRow k.toNat T) with
                | error e => rfl
                | ok l =>
                  simp only [liftE, ok_bind, pure_eq_ok, finish, Except.map]
                  congr 1
                  have e1 : s3.map (fun t => durOf t.s.p t.s.tr (fs : ℚ)) = l.map fun f => f.peakToTroughDuration fs := by
                    have a := mapM_proj (fun f : Feat => durOf f.peakTime f.troughTime (fs : ℚ))
                      (fun h : StHalf => durOf h.t.s.p h.t.s.tr (fs : ℚ)) h5
                      (fun a b hb => by obtain ⟨p1, p2, _, _⟩ := recoveryRow_proj hb; rw [p1, p2])
                    have b := mapM_proj (fun h : StHalf => durOf h.t.s.p h.t.s.tr (fs : ℚ))
                      (fun t : StTip => durOf t.s.p t.s.tr (fs : ℚ)) h4
                      (fun a b hb => by rw [halfRow_t hb])
                    rw [← b, ← a]; rfl
                  have e2 : s4.map (fun h => durOf h.pre h.post (fs : ℚ)) = l.map fun f => f.halfPeakDuration fs := by
                    have a := mapM_proj (fun f : Feat => durOf f.halfPre f.halfPost (fs : ℚ))
                      (fun h : StHalf => durOf h.pre h.post (fs : ℚ)) h5
                      (fun a b hb => by obtain ⟨_, _, p3, p4⟩ := recoveryRow_proj hb; rw [p3, p4])
                    rw [← a]; rfl
                  rw [e1, e2]
                  exact zipRows_map fs l

/-! ### plumbing for the call-level corollaries -/

theorem toOption_liftE {α} (x : Except Err α) : (liftE x).toOption = x.toOption := by cases x <;> rfl

theorem toOption_map' {ε α β} (a : Except ε α) (g : α → β) : (a.map g).toOption = a.toOption.map g := by
  cases a <;> rfl

theorem liftE_map_ok_iff {α β} {x : Except Err α} {g : α → β} {y : β} :
    (liftE x).map g = .ok y ↔ ∃ a, x = .ok a ∧ y = g a := by
  cases x with
  | error e => simp [liftE, Except.map]
  | ok a =>
    simp only [liftE, Except.map, Except.ok.injEq]
    constructor
    · intro h; exact ⟨a, rfl, h.symm⟩
    · rintro ⟨a', h, rfl⟩; rw [h]

theorem validate_scale (c : ℚ) (w : List (List (Option ℚ))) : validate (scaleRaw c w) = scaleWave c (validate w) := by
  unfold validate scaleRaw scaleWave
  simp only [List.map_map]
  apply List.map_congr_left; intro ch _
  simp only [Function.comp, List.map_map]
  apply List.map_congr_left; intro x _
  cases x <;> simp

theorem fullRow_scale {c : ℚ} (hc : 0 < c) (fs : ℚ) (f : Feat) : fullRow fs (f.scale c) = (fullRow fs f).scale c := by
  obtain ⟨h1, h2, h3, h4, h5, h6⟩ := derived_scale hc f fs
  simp only [fullRow, FullRow.scale, h1, h2, h3, h4, h5, h6]

/-- no derived column reads `peak_trace_idx` -/
theorem fullRow_setTrace (fs : ℚ) (f : Feat) (x : Nat) :
    fullRow fs { f with peakTrace := x } = { fullRow fs f with feat := { f with peakTrace := x } } := rfl

/-! ### the recovery offset is the nearest integer -/

theorem roundHalfEven_pos (n d : Int) (hd : 0 < d) :
    2 * (roundHalfEven n d * d - n) ≤ d ∧ 2 * (n - roundHalfEven n d * d) ≤ d ∧
    ((2 * (roundHalfEven n d * d - n) = d ∨ 2 * (n - roundHalfEven n d * d) = d) → roundHalfEven n d % 2 = 0) := by
  unfold roundHalfEven
  have hnd : ¬ d < 0 := by omega
  simp only [hnd, if_false]
  rw [Int.fdiv_eq_ediv_of_nonneg _ (by omega : (0 : Int) ≤ d)]
  have h1 := Int.emod_add_mul_ediv n d      -- n % d + d * (n / d) = n
  have h2 := Int.emod_nonneg n (by omega : d ≠ 0)
  have h3 := Int.emod_lt_of_pos n hd
  have hr : n - n / d * d = n % d := by rw [Int.mul_comm]; omega
  rw [hr]
  have hq1 : (n / d + 1) * d = n / d * d + d := by rw [Int.add_mul, Int.one_mul]
  have hq0 : n / d * d = n - n % d := by omega
  generalize n / d = q at *
  generalize n % d = r at *
  split
  · rw [hq0]; refine ⟨by omega, by omega, ?_⟩; intro h; omega
  · split
    · rw [hq1, hq0]; refine ⟨by omega, by omega, ?_⟩; intro h; omega
    · split
      · rw [hq0]; refine ⟨by omega, by omega, fun _ => by assumption⟩
      · rw [hq1, hq0]; refine ⟨by omega, by omega, fun _ => by omega⟩

/-- any integer strictly nearer than half a unit is the rounded one -/
theorem roundHalfEven_unique (n d j : Int) (hd : 0 < d) (h1 : 2 * (j * d - n) < d) (h2 : 2 * (n - j * d) < d) :
    roundHalfEven n d = j := by
  obtain ⟨a1, a2, _⟩ := roundHalfEven_pos n d hd
  generalize roundHalfEven n d = k at *
  by_contra hne
  rcases Int.lt_or_gt_of_ne hne with h | h
  · have : (k + 1) * d ≤ j * d := Int.mul_le_mul_of_nonneg_right (by omega) (by omega)
    rw [Int.add_mul, Int.one_mul] at this
    omega
  · have : (j + 1) * d ≤ k * d := Int.mul_le_mul_of_nonneg_right (by omega) (by omega)
    rw [Int.add_mul, Int.one_mul] at this
    omega

/-! ### the decision of `find_tip_trough`, in terms of its event list -/

theorem swapBlock_by_events (s1 : List St) :
    swapBlock s1 = if ("invert_peak_waveform", []) ∈ tipTroughEvents (condIdx s1).length
      then (select s1 (condIdx s1) >>= fun rows => rows.mapM swapRow >>= fun rows' => pure (writeBack s1 (condIdx s1) rows'))
      else pure s1 := by
  unfold swapBlock tipTroughEvents
  cases h : condIdx s1 with
  | nil => simp
  | cons a l => simp


/-! ### the recovery index of one row, in terms of `lastSample` -/

theorem recoveryRow_recTime {k T : Nat} {h : StHalf} {f : Feat} (hf : recoveryRow k T h = .ok f) :
    f.recTime = if h.t.s.tr + k ≥ T then lastSample T else h.t.s.tr + k := by
  unfold recoveryRow at hf
  simp only [bind, Except.bind] at hf
  split at hf
  · cases hf
  · simp only [pure, Except.pure, Except.ok.injEq] at hf
    subst hf
    rfl

end IblVerif.Features
