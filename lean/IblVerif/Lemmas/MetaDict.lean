/-
C09 helper lemmas, dictionary level: what `read_meta_data` produces is well formed, every value of the
grammar is written in a form that is read back as itself, and the two computed entries
(`neuropixelVersion`, `serial`) are recomputed to the same values.
-/
import IblVerif.Lemmas.MetaNum

namespace IblVerif.Meta

/-! ## The grammar of the round-trip statement -/

/-- integer-valued finite double -/
def IntNum : Num → Prop
  | .fin v => v % U = 0
  | .inf => False

/-- a numeric scalar of the grammar: integer-valued, or a double whose Python `repr` is positional
(digits and one decimal point).  The excluded class — `repr` in exponent notation (non-integers below
1e-4) or `inf` — is the known finding `scientific_repr_scalar`. -/
def GoodNum : Num → Prop
  | .fin v => v % U = 0 ∨ ∃ s, reprFinite v = some s ∧ s.all numChar = true
  | .inf => False

/-- "numeric values are scalars or integer lists"; strings are unrestricted -/
def InGrammar : Val → Prop
  | .num x => GoodNum x
  | .list xs => ∀ x ∈ xs, IntNum x
  | _ => True

/-! ## mapE -/

/-- pointwise relation between two lists of the same length -/
inductive All2 {α β} (R : α → β → Prop) : List α → List β → Prop
  | nil : All2 R [] []
  | cons {a b l m} : R a b → All2 R l m → All2 R (a :: l) (b :: m)

theorem mapE_ok_forall2 {α β} (f : α → Except Err β) (l : List α) (ys : List β) (h : mapE f l = .ok ys) :
    All2 (fun a y => f a = .ok y) l ys := by
  induction l generalizing ys with
  | nil => simp [mapE] at h; subst h; exact .nil
  | cons a r ih =>
    unfold mapE at h
    split at h
    · simp at h
    · rename_i b hb
      split at h
      · simp at h
      · rename_i bs hbs
        simp at h
        subst h
        exact .cons hb (ih bs hbs)

theorem mapE_of_forall2 {α β} (f : α → Except Err β) (l : List α) (ys : List β)
    (h : All2 (fun a y => f a = .ok y) l ys) : mapE f l = .ok ys := by
  induction h with
  | nil => rfl
  | cons hab _ ih => simp [mapE, hab, ih]

/-! ## values -/

def KeyOK (k : Str) : Prop := '=' ∉ k ∧ '~' ∉ k ∧ NoBreak k

/-- a value that came out of `parseVal` on a piece of a line -/
def ParsedVal (v : Val) : Prop := ∃ s, NoBreak s ∧ parseVal s = .ok v

theorem numChar_not_break (c : Char) (h : numChar c = true) : isBreak c = false := by
  simp only [numChar, Bool.or_eq_true, beq_iff_eq] at h
  rcases h with (h | h) | h
  · exact isDig_not_break c h
  · subst h; decide
  · subst h; decide

theorem noBreak_of_numChar (s : Str) (h : ∀ c ∈ s, numChar c = true) : NoBreak s :=
  fun c hc => numChar_not_break c (h c hc)

theorem isDig_numChar (c : Char) (h : isDig c = true) : numChar c = true := by simp [numChar, h]

/-- an integer-valued double is written as digits that `parseVal` reads back as the same scalar -/
theorem reparse_int (v : Nat) (hc : canon v = true) (hi : v % U = 0) :
    NoBreak (natDigits (v / U)) ∧ parseVal (natDigits (v / U)) = .ok (.num (.fin v)) := by
  obtain ⟨hne, hd, _⟩ := natDigits_spec (v / U)
  refine ⟨noBreak_of_numChar _ (fun c hc => isDig_numChar c (hd c hc)), ?_⟩
  have hnum : isNumText (natDigits (v / U)) = true := by
    simp only [isNumText, Bool.and_eq_true, Bool.not_eq_true', decide_eq_true_eq, List.all_eq_true]
    refine ⟨⟨?_, fun c hc => isDig_numChar c (hd c hc)⟩, ?_⟩
    · cases h : natDigits (v / U) with
      | nil => exact absurd h hne
      | cons _ _ => rfl
    · have : (natDigits (v / U)).count '.' = 0 := by
        rw [List.count_eq_zero]
        intro hm
        exact (isDig_ne _ (hd _ hm)).1 rfl
      omega
  have hsplit : splitOn ',' (natDigits (v / U)) = [natDigits (v / U)] :=
    splitOn_noSep _ _ (fun hm => (isDig_ne _ (hd _ hm)).2.1 rfl)
  unfold parseVal
  simp [hnum, hsplit, mapE, pyFloat_natDigits_int v hc hi]

/-- a double with a positional `repr` is written in a form `parseVal` reads back as the same scalar -/
theorem reparse_repr (v : Nat) (s : Str) (h : reprFinite v = some s) (hn : s.all numChar = true) :
    NoBreak s ∧ parseVal s = .ok (.num (.fin v)) := by
  have hpf := reprFinite_spec v s h hn
  obtain ⟨hne, hch, hcnt⟩ := pyFloat_ok_shape s _ hpf
  have hall : ∀ c ∈ s, numChar c = true := List.all_eq_true.mp hn
  refine ⟨noBreak_of_numChar s hall, ?_⟩
  have hnum : isNumText s = true := by
    simp only [isNumText, Bool.and_eq_true, Bool.not_eq_true', decide_eq_true_eq]
    refine ⟨⟨?_, hn⟩, hcnt⟩
    cases hs : s with
    | nil => exact absurd hs hne
    | cons _ _ => rfl
  have hsplit : splitOn ',' s = [s] := by
    apply splitOn_noSep
    intro hm
    rcases hch _ hm with h1 | h1
    · exact (isDig_ne _ h1).2.1 rfl
    · exact absurd h1 (by decide)
  unfold parseVal
  simp [hnum, hsplit, mapE, hpf]

def digitsOf : Num → Str
  | .fin w => natDigits (w / U)
  | .inf => []

theorem intDigits_ofNat (n : Nat) : intDigits (n : Int) = natDigits n := by
  unfold intDigits
  have : ¬ ((n : Int) < 0) := by omega
  simp [this]

theorem print_intlist (xs : List Num) (h : ∀ x ∈ xs, IntNum x) :
    mapE (fun x => (pyIntOfNum x).map intDigits) xs = .ok (xs.map digitsOf) := by
  apply mapE_of_forall2
  induction xs with
  | nil => exact .nil
  | cons x r ih =>
    refine .cons ?_ (ih (fun y hy => h y (List.mem_cons_of_mem _ hy)))
    have hx := h x (List.mem_cons_self ..)
    cases x with
    | inf => exact absurd hx (by simp [IntNum])
    | fin w => exact congrArg Except.ok (intDigits_ofNat (w / U))

theorem reparse_intlist_tokens (xs : List Num) (toks : List Str)
    (hp : All2 (fun a y => pyFloat a = .ok y) toks xs) (h : ∀ x ∈ xs, IntNum x) :
    All2 (fun a y => pyFloat a = .ok y) (xs.map digitsOf) xs := by
  induction hp with
  | nil => exact .nil
  | @cons a x _ _ hax _ ih =>
    refine .cons ?_ (ih (fun y hy => h y (List.mem_cons_of_mem _ hy)))
    have hx := h x (List.mem_cons_self ..)
    cases x with
    | inf => exact absurd hx (by simp [IntNum])
    | fin w => exact pyFloat_natDigits_int w (pyFloat_canon a w hax) hx

theorem digitsOf_props (x : Num) (hx : IntNum x) :
    digitsOf x ≠ [] ∧ ∀ c ∈ digitsOf x, isDig c = true := by
  cases x with
  | inf => exact absurd hx (by simp [IntNum])
  | fin w => exact ⟨(natDigits_spec _).1, (natDigits_spec _).2.1⟩

/-- an integer list of length ≠ 1 is written as comma separated digits that read back as the same list -/
theorem reparse_intlist (xs : List Num) (toks : List Str)
    (hp : All2 (fun a y => pyFloat a = .ok y) toks xs) (hne : xs ≠ [])
    (hsing : ∀ x, xs ≠ [x]) (h : ∀ x ∈ xs, IntNum x) :
    NoBreak (joinWith ',' (xs.map digitsOf)) ∧
      parseVal (joinWith ',' (xs.map digitsOf)) = .ok (.list xs) := by
  have hparts : ∀ p ∈ xs.map digitsOf, p ≠ [] ∧ ∀ c ∈ p, isDig c = true := by
    intro p hp'
    obtain ⟨x, hx, rfl⟩ := List.mem_map.mp hp'
    exact digitsOf_props x (h x hx)
  have hmne : xs.map digitsOf ≠ [] := by simpa using hne
  have hchars : ∀ c ∈ joinWith ',' (xs.map digitsOf), numChar c = true := by
    intro c hc
    rcases mem_joinWith _ _ _ hc with h1 | ⟨p, hp', hcp⟩
    · subst h1; decide
    · exact isDig_numChar c ((hparts p hp').2 c hcp)
  refine ⟨noBreak_of_numChar _ hchars, ?_⟩
  have hnum : isNumText (joinWith ',' (xs.map digitsOf)) = true := by
    simp only [isNumText, Bool.and_eq_true, Bool.not_eq_true', decide_eq_true_eq, List.all_eq_true]
    refine ⟨⟨?_, hchars⟩, ?_⟩
    · have := joinWith_ne_nil ',' _ hmne (fun p hp' => (hparts p hp').1)
      cases hj : joinWith ',' (xs.map digitsOf) with
      | nil => exact absurd hj this
      | cons _ _ => rfl
    · have : (joinWith ',' (xs.map digitsOf)).count '.' = 0 := by
        rw [List.count_eq_zero]
        intro hm
        rcases mem_joinWith _ _ _ hm with h1 | ⟨p, hp', hcp⟩
        · exact absurd h1 (by decide)
        · exact (isDig_ne _ ((hparts p hp').2 _ hcp)).1 rfl
      omega
  have hsplit : splitOn ',' (joinWith ',' (xs.map digitsOf)) = xs.map digitsOf :=
    splitOn_joinWith ',' _ hmne (fun p hp' hm => (isDig_ne _ ((hparts p hp').2 _ hm)).2.1 rfl)
  have hmap := mapE_of_forall2 _ _ _ (reparse_intlist_tokens xs toks hp h)
  unfold parseVal
  simp only [hnum, if_true, hsplit, hmap]

/-- Every value `read_meta_data` can produce and that lies in the grammar is written by
`write_meta_data` as a break-free text that `parseVal` reads back as the same value. -/
theorem reparse_val (v : Val) (hp : ParsedVal v) (hg : InGrammar v) :
    ∃ s', printVal v = .ok s' ∧ NoBreak s' ∧ parseVal s' = .ok v := by
  obtain ⟨s, hs, hpv⟩ := hp
  have hpv0 := hpv
  unfold parseVal at hpv
  split at hpv
  · split at hpv
    · simp at hpv
    · -- scalar
      rename_i x hmap
      simp at hpv
      subst hpv
      have hf := mapE_ok_forall2 _ _ _ hmap
      cases x with
      | inf => exact absurd hg (by simp [InGrammar, GoodNum])
      | fin w =>
        have hcanon : canon w = true := by
          generalize splitOn ',' s = toks at hf
          cases hf with
          | cons hax _ => exact pyFloat_canon _ w hax
        by_cases hi : w % U = 0
        · have := reparse_int w hcanon hi
          exact ⟨_, by simp [printVal, hi], this.1, this.2⟩
        · simp only [InGrammar, GoodNum] at hg
          rcases hg with h0 | ⟨r, hr, hrn⟩
          · exact absurd h0 hi
          · have := reparse_repr w r hr hrn
            exact ⟨r, by simp [printVal, hi, hr], this.1, this.2⟩
    · -- list
      rename_i xs hsing hmap
      simp at hpv
      subst hpv
      have hf := mapE_ok_forall2 _ _ _ hmap
      have hne : xs ≠ [] := by
        intro e
        subst e
        generalize hts : splitOn ',' s = toks at hf
        cases hf
        exact splitOn_ne_nil ',' s hts
      have hs1 : ∀ x, xs ≠ [x] := by
        intro x e
        exact hsing x (by rw [e])
      simp only [InGrammar] at hg
      have := reparse_intlist xs _ hf hne hs1 hg
      exact ⟨_, by simp [printVal, print_intlist xs hg], this.1, this.2⟩
  · simp at hpv
    subst hpv
    exact ⟨s, rfl, hs, hpv0⟩

/-! ## dictionaries -/

def keys (d : Dict) : List Str := d.map Prod.fst

theorem get?_set_self (d : Dict) (k : Str) (v : Val) : (d.set k v).get? k = some v := by
  induction d with
  | nil => simp [Dict.set, Dict.get?]
  | cons e r ih =>
    obtain ⟨k', v'⟩ := e
    unfold Dict.set
    split
    · simp [Dict.get?]
    · rename_i hne
      simp [Dict.get?, hne, ih]

theorem get?_set_other (d : Dict) (k k' : Str) (v : Val) (h : k' ≠ k) : (d.set k v).get? k' = d.get? k' := by
  induction d with
  | nil =>
    have : k ≠ k' := fun e => h e.symm
    simp [Dict.set, Dict.get?, this]
  | cons e r ih =>
    obtain ⟨k0, v0⟩ := e
    unfold Dict.set
    split
    · rename_i he
      subst he
      have : k0 ≠ k' := fun e => h e.symm
      simp [Dict.get?, this]
    · by_cases hk : k0 = k'
      · simp [Dict.get?, hk]
      · simp [Dict.get?, hk, ih]

theorem keys_set (d : Dict) (k : Str) (v : Val) :
    keys (d.set k v) = if k ∈ keys d then keys d else keys d ++ [k] := by
  induction d with
  | nil => simp [Dict.set, keys]
  | cons e r ih =>
    obtain ⟨k0, v0⟩ := e
    unfold Dict.set
    split
    · rename_i he
      subst he
      simp [keys]
    · rename_i hne
      have hne' : ¬ k = k0 := fun e => hne e.symm
      simp only [keys, List.map_cons, List.mem_cons, hne', false_or] at ih ⊢
      rw [ih]
      split <;> simp_all

theorem set_fresh (d : Dict) (k : Str) (v : Val) (h : k ∉ keys d) : d.set k v = d ++ [(k, v)] := by
  induction d with
  | nil => rfl
  | cons e r ih =>
    obtain ⟨k0, v0⟩ := e
    have h0 : k0 ≠ k := fun e => h (by simp [keys, e])
    have hr : k ∉ keys r := fun e => h (by simp only [keys, List.map_cons, List.mem_cons]; exact Or.inr e)
    simp [Dict.set, h0, ih hr]

theorem mem_set (d : Dict) (k : Str) (v : Val) (e : Str × Val) (h : e ∈ d.set k v) : e = (k, v) ∨ e ∈ d := by
  induction d with
  | nil => simpa [Dict.set] using h
  | cons e0 r ih =>
    obtain ⟨k0, v0⟩ := e0
    unfold Dict.set at h
    split at h
    · rcases List.mem_cons.mp h with h1 | h1
      · exact Or.inl h1
      · exact Or.inr (List.mem_cons_of_mem _ h1)
    · rcases List.mem_cons.mp h with h1 | h1
      · exact Or.inr (h1 ▸ List.mem_cons_self ..)
      · rcases ih h1 with h2 | h2
        · exact Or.inl h2
        · exact Or.inr (List.mem_cons_of_mem _ h2)

theorem nodup_set (d : Dict) (k : Str) (v : Val) (h : (keys d).Nodup) : (keys (d.set k v)).Nodup := by
  rw [keys_set]
  split
  · exact h
  · rename_i hk
    rw [List.nodup_append]
    refine ⟨h, by simp, ?_⟩
    intro a ha b hb
    simp at hb
    subst hb
    intro e
    exact hk (e ▸ ha)

theorem get?_none_of_not_mem (d : Dict) (k : Str) (h : k ∉ keys d) : d.get? k = none := by
  induction d with
  | nil => rfl
  | cons e r ih =>
    obtain ⟨k0, v0⟩ := e
    have h0 : k0 ≠ k := fun e => h (by simp [keys, e])
    have hr : k ∉ keys r := fun e => h (by simp only [keys, List.map_cons, List.mem_cons]; exact Or.inr e)
    simp [Dict.get?, h0, ih hr]

/-- same keys in the same order, same values except possibly at the keys `ks` -/
def AgreeOff (ks : List Str) : Dict → Dict → Prop
  | [], [] => True
  | e1 :: r1, e2 :: r2 => e1.1 = e2.1 ∧ (e1.1 ∉ ks → e1.2 = e2.2) ∧ AgreeOff ks r1 r2
  | _, _ => False

theorem agree_nil (a b : Dict) (h : AgreeOff [] a b) : a = b := by
  induction a generalizing b with
  | nil => cases b <;> simp_all [AgreeOff]
  | cons e1 r1 ih =>
    cases b with
    | nil => simp [AgreeOff] at h
    | cons e2 r2 =>
      obtain ⟨h1, h2, h3⟩ := h
      rw [ih r2 h3]
      congr 1
      exact Prod.ext h1 (h2 (by simp))

theorem agree_keys (ks : List Str) (a b : Dict) (h : AgreeOff ks a b) : keys a = keys b := by
  induction a generalizing b with
  | nil => cases b <;> simp_all [AgreeOff, keys]
  | cons e1 r1 ih =>
    cases b with
    | nil => simp [AgreeOff] at h
    | cons e2 r2 =>
      obtain ⟨h1, _, h3⟩ := h
      simp only [keys, List.map_cons, h1]
      congr 1
      exact ih r2 h3

theorem agree_get (ks : List Str) (a b : Dict) (h : AgreeOff ks a b) (k : Str) (hk : k ∉ ks) :
    a.get? k = b.get? k := by
  induction a generalizing b with
  | nil => cases b <;> simp_all [AgreeOff]
  | cons e1 r1 ih =>
    cases b with
    | nil => simp [AgreeOff] at h
    | cons e2 r2 =>
      obtain ⟨k1, v1⟩ := e1
      obtain ⟨k2, v2⟩ := e2
      obtain ⟨h1, h2, h3⟩ := h
      simp only at h1 h2
      subst h1
      by_cases hkk : k1 = k
      · subst hkk
        simp [Dict.get?, h2 hk]
      · simp [Dict.get?, hkk, ih r2 h3]

theorem agree_has (ks : List Str) (a b : Dict) (h : AgreeOff ks a b) (k : Str) : a.has k = b.has k := by
  induction a generalizing b with
  | nil => cases b <;> simp_all [AgreeOff]
  | cons e1 r1 ih =>
    cases b with
    | nil => simp [AgreeOff] at h
    | cons e2 r2 =>
      obtain ⟨k1, v1⟩ := e1
      obtain ⟨k2, v2⟩ := e2
      obtain ⟨h1, _, h3⟩ := h
      simp only at h1
      subst h1
      have := ih r2 h3
      unfold Dict.has at this ⊢
      by_cases hkk : k1 = k
      · simp [Dict.get?, hkk]
      · simp [Dict.get?, hkk, this]

theorem agree_weaken (k : Str) (ks : List Str) (a b : Dict) (h : AgreeOff (k :: ks) a b) (hk : k ∉ keys b) :
    AgreeOff ks a b := by
  induction a generalizing b with
  | nil => cases b <;> simp_all [AgreeOff]
  | cons e1 r1 ih =>
    cases b with
    | nil => simp [AgreeOff] at h
    | cons e2 r2 =>
      obtain ⟨h1, h2, h3⟩ := h
      have hk2 : e2.1 ≠ k := fun e => hk (by simp [keys, e])
      have hkr : k ∉ keys r2 := fun e => hk (by simp only [keys, List.map_cons, List.mem_cons]; exact Or.inr e)
      refine ⟨h1, ?_, ih r2 h3 hkr⟩
      intro hn
      apply h2
      intro hm
      rcases List.mem_cons.mp hm with h4 | h4
      · exact hk2 (h1 ▸ h4)
      · exact hn h4

theorem agree_set (k : Str) (ks : List Str) (a b : Dict) (v : Val) (h : AgreeOff (k :: ks) a b)
    (hnd : (keys b).Nodup) (hv : b.get? k = some v) : AgreeOff ks (a.set k v) b := by
  induction a generalizing b with
  | nil => cases b <;> simp_all [AgreeOff, Dict.get?]
  | cons e1 r1 ih =>
    cases b with
    | nil => simp [AgreeOff] at h
    | cons e2 r2 =>
      obtain ⟨k1, v1⟩ := e1
      obtain ⟨k2, v2⟩ := e2
      obtain ⟨h1, h2, h3⟩ := h
      simp only at h1 h2
      subst h1
      simp only [keys, List.map_cons, List.nodup_cons] at hnd
      unfold Dict.set
      split
      · rename_i he
        subst he
        simp [Dict.get?] at hv
        subst hv
        exact ⟨rfl, fun _ => rfl, agree_weaken _ ks r1 r2 h3 hnd.1⟩
      · rename_i hne
        simp [Dict.get?, hne] at hv
        refine ⟨rfl, ?_, ih r2 h3 hnd.2 hv⟩
        intro hn
        apply h2
        intro hm
        rcases List.mem_cons.mp hm with h4 | h4
        · exact hne h4
        · exact hn h4

/-! ## what `parseLines` produces -/

def Inv (d : Dict) : Prop := (keys d).Nodup ∧ ∀ e ∈ d, KeyOK e.1 ∧ ParsedVal e.2

theorem parseLine_inv (a k : Str) (v : Val) (ha : NoBreak a) (h : parseLine a = .ok (k, v)) :
    KeyOK k ∧ ParsedVal v := by
  unfold parseLine at h
  split at h
  · simp at h
  · rename_i kv hkv
    obtain ⟨k0, s0⟩ := kv
    have ⟨e, hk0⟩ := splitEq_spec a k0 s0 hkv
    split at h
    · simp at h
    · rename_i v0 hv0
      simp at h
      obtain ⟨rfl, rfl⟩ := h
      have hk0b : NoBreak k0 := fun c hc => ha c (by rw [e]; exact List.mem_append.mpr (Or.inl hc))
      have hs0b : NoBreak s0 := fun c hc => ha c (by rw [e]; exact List.mem_append.mpr (Or.inr (List.mem_cons_of_mem _ hc)))
      refine ⟨⟨?_, ?_, ?_⟩, ⟨s0, hs0b, hv0⟩⟩
      · intro hm; exact hk0 (removeTilde_mem _ _ hm).1
      · intro hm; exact (removeTilde_mem _ _ hm).2 rfl
      · intro c hc; exact hk0b c (removeTilde_mem _ _ hc).1

theorem parseLines_inv (ls : List Str) (acc d : Dict) (h : parseLines ls acc = .ok d)
    (hls : ∀ l ∈ ls, NoBreak l) (hacc : Inv acc) : Inv d := by
  induction ls generalizing acc with
  | nil => simp [parseLines] at h; subst h; exact hacc
  | cons a r ih =>
    unfold parseLines at h
    split at h
    · simp at h
    · rename_i kv hkv
      obtain ⟨k, v⟩ := kv
      have := parseLine_inv a k v (hls a (List.mem_cons_self ..)) hkv
      apply ih _ h (fun l hl => hls l (List.mem_cons_of_mem _ hl))
      refine ⟨nodup_set _ _ _ hacc.1, ?_⟩
      intro e he
      rcases mem_set _ _ _ _ he with h1 | h1
      · subst h1; exact this
      · exact hacc.2 e h1

/-! ## writing and reading back a whole dictionary -/

/-- the two entries `read_meta_data` computes instead of reading -/
def SP : List Str := [kVersion, kSerial]

/-- an entry can be written, and what is written is read back as the same value (or, for the two
computed keys, as something that will be overwritten) -/
def Rt (e : Str × Val) : Prop :=
  KeyOK e.1 ∧ ∃ s v', printVal e.2 = .ok s ∧ NoBreak s ∧ parseVal s = .ok v' ∧ (e.1 ∉ SP → v' = e.2)

theorem parseLine_printed (k s : Str) (v' : Val) (hk : KeyOK k) (hv : parseVal s = .ok v') :
    parseLine (k ++ '=' :: s) = .ok (k, v') := by
  unfold parseLine
  rw [splitEq_append k s hk.1]
  simp [hv, removeTilde_id k hk.2.1]

theorem print_parse_lines (d : Dict) (h : ∀ e ∈ d, Rt e) :
    ∃ ls d', printLines d = .ok ls ∧ (∀ l ∈ ls, NoBreak l) ∧ AgreeOff SP d' d ∧
      ∀ acc, (keys acc ++ keys d).Nodup → parseLines ls acc = .ok (acc ++ d') := by
  induction d with
  | nil => exact ⟨[], [], rfl, by simp, by simp [AgreeOff], by intro acc _; simp [parseLines]⟩
  | cons e r ih =>
    obtain ⟨k, v⟩ := e
    obtain ⟨hk, s, v', hp, hsb, hpv, hsame⟩ := h (k, v) (List.mem_cons_self ..)
    obtain ⟨ls, d', hpl, hlb, hag, hacc⟩ := ih (fun e he => h e (List.mem_cons_of_mem _ he))
    refine ⟨(k ++ '=' :: s) :: ls, (k, v') :: d', ?_, ?_, ?_, ?_⟩
    · simp only at hp
      simp [printLines, hp, hpl]
    · intro l hl
      rcases List.mem_cons.mp hl with h1 | h1
      · subst h1
        exact NoBreak.append hk.2.2 (NoBreak.cons isBreak_eq hsb)
      · exact hlb l h1
    · exact ⟨rfl, hsame, hag⟩
    · intro acc hnd
      simp only [keys, List.map_cons] at hnd
      have hfresh : k ∉ keys acc := by
        intro hm
        have := (List.nodup_append.mp hnd).2.2 k hm k (List.mem_cons_self ..)
        exact this rfl
      unfold parseLines
      rw [parseLine_printed k s v' hk hpv]
      simp only
      rw [set_fresh acc k v' hfresh]
      have hnd' : (keys (acc ++ [(k, v')]) ++ keys r).Nodup := by
        simp only [keys, List.map_append, List.map_cons, List.map_nil, List.append_assoc,
          List.cons_append, List.nil_append]
        exact hnd
      rw [hacc _ hnd']
      simp

theorem mem_unlines (ls : List Str) (c : Char) (h : c ∈ unlines ls) : c = '\n' ∨ ∃ l ∈ ls, c ∈ l := by
  induction ls with
  | nil => simp [unlines] at h
  | cons l r ih =>
    simp only [unlines] at h
    rcases List.mem_append.mp h with h1 | h1
    · exact Or.inr ⟨l, List.mem_cons_self .., h1⟩
    · rcases List.mem_cons.mp h1 with h2 | h2
      · exact Or.inl h2
      · rcases ih h2 with h3 | ⟨l', hl', hc⟩
        · exact Or.inl h3
        · exact Or.inr ⟨l', List.mem_cons_of_mem _ hl', hc⟩

theorem version_congr (a b : Dict)
    (h : ∀ k ∈ [kTypeEnabled, kPrbType, kPrbPort, kPrbSlot], a.get? k = b.get? k) : version a = version b := by
  have h1 := h kTypeEnabled (by simp)
  have h2 := h kPrbType (by simp)
  have h3 := h kPrbPort (by simp)
  have h4 := h kPrbSlot (by simp)
  unfold version Dict.has
  rw [h1, h2, h3, h4]

theorem serialVal_congr (a b : Dict) (h1 : a.get? kProbeSN = b.get? kProbeSN)
    (h2 : a.get? kPrbSn = b.get? kPrbSn) : serialVal a = serialVal b := by
  unfold serialVal
  rw [h1, h2]

end IblVerif.Meta
