/-
Lemmas for the C01 additions of `Model/Reader.lean`: the sync trace indices and the layout of the imec volts-per-bit
vector (`_get_sync_trace_indices_from_meta`, `_conversion_sample2v_from_meta`), and the pair returned by
`Reader.read(slice, csel, sync=True)` / `read_samples` / the module-level `read`.  Core Lean only.
-/
import IblVerif.Lemmas.Reader

namespace IblVerif.Reader
open IblVerif.PySlice

theorem rangeLen_step_one (a b : Int) : rangeLen a b 1 = (b - a).toNat := by
  unfold rangeLen
  simp only [show ¬ (1 : Int) < 0 by omega, if_false, Int.ediv_one]
  split <;> omega

/-- `list(range(ntr - nsync, ntr))` is `ntr - nsync, …, ntr - 1` (nothing when `nsync ≤ 0`). -/
theorem syncTraceIndices_eq (ntr nsync : Int) :
    syncTraceIndices ntr nsync = (List.range nsync.toNat).map fun k : Nat => ntr - nsync + (k : Int) := by
  unfold syncTraceIndices
  rw [pyRange_eq_map _ _ _ (by omega), rangeLen_step_one]
  have h : (ntr - (ntr - nsync)).toNat = nsync.toNat := by congr 1; omega
  rw [h]
  apply List.map_congr_left
  intro k _
  omega

theorem nsyncM_eq (ntr nsync : Int) : nsyncM ntr nsync = nsync.toNat := by
  unfold nsyncM; rw [syncTraceIndices_eq]; simp

theorem mem_syncTraceIndices (ntr nsync i : Int) :
    i ∈ syncTraceIndices ntr nsync ↔ ntr - nsync ≤ i ∧ i < ntr := by
  rw [syncTraceIndices_eq]
  simp only [List.mem_map, List.mem_range]
  constructor
  · rintro ⟨k, hk, rfl⟩; omega
  · intro h
    exact ⟨(i - (ntr - nsync)).toNat, by omega, by omega⟩

theorem nChn_eq (m : ImecCounts) (h : 0 ≤ m.nSy) : m.nChn = m.nSaved - m.nSy := by
  unfold ImecCounts.nChn; rw [nsyncM_eq]; omega

theorem pyPrefix_length {κ : Type} (l : List κ) (k : Int) (h0 : 0 ≤ k) (hk : k.toNat ≤ l.length) :
    (pyPrefix l k).length = k.toNat := by
  unfold pyPrefix
  rw [if_neg (by omega)]
  simp [hk]

theorem pyPrefix_getElem? {κ : Type} (l : List κ) (k : Int) (h0 : 0 ≤ k) (c : Nat) (hc : c < k.toNat) :
    (pyPrefix l k)[c]? = l[c]? := by
  unfold pyPrefix
  rw [if_neg (by omega)]
  simp [List.getElem?_take, hc]

/-- Layout of the vector `Reader.read` multiplies with, on an NP1 / NPultra stream with consistent counts
(`0 ≤ nsync ≤ nSavedChans`, an imro table with at least one entry per saved electrode channel): one entry per
saved channel; entry `c` of an electrode channel is the conversion of imro entry `c` IN THE BAND OF THE STREAM; the
last `nsync` entries — exactly the sync trace indices — are one. -/
theorem s2vNp1_layout {γ κ : Type} (factor : Band → κ → γ) (one : γ) (tbl : List κ) (m : ImecCounts) (b : Band)
    (hb : bandOf m.nAp m.nLf = some b) (hsy : 0 ≤ m.nSy) (hle : m.nSy ≤ m.nSaved)
    (htbl : (m.nSaved - m.nSy).toNat ≤ tbl.length) :
    ∃ v, s2vNp1 factor one tbl m = some v ∧ v.length = m.nSaved.toNat ∧
      (∀ c, c < (m.nSaved - m.nSy).toNat → v[c]? = (tbl[c]?).map (factor b)) ∧
      (∀ c, (m.nSaved - m.nSy).toNat ≤ c → c < m.nSaved.toNat → v[c]? = some one) := by
  have hn := nChn_eq m hsy
  have hlen : ((pyPrefix tbl m.nChn).map (factor b)).length = (m.nSaved - m.nSy).toNat := by
    rw [List.length_map, hn, pyPrefix_length _ _ (by omega) htbl]
  refine ⟨_, by unfold s2vNp1; rw [hb], ?_, ?_, ?_⟩
  · simp only [s2vVec, List.length_append, hlen, List.length_replicate]; omega
  · intro c hc
    simp only [s2vVec]
    rw [List.getElem?_append_left (by rw [hlen]; exact hc), List.getElem?_map, hn,
      pyPrefix_getElem? _ _ (by omega) _ hc]
  · intro c h1 h2
    simp only [s2vVec]
    rw [List.getElem?_append_right (by rw [hlen]; exact h1), hlen, List.getElem?_replicate]
    rw [if_pos (by omega)]

/-- The same for NP2: one factor on every electrode channel, one on the sync trace indices. -/
theorem s2vNp2_layout {γ : Type} (f one : γ) (m : ImecCounts) (b : Band)
    (hb : bandOf m.nAp m.nLf = some b) (hsy : 0 ≤ m.nSy) (hle : m.nSy ≤ m.nSaved) :
    ∃ v, s2vNp2 f one m = some v ∧ v.length = m.nSaved.toNat ∧
      (∀ c, c < (m.nSaved - m.nSy).toNat → v[c]? = some f) ∧
      (∀ c, (m.nSaved - m.nSy).toNat ≤ c → c < m.nSaved.toNat → v[c]? = some one) := by
  have hn := nChn_eq m hsy
  have hv : s2vNp2 f one m = some (s2vVec (List.replicate m.nChn.toNat f) one m.nSy.toNat) := by
    unfold s2vNp2; rw [hb]; simp only [show ¬ m.nChn < 0 by omega, if_false]
  refine ⟨_, hv, ?_, ?_, ?_⟩
  · simp only [s2vVec, List.length_append, List.length_replicate, hn]; omega
  · intro c hc
    simp only [s2vVec, hn]
    rw [List.getElem?_append_left (by simpa using hc), List.getElem?_replicate, if_pos hc]
  · intro c h1 h2
    simp only [s2vVec, hn]
    rw [List.getElem?_append_right (by simpa using h1), List.length_replicate, List.getElem?_replicate]
    rw [if_pos (by omega)]

/-! ### The pair of `read(slice, csel, sync=True)` -/

theorem flatMap_single {α β : Type} (f : α → β) (l : List α) : l.flatMap (fun p => [f p]) = l.map f := by
  induction l with
  | nil => rfl
  | cons a t ih => simp [List.flatMap_cons, ih]

/-- The sample positions of a slice on either backend, in closed form, when the backend serves the slice like
NumPy (uncompressed, or positive step). -/
theorem rows_slice_closed {γ : Type} (r : Rec γ) (s : Slice) (a b st : Int)
    (hn : indices s r.ns = some (a, b, st)) (hsup : r.cbin = false ∨ 0 < st) :
    (if r.cbin then rowsCbin (.slice s) r.ns else axisSel (.slice s) r.ns) =
      .ok (.many ((List.range (rangeLen a b st)).map fun p : Nat => (a + p * st).toNat)) := by
  have hax : axisSel (.slice s) r.ns = .ok (.many ((List.range (rangeLen a b st)).map fun p : Nat => (a + p * st).toNat)) := by
    simp only [axisSel, sliceIndices_spec s r.ns a b st hn]
  by_cases hb : r.cbin = false
  · simp only [hb, Bool.false_eq_true, if_false, hax]
  · have hb' : r.cbin = true := by simpa using hb
    have hst : 0 < st := by rcases hsup with h | h; exact absurd h hb; exact h
    have hsv : st = s.stepVal := (indices_bounds s r.ns a b st hn).1
    simp only [hb', if_true]
    rw [rowsCbin_eq_axisSel (.slice s) r.ns (by simp only [CbinSupported]; omega), hax]

/-- `read(slice, csel, sync=True)`: the data part is NumPy indexing of the calibrated array, the sync part decodes,
row after row, the raw sync words of the SAME samples `a + p·st` the data rows come from. -/
theorem readPairM_eq {α β γ : Type} (cast : Int → α) (mul : α → γ → β) (r : Rec γ) (sidx : List Nat) (s : Slice)
    (csel : Sel) (a b st : Int) (hn : indices s r.ns = some (a, b, st)) (hsup : r.cbin = false ∨ 0 < st) :
    readPairM cast mul r sidx s csel =
      (selectM (calibratedAt cast mul r) r.ns r.nc (.slice s) csel).map fun d =>
        (d, ((List.range (rangeLen a b st)).flatMap fun p : Nat =>
              sidx.map fun c => r.raw (a + p * st).toNat c).map syncWordBits) := by
  have hread : readM cast mul r (.slice s) csel = selectM (calibratedAt cast mul r) r.ns r.nc (.slice s) csel := by
    by_cases hb : r.cbin = false
    · exact readM_bin_eq_selectM cast mul r hb _ _
    · have hst : 0 < st := by rcases hsup with h | h; exact absurd h hb; exact h
      have hsv : st = s.stepVal := (indices_bounds s r.ns a b st hn).1
      exact readM_cbin_eq_selectM cast mul r _ _ (by simp only [CbinSupported]; omega)
  unfold readPairM readSyncSliceM
  rw [hread, rows_slice_closed r s a b st hn hsup]
  cases selectM (calibratedAt cast mul r) r.ns r.nc (.slice s) csel with
  | error e => rfl
  | ok d => simp [Except.map, List.flatMap_map]

/-- The bounds of `slice(first, last)` always exist and its step is one: `read_samples` is served alike by both
backends. -/
theorem indices_first_last (first last : Int) (n : Nat) :
    indices ⟨some first, some last, none⟩ n = some (adjust first n 1, adjust last n 1, 1) := by
  simp [indices, Slice.stepVal]

end IblVerif.Reader
