/-
Helper lemmas for C14: the per-waveform pipeline `rowFeatures`, cut into head (peak, trough, swap)
and tail (tip, half-peak points, recovery point).
-/
import IblVerif.Lemmas.FeaturesStages

namespace IblVerif.Features

theorem rowFeatures_eq (k T : Nat) (w : Wave) :
    rowFeatures k T w = (initRow w >>= fun s0 => findTroughRow s0 >>= fun s1 => swapStep s1 >>= rowTail k T) := rfl

theorem inv_eq (pv x : ℚ) : inv pv x = flipSign pv * x := by
  unfold inv flipSign; split <;> simp

theorem flipSign_mul_self (v : ℚ) : flipSign v * flipSign v = 1 := by
  unfold flipSign; split <;> norm_num

theorem flipSign_mul_invertSign {v : ℚ} (hv : v ≠ 0) : flipSign v * invertSign v = 1 := by
  unfold flipSign invertSign qsign
  by_cases h : 0 < v
  · simp [h]
  · have : v < 0 := lt_of_le_of_ne (not_lt.mp h) hv
    simp [h, this]

theorem IsPeakLoc.unique {T : Nat} {w : Wave} {c t c' t' : Nat} (h : IsPeakLoc T w c t) (h' : IsPeakLoc T w c' t') :
    c = c' ∧ t = t' := by
  obtain ⟨hc, ht, hmax, hch, htm⟩ := h
  obtain ⟨hc', ht', hmax', hch', htm'⟩ := h'
  have hcc : c = c' := by
    rcases Nat.lt_trichotomy c c' with h | h | h
    · exact absurd (lt_of_lt_of_le (hch' c t h ht) (hmax c' t' hc' ht')) (lt_irrefl _)
    · exact h
    · exact absurd (lt_of_lt_of_le (hch c' t' h ht') (hmax' c t hc ht)) (lt_irrefl _)
  subst hcc
  refine ⟨rfl, ?_⟩
  rcases Nat.lt_trichotomy t t' with h | h | h
  · exact absurd (lt_of_lt_of_le (htm' t h) (hmax c t' hc ht')) (lt_irrefl _)
  · exact h
  · exact absurd (lt_of_lt_of_le (htm t' h) (hmax' c t hc ht)) (lt_irrefl _)

/-- from the masked-argmax fact on the inverted row to the statement about samples -/
theorem firstMaxOn_to_spec {T : Nat} {w : Wave} {c : Nat} {row : Row} (hr : w[c]? = some row) (hl : row.length = T)
    (keep : Nat → Prop) (lo hi : Nat) (hk : ∀ t, t < T → (keep t ↔ lo ≤ t ∧ t < hi)) (hhi : hi ≤ T)
    {pv : ℚ} {j : Nat} {m : ℚ} (h : FirstMaxOn keep (invertRow row pv) j m) :
    IsFirstExtremum w c (flipSign pv) lo hi j ∧ m = flipSign pv * smp w c j := by
  obtain ⟨hkj, hj, hmax, hfirst⟩ := h
  have hjT : j < T := by
    have := (List.getElem?_eq_some_iff.mp hj).1
    rw [invertRow_length, hl] at this; exact this
  have hval : ∀ t, t < T → (invertRow row pv)[t]? = some (flipSign pv * smp w c t) := by
    intro t ht
    have hx : row[t]? = some (row[t]'(by omega)) := List.getElem?_eq_getElem (by omega)
    rw [invertRow_getElem?, hx, smp_of_getElem? hr hx]; simp [inv_eq]
  have hm : m = flipSign pv * smp w c j := by
    have := hval j hjT; rw [hj] at this; exact Option.some.inj this
  obtain ⟨hlo, hhi'⟩ := (hk j hjT).mp hkj
  refine ⟨⟨hlo, hhi', ?_, ?_⟩, hm⟩
  · intro t h1 h2
    rw [← hm]
    exact hmax t _ ((hk t (by omega)).mpr ⟨h1, h2⟩) (hval t (by omega))
  · intro t h1 h2
    rw [← hm]
    exact hfirst t _ ((hk t (by omega)).mpr ⟨h1, by omega⟩) h2 (hval t (by omega))

theorem spec_to_firstMaxOn {T : Nat} {w : Wave} {c : Nat} {row : Row} (hr : w[c]? = some row) (hl : row.length = T)
    (keep : Nat → Prop) (lo hi : Nat) (hk : ∀ t, t < T → (keep t ↔ lo ≤ t ∧ t < hi)) (hhi : hi ≤ T)
    {pv : ℚ} {j : Nat} (h : IsFirstExtremum w c (flipSign pv) lo hi j) :
    FirstMaxOn keep (invertRow row pv) j (flipSign pv * smp w c j) := by
  obtain ⟨hlo, hhi', hmax, hfirst⟩ := h
  have hval : ∀ t y, (invertRow row pv)[t]? = some y → t < T ∧ y = flipSign pv * smp w c t := by
    intro t y hy
    have ht : t < T := by
      have := (List.getElem?_eq_some_iff.mp hy).1
      rw [invertRow_length, hl] at this; exact this
    have hx : row[t]? = some (row[t]'(by omega)) := List.getElem?_eq_getElem (by omega)
    rw [invertRow_getElem?, hx] at hy
    simp [inv_eq] at hy
    exact ⟨ht, by rw [smp_of_getElem? hr hx, hy]⟩
  have hjT : j < T := by omega
  refine ⟨(hk j hjT).mpr ⟨hlo, hhi'⟩, ?_, ?_, ?_⟩
  · have hx : row[j]? = some (row[j]'(by omega)) := List.getElem?_eq_getElem (by omega)
    rw [invertRow_getElem?, hx, smp_of_getElem? hr hx]; simp [inv_eq]
  · intro t y hkt hy
    obtain ⟨ht, rfl⟩ := hval t y hy
    obtain ⟨h1, h2⟩ := (hk t ht).mp hkt
    exact hmax t h1 h2
  · intro t y hkt htj hy
    obtain ⟨ht, rfl⟩ := hval t y hy
    obtain ⟨h1, h2⟩ := (hk t ht).mp hkt
    exact hfirst t h1 htj

theorem IsFirstExtremum.unique {w : Wave} {c : Nat} {σ : ℚ} {lo hi q q' : Nat}
    (h : IsFirstExtremum w c σ lo hi q) (h' : IsFirstExtremum w c σ lo hi q') : q = q' := by
  obtain ⟨a1, a2, a3, a4⟩ := h
  obtain ⟨b1, b2, b3, b4⟩ := h'
  rcases Nat.lt_trichotomy q q' with h | h | h
  · exact absurd (lt_of_lt_of_le (b4 q a1 h) (a3 q' b1 b2)) (lt_irrefl _)
  · exact h
  · exact absurd (lt_of_lt_of_le (a4 q' b1 h) (b3 q a1 a2)) (lt_irrefl _)


/-- what is known about a waveform's state after `find_trough` and the peak/trough swap -/
structure HeadOK (T : Nat) (w : Wave) (c p0 : Nat) (row : Row) (s : St) : Prop where
  trace : s.trace = c
  real : s.real = row
  p_ge : p0 ≤ s.p
  p_lt : s.p < T
  pv : s.pv = smp w c s.p
  pv_ne : 0 < s.p → s.pv ≠ 0
  sgn : s.sgn = invertSign s.pv
  tr : IsFirstExtremum w c (flipSign s.pv) s.p T s.tr
  trv : s.trv = flipSign s.pv * smp w c s.tr * s.sgn
  arr : s.arr = invertRow row s.pv
  swap : (s.p = p0 ∧ ¬ ∃ q, WeaklyPositive T w c p0 q) ∨ WeaklyPositive T w c p0 s.p

theorem ratio_iff {v t : ℚ} (ht : t ≠ 0) : qabs (v / t) ≤ 3 / 2 ↔ 2 * |v| ≤ 3 * |t| := by
  rw [qabs_eq_abs, abs_div, div_le_iff₀ (abs_pos.mpr ht)]
  constructor <;> intro h <;> linarith

theorem swapCond_iff (s : St) : swapCond s = true ↔ 0 < s.pv ∧ s.trv ≠ 0 ∧ qabs (s.pv / s.trv) ≤ 3 / 2 := by
  simp [swapCond]

theorem head_spec (T : Nat) (w : Wave) (hR : Rect T w) (hT : 0 < T) (hw : w ≠ []) :
    ∃ c p0 row s2, IsPeakLoc T w c p0 ∧ w[c]? = some row ∧
      (initRow w >>= fun s0 => findTroughRow s0 >>= swapStep) = .ok s2 ∧ HeadOK T w c p0 row s2 := by
  obtain ⟨pk, row, hfp, hrow, hv, hloc⟩ := findPeak_spec T w hR hT hw
  have hl : row.length = T := rect_row hR hrow
  have hv0 : pk.v = smp w pk.trace pk.p := (smp_of_getElem? hrow hv).symm
  have hp0 : pk.p < T := hloc.2.1
  refine ⟨pk.trace, pk.p, row, ?_⟩
  have hinit : initRow w = .ok { trace := pk.trace, p := pk.p, pv := pk.v, sgn := invertSign pk.v, tr := 0, trv := 0, real := row, arr := invertRow row pk.v } := by
    unfold initRow; rw [hfp]; simp [idx_ok hrow]
  obtain ⟨tr1, m1, h1, hF1⟩ := findTroughRow_ok { trace := pk.trace, p := pk.p, pv := pk.v, sgn := invertSign pk.v, tr := 0, trv := 0, real := row, arr := invertRow row pk.v } (by simp [invertRow_length, hl, hp0])
  obtain ⟨hE1, hm1⟩ := firstMaxOn_to_spec hrow hl (pk.p ≤ ·) pk.p T (fun t ht => by simp [ht]) (le_refl _) hF1
  simp only at h1 hF1 hE1
  have htr1 : tr1 < T := hE1.2.1
  rw [hinit]
  simp only [ok_bind, h1]
  unfold swapStep
  by_cases hsw : swapCond { trace := pk.trace, p := pk.p, pv := pk.v, sgn := invertSign pk.v, tr := tr1, trv := m1 * invertSign pk.v, real := row, arr := invertRow row pk.v } = true
  · -- swap
    rw [if_pos hsw]
    obtain ⟨hpos, htne, hratio⟩ := (swapCond_iff _).mp hsw
    simp only at hpos htne hratio
    have hfs : flipSign pk.v = -1 := by simp [flipSign, hpos]
    have his : invertSign pk.v = -1 := by simp [invertSign, qsign, hpos]
    have htrv : m1 * invertSign pk.v = smp w pk.trace tr1 := by rw [hm1, hfs, his]; ring
    rw [htrv] at htne hratio
    rw [ratio_iff htne] at hratio
    obtain ⟨tr2, m2, h2, hF2⟩ := findTroughRow_ok { trace := pk.trace, p := tr1, pv := smp w pk.trace tr1, sgn := invertSign (smp w pk.trace tr1), tr := tr1, trv := smp w pk.trace tr1, real := row, arr := invertRow row (smp w pk.trace tr1) } (by simp [invertRow_length, hl, htr1])
    obtain ⟨hE2, hm2⟩ := firstMaxOn_to_spec hrow hl (tr1 ≤ ·) tr1 T (fun t ht => by simp [ht]) (le_refl _) hF2
    simp only at h2 hF2 hE2
    have hWP : WeaklyPositive T w pk.trace pk.p tr1 := by
      refine ⟨by rw [← hv0]; exact hpos, by rw [← hfs]; exact hE1, by rw [← hv0]; exact hratio⟩
    have hsr : swapRow { trace := pk.trace, p := pk.p, pv := pk.v, sgn := invertSign pk.v, tr := tr1, trv := m1 * invertSign pk.v, real := row, arr := invertRow row pk.v } = .ok { trace := pk.trace, p := tr1, pv := smp w pk.trace tr1, sgn := invertSign (smp w pk.trace tr1), tr := tr2, trv := m2 * invertSign (smp w pk.trace tr1), real := row, arr := invertRow row (smp w pk.trace tr1) } := by
      unfold swapRow
      simp only [htrv, h2]
    refine ⟨_, hloc, hrow, hsr, ?_⟩
    · exact ⟨rfl, rfl, hE1.1, htr1, rfl, fun _ => htne, rfl, hE2, by simp [hm2], rfl, Or.inr hWP⟩
  · -- no swap
    rw [if_neg hsw]
    refine ⟨_, hloc, hrow, rfl, ?_⟩
    refine ⟨rfl, rfl, le_refl _, hp0, hv0, ?_, rfl, hE1, by simp [hm1], rfl, Or.inl ⟨rfl, ?_⟩⟩
    · intro hp hz
      have := hloc.2.2.2.2 0 hp
      have hz' : pk.v = 0 := hz
      rw [← hv0, hz'] at this
      simp at this
      exact absurd this (not_lt.mpr (abs_nonneg _))
    · rintro ⟨q, hpos, hext, hratio⟩
      apply hsw
      rw [← hv0] at hpos hratio
      have hfs : flipSign pk.v = -1 := by simp [flipSign, hpos]
      have his : invertSign pk.v = -1 := by simp [invertSign, qsign, hpos]
      have hq : q = tr1 := by rw [← hfs] at hext; exact hext.unique hE1
      subst hq
      have htrv : m1 * invertSign pk.v = smp w pk.trace q := by rw [hm1, hfs, his]; ring
      have htne : smp w pk.trace q ≠ 0 := by
        intro hz; rw [hz, abs_zero] at hratio
        have := abs_pos.mpr (ne_of_gt hpos); linarith
      rw [swapCond_iff]
      simp only
      rw [htrv]
      exact ⟨hpos, htne, (ratio_iff htne).mpr hratio⟩

end IblVerif.Features
