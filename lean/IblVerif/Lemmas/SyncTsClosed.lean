/-
The closed C19 model end to end on the noise-free case: `tsa` an exact copy of `tsb` moved by a whole number of bins, events
at least one bin apart.  Coarse offset, first pass, fit / interpolant, second pass and returned values are all determined.
-/
import IblVerif.Lemmas.SyncTsSound
import IblVerif.Lemmas.SyncTsCoarse
import IblVerif.Lemmas.SyncTsFit

namespace IblVerif.SyncTs

/-- All entries assigned: the matched pairs are the two trains side by side. -/
theorem matched_range (tsb : List ℚ) : ∀ (as' : List ℚ) (k : Nat), k + as'.length ≤ tsb.length →
    matched as' tsb ((List.range' k as'.length).map some) = as'.zip (tsb.drop k) := by
  intro as'
  induction as' with
  | nil => intro k _; simp [matched]
  | cons a rest ih =>
    intro k hk
    simp only [List.length_cons] at hk
    have hk' : k < tsb.length := by omega
    have ih' := ih (k + 1) (by omega)
    unfold matched at ih' ⊢
    rw [List.length_cons, List.range'_succ, List.map_cons, List.zip_cons_cons, List.filterMap_cons]
    simp only [Option.bind_some, List.getElem?_eq_getElem hk', Option.map_some]
    rw [ih', List.drop_eq_getElem_cons hk', List.zip_cons_cons]

theorem zip_map_self (l : List ℚ) (f : ℚ → ℚ) : (l.map f).zip l = l.map fun b => (f b, b) := by
  induction l with
  | nil => rfl
  | cons x xs ih => simp [ih]

theorem gap_of_pairwise {tsb : List ℚ} {tbin : ℚ} (hb : 0 ≤ tbin) (hgap : tsb.Pairwise (fun b b' => b + tbin ≤ b'))
    {i j : Nat} {b b' : ℚ} (hi : tsb[i]? = some b) (hj : tsb[j]? = some b') (hne : i ≠ j) : tbin ≤ |b - b'| := by
  obtain ⟨hi', rfl⟩ := List.getElem?_eq_some_iff.mp hi
  obtain ⟨hj', rfl⟩ := List.getElem?_eq_some_iff.mp hj
  rw [List.pairwise_iff_getElem] at hgap
  rcases Nat.lt_or_gt_of_ne hne with h | h
  · have := hgap i j hi' hj' h
    rw [abs_sub_comm, abs_of_nonneg] <;> linarith
  · have := hgap j i hj' hi' h
    rw [abs_of_nonneg] <;> linarith

/-- The whole closed model on an exact copy: `tsa = tsb + s·tbin` (`s` a whole number of bins), the events of `tsb` at least
one bin apart, at least two events.  In either mode the coarse offset is exactly `s·tbin`, the returned index pairs are
exactly `(i, i)` for every event, the reported drift is exactly 0 ppm and the returned map is exactly `x ↦ x − s·tbin`. -/
theorem syncClosed_exact_copy (tsb : List ℚ) (tbin : ℚ) (s : ℤ) (linear : Bool) (hb : 0 < tbin)
    (hgap : tsb.Pairwise (fun b b' => b + tbin ≤ b')) (hlen : 2 ≤ tsb.length) :
    ∃ c nodes ps, syncClosed (tsb.map (· + (s : ℚ) * tbin)) tsb tbin linear = .ok ps 0 nodes c ∧
      c.delta = (s : ℚ) * tbin ∧ (∀ i j, (i, j) ∈ ps ↔ (i = j ∧ i < tsb.length)) ∧
      ∃ f, mapOf linear nodes = some f ∧ ∀ x, f x = x - (s : ℚ) * tbin := by
  have hne : tsb ≠ [] := by intro h; rw [h] at hlen; simp at hlen
  obtain ⟨c, hc, _, hdelta, _⟩ := coarse_shifted_copy tsb tbin s hb.ne' hne
  -- the first pass
  let T : Truth (tsb.map (· + (s : ℚ) * tbin)).length tsb.length := ⟨id, id, fun _ _ _ _ h => h, fun _ _ _ _ h => h⟩
  have hmapget : ∀ (i : Nat) (a : ℚ), (tsb.map (· + (s : ℚ) * tbin))[i]? = some a → ∃ b, tsb[i]? = some b ∧ a = b + (s : ℚ) * tbin := by
    intro i a h
    rw [List.getElem?_map] at h
    cases hb' : tsb[i]? with
    | none => simp [hb'] at h
    | some b => simp only [hb', Option.map_some, Option.some.injEq] at h; exact ⟨b, rfl, h.symm⟩
  have hp1 : ∀ i j, (pass1 ((s : ℚ) * tbin) tbin (tsb.map (· + (s : ℚ) * tbin)) tsb)[i]? = some (some j) ↔ T.pair i j := by
    apply pass1_exact T
    · intro i j a b ha hb' huv
      obtain ⟨bi, hbi, rfl⟩ := hmapget i a ha
      have : bi + (s : ℚ) * tbin - (s : ℚ) * tbin - b = bi - b := by ring
      rw [this]
      exact gap_of_pairwise hb.le hgap hbi hb' huv
    · intro i j a b ha hb' huv
      obtain ⟨bi, hbi, rfl⟩ := hmapget i a ha
      have hij : i = j := huv
      subst hij
      rw [hbi] at hb'
      injection hb' with hb'
      subst hb'
      have : bi + (s : ℚ) * tbin - (s : ℚ) * tbin - bi = 0 := by ring
      rw [this, abs_zero]
      exact hb
  have hib1 : pass1 ((s : ℚ) * tbin) tbin (tsb.map (· + (s : ℚ) * tbin)) tsb = (List.range' 0 tsb.length).map some := by
    apply List.ext_getElem?
    intro i
    by_cases hi : i < tsb.length
    · have h1 : (pass1 ((s : ℚ) * tbin) tbin (tsb.map (· + (s : ℚ) * tbin)) tsb)[i]? = some (some i) :=
        (hp1 i i).mpr ⟨by simpa using hi, hi, rfl⟩
      rw [h1]
      simp [List.getElem?_range', hi]
    · have h1 : (pass1 ((s : ℚ) * tbin) tbin (tsb.map (· + (s : ℚ) * tbin)) tsb)[i]? = none := by
        apply List.getElem?_eq_none
        rw [pass1_length]; simp; omega
      rw [h1]
      symm
      apply List.getElem?_eq_none
      simp; omega
  -- the matched pairs and the map through them
  have hnodes : matched (tsb.map (· + (s : ℚ) * tbin)) tsb ((List.range' 0 tsb.length).map some) =
      tsb.map fun b => (b + (s : ℚ) * tbin, b) := by
    have := matched_range tsb (tsb.map (· + (s : ℚ) * tbin)) 0 (by simp)
    simp only [List.length_map, List.drop_zero] at this
    rw [this, zip_map_self]
  have hline : ∀ p ∈ tsb.map (fun b => (b + (s : ℚ) * tbin, b)), p.2 = 1 * p.1 + (-((s : ℚ) * tbin)) := by
    intro p hp
    obtain ⟨b, _, rfl⟩ := List.mem_map.mp hp
    simp
  have hnd : ((tsb.map fun b => (b + (s : ℚ) * tbin, b)).map (·.1)).Nodup := by
    rw [List.map_map]
    refine List.Nodup.map (f := fun b : ℚ => b + (s : ℚ) * tbin) (fun a b h => by simpa using h) ?_
    refine hgap.imp ?_
    intro a b h e
    rw [e] at h
    linarith
  have hlen' : 2 ≤ (tsb.map fun b => (b + (s : ℚ) * tbin, b)).length := by simpa using hlen
  obtain ⟨f, hf, hfx⟩ := mapOf_on_collinear linear _ 1 (-((s : ℚ) * tbin)) hline hnd hlen'
  -- the second pass has nothing left to do
  have hfin : ∀ fa : List ℚ, finish tbin ((List.range' 0 tsb.length).map some) fa tsb = (List.range' 0 tsb.length).map some := by
    intro fa
    unfold finish
    have hA : missA ((List.range' 0 tsb.length).map some) fa = [] := by
      apply List.eq_nil_iff_forall_not_mem.mpr
      rintro ⟨i, x⟩ hm
      have := (mem_missA.mp hm).1
      rw [List.getElem?_map] at this
      cases h : (List.range' 0 tsb.length)[i]? <;> simp [h] at this
    rw [hA]
    have hP : pass2Loop tbin [] (missB ((List.range' 0 tsb.length).map some) tsb) = [] := by
      apply List.eq_nil_iff_forall_not_mem.mpr
      rintro ⟨i, j⟩ hm
      obtain ⟨_, _, ha, _⟩ := pass2Loop_mem tbin _ _ i j hm
      simp at ha
    rw [hP]
    apply List.ext_getElem?
    intro i
    rw [merge_get]
    rw [List.getElem?_map]
    cases h : (List.range' 0 tsb.length)[i]? <;> simp
  -- the fit through the final matches
  obtain ⟨p, q, rest, hpq⟩ : ∃ p q rest, tsb = p :: q :: rest := by
    match tsb, hlen with
    | p :: q :: rest, _ => exact ⟨p, q, rest, rfl⟩
  have hab : fitAb (tsb.map fun b => (b + (s : ℚ) * tbin, b)) = some (1 - 1, -((s : ℚ) * tbin)) := by
    apply fitAb_on_collinear _ 1 (-((s : ℚ) * tbin)) hline (p + (s : ℚ) * tbin, p) (q + (s : ℚ) * tbin, q)
    · rw [hpq]; simp
    · rw [hpq]; simp
    · simp only
      rw [hpq] at hgap
      have := (List.pairwise_cons.mp hgap).1 q (by simp)
      intro e
      linarith
  refine ⟨c, tsb.map fun b => (b + (s : ℚ) * tbin, b), pairs ((List.range' 0 tsb.length).map some), ?_, hdelta, ?_, f, hf, ?_⟩
  · unfold syncClosed syncClosedOf
    rw [hc]
    simp only [threshold, hdelta, hib1, hnodes, hf, hfin, hab, driftPpm]
    simp
  · intro i j
    rw [mem_pairs, ← hib1, hp1]
    constructor
    · rintro ⟨_, hj, h⟩
      have : i = j := h
      exact ⟨this, this ▸ hj⟩
    · rintro ⟨rfl, hi⟩
      exact ⟨by simpa using hi, hi, rfl⟩
  · intro x
    rw [hfx x]; ring

end IblVerif.SyncTs
