import IblVerif.Model.Proto
import IblVerif.Model.Window
import IblVerif.Model.DestripeSched
import IblVerif.Generated.Constants
open IblVerif IblVerif.Proto IblVerif.Window IblVerif.DestripeSched

/-
Line protocol for C06 (parsing / printing only; every value comes from `Model/DestripeSched.lean`).

  sched ns N P rb offset rrow trow rmsOff timeOff ns2add
      -> ok T=<taper> dom=<0|1> nwin=<n> ref=<f,l,vlo,vhi;...> w=<worker 0>|<worker 1>|...
         worker = err:<Err> or pos:firstS:lastS:lo:hi:rmsPos:timePos:pad;...
  rows  (same arguments)
      -> provenance of every output row after the sequential execution (`applyAll` on `sequential`), run-length
         encoded: row0:row1:f:l:t0:step;...  (rows row0..row1-1 hold samples t0, t0+step, ... of window [f,l);
         step 0 = padding copies), then eq=<0|1> telling whether every row (and the row after the end) agrees
         with `refFile`;  err:<Err> when some worker fails.
The taper is the constant extracted from the source (`DESTRIPE_TAPER`).
-/

def errName : Err → String
  | .badStride => "badStride"
  | .shortChunk => "shortChunk"
  | .emptyPad => "emptyPad"

def showWrite (w : Write) : String :=
  s!"{w.pos}:{w.firstS}:{w.lastS}:{w.lo}:{w.hi}:{w.rmsPos}:{w.timePos}:{w.pad}"

def showWorker : Except Err (List Write) → String
  | .error e => "err:" ++ errName e
  | .ok l => if l.isEmpty then "-" else ";".intercalate (l.map showWrite)

def cfg? (a : List String) : Option Cfg :=
  match a.mapM nat? with
  | some [ns, n, p, rb, offset, rrow, trow, rmsOff, timeOff, ns2add] =>
    some { ns := ns, N := n, T := Generated.DESTRIPE_TAPER, P := p, rb := rb, offset := offset, rrow := rrow,
           trow := trow, rmsOff := rmsOff, timeOff := timeOff, ns2add := ns2add }
  | _ => none

/-- run-length encode the row provenances `(f, l, t)` -/
def rle (cells : List (Nat × Option Cell)) : List (Nat × Nat × Nat × Nat × Nat × Nat) :=
  let step (acc : List (Nat × Nat × Nat × Nat × Nat × Nat)) (rc : Nat × Option Cell) :=
    match rc.2 with
    | none => acc
    | some v =>
      match acc with
      | (r0, r1, f, l, t0, st) :: rest =>
        if r1 = rc.1 ∧ f = v.f ∧ l = v.l ∧
            ((r1 = r0 + 1 ∧ (v.t = t0 ∨ v.t = t0 + 1)) ∨ (r1 > r0 + 1 ∧ v.t = t0 + st * (r1 - r0))) then
          (r0, r1 + 1, f, l, t0, if r1 = r0 + 1 then v.t - t0 else st) :: rest
        else (rc.1, rc.1 + 1, v.f, v.l, v.t, 1) :: acc
      | [] => [(rc.1, rc.1 + 1, v.f, v.l, v.t, 1)]
  (cells.foldl step []).reverse

def step (t : List String) : String :=
  match t with
  | "sched" :: a =>
    match cfg? a with
    | some c =>
      let ref := firstlastValid c.ns c.N (2 * c.T)
      let refs := if ref.isEmpty then "-" else ";".intercalate (ref.map fun q => s!"{q.1},{q.2.1},{q.2.2.1},{q.2.2.2}")
      s!"ok T={c.T} dom={if decide (InDomain c) then 1 else 0} nwin={nwin c.ns c.N (2 * c.T)} ref={refs} w=" ++
        "|".intercalate ((DestripeSched.run c).map showWorker)
    | none => "bad-op"
  | "rows" :: a =>
    match cfg? a with
    | some c =>
      match sequential c with
      | .error e => "err:" ++ errName e
      | .ok ws =>
        if c.rb = 0 then "err:rb0" else
        let file := applyAll c (fun _ => none) ws
        let nrows := c.ns + c.ns2add + 1
        -- first byte and last byte of every row must tell the same provenance
        let cells := (List.range nrows).map fun r => (r, file (c.offset + r * c.rb))
        let lastOk := (List.range nrows).all fun r =>
          match file (c.offset + r * c.rb), file (c.offset + r * c.rb + (c.rb - 1)) with
          | some a, some b => a.f = b.f ∧ a.l = b.l ∧ a.t = b.t ∧ a.j = 0 ∧ b.j = c.rb - 1
          | none, none => true
          | _, _ => false
        let refOk := (List.range nrows).all fun r =>
          file (c.offset + r * c.rb) = refFile c (fun _ => none) (c.offset + r * c.rb)
        let segs := rle cells
        "ok rows=" ++ (if segs.isEmpty then "-" else
            ";".intercalate (segs.map fun s => s!"{s.1}:{s.2.1}:{s.2.2.1}:{s.2.2.2.1}:{s.2.2.2.2.1}:{s.2.2.2.2.2}")) ++
          s!" whole={if lastOk then 1 else 0} eq={if refOk then 1 else 0}"
    | none => "bad-op"
  | _ => "bad-op"

def main : IO Unit := IblVerif.Proto.run step
