import IblVerif.Model.Proto
import IblVerif.Model.PySlice
import IblVerif.Model.Reader
open IblVerif IblVerif.Proto IblVerif.PySlice IblVerif.Reader

/-!
Line protocol for C01 (stateful: a recording is loaded once, then read many times).

    slice <n> <start|_> <stop|_> <step|_>     -> ok <start> <stop> <step> <len> <indices> | err ValueError
    index <n> <i>                             -> ok <k> | err IndexError
    rec <bin|cbin> <ns> <nc> <v,v,...>        -> ok           (row-major int16 content)
    order <0|1> <shank|_> <s,r,c;s,r,c;…|none> -> ok <raw_channel_order> | err ValueError
    setorder <i,i,…>                          -> ok           (use this raw_channel_order for the reads that follow)
    gains np1 <rangeMaxBits> <maxint> <nsync> <g,g,…>                          -> ok <float32 bit patterns>
    gains np2 <rangeMaxBits> <maxint> <nchn> <nsync>                            -> ok <float32 bit patterns>
    gains nidq <rangeMaxBits> <maxint> <mnGainBits> <maGainBits> <mn> <ma> <xa> <dw> -> ok <float64 bit patterns>
    select <nsel> <csel>                      -> the same answer format with integers: selectM on the raw array
    read <nsel> <csel> | item1 <sel> | itemt <nsel> <csel> | itemi <i,i,…|-> | rs <first> <last> <csel|none>
                                              -> ok s <bits> | ok v <n> <bits> | ok m <rows> <cols> <bits> | ok none | err <E>
    gainsm np1 <rangeMaxBits> <maxint> <nSavedChans> <nAp> <nLf> <nSy> <apGain,…|-> <lfGain,…|->   (whole imro table)
    gainsm np2 <rangeMaxBits> <maxint> <nSavedChans> <nAp> <nLf> <nSy>
                                              -> ok <float32 bit patterns> | err Unbound     (band, n_chn cut and sync ones
                                                 decided by the model; also sets the sync trace indices used by rsp / rp)
    band <nAp> <nLf>                          -> ok ap | ok lf | ok none
    nsync <ntr> <nsyncEntry>                  -> ok <count> <indices>
    rsp <first> <last> <csel|none>            -> <data answer> | sync <rows> <bits>      read_samples, both parts (imec)
    rp <s:…> <csel>                           -> <data answer> | sync <rows> <bits>      read(slice, csel, sync=True)
    calall <f32|f64> <gainBits>               -> ok <Σ (k+1)·bits(float32(k-32768) ⊗ g) mod 2^64>
    exact32 <gainBits>                        -> ok <number of int16 samples whose float32 product is exact>
    selectors: i:<int>  n:<int> (NumPy integer)  s:<start|_>:<stop|_>:<step|_>  l:<i,i,…|->
Parsing and printing only; every computation is a definition of `Model/PySlice.lean` / `Model/Reader.lean`.
-/

structure St where
  ns : Nat := 0
  nc : Nat := 0
  cbin : Bool := false
  raw : Array (Array Int) := #[]
  order : Array Nat := #[]
  gains : Array Gain := #[]
  sidx : List Nat := []

def optInt? (s : String) : Option (Option Int) :=
  if s = "_" then some none else (int? s).map some

def sel? (s : String) : Option Sel :=
  match s.splitOn ":" with
  | ["i", v] => (int? v).map Sel.int
  | ["n", v] => (int? v).map Sel.npint
  | ["s", a, b, c] =>
    match optInt? a, optInt? b, optInt? c with
    | some a, some b, some c => some (Sel.slice ⟨a, b, c⟩)
    | _, _, _ => none
  | ["l", v] => (intList? v).map Sel.list
  | _ => none

def showErr : Err → String
  | .indexError => "err IndexError"
  | .valueError => "err ValueError"
  | .notImplemented => "err NotImplementedError"
  | .typeError => "err TypeError"

def showOut : Except Err (Out Float32) → String
  | .error e => showErr e
  | .ok (.scalar x) => "ok s " ++ f32Bits x
  | .ok (.vec l) => s!"ok v {l.length} " ++ showF32s l
  | .ok (.mat k rows) => s!"ok m {rows.length} {k} " ++ showF32s rows.flatten
  | .ok .pyNone => "ok none"

instance : Inhabited Gain := ⟨.f32 0⟩

def showOutInt : Except Err (Out Int) → String
  | .error e => showErr e
  | .ok (.scalar x) => s!"ok s {x}"
  | .ok (.vec l) => s!"ok v {l.length} " ++ showList l
  | .ok (.mat k rows) => s!"ok m {rows.length} {k} " ++ showList rows.flatten
  | .ok .pyNone => "ok none"

def St.toRec (st : St) : Rec Gain :=
  { ns := st.ns, nc := st.nc, cbin := st.cbin,
    raw := fun t c => (st.raw[t]!)[c]!,
    order := fun i => st.order[i]!,
    s2v := fun c => st.gains[c]! }

def St.ready (st : St) : Bool := st.order.size == st.nc && st.gains.size == st.nc && st.raw.size == st.ns

def showPair : Except Err (Out Float32 × List (List Nat)) → String
  | .error e => showErr e
  | .ok (d, y) => showOut (.ok d) ++ s!" | sync {y.length} " ++ showList y.flatten

def imecCounts? (n a l y : String) : Option ImecCounts :=
  match int? n, int? a, int? l, int? y with
  | some n, some a, some l, some y => some ⟨n, a, l, y⟩
  | _, _, _, _ => none

def sites? (s : String) : Option (List Site) :=
  if s = "none" then none else
  (s.splitOn ";").mapM fun e =>
    match intList? e with
    | some [a, b, c] => some ⟨a, b, c⟩
    | _ => none

def chunk (nc : Nat) (l : List Int) : Nat → List (Array Int)
  | 0 => []
  | k + 1 => (l.take nc).toArray :: chunk nc (l.drop nc) k

def step (st : St) (t : List String) : St × String :=
  match t with
  | ["slice", n, a, b, c] =>
    match nat? n, optInt? a, optInt? b, optInt? c with
    | some n, some a, some b, some c =>
      let s : Slice := ⟨a, b, c⟩
      match indices s n, sliceIndices s n with
      | some (i0, i1, st'), some l => (st, s!"ok {i0} {i1} {st'} {sliceLen s n} {showList l}")
      | _, _ => (st, "err ValueError")
    | _, _, _, _ => (st, "bad-op")
  | ["index", n, i] =>
    match nat? n, int? i with
    | some n, some i => (st, match normIndex i n with | some k => s!"ok {k}" | none => "err IndexError")
    | _, _ => (st, "bad-op")
  | ["rec", kind, ns, nc, vals] =>
    match nat? ns, nat? nc, intList? vals with
    | some ns, some nc, some v =>
      if v.length ≠ ns * nc ∨ (kind ≠ "bin" ∧ kind ≠ "cbin") then (st, "bad-rec") else
      ({ ns := ns, nc := nc, cbin := kind == "cbin", raw := (chunk nc v ns).toArray }, "ok")
    | _, _, _ => (st, "bad-op")
  | ["order", srt, k, tbl] =>
    match optInt? k with
    | none => (st, "bad-op")
    | some k =>
      if tbl ≠ "none" ∧ (sites? tbl).isNone then (st, "bad-op") else
      let o := (sites? tbl).map fun sites => geomOrder (srt == "1") (splitShank k sites)
      match rawChannelOrder st.nc o with
      | .ok l => ({ st with order := l.toArray }, "ok " ++ showList l)
      | .error e => (st, showErr e)
  | ["setorder", l] =>      -- the order the implementation uses (compared with `order` modulo ties by the harness)
    match natList? l with
    | some l =>
      if l.length ≠ st.nc ∨ l.any (fun i => i ≥ st.nc) then (st, "bad-order") else ({ st with order := l.toArray }, "ok")
    | none => (st, "bad-op")
  | ["gains", "np1", r, m, nsync, g] =>
    match f64? r, nat? m, nat? nsync, natList? g with
    | some r, some m, some nsync, some g =>
      let v := s2vVec (g.map (np1Factor (int2volt r m))) (1 : Float32) nsync
      ({ st with gains := (v.map Gain.f32).toArray }, "ok " ++ showF32s v)
    | _, _, _, _ => (st, "bad-op")
  | ["gains", "np2", r, m, nchn, nsync] =>
    match f64? r, nat? m, nat? nchn, nat? nsync with
    | some r, some m, some nchn, some nsync =>
      let v := s2vVec (List.replicate nchn (np2Factor (int2volt r m))) (1 : Float32) nsync
      ({ st with gains := (v.map Gain.f32).toArray }, "ok " ++ showF32s v)
    | _, _, _, _ => (st, "bad-op")
  | ["gains", "nidq", r, m, gmn, gma, mn, ma, xa, dw] =>
    match f64? r, nat? m, f64? gmn, f64? gma, nat? mn, nat? ma, nat? xa, nat? dw with
    | some r, some m, some gmn, some gma, some mn, some ma, some xa, some dw =>
      let i2v := int2volt r m
      let v := s2vVec (List.replicate mn (nidqFactor i2v (some gmn)) ++ List.replicate ma (nidqFactor i2v (some gma))
                ++ List.replicate xa (nidqFactor i2v none)) (1 : Float) dw
      ({ st with gains := (v.map Gain.f64).toArray }, "ok " ++ showF64s v)
    | _, _, _, _, _, _, _, _ => (st, "bad-op")
  | ["gainsm", "np1", r, mx, n, a, l, y, ga, gl] =>
    match f64? r, nat? mx, imecCounts? n a l y, natList? ga, natList? gl with
    | some r, some mx, some m, some ga, some gl =>
      if ga.length ≠ gl.length then (st, "bad-op") else
      match s2vNp1 (np1BandFactor (int2volt r mx)) (1 : Float32) (ga.zip gl) m with
      | none => (st, "err Unbound")
      | some v => ({ st with gains := (v.map Gain.f32).toArray, sidx := (syncTraceIndices m.nSaved m.nSy).map Int.toNat },
                   "ok " ++ showF32s v)
    | _, _, _, _, _ => (st, "bad-op")
  | ["gainsm", "np2", r, mx, n, a, l, y] =>
    match f64? r, nat? mx, imecCounts? n a l y with
    | some r, some mx, some m =>
      match s2vNp2 (np2Factor (int2volt r mx)) (1 : Float32) m with
      | none => (st, "err Unbound")
      | some v => ({ st with gains := (v.map Gain.f32).toArray, sidx := (syncTraceIndices m.nSaved m.nSy).map Int.toNat },
                   "ok " ++ showF32s v)
    | _, _, _ => (st, "bad-op")
  | ["band", a, l] =>
    match int? a, int? l with
    | some a, some l => (st, "ok " ++ (match bandOf a l with | some b => b.name | none => "none"))
    | _, _ => (st, "bad-op")
  | ["nsync", n, y] =>
    match int? n, int? y with
    | some n, some y => (st, s!"ok {nsyncM n y} " ++ showList (syncTraceIndices n y))
    | _, _ => (st, "bad-op")
  | ["rsp", a, b, c] =>
    match int? a, int? b with
    | some a, some b =>
      if c ≠ "none" ∧ (sel? c).isNone then (st, "bad-op") else
      if !st.ready then (st, "bad-state") else
      (st, showPair (readSamplesPairM castF32 scale st.toRec st.sidx a b (sel? c)))
    | _, _ => (st, "bad-op")
  | ["rp", a, b] =>
    match sel? a, sel? b with
    | some (.slice s), some b =>
      if !st.ready then (st, "bad-state") else (st, showPair (readPairM castF32 scale st.toRec st.sidx s b))
    | _, _ => (st, "bad-op")
  | ["calall", kind, g] =>
    match kind, nat? g with
    | "f32", some g => (st, s!"ok {(calibrateAllSum (.f32 (Float32.ofBits (UInt32.ofNat g)))).toNat}")
    | "f64", some g => (st, s!"ok {(calibrateAllSum (.f64 (Float.ofBits (UInt64.ofNat g)))).toNat}")
    | _, _ => (st, "bad-op")
  | ["exact32", g] =>
    match nat? g with
    | some g => (st, s!"ok {calibrateExactCount (Float32.ofBits (UInt32.ofNat g))}")
    | none => (st, "bad-op")
  | ["read", a, b] =>
    match sel? a, sel? b with
    | some a, some b => if !st.ready then (st, "bad-state") else (st, showOut (readM castF32 scale st.toRec a b))
    | _, _ => (st, "bad-op")
  | ["select", a, b] =>     -- the specification side alone: NumPy indexing of the raw integer array
    match sel? a, sel? b with
    | some a, some b =>
      if st.raw.size != st.ns then (st, "bad-state") else
      (st, showOutInt (selectM (fun t i => (st.raw[t]!)[i]!) st.ns st.nc a b))
    | _, _ => (st, "bad-op")
  | ["item1", a] =>
    match sel? a with
    | some a => if !st.ready then (st, "bad-state") else (st, showOut (getitemM castF32 scale st.toRec (.single a)))
    | _ => (st, "bad-op")
  | ["itemt", a, b] =>      -- sr[a, b]
    match sel? a, sel? b with
    | some a, some b => if !st.ready then (st, "bad-state") else (st, showOut (getitemM castF32 scale st.toRec (.pair a b)))
    | _, _ => (st, "bad-op")
  | ["itemi", l] =>         -- sr[(i, j, k, …)] : a tuple of Python ints of any length
    match intList? l with
    | some l => if !st.ready then (st, "bad-state") else (st, showOut (getitemM castF32 scale st.toRec (.intTuple l)))
    | none => (st, "bad-op")
  | ["rs", a, b, c] =>
    match int? a, int? b with
    | some a, some b =>
      if c ≠ "none" ∧ (sel? c).isNone then (st, "bad-op") else
      if !st.ready then (st, "bad-state") else (st, showOut (readSamplesM castF32 scale st.toRec a b (sel? c)))
    | _, _ => (st, "bad-op")
  | _ => (st, "bad-op")

def main : IO Unit := runS step ({} : St)
