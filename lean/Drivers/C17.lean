import IblVerif.Model.Proto
import IblVerif.Model.Window
open IblVerif IblVerif.Proto IblVerif.Window

/-- Executable twin of the Hann fade-in (same formula as `C17.hannRamp`, over `Float`). -/
def hannF (ov k : Nat) : Float :=
  0.5 - 0.5 * Float.cos (3.141592653589793 * (k.toFloat + 1.0) / (ov.toFloat + 1.0))

def showFL (l : List (Nat × Nat)) : String :=
  if l.isEmpty then "-" else ";".intercalate (l.map fun p => s!"{p.1},{p.2}")

def step (t : List String) : String :=
  match t with
  | ["firstlast", ns, w, ov] =>
    match nat? ns, nat? w, nat? ov with
    | some ns, some w, some ov =>
      if w ≤ ov then "err diverges" else
      let fl := firstlast ns w ov
      s!"ok nwin={nwin ns w ov} fl={showFL fl} ts2={showList (fl.map tscaleTwice)}"
    | _, _, _ => "bad-op"
  | ["valid", ns, w, ov] =>
    match nat? ns, nat? w, nat? ov with
    | some ns, some w, some ov =>
      if w ≤ ov then "err diverges" else
      if ov % 2 ≠ 0 then "err Assertion" else
      let v := firstlastValid ns w ov
      "ok " ++ (if v.isEmpty then "-" else ";".intercalate (v.map fun q => s!"{q.1},{q.2.1},{q.2.2.1},{q.2.2.2}"))
    | _, _, _ => "bad-op"
  | ["splice", ns, w, ov] =>   -- per-sample amplitude sums, as IEEE bit patterns are not compared: decimal
    match nat? ns, nat? w, nat? ov with
    | some ns, some w, some ov =>
      if w ≤ ov then "err diverges" else
      let fl := firstlast ns w ov
      let sums := (List.range ns).map fun t => spliceSum (hannF ov) ns ov fl t
      let amps := fl.map fun p => (List.range (p.2 - p.1)).map fun k => ampAt (hannF ov) ns ov p (p.1 + k)
      "ok sums=" ++ showF64s sums ++ " amps=" ++ (";".intercalate (amps.map showF64s))
    | _, _, _ => "bad-op"
  | _ => "bad-op"

def main : IO Unit := run step
