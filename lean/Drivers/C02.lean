import IblVerif.Model.Proto
import IblVerif.Model.FsCompress
import IblVerif.Model.ChunkRead
import IblVerif.Model.FsCompressEffects
import IblVerif.Model.FsCompressPath
open IblVerif IblVerif.Proto IblVerif.FsCompress

/-
Line protocol of C02 (stateful: the directory of the current case).

  init <n> bin|cbin|both            directory of a recording of n chunks (raw chunk ids 0..n-1, compressed 1000..)
  compress <fb> <keep> <fault> <rf> Reader.compress_file       fb: bin|cbin   keep: 0|1   fault: chunks written before the exception, or N
                                    rf: 1 = the rename x.cbin_tmp -> x.cbin raises
  decompress <fb> <keep> <ov> <fault>   Reader.decompress_file (default out)
  toscratch <fb> <scratch> <fault> <mf>  Reader.decompress_to_scratch (scratch: 0 = in place, 1 = scratch dir; mf: 1 = shutil.move raises)
  rewrite <v> <n>                   the environment replaces x.bin by version v of the recording (chunk ids 100v .. 100v+n-1)
  open <entry>                      spikeglx.Reader(entry)     entry: bin|cbin|meta
  slice <sizes> <start> <stop> <step>   _raw[start:stop:step] on both backends; rows are numbered 0.. ; N = None
  index <sizes> <i>                 _raw[i] on both backends
  openns <metaNs> <frame> <nbytes> <chNs>   sample count exposed by Reader.open on x.cbin / x.bin when x.meta announces metaNs
  crash compress <fb> <keep> <k>    compress_file interrupted after exactly k primitive effects (FsCompressEffects.crashCompress)
  crash decompress <fb> <keep> <ov> <k>   decompress_file (default out) interrupted after k primitive effects
  crash toscratch <fb> <scratch> <k>      decompress_to_scratch interrupted after k primitive effects
  calls compress <keep> | calls decompress <keep> | calls toscratch <scratch> <present>    the call lists (source vocabulary)
  suffix <name> | stem <name> | withsuffix <name> <suf> | ismtscomp <name>     pathlib / Reader.is_mtscomp on file names
  companion <dir> <name> <pattern> <stemNoUuid> | resolve <dir> <name> <stemNoUuid> | chfile <dir> <name> <stemNoUuid>
                                    names: `~` = empty string; dir: comma separated names in glob order, `!` = empty

Answers: `<outcome> fb=<bin|cbin> | <state>` for calls, `<ok bin|ok cbin|ok none|err X> rec=<chunks>` for open,
`cbin=<…> bin=<…>` for reads.
-/

/-- The concrete codec of the driver: compressed chunk id = raw chunk id + 1000. -/
def codec : Codec Nat Nat := ⟨(· + 1000), (· - 1000)⟩

def showFile : Option (List Nat) → String
  | none => "x"
  | some [] => "e"
  | some l => ".".intercalate (l.map toString)

def showFs (s : Fs Nat Nat) : String :=
  s!"bin={showFile s.bin} cbin_tmp={showFile s.cbinTmp} cbin={showFile s.cbin} ch={showFile s.ch} " ++
  s!"bin_temp={showFile s.binTemp} sbin={showFile s.sbin} sbin_temp={showFile s.sbinTemp} smeta={if s.smeta then 1 else 0}"

def showErr : Err → String
  | .assertion => "AssertionError" | .fileNotFound => "FileNotFoundError" | .valueError => "ValueError"
  | .runtime => "RuntimeError" | .osError => "OSError" | .corruptHeader => "CorruptHeader" | .fault => "Fault"

def showOutcome : Outcome → String
  | .ok => "ok" | .err e => "err " ++ showErr e

def showName : DataName → String | .bin => "bin" | .cbin => "cbin"

def name? : String → Option DataName
  | "bin" => some .bin | "cbin" => some .cbin | _ => none

def entry? : String → Option Entry
  | "bin" => some .bin | "cbin" => some .cbin | "meta" => some .metaFile | _ => none

def bool? : String → Option Bool
  | "0" => some false | "1" => some true | _ => none

/-- `N` = no fault. -/
def fault? (s : String) : Option (Option Nat) :=
  if s = "N" then some none else (s.toNat?).map some

def optInt? (s : String) : Option (Option Int) :=
  if s = "N" then some none else (s.toInt?).map some

/-- A call: the directory evolves through `stepE` (the definition the history theorems are about); outcome and the
reader's new `file_bin` are those of `FsCompress.step` on the same directory. -/
def answer (g : Hist Nat Nat) (o : Op) : Hist Nat Nat × String :=
  let r := FsCompress.step codec g.fs o
  let g' := stepE codec g (.call o)
  (g', s!"{showOutcome r.2.2} fb={showName r.2.1} | {showFs g'.fs}")

/-- Rows `0 .. n-1` cut into chunks of the given sizes. -/
def mkChunks (sizes : List Nat) : List (List Nat) :=
  (sizes.foldl (fun (acc : List (List Nat) × Nat) k => (acc.1 ++ [(List.range k).map (· + acc.2)], acc.2 + k)) ([], 0)).1

def showBlock : Except ChunkRead.RErr (ChunkRead.Block Nat) → String
  | .ok (.rows l) => "ok rows " ++ showList l
  | .ok (.row r) => s!"ok row {r}"
  | .error .indexError => "err IndexError"
  | .error .valueError => "err ValueError"

/-- `_raw[nsel, :]` through both backends (`readM` with the identity as post-processing). -/
def bothBackends (sizes : List Nat) (nsel : ChunkRead.NSel) : String :=
  let chunks := mkChunks sizes
  s!"cbin={showBlock (ChunkRead.readM (ChunkRead.rawCbin chunks) id nsel)} " ++
  s!"bin={showBlock (ChunkRead.readM (ChunkRead.rawBin chunks.flatten) id nsel)}"

/-- An interrupted call: a call the code refuses answers with its error and the state the refusal leaves (`refused`);
otherwise the directory is the one after exactly `k` primitive effects (`fs'`), the exception propagates (`err Fault`) and
the reader keeps its `file_bin`. -/
def crashAnswer (g : Hist Nat Nat) (fb : DataName) (refusal : Outcome) (refused fs' : Fs Nat Nat) : Hist Nat Nat × String :=
  match refusal with
  | .err e =>
    if e = .fault then ({ g with fs := fs' }, s!"err Fault fb={showName fb} | {showFs fs'}")
    else ({ g with fs := refused }, s!"{showOutcome refusal} fb={showName fb} | {showFs refused}")
  | .ok => ({ g with fs := fs' }, s!"err Fault fb={showName fb} | {showFs fs'}")

def showCall : Call → String
  | .mtsCompress => "mtscomp.compress" | .renameTmp => "rename_tmp" | .unlinkBin => "unlink_bin"
  | .setFileBin d => "file_bin=" ++ showName d
  | .mtsDecompress o ov => s!"mtscomp.decompress({repr o},{ov})" | .closeMts => "r.close" | .closeSelf => "self.close"
  | .unlinkCbin => "unlink_cbin" | .unlinkCh => "unlink_ch" | .mkdirScratch => "mkdir" | .copyMeta => "copy_meta"
  | .decompressFile k o ov => s!"decompress_file({k},{repr o},{ov})" | .moveTemp b => s!"move_temp({b})"

def nm? (s : String) : FsPath.Name := if s = "~" then [] else s.toList
def showNm (n : FsPath.Name) : String := if n.isEmpty then "~" else String.ofList n
def dir? (s : String) : List FsPath.Name := if s = "!" then [] else (s.splitOn ",").map nm?
def showOptNm : Option FsPath.Name → String
  | some n => "ok " ++ showNm n
  | none => "err ValueError"

def step (s : Hist Nat Nat) (t : List String) : Hist Nat Nat × String :=
  match t with
  | ["init", n, pat] =>
    match nat? n with
    | some n =>
      let b := List.range n
      let s' : Option (Fs Nat Nat) := match pat with
        | "bin" => some (initBin b)
        | "cbin" => some (initCbin codec b)
        | "both" => some { initCbin codec b with bin := some b }
        | _ => none
      match s' with
      | some s' => ({ fs := s', versions := [b], cur := b }, showFs s')
      | none => (s, "bad-op")
    | none => (s, "bad-op")
  | ["compress", fb, keep, fault, rf] =>
    match name? fb, bool? keep, fault? fault, bool? rf with
    | some fb, some keep, some fault, some rf => answer s (.compress fb keep fault rf)
    | _, _, _, _ => (s, "bad-op")
  | ["decompress", fb, keep, ov, fault] =>
    match name? fb, bool? keep, bool? ov, fault? fault with
    | some fb, some keep, some ov, some fault => answer s (.decompress fb keep ov fault)
    | _, _, _, _ => (s, "bad-op")
  | ["toscratch", fb, scratch, fault, mf] =>
    match name? fb, bool? scratch, fault? fault, bool? mf with
    | some fb, some scratch, some fault, some mf => answer s (.toScratch fb scratch fault mf)
    | _, _, _, _ => (s, "bad-op")
  | ["rewrite", v, n] =>
    match nat? v, nat? n with
    | some v, some n =>
      let g' := stepE codec s (.rewrite ((List.range n).map (· + 100 * v)))
      (g', s!"rewritten | {showFs g'.fs}")
    | _, _ => (s, "bad-op")
  | ["open", e] =>
    match entry? e with
    | some e =>
      let r := match openReader s.fs e with
        | .ok (some d) => "ok " ++ showName d
        | .ok none => "ok none"
        | .error err => "err " ++ showErr err
      (s, s!"{r} rec={showFile (recordingVia codec s.fs e)}")
    | none => (s, "bad-op")
  | ["slice", sizes, a, b, st] =>
    match natList? sizes, optInt? a, optInt? b, optInt? st with
    | some sizes, some a, some b, some st => (s, bothBackends sizes (.slice a b st))
    | _, _, _, _ => (s, "bad-op")
  | ["openns", m, f, nb, ch] =>
    match nat? m, nat? f, nat? nb, nat? ch with
    | some m, some f, some nb, some ch => (s, s!"cbin={ChunkRead.openNsCbin m ch} bin={ChunkRead.openNsBin m f nb}")
    | _, _, _, _ => (s, "bad-op")
  | ["crash", "compress", fb, keep, k] =>
    match name? fb, bool? keep, nat? k with
    | some fb, some keep, some k =>
      crashAnswer s fb (compressFile codec s.fs fb keep none false).2.2 s.fs (crashCompress codec s.fs fb keep k)
    | _, _, _ => (s, "bad-op")
  | ["crash", "decompress", fb, keep, ov, k] =>
    match name? fb, bool? keep, bool? ov, nat? k with
    | some fb, some keep, some ov, some k =>
      crashAnswer s fb (decompressFile codec s.fs fb keep .bin ov none).2 s.fs (crashDecompress codec s.fs fb keep ov k)
    | _, _, _, _ => (s, "bad-op")
  | ["crash", "toscratch", fb, scratch, k] =>
    match name? fb, bool? scratch, nat? k with
    | some fb, some scratch, some k =>
      -- (a call that finds its target already there is not interrupted: it is not generated)
      crashAnswer s fb (toScratch codec s.fs fb scratch none false).2 (toScratch codec s.fs fb scratch none false).1
        (crashToScratch codec s.fs fb scratch k)
    | _, _, _ => (s, "bad-op")
  | ["calls", "compress", keep] =>
    match bool? keep with
    | some keep => (s, " ".intercalate ((compressCalls keep).map showCall))
    | none => (s, "bad-op")
  | ["calls", "decompress", keep] =>
    match bool? keep with
    | some keep => (s, " ".intercalate ((decompressCalls keep .bin false).map showCall))
    | none => (s, "bad-op")
  | ["calls", "toscratch", scratch, present] =>
    match bool? scratch, bool? present with
    | some scratch, some present => (s, " ".intercalate ((toScratchCalls scratch present).map showCall))
    | _, _ => (s, "bad-op")
  | ["suffix", n] => (s, showNm (FsPath.suffix (nm? n)))
  | ["stem", n] => (s, showNm (FsPath.stem (nm? n)))
  | ["withsuffix", n, suf] => (s, showOptNm (FsPath.withSuffix (nm? n) (nm? suf)))
  | ["ismtscomp", n] => (s, if FsPath.isMtscomp (nm? n) then "True" else "False")
  | ["companion", d, n, pat, st] => (s, showOptNm (FsPath.companion (dir? d) (nm? n) (nm? pat) (nm? st)))
  | ["chfile", d, n, st] => (s, showOptNm (FsPath.chFile (dir? d) (nm? n) (nm? st)))
  | ["resolve", d, n, st] =>
    -- self.nbytes = self.file_bin.stat().st_size if self.file_bin else None      (FileNotFoundError)
    (s, match FsPath.resolveName (dir? d) (nm? n) (nm? st) with
        | some (some f) => if (dir? d).contains f then "ok " ++ showNm f else "err FileNotFoundError"
        | some none => "ok none"
        | none => "err ValueError")
  | ["index", sizes, i] =>
    match natList? sizes, int? i with
    | some sizes, some i => (s, bothBackends sizes (.index i))
    | _, _ => (s, "bad-op")
  | _ => (s, "bad-op")

def main : IO Unit := runS step ({ fs := {}, versions := [], cur := [] } : Hist Nat Nat)
