import IblVerif.Model.Proto
import IblVerif.Model.FsCompress
import IblVerif.Model.ChunkRead
open IblVerif IblVerif.Proto IblVerif.FsCompress

/-
Line protocol of C02 (stateful: the directory of the current case).

  init <n> bin|cbin|both            directory of a recording of n chunks (raw chunk ids 0..n-1, compressed 1000..)
  compress <fb> <keep> <fault> <rf> Reader.compress_file       fb: bin|cbin   keep: 0|1   fault: chunks written before the exception, or N
                                    rf: 1 = the rename x.cbin_tmp -> x.cbin raises
  decompress <fb> <keep> <ov> <fault>   Reader.decompress_file (default out)
  toscratch <fb> <scratch> <fault> <mf>  Reader.decompress_to_scratch (scratch: 0 = in place, 1 = scratch dir; mf: 1 = shutil.move raises)
  rewrite <v> <n>                   the environment replaces x.bin by version v of the recording (chunk ids 100v .. 100v+n-1)
  open <entry>                      spikeglx.Reader(entry)     entry: bin|cbin|meta
  slice <sizes> <start> <stop> <step>   _raw[start:stop:step] on both backends; rows are numbered 0.. ; N = None
  index <sizes> <i>                 _raw[i] on both backends
  openns <metaNs> <frame> <nbytes> <chNs>   sample count exposed by Reader.open on x.cbin / x.bin when x.meta announces metaNs

Answers: `<outcome> fb=<bin|cbin> | <state>` for calls, `<ok bin|ok cbin|ok none|err X> rec=<chunks>` for open,
`cbin=<…> bin=<…>` for reads.
-/

/-- The concrete codec of the driver: compressed chunk id = raw chunk id + 1000. -/
def codec : Codec Nat Nat := ⟨(· + 1000), (· - 1000)⟩

def showFile : Option (List Nat) → String
  | none => "x"
  | some [] => "e"
  | some l => ".".intercalate (l.map toString)

def showFs (s : Fs Nat Nat) : String :=
  s!"bin={showFile s.bin} cbin_tmp={showFile s.cbinTmp} cbin={showFile s.cbin} ch={showFile s.ch} " ++
  s!"bin_temp={showFile s.binTemp} sbin={showFile s.sbin} sbin_temp={showFile s.sbinTemp} smeta={if s.smeta then 1 else 0}"

def showErr : Err → String
  | .assertion => "AssertionError" | .fileNotFound => "FileNotFoundError" | .valueError => "ValueError"
  | .runtime => "RuntimeError" | .osError => "OSError" | .corruptHeader => "CorruptHeader" | .fault => "Fault"

def showOutcome : Outcome → String
  | .ok => "ok" | .err e => "err " ++ showErr e

def showName : DataName → String | .bin => "bin" | .cbin => "cbin"

def name? : String → Option DataName
  | "bin" => some .bin | "cbin" => some .cbin | _ => none

def entry? : String → Option Entry
  | "bin" => some .bin | "cbin" => some .cbin | "meta" => some .metaFile | _ => none

def bool? : String → Option Bool
  | "0" => some false | "1" => some true | _ => none

/-- `N` = no fault. -/
def fault? (s : String) : Option (Option Nat) :=
  if s = "N" then some none else (s.toNat?).map some

def optInt? (s : String) : Option (Option Int) :=
  if s = "N" then some none else (s.toInt?).map some

/-- A call: the directory evolves through `stepE` (the definition the history theorems are about); outcome and the
reader's new `file_bin` are those of `FsCompress.step` on the same directory. -/
def answer (g : Hist Nat Nat) (o : Op) : Hist Nat Nat × String :=
  let r := FsCompress.step codec g.fs o
  let g' := stepE codec g (.call o)
  (g', s!"{showOutcome r.2.2} fb={showName r.2.1} | {showFs g'.fs}")

/-- Rows `0 .. n-1` cut into chunks of the given sizes. -/
def mkChunks (sizes : List Nat) : List (List Nat) :=
  (sizes.foldl (fun (acc : List (List Nat) × Nat) k => (acc.1 ++ [(List.range k).map (· + acc.2)], acc.2 + k)) ([], 0)).1

def showBlock : Except ChunkRead.RErr (ChunkRead.Block Nat) → String
  | .ok (.rows l) => "ok rows " ++ showList l
  | .ok (.row r) => s!"ok row {r}"
  | .error .indexError => "err IndexError"
  | .error .valueError => "err ValueError"

/-- `_raw[nsel, :]` through both backends (`readM` with the identity as post-processing). -/
def bothBackends (sizes : List Nat) (nsel : ChunkRead.NSel) : String :=
  let chunks := mkChunks sizes
  s!"cbin={showBlock (ChunkRead.readM (ChunkRead.rawCbin chunks) id nsel)} " ++
  s!"bin={showBlock (ChunkRead.readM (ChunkRead.rawBin chunks.flatten) id nsel)}"

def step (s : Hist Nat Nat) (t : List String) : Hist Nat Nat × String :=
  match t with
  | ["init", n, pat] =>
    match nat? n with
    | some n =>
      let b := List.range n
      let s' : Option (Fs Nat Nat) := match pat with
        | "bin" => some (initBin b)
        | "cbin" => some (initCbin codec b)
        | "both" => some { initCbin codec b with bin := some b }
        | _ => none
      match s' with
      | some s' => ({ fs := s', versions := [b], cur := b }, showFs s')
      | none => (s, "bad-op")
    | none => (s, "bad-op")
  | ["compress", fb, keep, fault, rf] =>
    match name? fb, bool? keep, fault? fault, bool? rf with
    | some fb, some keep, some fault, some rf => answer s (.compress fb keep fault rf)
    | _, _, _, _ => (s, "bad-op")
  | ["decompress", fb, keep, ov, fault] =>
    match name? fb, bool? keep, bool? ov, fault? fault with
    | some fb, some keep, some ov, some fault => answer s (.decompress fb keep ov fault)
    | _, _, _, _ => (s, "bad-op")
  | ["toscratch", fb, scratch, fault, mf] =>
    match name? fb, bool? scratch, fault? fault, bool? mf with
    | some fb, some scratch, some fault, some mf => answer s (.toScratch fb scratch fault mf)
    | _, _, _, _ => (s, "bad-op")
  | ["rewrite", v, n] =>
    match nat? v, nat? n with
    | some v, some n =>
      let g' := stepE codec s (.rewrite ((List.range n).map (· + 100 * v)))
      (g', s!"rewritten | {showFs g'.fs}")
    | _, _ => (s, "bad-op")
  | ["open", e] =>
    match entry? e with
    | some e =>
      let r := match openReader s.fs e with
        | .ok (some d) => "ok " ++ showName d
        | .ok none => "ok none"
        | .error err => "err " ++ showErr err
      (s, s!"{r} rec={showFile (recordingVia codec s.fs e)}")
    | none => (s, "bad-op")
  | ["slice", sizes, a, b, st] =>
    match natList? sizes, optInt? a, optInt? b, optInt? st with
    | some sizes, some a, some b, some st => (s, bothBackends sizes (.slice a b st))
    | _, _, _, _ => (s, "bad-op")
  | ["openns", m, f, nb, ch] =>
    match nat? m, nat? f, nat? nb, nat? ch with
    | some m, some f, some nb, some ch => (s, s!"cbin={ChunkRead.openNsCbin m ch} bin={ChunkRead.openNsBin m f nb}")
    | _, _, _, _ => (s, "bad-op")
  | ["index", sizes, i] =>
    match natList? sizes, int? i with
    | some sizes, some i => (s, bothBackends sizes (.index i))
    | _, _ => (s, "bad-op")
  | _ => (s, "bad-op")

def main : IO Unit := runS step ({ fs := {}, versions := [], cur := [] } : Hist Nat Nat)
