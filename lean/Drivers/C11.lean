import IblVerif.Model.Proto
import IblVerif.Model.OpenSize
import IblVerif.Model.OpenSizeLifecycle
open IblVerif IblVerif.Proto IblVerif.OpenSize

/-
Line protocol of C11 (parsing/printing only; every answer is computed by `IblVerif.OpenSize`, instantiated with
IEEE binary64 arithmetic `floatArith`).  Floats travel as the decimal value of their bit pattern.

  open <off|on> <nc> <itemsize> <bytes> <fs> <fileTimeSecs|->   Reader / OnlineReader on a .bin with a .meta
                                                               (`-` = the key is absent: recording in progress)
  flat <off|on> <nc> <ns> <fs:nat> <itemsize> <bytes>          Reader(bin, nc=, ns=, fs=) without a .meta
  cbin <nc> <fs> <fileTimeSecs|-> <ch_ns> <ch_nc> <ch_fs>      Reader on a .cbin whose .ch announces (ch_ns, ch_nc)
                                                               and was compressed at rate ch_fs
  onlinens <nc> <itemsize> <bytes>                             OnlineReader.ns on the current size
  cells <rows> <nc> <samples>                                  the (rows, nc) view of the file, row by row
  at <rows> <nc> <nsamples> <i> <j>                            flat position of element [i, j] or IndexError
  reopen <off|on> <nc> <itemsize> <bytes0> <bytes1> <fs> <fileTimeSecs|->
                                                               construct + open on bytes0, close, file now bytes1, open() again
  nometa <size> <nc|-> <ns|-> <fs|-> <nsync|-> <itemsize>      Reader(bin[, nc=, ns=, fs=, nsync=]) without a .meta: inferred
                                                               attributes, then the outcome of open
-/

def showErr : Err → String
  | .zeroDivision => "err ZeroDivisionError"
  | .emptyFile => "err ValueError:empty"
  | .mmapTooLong => "err ValueError:length"
  | .typeError => "err TypeError"

/-- optional float: `-` = the key is absent from the meta data -/
def optF64? (s : String) : Option (Option Float) :=
  if s = "-" then some none else (f64? s).map some

/-- optional keyword argument: `-` = not given -/
def optNat? (s : String) : Option (Option Nat) :=
  if s = "-" then some none else (nat? s).map some

def kind? : String → Option Kind
  | "off" => some .offline
  | "on" => some .online
  | _ => none

/-- canonical answer after a successful open: sample count, shape, duration, rewritten fileTimeSecs -/
def showOpened (k : Kind) (h : Hdr Float) (itemsize bytes : Nat) : String :=
  match nsOf floatArith k h itemsize bytes, rl floatArith k h itemsize bytes with
  | .ok ns, .ok d =>
    let fts := match h.fileTimeSecs? with
      | some x => f64Bits x
      | none => "-"
    s!"ok ns={ns} shape={ns},{h.nc} rl={f64Bits d} fts={fts}"
  | .ok ns, .error e => s!"ok ns={ns} shape={ns},{h.nc} rl=({showErr e}) fts=-"
  | .error e, _ => showErr e

def step (t : List String) : String :=
  match t with
  | ["open", k, nc, isz, bytes, fs, fts] =>
    match kind? k, nat? nc, nat? isz, nat? bytes, f64? fs, optF64? fts with
    | some k, some nc, some isz, some bytes, some fs, some fts =>
      match openBin floatArith k (.ofMeta nc fs fts) isz bytes with
      | .ok h => showOpened k h isz bytes
      | .error e => showErr e
    | _, _, _, _, _, _ => "bad-op"
  | ["flat", k, nc, ns, fs, isz, bytes] =>
    match kind? k, nat? nc, nat? ns, nat? fs, nat? isz, nat? bytes with
    | some k, some nc, some ns, some fs, some isz, some bytes =>
      match openBin floatArith k (.flat nc ns fs) isz bytes with
      | .ok h => showOpened k h isz bytes
      | .error e => showErr e
    | _, _, _, _, _, _ => "bad-op"
  | ["cbin", nc, fs, fts, chns, chnc, chfs] =>
    match nat? nc, f64? fs, optF64? fts, nat? chns, nat? chnc, f64? chfs with
    | some nc, some fs, some fts, some chns, some chnc, some chfs =>
      match openCbin floatArith (.ofMeta nc fs fts) ⟨chns, chnc, chfs⟩ with
      | .ok h => showOpened .offline h 0 0
      | .error e => showErr e
    | _, _, _, _, _, _ => "bad-op"
  | ["onlinens", nc, isz, bytes] =>
    match nat? nc, nat? isz, nat? bytes with
    | some nc, some isz, some bytes =>
      match onlineNs floatArith nc isz bytes with
      | .ok n => s!"ok {n}"
      | .error e => showErr e
    | _, _, _ => "bad-op"
  | ["reopen", k, nc, isz, b0, b1, fs, fts] =>
    match kind? k, nat? nc, nat? isz, nat? b0, nat? b1, f64? fs, optF64? fts with
    | some k, some nc, some isz, some b0, some b1, some fs, some fts =>
      match reopen floatArith k (.ofMeta nc fs fts) isz b0 b1 with
      | .ok h => showOpened k h isz b1
      | .error e => showErr e
    | _, _, _, _, _, _, _ => "bad-op"
  | ["nometa", size, nc, ns, fs, nsync, isz] =>
    match nat? size, optNat? nc, optNat? ns, optNat? fs, optNat? nsync, nat? isz with
    | some size, some nc, some ns, some fs, some nsync, some isz =>
      match inferFlat size ⟨nc, ns, fs, nsync⟩ with
      | .error .assertion => "err AssertionError"
      | .error .typeError => "err TypeError"
      | .ok f =>
        let opened := match openBin floatArith .offline (f.toHdr : Hdr Float) isz size with
          | .ok h => (showOpened .offline h isz size).replace " " "_"
          | .error e => (showErr e).replace " " "_"
        s!"ok nc={f.nc} ns={f.ns} fs={f.fs} nsync={f.nsync} open={opened}"
    | _, _, _, _, _, _ => "bad-op"
  | ["cells", rows, nc, samples] =>
    match nat? rows, nat? nc, intList? samples with
    | some rows, some nc, some file =>
      "ok " ++ (if rows = 0 then "-" else ";".intercalate ((exposed file rows nc).map showList))
    | _, _, _ => "bad-op"
  | ["at", rows, nc, n, i, j] =>
    match nat? rows, nat? nc, nat? n, nat? i, nat? j with
    | some rows, some nc, some n, some i, some j =>
      -- the file's samples are represented by their own positions 0 … n-1
      match cell (fun p => if p < n then some p else none) rows nc i j with
      | some p => s!"ok {p}"
      | none => "err IndexError"
    | _, _, _, _, _ => "bad-op"
  | _ => "bad-op"

def main : IO Unit := run step
