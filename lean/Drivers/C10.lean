import IblVerif.Model.Proto
import IblVerif.Model.Sync
open IblVerif IblVerif.Proto IblVerif.Sync

/-! Line protocol for C10 (parsing / printing only; every computation is a definition of `Model/Sync.lean`).

    split <lo> <hi>                         splitSync (wordOfInt x) for lo ≤ x < hi, 16 digits per sample
    fronts1|rises1|falls1 <i|f> <axis> <step> <analog> <x>
    fronts2|rises2|falls2 <i|f> <axis> <r> <c> <step> <analog> <flat x, C order>
    readsync <nidq|imec|nometa> <a> <b> <c> <d> <ntr> <thr f32 bits> <floor 0|1> <gains f64 bits> <pct f32 bits|E> <n> <flat rows>
    readsyncdigital <nidq|imec|nometa> <a> <b> <c> <d> <ntr> <n> <flat rows>
    ttl <n> <16 trains as 0/1 strings, line 0 first>
    splitflat <x>                           splitSyncFlat (the array pipeline with its reshape) on the samples x
    ttlwin <n> <window lengths> <16 trains> the same recording as `ttl`, read window by window (`chunked`): every window
                                            but the first re-reads one sample; fronts / rises / falls per window, moved -/

def bitsStr (l : List Nat) : String := String.join (l.map toString)

/-- `np.reshape(flat, (r, c))` -/
def reshape {α : Type} (r c : Nat) (l : List α) : List (List α) :=
  (List.range r).map fun i => (l.drop (i * c)).take c

def showPairs {α : Type} (sh : α → String) (l : List (Nat × α)) : String :=
  "ind=" ++ showList (l.map (·.1)) ++ " sign=" ++ (if l.isEmpty then "-" else ",".intercalate (l.map fun q => sh q.2))

def showIJ (l : List (Nat × Nat)) : String :=
  if l.isEmpty then "-" else ";".intercalate (l.map fun q => s!"{q.1},{q.2}")

def showIJS {α : Type} (sh : α → String) (l : List ((Nat × Nat) × α)) : String :=
  if l.isEmpty then "-" else ";".intercalate (l.map fun q => s!"{q.1.1},{q.1.2},{sh q.2}")

def showErr : Err → String
  | .attributeError => "err AttributeError"
  | .unboundLocal => "err UnboundLocalError"
  | .indexError => "err IndexError"
  | .valueError => "err ValueError"

def showRows (m : List (List Int)) : String :=
  s!"ok n={m.length} " ++ (if m.isEmpty then "-" else ";".intercalate (m.map fun r => String.join (r.map toString)))

/-- 1-D operations on any instance of the model's value type. -/
def run1 {α : Type} [Sub α] [Neg α] [LT α] [DecidableLT α] [LE α] [DecidableLE α] [OfNat α 0] [OfNat α 1]
    (sh : α → String) (op : String) (axis : Int) (step : α) (analog : Bool) (x : List α) : String :=
  match normAxis 1 axis with
  | none => "err AxisError"
  | some _ =>
    match op with
    | "fronts1" => "ok " ++ showPairs sh (frontsPairs x step)
    | "rises1" => "ok " ++ showList (rises x step analog)
    | "falls1" => "ok " ++ showList (falls x step analog)
    | _ => "bad-op"

def run2 {α : Type} [Sub α] [Neg α] [LT α] [DecidableLT α] [LE α] [DecidableLE α] [OfNat α 0] [OfNat α 1]
    (sh : α → String) (op : String) (axis : Int) (r c : Nat) (step : α) (analog : Bool) (x : List α) : String :=
  match normAxis 2 axis with
  | none => "err AxisError"
  | some ax =>
    let m := reshape r c x
    match op with
    | "fronts2" => "ok " ++ showIJS sh (fronts2 ax m step)
    | "rises2" => "ok " ++ showIJ (rises2 ax m step analog)
    | "falls2" => "ok " ++ showIJ (falls2 ax m step analog)
    | _ => "bad-op"

def stream? (t a b c d : String) : Option Stream :=
  match nat? a, nat? b, nat? c, nat? d with
  | some a, some b, some c, some d =>
    if t = "nidq" then some (.nidq a b c d) else if t = "imec" then some (.imec a b c)
    else if t = "nometa" then some .nometa else none
  | _, _, _, _ => none

/-- `Reader.read` on a nidq/imec channel: `f32(f64(f32(x)) * gain64)` (float32 array times float64 gains, in place). -/
def convF (gains : List Float) (c : Int) (x : Int) : Float32 :=
  match gains[c.toNat]? with
  | some g => ((Float32.ofInt x).toFloat * g).toFloat32
  | none => Float32.ofBits 0x7fc00000

def toI8F (v : Float32) : Int := v.toInt8.toInt

/-- consecutive windows of the given lengths -/
def splitWindows {α : Type} : List Nat → List α → List (List α)
  | [], _ => []
  | n :: ns, l => l.take n :: splitWindows ns (l.drop n)

def step (t : List String) : String :=
  match t with
  | ["splitflat", x] =>
    match intList? x with
    | some xs =>
      match splitSyncFlat xs with
      | some m => s!"ok n={m.length} " ++ (if m.isEmpty then "-" else ",".intercalate (m.map bitsStr))
      | none => "err ValueError"
    | none => "bad-op"
  | ["split", lo, hi] =>
    match int? lo, int? hi with
    | some lo, some hi =>
      let xs := (List.range (hi - lo).toNat).map fun (i : Nat) => lo + (i : Int)
      "ok " ++ ",".intercalate ((splitSyncArr xs).map bitsStr)
    | _, _ => "bad-op"
  | [op, ty, axis, st, analog, x] =>
    match int? axis, nat? analog with
    | some axis, some analog =>
      if ty = "i" then
        match int? st, intList? x with
        | some st, some x => run1 (toString : Int → String) op axis st (analog = 1) x
        | _, _ => "bad-op"
      else
        match f64? st, f64List? x with
        | some st, some x => run1 f64Bits op axis st (analog = 1) x
        | _, _ => "bad-op"
    | _, _ => "bad-op"
  | [op, ty, axis, r, c, st, analog, x] =>
    match int? axis, nat? r, nat? c, nat? analog with
    | some axis, some r, some c, some analog =>
      if ty = "i" then
        match int? st, intList? x with
        | some st, some x => run2 (toString : Int → String) op axis r c st (analog = 1) x
        | _, _ => "bad-op"
      else
        match f64? st, f64List? x with
        | some st, some x => run2 f64Bits op axis r c st (analog = 1) x
        | _, _ => "bad-op"
    | _, _, _, _ => "bad-op"
  | ["readsync", ty, a, b, c, d, ntr, thr, fl, gains, pct, n, flat] =>
    -- pct: the values np.percentile returned for this selection, or `E` when it raised
    let pct? : Option (Option (List Float32)) := if pct = "E" then some none else (f32List? pct).map some
    match stream? ty a b c d, nat? ntr, f32? thr, nat? fl, f64List? gains, pct?, nat? n, intList? flat with
    | some s, some ntr, some thr, some fl, some gains, some pct, some n, some flat =>
      match readSync (convF gains) (fun _ => pct) toI8F ntr s (reshape n ntr flat) thr (fl = 1) with
      | .ok m => showRows m
      | .error e => showErr e
    | _, _, _, _, _, _, _, _ => "bad-op"
  | ["readsyncdigital", ty, a, b, c, d, ntr, n, flat] =>
    match stream? ty a b c d, nat? ntr, nat? n, intList? flat with
    | some s, some ntr, some n, some flat =>
      match readSyncDigital ntr s (reshape n ntr flat) with
      | .ok m => showRows (m.map fun r => r.map Int.ofNat)
      | .error e => showErr e
    | _, _, _, _ => "bad-op"
  | "ttlwin" :: n :: lens :: trains =>
    match nat? n, intList? lens with
    | some n, some lens =>
      let tr : Nat → Nat → Bool := fun k t => ((trains.getD k "").toList.getD t '0') = '1'
      let rows : List (List Int) := (List.range n).map fun t => [0, int16OfWord (encodeWord fun k => tr k t)]
      let ws := splitWindows (lens.map Int.toNat) rows
      let rd : List (List Int) → List (List Int) := fun w =>
        match readSync (α := Int) (fun _ x => x) (fun _ => some []) (fun v => v) 2 (.imec 1 0 1) w 1 true with
        | .ok m => m
        | .error _ => []
      "ok fronts=" ++ showIJS (toString : Int → String)
          (chunked (fun w => fronts2 0 (rd w) (1 : Int)) (fun k q => ((q.1.1 + k, q.1.2), q.2)) 0 none ws) ++
        " rises=" ++ showIJ (chunked (fun w => rises2 0 (rd w) (1 : Int) false) (fun k q => (q.1 + k, q.2)) 0 none ws) ++
        " falls=" ++ showIJ (chunked (fun w => falls2 0 (rd w) (-1 : Int) false) (fun k q => (q.1 + k, q.2)) 0 none ws)
    | _, _ => "bad-op"
  | "ttl" :: n :: trains =>
    match nat? n with
    | some n =>
      -- train k at sample t; written into the word of sample t, stored as int16 in the last of 2 channels of an
      -- imec-like stream, read back through readSync and fronts along axis 0
      let tr : Nat → Nat → Bool := fun k t => ((trains.getD k "").toList.getD t '0') = '1'
      let rows : List (List Int) := (List.range n).map fun t => [0, int16OfWord (encodeWord fun k => tr k t)]
      match readSync (α := Int) (fun _ x => x) (fun _ => some []) (fun v => v) 2 (.imec 1 0 1) rows 1 true with
      | .ok m => "ok fronts=" ++ showIJS (toString : Int → String) (fronts2 0 m 1) ++ " rises=" ++
          showIJ (rises2 0 m 1 false) ++ " falls=" ++ showIJ (falls2 0 m (-1) false)
      | .error e => showErr e
    | none => "bad-op"
  | _ => "bad-op"

def main : IO Unit := run step
