import IblVerif.Model.Proto
import IblVerif.Model.Converter
open IblVerif IblVerif.Proto IblVerif.Converter

/-
Line protocol of C04 (one history per line):

    hist <np24|np21|np1> <n> <ns>[h<header frames>][t] <w> <ov> <bin|cbin>[@<k>] <call> <call> …      (@k: the first k shank folders pre-exist, empty)
    call = <postCheck><compress><deleteOriginal><overwrite><onShank><reuse>:<interrupt>:<corrupt>     six 0/1 digits
           (reuse = 1: process() again on the converter object of the previous call)
    interrupt = - | s<j> | m<j> | v<k> | c<j> | d            corrupt = - | <shank>.<kp>.<kv>  (altered sample: shank, processing window, verification window)

Answer: one `<result>@<disk>#<object>` token per call: the disk after that call and the object's check_completed /
already_exists flags (`-` when no object was built).  Parsing and printing only; the
transition function is `Converter.run`, the one the theorems are about.
-/

def bit? (c : Char) : Option Bool := if c = '1' then some true else if c = '0' then some false else none

def point? (s : String) : Option (Option Point) :=
  if s = "-" then some none
  else if s = "d" then some (some .delete)
  else
    match s.toList with
    | 's' :: r => (String.ofList r).toNat?.map fun j => some (.split j)
    | 'm' :: r => (String.ofList r).toNat?.map fun j => some (.md j)
    | 'v' :: r => (String.ofList r).toNat?.map fun j => some (.verify j)
    | 'c' :: r => (String.ofList r).toNat?.map fun j => some (.compress j)
    | _ => none

def alter? (c : String) : Option (Option Alter) :=
  if c = "-" then some none else
  match (c.splitOn ".").mapM (·.toNat?) with
  | some [sh, kp, kv] => some (some ⟨sh, kp, kv⟩)
  | _ => none

def call? (s : String) : Option Call :=
  match s.splitOn ":" with
  | [b, i, c] =>
    match b.toList.mapM bit?, point? i, alter? c with
    | some [pc, cp, dl, ow, sh, ru], some ip, some cor =>
      some { opts := ⟨pc, cp, dl⟩, overwrite := ow, interrupt := ip, corrupt := cor, onShank := sh, reuse := ru }
    | _, _, _ => none
  | _ => none

def showData (c : Nat) : Data → String
  | .good c' => if c' = c then "g" else "?"
  | .bad => "b"

def showBit (b : Bool) : String := if b then "1" else "0"

def showFiles (c : Nat) (f : FileSet) : String :=
  (match f.bin with
   | .absent => "a"
   | .part k ok => s!"p{k}" ++ (if ok then "" else "b")
   | .whole d => "w" ++ showData c d) ++ "," ++
  (match f.cbin with
   | none => "n"
   | some d => showData c d) ++ "," ++ showBit f.ch ++ showBit f.tmp ++ showBit f.md

def showDisk (cfg : Cfg) (s : Disk) : String :=
  let o := match s.orig with | .absent => "absent" | .bin => "bin" | .cbin => "cbin"
  let sh := (List.range cfg.n).map fun i =>
    match s.shanks i with
    | none => "-"
    | some x => showFiles cfg.c x.ap ++ "/" ++ showFiles cfg.c x.lf
  s!"o={o},{showBit s.och}{showBit s.otmp}|" ++ "|".intercalate sh ++ "|lf=" ++ showFiles cfg.c s.lf

def showResult : Result → String
  | .ret k => s!"ret{k}"
  | .raised .injected => "raise:injected"
  | .raised .assertion => "raise:assertion"
  | .raised .noOriginal => "raise:noOriginal"
  | .raised .outOfScope => "raise:outOfScope"
  | .raised .valueError => "raise:valueError"

def showObj : Option Obj → String
  | none => "-"
  | some ob => showBit ob.checkCompleted ++ showBit ob.alreadyExists

def history (cfg : Cfg) : St → List Call → List String
  | _, [] => []
  | s, c :: cs =>
    let r := run cfg c s
    (showResult r.2 ++ "@" ++ showDisk cfg r.1.disk ++ "#" ++ showObj r.1.obj) :: history cfg r.1 cs

def step (t : List String) : String :=
  match t with
  | "hist" :: kind :: n :: ns :: w :: ov :: o :: calls =>
    let k : Option Kind := if kind = "np24" then some .np24 else if kind = "np21" then some .np21
      else if kind = "np1" then some .np1 else none
    let op := o.splitOn "@"
    let of := op.headD ""
    let o0 : Option Orig := if of = "bin" then some .bin else if of = "cbin" then some .cbin else none
    let pre : Option Nat := match op with | [_] => some 0 | [_, k] => k.toNat? | _ => none
    -- ns token: <frames on disk>[h<frames announced by the header>][t]   (t: trailing partial frame)
    let trail := ns.endsWith "t"
    let nsp := (if trail then (ns.dropEnd 1).toString else ns).splitOn "h"
    let nsd : Option Nat := nsp.head?.bind (·.toNat?)
    let hdr : Option Nat := match nsp with | [a] => a.toNat? | [_, b] => b.toNat? | _ => none
    match k, nat? n, nsd, hdr, nat? w, nat? ov, o0, pre, calls.mapM call? with
    | some k, some n, some ns, some hdr, some w, some ov, some o0, some pre, some cs =>
      if w ≤ ov then "err diverges" else
      let cfg : Cfg := { kind := k, n := n, ns := ns, w := w, ov := ov, c := 7, hdrNs := hdr, trailing := trail }
      "ok " ++ " ".intercalate (history cfg (St.start (freshWith o0 pre)) cs)
    | _, _, _, _, _, _, _, _, _ => "bad-op"
  | ["counts", ns, w, ov] =>
    match nat? ns, nat? w, nat? ov with
    | some ns, some w, some ov =>
      if w ≤ ov then "err diverges" else
      let cfg : Cfg := { kind := .np24, n := 1, ns := ns, w := w, ov := ov, c := 7 }
      s!"ok nproc={nproc cfg} nverif={nverif cfg}"
    | _, _, _ => "bad-op"
  | _ => "bad-op"

def main : IO Unit := run step
