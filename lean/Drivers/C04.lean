import IblVerif.Model.Proto
import IblVerif.Model.Converter
import IblVerif.Model.ConverterSteps
open IblVerif IblVerif.Proto IblVerif.Converter

/-
Line protocol of C04 (one history per line):

    hist <np24|np21|np1> <n>[p] <ns>[h<header frames>][t] <w> <ov> <bin|cbin>[@<k>] <call> <call> …      (@k: the first k shank folders pre-exist, empty)
    call = <postCheck><compress><deleteOriginal><overwrite><onShank><reuse>:<interrupt>:<corrupt>     six 0/1 digits
           (reuse = 1: process() again on the converter object of the previous call)
    interrupt = - | s<j> | m<j> | v<k> | c<j> | d            corrupt = - | <shank>.<kp>.<kv>  (altered sample: shank, processing window, verification window)

    trace  <same header> <call> … <call>        the LAST call seen as an effect sequence (Model/ConverterSteps.lean), uninterrupted:
                                                answer `ok <hooks passed, one letter each, or -> <result>@<disk>#<object>` where the state is
                                                the one after ALL effects applied in order and the result is `statusObj`
    prefix <same header> <call> … <call>        the LAST call carries the interrupt `g<k>`: the environment raises at the k-th hook
                                                the run passes (any kind); answer `ok <result>@<disk>#<object>` = the state after the
                                                effects that precede that hook (`beforeHook`), `raise:injected`; for k ≥ number of
                                                hooks the uninterrupted outcome

Answer of `hist`: one `<result>@<disk>#<object>` token per call: the disk after that call and the object's check_completed /
already_exists flags (`-` when no object was built).  Parsing and printing only; the
transition function is `Converter.run`, the one the theorems are about.
-/

def bit? (c : Char) : Option Bool := if c = '1' then some true else if c = '0' then some false else none

def point? (s : String) : Option (Option Point) :=
  if s = "-" then some none
  else if s = "d" then some (some .delete)
  else
    match s.toList with
    | 's' :: r => (String.ofList r).toNat?.map fun j => some (.split j)
    | 'm' :: r => (String.ofList r).toNat?.map fun j => some (.md j)
    | 'v' :: r => (String.ofList r).toNat?.map fun j => some (.verify j)
    | 'c' :: r => (String.ofList r).toNat?.map fun j => some (.compress j)
    | _ => none

def alter? (c : String) : Option (Option Alter) :=
  if c = "-" then some none else
  match (c.splitOn ".").mapM (·.toNat?) with
  | some [sh, kp, kv] => some (some ⟨sh, kp, kv⟩)
  | _ => none

def call? (s : String) : Option Call :=
  match s.splitOn ":" with
  | [b, i, c] =>
    match b.toList.mapM bit?, point? i, alter? c with
    | some [pc, cp, dl, ow, sh, ru], some ip, some cor =>
      some { opts := ⟨pc, cp, dl⟩, overwrite := ow, interrupt := ip, corrupt := cor, onShank := sh, reuse := ru }
    | _, _, _ => none
  | _ => none

def showData (c : Nat) : Data → String
  | .good c' => if c' = c then "g" else "?"
  | .bad => "b"

def showBit (b : Bool) : String := if b then "1" else "0"

def showFiles (c : Nat) (f : FileSet) : String :=
  (match f.bin with
   | .absent => "a"
   | .part k ok => s!"p{k}" ++ (if ok then "" else "b")
   | .whole d => "w" ++ showData c d) ++ "," ++
  (match f.cbin with
   | none => "n"
   | some d => showData c d) ++ "," ++ showBit f.ch ++ showBit f.tmp ++ showBit f.md

def showDisk (cfg : Cfg) (s : Disk) : String :=
  let o := match s.orig with | .absent => "absent" | .bin => "bin" | .cbin => "cbin"
  let sh := (List.range cfg.n).map fun i =>
    match s.shanks i with
    | none => "-"
    | some x => showFiles cfg.c x.ap ++ "/" ++ showFiles cfg.c x.lf
  s!"o={o},{showBit s.och}{showBit s.otmp}|" ++ "|".intercalate sh ++ "|lf=" ++ showFiles cfg.c s.lf

def showResult : Result → String
  | .ret k => s!"ret{k}"
  | .raised .injected => "raise:injected"
  | .raised .assertion => "raise:assertion"
  | .raised .noOriginal => "raise:noOriginal"
  | .raised .outOfScope => "raise:outOfScope"
  | .raised .valueError => "raise:valueError"

def showObj : Option Obj → String
  | none => "-"
  | some ob => showBit ob.checkCompleted ++ showBit ob.alreadyExists

def history (cfg : Cfg) : St → List Call → List String
  | _, [] => []
  | s, c :: cs =>
    let r := run cfg c s
    (showResult r.2 ++ "@" ++ showDisk cfg r.1.disk ++ "#" ++ showObj r.1.obj) :: history cfg r.1 cs

/-- the header shared by `hist`, `trace`, `prefix`: configuration and start state -/
def header? (kind n ns w ov o : String) : Option (Cfg × St) :=
  let k : Option Kind := if kind = "np24" then some .np24 else if kind = "np21" then some .np21
    else if kind = "np1" then some .np1 else none
  let op := o.splitOn "@"
  let of := op.headD ""
  let o0 : Option Orig := if of = "bin" then some .bin else if of = "cbin" then some .cbin else none
  let pre : Option Nat := match op with | [_] => some 0 | [_, k] => k.toNat? | _ => none
  let trail := ns.endsWith "t"
  let nsp := (if trail then (ns.dropEnd 1).toString else ns).splitOn "h"
  let nsd : Option Nat := nsp.head?.bind (·.toNat?)
  let hdr : Option Nat := match nsp with | [a] => a.toNat? | [_, b] => b.toNat? | _ => none
  -- n token: <number of shanks converted>[p]   (p: they are a proper subset of the probe's shanks, init_params(nshank=[…]))
  let part := n.endsWith "p"
  let nn : Option Nat := nat? (if part then (n.dropEnd 1).toString else n)
  match k, nn, nsd, hdr, nat? w, nat? ov, o0, pre with
  | some k, some n, some ns, some hdr, some w, some ov, some o0, some pre =>
    if w ≤ ov then none else
    some ({ kind := k, n := n, ns := ns, w := w, ov := ov, c := 7, hdrNs := hdr, trailing := trail, partialSel := part },
      St.start (freshWith o0 pre))
  | _, _, _, _, _, _, _, _ => none

def step (t : List String) : String :=
  match t with
  | "hist" :: kind :: n :: ns :: w :: ov :: o :: calls =>
    match nat? w, nat? ov with
    | some w', some ov' =>
      if w' ≤ ov' then "err diverges" else
      match header? kind n ns w ov o, calls.mapM call? with
      | some (cfg, st0), some cs => "ok " ++ " ".intercalate (history cfg st0 cs)
      | _, _ => "bad-op"
    | _, _ => "bad-op"
  | ["counts", ns, w, ov] =>
    match nat? ns, nat? w, nat? ov with
    | some ns, some w, some ov =>
      if w ≤ ov then "err diverges" else
      let cfg : Cfg := { kind := .np24, n := 1, ns := ns, w := w, ov := ov, c := 7 }
      s!"ok nproc={nproc cfg} nverif={nverif cfg}"
    | _, _, _ => "bad-op"
  | _ => "bad-op"

/-- the object whose `process` the call runs -/
def acting (cfg : Cfg) (call : Call) (st : St) : Option Obj :=
  if call.reuse then st.obj else (construct cfg call st.disk).toOption

/-- `g<k>` in the interrupt field of a call token: the call without interruption, and `k` -/
def gcall? (s : String) : Option (Call × Nat) :=
  match s.splitOn ":" with
  | [b, i, c] =>
    match i.toList with
    | 'g' :: r => (String.ofList r).toNat?.bind fun k => (call? (b ++ ":-:" ++ c)).map fun cl => (cl, k)
    | _ => none
  | _ => none

def showState (cfg : Cfg) (r : Result) (x : Disk × Obj) : String :=
  showResult r ++ "@" ++ showDisk cfg x.1 ++ "#" ++ showObj (some x.2)

def traceOf (cfg : Cfg) (st : St) (call : Call) : String :=
  match acting cfg call st with
  | none => "none"
  | some ob =>
    let es := effectsObj cfg ob call st.disk
    let hs := hooksOf es
    (if hs.isEmpty then "-" else String.ofList hs) ++ " " ++
      showState cfg (statusObj cfg ob call st.disk) (applyEffs cfg call es (st.disk, ob))

def prefixOf (cfg : Cfg) (st : St) (call : Call) (k : Nat) : String :=
  match acting cfg call st with
  | none => "none"
  | some ob =>
    let es := effectsObj cfg ob call st.disk
    if k < (hooksOf es).length then showState cfg (.raised .injected) (applyEffs cfg call (beforeHook es k) (st.disk, ob))
    else showState cfg (statusObj cfg ob call st.disk) (applyEffs cfg call es (st.disk, ob))

def step2 (t : List String) : String :=
  match t with
  | "trace" :: kind :: n :: ns :: w :: ov :: o :: calls =>
    match header? kind n ns w ov o, calls.dropLast.mapM call?, calls.getLast?.bind call? with
    | some (cfg, st0), some cs, some last => "ok " ++ traceOf cfg (runs cfg st0 cs) { last with interrupt := none }
    | _, _, _ => "bad-op"
  | "prefix" :: kind :: n :: ns :: w :: ov :: o :: calls =>
    match header? kind n ns w ov o, calls.dropLast.mapM call?, calls.getLast?.bind gcall? with
    | some (cfg, st0), some cs, some (last, k) => "ok " ++ prefixOf cfg (runs cfg st0 cs) last k
    | _, _, _ => "bad-op"
  | _ => step t

def main : IO Unit := run step2
