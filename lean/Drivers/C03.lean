import IblVerif.Model.Proto
import IblVerif.Model.Split
import IblVerif.Generated.Constants
open IblVerif IblVerif.Proto IblVerif.Window IblVerif.Split

/-!
Line protocol of C03 (parsing / printing only; every computed value comes from `IblVerif.Split`).

  consts                                         → the generated constants the model is instantiated with
  gainlit                                        → bits of the literal `gain_062_2048` and of `gainNP2 0.62 2048`
  data <ns> <nc> <v,v,…>                         → ok            (row-major int16 samples; kept as state)
  meta <key=kind:value> …                        → ok            (kind i int, l int list, s subset string, a opaque atom)
  split <w> <rangeMaxF64bits> <maxInt> <napch> <nsync> <smap>
                                                 → ok gain=<f32bits> ;; sh=… sub=… rows=… width=… md=… data=… ;; …
  recon <W|default>                              → ok rows=… width=… md=… data=…   (default = 2 s × fs_ap from the constants)
  conv|convtrunc <rangeMaxF64bits> <maxInt> <x,…> → ok gain=<f32bits> <y,…>
  rint <f32bits,…>                               → ok <f32bits,…>
  subset <c,…>                                   → ok <string> <parsed,…>
  kept <ns> <w>                                  → ok n=<count> <indices written, in order, printed as runs a-b>
  subsetx <c,…>                                  → ok <string> colon=<0|1> <parsed,…>     (text rendered by `Split.renderToks`)
  chans <nc> <nsync> <smap>                      → ok key=<sh> letter=<code> chns=<c,…> ;; …      (`Split.prepAll`)
  steps <ns> <w> <napch> <isync>                 → ok n=<rows appended> runs=<a-b,…> win=<iw:first:last:kept,…>  (`Split.apSteps`)
-/

structure St where
  ns : Nat := 0
  nc : Nat := 0
  dat : Array (Array Int) := #[]
  md : Meta := []
  smap : List Nat := []
  files : List ShankFile := []

def errStr : Err → String
  | .assertion => "err AssertionError"
  | .diverges => "err diverges"
  | .valueError => "err ValueError"
  | .indexError => "err IndexError"
  | .keyError => "err KeyError"
  | .mismatch => "err status0"

def matOf (dat : Array (Array Int)) : Mat := fun t c => (dat.getD t #[]).getD c 0

def reshape (ns nc : Nat) (vals : Array Int) : Array (Array Int) :=
  (Array.range ns).map fun t => vals.extract (t * nc) (t * nc + nc)

def parseGrp (s : String) : Option Grp :=
  match s.splitOn ":" with
  | [a] => a.toNat?.map Grp.single
  | [a, b] => match a.toNat?, b.toNat? with
    | some a, some b => some (Grp.range a b)
    | _, _ => none
  | _ => none

def parseVal (s : String) : Option MVal :=
  if s.startsWith "i:" then (s.drop 2).toString.toInt?.map MVal.int
  else if s.startsWith "l:" then (intList? (s.drop 2).toString).map MVal.ints
  else if s.startsWith "s:" then ((s.drop 2).toString.splitOn ",").mapM parseGrp |>.map MVal.subset
  else if s.startsWith "a:" then some (MVal.atom (s.drop 2).toString)
  else none

def renderVal : MVal → String
  | .atom s => "a:" ++ s
  | .int n => "i:" ++ toString n
  | .ints l => "l:" ++ showList l
  | .subset t => "s:" ++ renderToks t

def renderMeta (m : Meta) : String :=
  if m.isEmpty then "-" else "|".intercalate (m.map fun kv => kv.1 ++ "=" ++ renderVal kv.2)

def parseKV (s : String) : Option (String × MVal) :=
  match s.splitOn "=" with
  | k :: rest => (parseVal ("=".intercalate rest)).map fun v => (k, v)
  | _ => none

def showRows (rows : List (List Int)) : String :=
  let flat := rows.flatten
  if flat.isEmpty then "-" else ",".intercalate (flat.map toString)

/-- run-length printing of an index list: maximal runs `a-b` of consecutive values, comma separated -/
def showRuns (l : List Nat) : String :=
  let rec go (acc : List String) (a b : Nat) : List Nat → List String
    | [] => (s!"{a}-{b}" :: acc).reverse
    | x :: xs => if x = b + 1 then go acc a x xs else go (s!"{a}-{b}" :: acc) x x xs
  match l with
  | [] => "-"
  | x :: xs => ",".intercalate (go [] x x xs)

def widthOf (rows : List (List Int)) : Nat := (rows.head?.map List.length).getD 0

def OV : Nat := Generated.CONV_OVERLAP
def TAPER : Nat := taperOf Generated.CONV_OVERLAP Generated.CONV_TAPER_DIV
def RATIO : Nat := ratio Generated.CONV_FS_AP Generated.CONV_FS_LF
def WRECON : Nat := Generated.CONV_WINDOW_SECS * Generated.CONV_FS_AP

def step (st : St) (t : List String) : St × String :=
  match t with
  | ["consts"] => (st, s!"ok overlap={OV} taper={TAPER} ratio={RATIO} wrecon={WRECON}")
  | ["gainlit"] => (st, s!"ok {f32Bits gain_062_2048} {f32Bits (gainNP2 0.62 2048)}")
  | ["data", ns, nc, vals] =>
    match nat? ns, nat? nc, intList? vals with
    | some ns, some nc, some v =>
      if v.length ≠ ns * nc then (st, "bad-op length") else
      ({ st with ns := ns, nc := nc, dat := reshape ns nc v.toArray, files := [] }, "ok")
    | _, _, _ => (st, "bad-op")
  | "meta" :: kvs =>
    match kvs.mapM parseKV with
    | some m => ({ st with md := m }, "ok")
    | none => (st, "bad-op")
  | ["split", w, rbits, maxInt, napch, nsync, smap] =>
    match nat? w, f64? rbits, nat? maxInt, nat? napch, nat? nsync, natList? smap with
    | some w, some r, some mi, some napch, some nsync, some smap =>
      match initParams RATIO w OV TAPER with
      | .error e => (st, errStr e)
      | .ok () =>
        let conv : Nat → Int → Int := fun c x => convF32 (s2vNP2 r mi napch c) x
        match splitFiles conv (matOf st.dat) st.ns st.nc w OV TAPER smap nsync st.md with
        | .error e => ({ st with files := [] }, errStr e)
        | .ok files =>
          let parts := files.map fun f =>
            let sub := match f.md.get "snsSaveChanSubset_orig" with
              | some (.subset tk) => renderToks tk
              | _ => "?"
            s!"sh={f.sh} sub={sub} rows={f.rows.size} width={widthOf f.rows.toList} md={renderMeta f.md} data={showRows f.rows.toList}"
          ({ st with files := files, smap := smap },
            s!"ok gain={f32Bits (gainNP2 r mi)} ;; " ++ " ;; ".intercalate parts)
    | _, _, _, _, _, _ => (st, "bad-op")
  | ["recon", W] =>
    match (if W = "default" then some WRECON else nat? W) with
    | some W =>
      match reconstruct st.smap st.files W with
      | .error e => (st, errStr e)
      | .ok rows =>
        let width := widthOf rows
        let md := match reconstructMeta st.files rows with
          | .ok m => renderMeta m
          | .error e => errStr e
        (st, s!"ok rows={rows.length} width={width} md={md} data={showRows rows}")
    | none => (st, "bad-op")
  | ["conv", rbits, maxInt, xs] =>
    match f64? rbits, nat? maxInt, intList? xs with
    | some r, some mi, some xs =>
      let g := gainNP2 r mi
      (st, s!"ok gain={f32Bits g} " ++ showList (xs.map (convF32 g)))
    | _, _, _ => (st, "bad-op")
  | ["convtrunc", rbits, maxInt, xs] =>
    match f64? rbits, nat? maxInt, intList? xs with
    | some r, some mi, some xs =>
      let g := gainNP2 r mi
      (st, s!"ok gain={f32Bits g} " ++ showList (xs.map (convTruncF32 g)))
    | _, _, _ => (st, "bad-op")
  | ["rint", xs] =>
    match f32List? xs with
    | some xs => (st, "ok " ++ showF32s (xs.map rintF32))
    | none => (st, "bad-op")
  | ["subset", cs] =>
    match natList? cs with
    | some cs =>
      match subsetToks cs with
      | .error e => (st, errStr e)
      | .ok tk => (st, s!"ok {renderToks tk} {showList (parseToks tk)}")
    | none => (st, "bad-op")
  | ["subsetx", cs] =>
    match natList? cs with
    | some cs =>
      match subsetToks cs with
      | .error e => (st, errStr e)
      | .ok tk => (st, s!"ok {renderToks tk} colon={if (renderToks tk).toList.contains ':' then 1 else 0} {showList (parseToks tk)}")
    | none => (st, "bad-op")
  | ["chans", nc, nsync, smap] =>
    match nat? nc, nat? nsync, natList? smap with
    | some nc, some nsync, some smap =>
      (st, "ok " ++ " ;; ".intercalate ((prepAll smap nc nsync).map fun p => s!"key={p.key} letter={p.letter} chns={showList p.chns}"))
    | _, _, _ => (st, "bad-op")
  | ["steps", ns, w, napch, isync] =>
    match nat? ns, nat? w, nat? napch, nat? isync with
    | some ns, some w, some napch, some isync =>
      if w ≤ OV then (st, errStr .diverges) else
      let steps := apSteps ns w OV napch isync
      let rows := apAppended w TAPER (nwin ns w OV) 0 steps
      let wins := (firstlast ns w OV).zipIdx.map fun (fl, iw) =>
        s!"{iw}:{fl.1}:{fl.2}:{(keptRows w TAPER (nwin ns w OV) iw fl).length}"
      let reads := steps.filterMap fun
        | .readAp f l n => some s!"ap:{f}:{l}:{n}"
        | .readSync f l c => some s!"sy:{f}:{l}:{c}"
        | _ => none
      (st, s!"ok n={rows.length} runs={showRuns rows} win={",".intercalate wins} reads={",".intercalate reads}")
    | _, _, _, _ => (st, "bad-op")
  | ["kept", ns, w] =>
    match nat? ns, nat? w with
    | some ns, some w =>
      if w ≤ OV then (st, errStr .diverges) else (st, s!"ok n={(keptAll ns w OV TAPER).length} " ++ showRuns (keptAll ns w OV TAPER))
    | _, _ => (st, "bad-op")
  | _ => (st, "bad-op")

def main : IO Unit := runS step ({} : St)
