import IblVerif.Model.Proto
import IblVerif.Model.Saturation
import IblVerif.Generated.Constants
open IblVerif IblVerif.Proto IblVerif.Saturation

/-!
Line protocol for C16 (parsing/printing only; every computation is `Saturation.saturation` / `Saturation.mute`).

    sat <dd> <md> <sl> <ns> <nc> <fs> <v> <p> <M> <win> <mv> <rows>
        dd       32 | 64 | i16 | i32 | i64: dtype of `data` (integer rows travel as decimal integers)
        md       32 | 64: precision of `max_voltage`
        sl       `64x` | `32r` | `32x`: precision NumPy selects for the division by `fs`, and whether `v_per_sec` is rounded
                 to float32 for the comparison (determined on the Python side with `np.result_type` from the scalar types)
        fs v p   float64 bit patterns of the Python scalars; `d` = the default extracted from the source
                 (`Generated.SAT_V_PER_SEC`, `Generated.SAT_PROPORTION`; `fs` has no generated constant, always explicit)
        M        integer `mute_window_samples`, `d` = `Generated.SAT_MUTE_WINDOW`
        win      float64 bit patterns of `scipy.signal.windows.cosine(M)` (`-` when M ≤ 0)
        mv       `max_voltage` entries (bit patterns in precision md)
        rows     `;`-separated rows of `,`-separated bit patterns (precision dd); `~` = no row, `-` = empty row
      → ok flags=0101… mute=<bits,…> | err ValueError <which>
    mute <win> <flags>      → ok mute=<bits,…>          (`Saturation.mute` on a flag string)
    win <M>                 → ok <bits,…>               (Float twin of `Saturation.cosineWin`)
    consts                  → the generated constants the driver uses
-/

def ratF (q : Nat × Nat) : Float := Float.ofNat q.1 / Float.ofNat q.2

/-- the literal `0.98` of the source -/
def factor : Float := ratF Generated.SAT_FACTOR

/-- Executable twin of `Saturation.cosineWin` (same formula over `Float`). -/
def cosineWinF (M : Nat) : List Float :=
  (List.range M).map fun k => Float.sin (3.141592653589793 / M.toFloat * (k.toFloat + 0.5))

def showErr : Err → String
  | .broadcast => "err ValueError broadcast"
  | .negativeWindow => "err ValueError negative-window"
  | .emptyWindow => "err ValueError empty-window"

def showFlags (l : List Bool) : String :=
  if l.isEmpty then "-" else String.ofList (l.map fun b => if b then '1' else '0')

def flags? (s : String) : Option (List Bool) :=
  if s = "-" then some [] else
    s.toList.mapM fun c => if c = '1' then some true else if c = '0' then some false else none

def rows? {α : Type} (parse : String → Option (List α)) (s : String) : Option (List (List α)) :=
  if s = "~" then some [] else (s.splitOn ";").mapM parse

def scalar? (dflt : Option Float) (s : String) : Option Float :=
  if s = "d" then dflt else f64? s

def runSat {α μ : Type} (ops : Ops α μ Float) (ns : Nat) (data : List (List α)) (mv : List μ) (M : Int)
    (win : List Float) : String :=
  match saturation ops (fun _ => win) ns data mv M with
  | .error e => showErr e
  | .ok (fl, g) => s!"ok flags={showFlags fl} mute={showF64s g}"

def step (t : List String) : String :=
  match t with
  | ["sat", dd, md, sl, ns, nc, fs, v, p, M, win, mv, rows] =>
    let div64 := sl.startsWith "64"
    let vr32 := sl = "32r"
    let ibits : Option Nat := if dd = "i16" then some 16 else if dd = "i32" then some 32 else if dd = "i64" then some 64 else none
    match nat? ns, nat? nc, f64? fs, scalar? (some (ratF Generated.SAT_V_PER_SEC)) v,
          scalar? (some (ratF Generated.SAT_PROPORTION)) p,
          (if M = "d" then some (Generated.SAT_MUTE_WINDOW : Int) else int? M), f64List? win with
    | some ns, some nc, some fs, some v, some p, some M, some win =>
      if 0 ≤ M ∧ win.length ≠ M.toNat then "bad-op window length" else
      let shape {α : Type} (d : List (List α)) : Bool := d.length = nc ∧ d.all fun r => r.length = ns
      match dd, md with
      | "64", "64" =>
        match rows? f64List? rows, f64List? mv with
        | some d, some m => if shape d then runSat (ops6464 factor fs v p) ns d m M win else "bad-op shape"
        | _, _ => "bad-op"
      | "32", "64" =>
        match rows? f32List? rows, f64List? mv with
        | some d, some m => if shape d then runSat (ops3264 div64 vr32 factor fs v p) ns d m M win else "bad-op shape"
        | _, _ => "bad-op"
      | "32", "32" =>
        match rows? f32List? rows, f32List? mv with
        | some d, some m => if shape d then runSat (ops3232 div64 vr32 factor fs v p) ns d m M win else "bad-op shape"
        | _, _ => "bad-op"
      | "64", "32" =>
        match rows? f64List? rows, f32List? mv with
        | some d, some m => if shape d then runSat (ops6432 factor fs v p) ns d m M win else "bad-op shape"
        | _, _ => "bad-op"
      | _, _ =>
        match ibits, md with
        | some bits, "64" =>
          match rows? intList? rows, f64List? mv with
          | some d, some m => if shape d then runSat (opsI64 bits div64 vr32 factor fs v p) ns d m M win else "bad-op shape"
          | _, _ => "bad-op"
        | some bits, "32" =>
          match rows? intList? rows, f32List? mv with
          | some d, some m => if shape d then runSat (opsI32 bits div64 vr32 factor fs v p) ns d m M win else "bad-op shape"
          | _, _ => "bad-op"
        | _, _ => "bad-op"
    | _, _, _, _, _, _, _ => "bad-op"
  | ["mute", win, fl] =>
    match f64List? win, flags? fl with
    | some win, some fl => s!"ok mute={showF64s (mute win fl)}"
    | _, _ => "bad-op"
  | ["win", M] =>
    match nat? M with
    | some M => "ok " ++ showF64s (cosineWinF M)
    | none => "bad-op"
  | ["consts"] =>
    s!"ok factor={f64Bits factor} v={f64Bits (ratF Generated.SAT_V_PER_SEC)} p={f64Bits (ratF Generated.SAT_PROPORTION)} M={Generated.SAT_MUTE_WINDOW}"
  | _ => "bad-op"

def main : IO Unit := run step
