import IblVerif.Model.Proto
import IblVerif.Model.Saturation
import IblVerif.Generated.Constants
open IblVerif IblVerif.Proto IblVerif.Saturation

/-!
Line protocol for C16 (parsing/printing only; every computation is `Saturation.saturation` / `Saturation.mute`).

    sat <dd> <md> <ns> <nc> <fs> <v> <p> <M> <win> <mv> <rows>
        dd, md   32 | 64: precision of `data` and of `max_voltage`
        fs v p   float64 bit patterns of the Python scalars; `d` = the default extracted from the source
                 (`Generated.SAT_V_PER_SEC`, `Generated.SAT_PROPORTION`; `fs` has no generated constant, always explicit)
        M        integer `mute_window_samples`, `d` = `Generated.SAT_MUTE_WINDOW`
        win      float64 bit patterns of `scipy.signal.windows.cosine(M)` (`-` when M ≤ 0)
        mv       `max_voltage` entries (bit patterns in precision md)
        rows     `;`-separated rows of `,`-separated bit patterns (precision dd); `~` = no row, `-` = empty row
      → ok flags=0101… mute=<bits,…> | err ValueError <which>
    mute <win> <flags>      → ok mute=<bits,…>          (`Saturation.mute` on a flag string)
    win <M>                 → ok <bits,…>               (Float twin of `Saturation.cosineWin`)
    consts                  → the generated constants the driver uses
-/

def ratF (q : Nat × Nat) : Float := Float.ofNat q.1 / Float.ofNat q.2

/-- the literal `0.98` of the source -/
def factor : Float := ratF Generated.SAT_FACTOR

/-- Executable twin of `Saturation.cosineWin` (same formula over `Float`). -/
def cosineWinF (M : Nat) : List Float :=
  (List.range M).map fun k => Float.sin (3.141592653589793 / M.toFloat * (k.toFloat + 0.5))

def showErr : Err → String
  | .broadcast => "err ValueError broadcast"
  | .negativeWindow => "err ValueError negative-window"
  | .emptyWindow => "err ValueError empty-window"

def showFlags (l : List Bool) : String :=
  if l.isEmpty then "-" else String.ofList (l.map fun b => if b then '1' else '0')

def flags? (s : String) : Option (List Bool) :=
  if s = "-" then some [] else
    s.toList.mapM fun c => if c = '1' then some true else if c = '0' then some false else none

def rows? {α : Type} (parse : String → Option (List α)) (s : String) : Option (List (List α)) :=
  if s = "~" then some [] else (s.splitOn ";").mapM parse

def scalar? (dflt : Option Float) (s : String) : Option Float :=
  if s = "d" then dflt else f64? s

def runSat {α μ : Type} (ops : Ops α μ Float) (ns : Nat) (data : List (List α)) (mv : List μ) (M : Int)
    (win : List Float) : String :=
  match saturation ops (fun _ => win) ns data mv M with
  | .error e => showErr e
  | .ok (fl, g) => s!"ok flags={showFlags fl} mute={showF64s g}"

def step (t : List String) : String :=
  match t with
  | ["sat", dd, md, ns, nc, fs, v, p, M, win, mv, rows] =>
    match nat? ns, nat? nc, f64? fs, scalar? (some (ratF Generated.SAT_V_PER_SEC)) v,
          scalar? (some (ratF Generated.SAT_PROPORTION)) p,
          (if M = "d" then some (Generated.SAT_MUTE_WINDOW : Int) else int? M), f64List? win with
    | some ns, some nc, some fs, some v, some p, some M, some win =>
      if 0 ≤ M ∧ win.length ≠ M.toNat then "bad-op window length" else
      let shape {α : Type} (d : List (List α)) : Bool := d.length = nc ∧ d.all fun r => r.length = ns
      match dd, md with
      | "64", "64" =>
        match rows? f64List? rows, f64List? mv with
        | some d, some m => if shape d then runSat (ops6464 factor fs v p) ns d m M win else "bad-op shape"
        | _, _ => "bad-op"
      | "32", "64" =>
        match rows? f32List? rows, f64List? mv with
        | some d, some m => if shape d then runSat (ops3264 factor fs v p) ns d m M win else "bad-op shape"
        | _, _ => "bad-op"
      | "32", "32" =>
        match rows? f32List? rows, f32List? mv with
        | some d, some m => if shape d then runSat (ops3232 factor fs v p) ns d m M win else "bad-op shape"
        | _, _ => "bad-op"
      | "64", "32" =>
        match rows? f64List? rows, f32List? mv with
        | some d, some m => if shape d then runSat (ops6432 factor fs v p) ns d m M win else "bad-op shape"
        | _, _ => "bad-op"
      | _, _ => "bad-op"
    | _, _, _, _, _, _, _ => "bad-op"
  | ["mute", win, fl] =>
    match f64List? win, flags? fl with
    | some win, some fl => s!"ok mute={showF64s (mute win fl)}"
    | _, _ => "bad-op"
  | ["win", M] =>
    match nat? M with
    | some M => "ok " ++ showF64s (cosineWinF M)
    | none => "bad-op"
  | ["consts"] =>
    s!"ok factor={f64Bits factor} v={f64Bits (ratF Generated.SAT_V_PER_SEC)} p={f64Bits (ratF Generated.SAT_PROPORTION)} M={Generated.SAT_MUTE_WINDOW}"
  | _ => "bad-op"

def main : IO Unit := run step
