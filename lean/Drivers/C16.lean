import IblVerif.Model.Proto
import IblVerif.Model.Saturation
import IblVerif.Model.SaturationBatch
import IblVerif.Generated.Constants
open IblVerif IblVerif.Proto IblVerif.Saturation

/-!
Line protocol for C16 (parsing/printing only; every computation is `Saturation.saturation` / `Saturation.mute`).

    sat <dd> <md> <sl> <ns> <nc> <fs> <v> <p> <M> <win> <mv> <rows>
        dd       32 | 64 | i16 | i32 | i64: dtype of `data` (integer rows travel as decimal integers)
        md       32 | 64: precision of `max_voltage`
        sl       `64x` | `32r` | `32x`: precision NumPy selects for the division by `fs`, and whether `v_per_sec` is rounded
                 to float32 for the comparison (determined on the Python side with `np.result_type` from the scalar types)
        fs v p   float64 bit patterns of the Python scalars; `d` = the default extracted from the source
                 (`Generated.SAT_V_PER_SEC`, `Generated.SAT_PROPORTION`; `fs` has no generated constant, always explicit)
        M        integer `mute_window_samples`, `d` = `Generated.SAT_MUTE_WINDOW`
        win      float64 bit patterns of `scipy.signal.windows.cosine(M)` (`-` when M ≤ 0)
        mv       `max_voltage` entries (bit patterns in precision md)
        rows     `;`-separated rows of `,`-separated bit patterns (precision dd); `~` = no row, `-` = empty row
      → ok flags=0101… mute=<bits,…> | err ValueError <which>
    batch <dd> <md> <sl> <ns> <nc> <fs> <v> <p> <wins> <mv> <rows>
        the recording-long flag vector after `saturation` has been called on every batch of <wins> and written over it, in
        that order (`Saturation.batched`).  <wins> = `a:b,a:b,…` | `sched:N:T` (`Saturation.schedule`) |
        `workers:N:T:P:i.j.k` (`Saturation.workerWindows` of workers i, j, k … of P, concatenated in that order)
      → ok flags=… chain=0|1 wins=a:b,…       (`chain` = `decide (Saturation.Chain ns 0 wins)`)
    windows <ns> <wins>     → ok chain=0|1 wins=a:b,…    (the batch list alone, e.g. `sched:65536:1024` with the source's constants)
    maxint <imec 0|1> <version|-> <imMaxInt|->   → ok <int> | err raises      (`Saturation.fullScaleInt (familyOf …)`)
    rawsat <a> <b> <imec 0|1> <version|-> <imMaxInt|-> <ns> <nc> <rows>
      → ok maxint=<int> flags=… | err raises     (`Saturation.flags (opsCounts a b)` on raw integer counts, full scale
                                                  `fullScaleInt (familyOf …)`: "more than a/b of the channels have 50·|raw| > 49·maxInt")
    mute <win> <flags>      → ok mute=<bits,…>          (`Saturation.mute` on a flag string)
    win <M>                 → ok <bits,…>               (Float twin of `Saturation.cosineWin`)
    consts                  → the generated constants the driver uses
-/

def ratF (q : Nat × Nat) : Float := Float.ofNat q.1 / Float.ofNat q.2

/-- the literal `0.98` of the source -/
def factor : Float := ratF Generated.SAT_FACTOR

/-- Executable twin of `Saturation.cosineWin` (same formula over `Float`). -/
def cosineWinF (M : Nat) : List Float :=
  (List.range M).map fun k => Float.sin (3.141592653589793 / M.toFloat * (k.toFloat + 0.5))

def showErr : Err → String
  | .broadcast => "err ValueError broadcast"
  | .negativeWindow => "err ValueError negative-window"
  | .emptyWindow => "err ValueError empty-window"

def showFlags (l : List Bool) : String :=
  if l.isEmpty then "-" else String.ofList (l.map fun b => if b then '1' else '0')

def flags? (s : String) : Option (List Bool) :=
  if s = "-" then some [] else
    s.toList.mapM fun c => if c = '1' then some true else if c = '0' then some false else none

def rows? {α : Type} (parse : String → Option (List α)) (s : String) : Option (List (List α)) :=
  if s = "~" then some [] else (s.splitOn ";").mapM parse

def scalar? (dflt : Option Float) (s : String) : Option Float :=
  if s = "d" then dflt else f64? s

def runSat {α μ : Type} (ops : Ops α μ Float) (ns : Nat) (data : List (List α)) (mv : List μ) (M : Int)
    (win : List Float) : String :=
  match saturation ops (fun _ => win) ns data mv M with
  | .error e => showErr e
  | .ok (fl, g) => s!"ok flags={showFlags fl} mute={showF64s g}"

/-- parse the data / range tokens in the precision named by `dd` / `md` and hand the matching IEEE instance to `k` -/
def withOps (dd md sl : String) (ns nc : Nat) (fs v p : Float) (mv rows : String)
    (k : {α μ : Type} → Ops α μ Float → List (List α) → List μ → String) : String :=
  let div64 := sl.startsWith "64"
  let vr32 := sl = "32r"
  let ibits : Option Nat := if dd = "i16" then some 16 else if dd = "i32" then some 32 else if dd = "i64" then some 64 else none
  let shape {α : Type} (d : List (List α)) : Bool := d.length = nc ∧ d.all fun r => r.length = ns
  match dd, md with
  | "64", "64" =>
    match rows? f64List? rows, f64List? mv with
    | some d, some m => if shape d then k (ops6464 factor fs v p) d m else "bad-op shape"
    | _, _ => "bad-op"
  | "32", "64" =>
    match rows? f32List? rows, f64List? mv with
    | some d, some m => if shape d then k (ops3264 div64 vr32 factor fs v p) d m else "bad-op shape"
    | _, _ => "bad-op"
  | "32", "32" =>
    match rows? f32List? rows, f32List? mv with
    | some d, some m => if shape d then k (ops3232 div64 vr32 factor fs v p) d m else "bad-op shape"
    | _, _ => "bad-op"
  | "64", "32" =>
    match rows? f64List? rows, f32List? mv with
    | some d, some m => if shape d then k (ops6432 factor fs v p) d m else "bad-op shape"
    | _, _ => "bad-op"
  | _, _ =>
    match ibits, md with
    | some bits, "64" =>
      match rows? intList? rows, f64List? mv with
      | some d, some m => if shape d then k (opsI64 bits div64 vr32 factor fs v p) d m else "bad-op shape"
      | _, _ => "bad-op"
    | some bits, "32" =>
      match rows? intList? rows, f32List? mv with
      | some d, some m => if shape d then k (opsI32 bits div64 vr32 factor fs v p) d m else "bad-op shape"
      | _, _ => "bad-op"
    | _, _ => "bad-op"

def pair? (s : String) : Option (Nat × Nat) :=
  match s.splitOn ":" with
  | [a, b] => match nat? a, nat? b with
    | some a, some b => some (a, b)
    | _, _ => none
  | _ => none

/-- the batch list of a `batch` request -/
def wins? (ns : Nat) (s : String) : Option (List (Nat × Nat)) :=
  match s.splitOn ":" with
  | ["sched", N, T] =>
    match nat? N, nat? T with
    | some N, some T => some (schedule ns N T)
    | _, _ => none
  | ["workers", N, T, P, order] =>
    match nat? N, nat? T, nat? P, (order.splitOn ".").mapM nat? with
    | some N, some T, some P, some order => some (order.flatMap fun i => workerWindows ns N T P i (ns + 1))
    | _, _, _, _ => none
  | _ => if s = "-" then some [] else (s.splitOn ",").mapM pair?

def showWins (w : List (Nat × Nat)) : String :=
  if w.isEmpty then "-" else ",".intercalate (w.map fun x => s!"{x.1}:{x.2}")

def step (t : List String) : String :=
  match t with
  | ["sat", dd, md, sl, ns, nc, fs, v, p, M, win, mv, rows] =>
    match nat? ns, nat? nc, f64? fs, scalar? (some (ratF Generated.SAT_V_PER_SEC)) v,
          scalar? (some (ratF Generated.SAT_PROPORTION)) p,
          (if M = "d" then some (Generated.SAT_MUTE_WINDOW : Int) else int? M), f64List? win with
    | some ns, some nc, some fs, some v, some p, some M, some win =>
      if 0 ≤ M ∧ win.length ≠ M.toNat then "bad-op window length" else
      withOps dd md sl ns nc fs v p mv rows fun ops d m => runSat ops ns d m M win
    | _, _, _, _, _, _, _ => "bad-op"
  | ["batch", dd, md, sl, ns, nc, fs, v, p, wins, mv, rows] =>
    match nat? ns, nat? nc, f64? fs, scalar? (some (ratF Generated.SAT_V_PER_SEC)) v,
          scalar? (some (ratF Generated.SAT_PROPORTION)) p with
    | some ns, some nc, some fs, some v, some p =>
      match wins? ns wins with
      | none => "bad-op wins"
      | some w =>
        if w.any (fun x => x.2 > ns ∨ x.1 > x.2) then "bad-op window outside the recording" else
        withOps dd md sl ns nc fs v p mv rows fun ops d m =>
          match batched ops ns d m w with
          | .error e => showErr e
          | .ok fl => s!"ok flags={showFlags fl} chain={if decide (Chain ns 0 w) then 1 else 0} wins={showWins w}"
    | _, _, _, _, _ => "bad-op"
  | ["windows", ns, spec] =>
    match nat? ns with
    | some ns =>
      match wins? ns spec with
      | some w => s!"ok chain={if decide (Chain ns 0 w) then 1 else 0} wins={showWins w}"
      | none => "bad-op wins"
    | none => "bad-op"
  | ["maxint", imec, version, mi] =>
    let v : Option String := if version = "-" then none else some version
    match (if mi = "-" then some none else (int? mi).map some) with
    | none => "bad-op"
    | some mi =>
      match fullScaleInt (familyOf (imec = "1") v) mi with
      | some r => s!"ok {r}"
      | none => "err raises"
  | ["rawsat", a, b, imec, version, mi, ns, nc, rows] =>
    let v : Option String := if version = "-" then none else some version
    match nat? a, nat? b, (if mi = "-" then some none else (int? mi).map some), nat? ns, nat? nc, rows? intList? rows with
    | some a, some b, some mi, some ns, some nc, some d =>
      if d.length = nc ∧ d.all (fun r => r.length = ns) then
        match fullScaleInt (familyOf (imec = "1") v) mi with
        | none => "err raises"
        | some mx =>
          match flags (opsCounts a b) ns d [mx] with
          | .error e => showErr e
          | .ok fl => s!"ok maxint={mx} flags={showFlags fl}"
      else "bad-op shape"
    | _, _, _, _, _, _ => "bad-op"
  | ["mute", win, fl] =>
    match f64List? win, flags? fl with
    | some win, some fl => s!"ok mute={showF64s (mute win fl)}"
    | _, _ => "bad-op"
  | ["win", M] =>
    match nat? M with
    | some M => "ok " ++ showF64s (cosineWinF M)
    | none => "bad-op"
  | ["consts"] =>
    s!"ok factor={f64Bits factor} v={f64Bits (ratF Generated.SAT_V_PER_SEC)} p={f64Bits (ratF Generated.SAT_PROPORTION)} M={Generated.SAT_MUTE_WINDOW}"
  | _ => "bad-op"

def main : IO Unit := run step
