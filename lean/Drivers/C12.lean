import IblVerif.Model.Proto
import IblVerif.Model.Lfp
open IblVerif IblVerif.Proto IblVerif.Lfp

/-
Line protocol for C12 (parsing / printing only; every answer is computed by the definitions of
`IblVerif.Model.Lfp` that the theorems of `Properties/C12.lean` are about).

  init  <nwindow>                              → ok ratio=… window=… overlap=… taper=…        | err …
  src   <nwindow> <ns>                         → ok n=<rows> src=<AP index of every LF sample>  | err …
  sync  <nwindow> <ns> <w0,w1,…>               → ok <sync column of the LF file>                | err …
  files <np21|np24> <nwindow> <ns> <acq> <sns> <nSavedChans> <shank map>
        → ok then per file `sh=… rows=… nbytes=… chns=… acq=… sns=… nsaved=… size=… rate=… subset=… suborig=… shank=… orig=… type=… shape=…`
-/

def withParams (w : String) (k : Params → String) : String :=
  match nat? w with
  | none => "bad-op"
  | some w =>
    match initParams w with
    | .error e => e.show
    | .ok p => k p

def trip? (s : String) : Option (Nat × Nat × Nat) :=
  match natList? s with
  | some [a, b, c] => some (a, b, c)
  | _ => none

def showTrip (t : Nat × Nat × Nat) : String := s!"{t.1},{t.2.1},{t.2.2}"

def showFile (f : LfFile) : String :=
  let m := f.md
  let shape := openShape m f.nbytes
  let subset := match m.subset with | some (a, b) => s!"{a}:{b}" | none => "kept"
  let suborig := match m.subsetOrig with | some l => showList l | none => "none"
  let shank := match m.shank with | some s => toString s | none => "none"
  s!"sh={f.sh} rows={f.rows} nbytes={f.nbytes} chns={showList f.chns} acq={showTrip m.acq} sns={showTrip m.sns} " ++
  s!"nsaved={m.nSavedChans} size={m.fileSizeBytes} rate={m.sampRate.1}/{m.sampRate.2} subset={subset} suborig={suborig} shank={shank} " ++
  s!"orig={m.originalMeta} type={metaType m} shape={shape.1}x{shape.2}"

def step (t : List String) : String :=
  match t with
  | ["init", w] =>
    withParams w fun p => s!"ok ratio={p.ratio} window={p.window} overlap={p.overlap} taper={p.taper}"
  | ["src", w, ns] =>
    match nat? ns with
    | none => "bad-op"
    | some ns => withParams w fun p =>
      match lfSources p ns with
      | .error e => e.show
      | .ok l => s!"ok n={l.length} src={showList l}"
  | ["sync", w, ns, words] =>
    match nat? ns, intList? words with
    | some ns, some words => withParams w fun p =>
      if words.length ≠ ns then "bad-op" else
      let arr := words.toArray
      match lfSync p ns (fun i => arr.getD i 0) with
      | .error e => e.show
      | .ok l => "ok " ++ showList l
    | _, _ => "bad-op"
  | ["files", v, w, ns, acq, sns, nsaved, shankMap] =>
    let v? : Option Version := if v = "np21" then some .np21 else if v = "np24" then some .np24 else none
    match v?, nat? ns, trip? acq, trip? sns, nat? nsaved, natList? shankMap with
    | some v, some ns, some acq, some sns, some nsaved, some sm => withParams w fun p =>
      let m : Meta := { acq := acq, sns := sns, nSavedChans := nsaved, fileSizeBytes := 0,
                        sampRate := (Generated.CONV_FS_AP, 1), subset := none, subsetOrig := none, shank := none,
                        originalMeta := true }
      match lfFiles v p ns m sm with
      | .error e => e.show
      | .ok fs => "ok " ++ " | ".intercalate (fs.map showFile)
    | _, _, _, _, _, _ => "bad-op"
  | _ => "bad-op"

def main : IO Unit := run step
