import IblVerif.Model.Proto
import IblVerif.Model.Meta
open IblVerif IblVerif.Proto IblVerif.Meta

/-
Line protocol for C09.  Text travels as comma separated decimal code points (`-` = empty text).
Answers: strings as '.'-separated code points (`_` = empty), floats as IEEE bit patterns.

  float <text>        pyFloat                      -> ok <f64 bits> | err <E>
  repr <f64 bits>     reprNum                      -> ok <str> | err Model
  parse <text>        parse                        -> ok <dict> | err <E>
  roundtrip <text>    parse, printMeta, parse      -> ok text=<str> dict=<dict> same=<0|1> | err-<stage> <E>
  derive <text>       parse + derived quantities   -> ok version=… type=… nc=… nsync=… fs=… ns=… maxint=… s2v=… range=…
  imro <text>         findall5                     -> ok <str>;<str>…
-/

def text? (s : String) : Option Str := (natList? s).map fun l => l.map Char.ofNat

def showStr (s : Str) : String :=
  if s.isEmpty then "_" else ".".intercalate (s.map fun c => toString c.toNat)

def errName : Err → String
  | .value => "ValueError"
  | .type => "TypeError"
  | .overflow => "OverflowError"
  | .key => "KeyError"
  | .index => "IndexError"
  | .zerodiv => "ZeroDivisionError"
  | .unbound => "UnboundLocalError"
  | .model => "Model"

def showNum (x : Num) : String := toString x.toBits

def showVal : Val → String
  | .str s => "s" ++ showStr s
  | .num x => "f" ++ showNum x
  | .list xs => "l" ++ "/".intercalate (xs.map showNum)
  | .int n => "i" ++ toString n
  | .none => "n"

def showDict (d : Dict) : String :=
  if d.isEmpty then "-" else ";".intercalate (d.map fun kv => showStr kv.1 ++ "=" ++ showVal kv.2)

def showE {α} (f : α → String) : Except Err α → String
  | .ok a => "ok:" ++ f a
  | .error e => "err:" ++ errName e

def showGains : Gains → String
  | .f32 xs => "f32:" ++ showF32s xs
  | .f64 xs => "f64:" ++ showF64s xs

def showTyp : Option STyp → String
  | some .lf => "lf"
  | some .ap => "ap"
  | some .nidq => "nidq"
  | none => "None"

def showOptVal : Option Val → String
  | some v => showVal v
  | none => "n"

def step (t : List String) : String :=
  match t with
  | ["float", s] =>
    match text? s with
    | some s => (match pyFloat s with | .ok x => "ok " ++ showNum x | .error e => "err " ++ errName e)
    | none => "bad-op"
  | ["repr", b] =>
    match nat? b with
    | some b =>
      (match Num.ofBits? b with
       | some x => (match reprNum x with | some s => "ok " ++ showStr s | none => "err Model")
       | none => "err nan")
    | none => "bad-op"
  | ["parse", s] =>
    match text? s with
    | some s => (match parse s with | .ok d => "ok " ++ showDict d | .error e => "err " ++ errName e)
    | none => "bad-op"
  | ["roundtrip", s] =>
    match text? s with
    | some s =>
      (match parse s with
       | .error e => "err-parse " ++ errName e
       | .ok d =>
         match printMeta d with
         | .error e => "err-write " ++ errName e
         | .ok w =>
           match parse w with
           | .error e => "err-reparse " ++ errName e ++ " text=" ++ showStr w
           | .ok d2 => s!"ok text={showStr w} dict={showDict d2} same={if d2 = d then 1 else 0}")
    | none => "bad-op"
  | ["derive", s] =>
    match text? s with
    | some s =>
      (match parse s with
       | .error e => "err " ++ errName e
       | .ok d =>
         "ok version=" ++ (match version d with | some v => showStr v.name | none => "None")
         ++ " type=" ++ showE showTyp (typeOf d)
         ++ " nc=" ++ showE toString (nChannels d)
         ++ " nsync=" ++ showE toString (nSync d)
         ++ " fs=" ++ showOptVal (fsOf d)
         ++ " ns=" ++ showE toString (nSamples d)
         ++ " maxint=" ++ showE toString (maxInt d)
         ++ " conv=" ++ showE (fun out => "|".intercalate (out.map fun p => showTyp (some p.1) ++ "~" ++ showGains p.2)) (conversion d)
         ++ " s2v=" ++ showE showGains (sample2volts d)
         ++ " range=" ++ showE showGains (rangeVolts d))
    | none => "bad-op"
  | ["imro", s] =>
    match text? s with
    | some s => let m := findall5 s; "ok " ++ (if m.isEmpty then "-" else ";".intercalate (m.map showStr))
    | none => "bad-op"
  | _ => "bad-op"

def main : IO Unit := run step
