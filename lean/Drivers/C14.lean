import IblVerif.Model.Proto
import IblVerif.Model.Features
import IblVerif.Model.FeaturesCall
open IblVerif IblVerif.Proto IblVerif.Features

/-
Line protocol (one request per line):
  batch <k> <T> <fsNum> <data>      data = waveforms separated by `|`, channels by `;`, samples by `,`
                                    a sample is an integer, `num/den`, or `n` (NaN)
  call <rd> <fs> <T> <data>          the whole call: rd = recovery_duration_ms as an exact rational `num/den`, fs an integer; the
                                    model computes the recovery offset itself (`Features.recoveryOffset`) and interprets the
                                    stage list of compute_spike_features (`Features.call`); answer as for `batch`
  offset <rd> <fs>                  `k <int>`: the recovery offset alone
Answer: `ok f|f|…` (14 index/value columns then the derived columns as exact rationals) or `err <kind>`.
Parsing and printing only; the features come from `Features.batchRaw` (= `Features.batch` after NaN → 0), the derived
columns from `Feat.ratio`, `Feat.peakToTroughDuration`, `Feat.halfPeakDuration`, `Feat.*Slope`.
-/

def ratOfString? (s : String) : Option Rat :=
  match s.splitOn "/" with
  | [a] => a.toInt?.map fun (i : Int) => (i : Rat)
  | [a, b] => do
    let n ← a.toInt?
    let d ← b.toNat?
    if d = 0 then none else some (mkRat n d)
  | _ => none

def sample? (s : String) : Option (Option Rat) :=
  if s = "n" then some none else (ratOfString? s).map some

def wave? (s : String) : Option (List (List (Option Rat))) :=
  (s.splitOn ";").mapM fun ch => (ch.splitOn ",").mapM sample?

def data? (s : String) : Option (List (List (List (Option Rat)))) :=
  (s.splitOn "|").mapM wave?

def showRat (q : Rat) : String := if q.den = 1 then toString q.num else s!"{q.num}/{q.den}"

def showX : XRat → String
  | .val q => showRat q | .nan => "nan" | .pinf => "inf" | .ninf => "-inf"

def showErr : Err → String
  | .zeroSize => "err zeroSize" | .allNaN => "err allNaN" | .offsetOOB => "err offsetOOB" | .index => "err index"

def showFeat (fs : Rat) (f : Feat) : String :=
  ",".intercalate [toString f.peakTrace, toString f.peakTime, showRat f.peakVal, showRat f.invertSign,
    toString f.troughTime, showRat f.troughVal, toString f.tipTime, showRat f.tipVal,
    toString f.halfPost, toString f.halfPre, showRat f.halfPostVal, showRat f.halfPreVal,
    toString f.recTime, showRat f.recVal,
    showX f.ratio, showRat (f.peakToTroughDuration fs), showRat (f.halfPeakDuration fs),
    showX (f.depolSlope fs), showX (f.repolSlope fs), showX (f.recoverySlope fs)]

def fracOfString? (s : String) : Option (Int × Nat) :=
  match s.splitOn "/" with
  | [a] => a.toInt?.map fun (i : Int) => (i, 1)
  | [a, b] => do
    let n ← a.toInt?
    let d ← b.toNat?
    if d = 0 then none else some (n, d)
  | _ => none

def showFull (r : FullRow) : String :=
  let f := r.feat
  ",".intercalate [toString f.peakTrace, toString f.peakTime, showRat f.peakVal, showRat f.invertSign,
    toString f.troughTime, showRat f.troughVal, toString f.tipTime, showRat f.tipVal,
    toString f.halfPost, toString f.halfPre, showRat f.halfPostVal, showRat f.halfPreVal,
    toString f.recTime, showRat f.recVal,
    showX r.ratio, showRat r.ptDur, showRat r.hpDur, showX r.depol, showX r.repol, showX r.recSl]

def showCallErr : CallErr → String
  | .order => "err order" | .negOffset => "err negOffset" | .feat e => showErr e

def step (t : List String) : String :=
  match t with
  | ["call", rd, fs, tt, d] =>
    match fracOfString? rd, fs.toInt?, nat? tt, data? d with
    | some (rn, rdn), some fs, some tt, some raw =>
      match call rn rdn fs tt raw with
      | .ok rows => "ok " ++ "|".intercalate (rows.map showFull)
      | .error e => showCallErr e
    | _, _, _, _ => "bad-op"
  | ["offset", rd, fs] =>
    match fracOfString? rd, fs.toInt? with
    | some (rn, rdn), some fs => s!"k {recoveryOffset rn rdn fs}"
    | _, _ => "bad-op"
  | ["batch", k, tt, fs, d] =>
    match nat? k, nat? tt, ratOfString? fs, data? d with
    | some k, some tt, some fs, some raw =>
      match batchRaw k tt raw with
      | .ok fsL => "ok " ++ "|".intercalate (fsL.map (showFeat fs))
      | .error e => showErr e
    | _, _, _, _ => "bad-op"
  | _ => "bad-op"

def main : IO Unit := run step
