import IblVerif.Model.Proto
import IblVerif.Model.BadChannels
open IblVerif IblVerif.Proto IblVerif.BadChannels

/-- vector as a function of the index (the length is checked before any call) -/
def fnOf {α} (d : α) (a : Array α) : Nat → α := fun j => a.getD j d

def showPairs (l : List (Int × Int)) : String :=
  if l.isEmpty then "-" else ";".intercalate (l.map fun p => s!"{p.1},{p.2}")

def optF (s : String) : Option (Option Float) :=
  if s = "-" then some none else (f64? s).map some

def step (t : List String) : String :=
  match t with
  -- interp nc ns p krig labels x y data(row-major nc*ns)
  | ["interp", nc, ns, p, krig, labels, x, y, data] =>
    match nat? nc, nat? ns, f64? p, f64? krig, natList? labels, f64List? x, f64List? y, f64List? data with
    | some nc, some ns, some p, some krig, some labels, some x, some y, some data =>
      if labels.length ≠ nc ∨ x.length ≠ nc ∨ y.length ≠ nc ∨ data.length ≠ nc * ns then "err shape" else
      let la := labels.toArray; let xa := x.toArray; let ya := y.toArray; let da := data.toArray
      let d0 : Nat → Nat → Float := fun c s => da.getD (c * ns + s) 0.0
      let out := interpolate nc weightCutF (fnOf 0 la) (rawWeightF p krig (fnOf 0.0 xa) (fnOf 0.0 ya)) d0
      let vals := (List.range nc).flatMap fun c => (List.range ns).map fun s => out c s
      "ok " ++ showF64s vals
    | _, _, _, _, _, _, _, _ => "bad-op"
  -- labels nc fs thr0 thr1 psdthr|- xcor_hf xcor_lf psd_hf
  | ["labels", nc, fs, thr0, thr1, psd, xhf, xlf, phf] =>
    match nat? nc, f64? fs, f64? thr0, f64? thr1, optF psd, f64List? xhf, f64List? xlf, f64List? phf with
    | some nc, some fs, some thr0, some thr1, some psd, some xhf, some xlf, some phf =>
      if xhf.length ≠ nc ∨ xlf.length ≠ nc ∨ phf.length ≠ nc then "err shape" else
      let lab := detectFromFeatures nc thr0 thr1 (psdThresholdF fs psd) lfThresholdF
        (fnOf 0.0 xhf.toArray) (fnOf 0.0 xlf.toArray) (fnOf 0.0 phf.toArray)
      "ok " ++ showList ((List.range nc).map lab)
    | _, _, _, _, _, _, _, _ => "bad-op"
  -- mode nb nc labels(row-major nb*nc: batch after batch)
  | ["mode", nb, nc, labels] =>
    match nat? nb, nat? nc, natList? labels with
    | some nb, some nc, some labels =>
      if labels.length ≠ nb * nc then "err shape" else
      let la := labels.toArray
      let batches : List (Nat → Nat) := (List.range nb).map fun b => fun c => la.getD (b * nc + c) 0
      match (List.range nc).mapM (fileLabels batches) with
      | some l => "ok " ++ showList l
      | none => "err empty"
    | _, _, _ => "bad-op"
  -- slices ns fs dur nb
  | ["slices", ns, fs, dur, nb] =>
    match nat? ns, f64? fs, f64? dur, nat? nb with
    | some ns, some fs, some dur, some nb =>
      "ok " ++ showPairs ((List.range nb).map (batchSliceF ns fs dur nb))
    | _, _, _, _ => "bad-op"
  | _ => "bad-op"

def main : IO Unit := run step
