import IblVerif.Model.Proto
import IblVerif.Model.BadChannels
open IblVerif IblVerif.Proto IblVerif.BadChannels

/-- vector as a function of the index (the length is checked before any call) -/
def fnOf {α} (d : α) (a : Array α) : Nat → α := fun j => a.getD j d

def showPairs (l : List (Int × Int)) : String :=
  if l.isEmpty then "-" else ";".intercalate (l.map fun p => s!"{p.1},{p.2}")

def optF (s : String) : Option (Option Float) :=
  if s = "-" then some none else (f64? s).map some

def step (t : List String) : String :=
  match t with
  -- interp nc ns p krig labels x y data(row-major nc*ns)
  | ["interp", nc, ns, p, krig, labels, x, y, data] =>
    match nat? nc, nat? ns, f64? p, f64? krig, natList? labels, f64List? x, f64List? y, f64List? data with
    | some nc, some ns, some p, some krig, some labels, some x, some y, some data =>
      if labels.length ≠ nc ∨ x.length ≠ nc ∨ y.length ≠ nc ∨ data.length ≠ nc * ns then "err shape" else
      let la := labels.toArray; let xa := x.toArray; let ya := y.toArray; let da := data.toArray
      let d0 : Nat → Nat → Float := fun c s => da.getD (c * ns + s) 0.0
      let out := interpolate nc weightCutF (fnOf 0 la) (rawWeightF p krig (fnOf 0.0 xa) (fnOf 0.0 ya)) d0
      let vals := (List.range nc).flatMap fun c => (List.range ns).map fun s => out c s
      "ok " ++ showF64s vals
    | _, _, _, _, _, _, _, _ => "bad-op"
  -- labels nc fs thr0 thr1 psdthr|- xcor_hf xcor_lf psd_hf
  | ["labels", nc, fs, thr0, thr1, psd, xhf, xlf, phf] =>
    match nat? nc, f64? fs, f64? thr0, f64? thr1, optF psd, f64List? xhf, f64List? xlf, f64List? phf with
    | some nc, some fs, some thr0, some thr1, some psd, some xhf, some xlf, some phf =>
      if xhf.length ≠ nc ∨ xlf.length ≠ nc ∨ phf.length ≠ nc then "err shape" else
      let lab := detectFromFeatures nc thr0 thr1 (psdThresholdF fs psd) lfThresholdF
        (fnOf 0.0 xhf.toArray) (fnOf 0.0 xlf.toArray) (fnOf 0.0 phf.toArray)
      "ok " ++ showList ((List.range nc).map lab)
    | _, _, _, _, _, _, _, _ => "bad-op"
  -- mode nb ncTotal nsync labels(row-major nb*(ncTotal-nsync): batch after batch)
  | ["mode", nb, nct, nsync, labels] =>
    match nat? nb, nat? nct, nat? nsync, natList? labels with
    | some nb, some nct, some nsync, some labels =>
      let nc := analysedChannels nct nsync
      if labels.length ≠ nb * nc then "err shape" else
      let la := labels.toArray
      let batches : List (Nat → Nat) := (List.range nb).map fun b => fun c => la.getD (b * nc + c) 0
      match fileLabelVector nct nsync batches with
      | some l => "ok " ++ showList l
      | none => "err empty"
    | _, _, _, _ => "bad-op"
  -- donors np1|np2 nc labels : for every bad channel (increasing) its donors with the default parameters
  | ["donors", kind, nc, labels] =>
    match nat? nc, natList? labels with
    | some nc, some labels =>
      if labels.length ≠ nc then "err shape" else
      let site := if kind = "np1" then np1Site else np2Site
      let lab := fnOf 0 labels.toArray
      let rows := (badChannels nc lab).map fun c =>
        s!"{c}:" ++ (let d := latticeDonors site nc lab c; if d.isEmpty then "-" else ",".intercalate (d.map toString))
      "ok " ++ (if rows.isEmpty then "-" else ";".intercalate rows)
    | _, _ => "bad-op"
  -- sites np1|np2 nc : the lattice coordinates the donor rule is stated on
  | ["sites", kind, nc] =>
    match nat? nc with
    | some nc =>
      let site := if kind = "np1" then np1Site else np2Site
      "ok " ++ showPairs ((List.range nc).map site)
    | none => "bad-op"
  -- detrend nmed x
  | ["detrend", nmed, x] =>
    match nat? nmed, f64List? x with
    | some nmed, some x => "ok " ++ showF64s (detrend x nmed)
    | _, _ => "bad-op"
  -- slices ns fs dur nb
  | ["slices", ns, fs, dur, nb] =>
    match nat? ns, f64? fs, f64? dur, nat? nb with
    | some ns, some fs, some dur, some nb =>
      "ok " ++ showPairs ((List.range nb).map (batchSliceF ns fs dur nb))
    | _, _, _, _ => "bad-op"
  | _ => "bad-op"

def main : IO Unit := run step
