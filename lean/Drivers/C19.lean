import IblVerif.Model.Proto
import IblVerif.Model.SyncTs
open IblVerif IblVerif.Proto IblVerif.SyncTs

/-!
Line protocol of C19.  Every time travels as an integer `n` meaning the rational `n / 2^K` (`K` is the first argument
of each request), i.e. the exact value of the float64 the Python code works with.

    pass1  K Δ θ tsa tsb          → ok <ib after the first loop, -1 = unassigned>
    sync   K Δ θ tsa tsb fa       → ok ia=… ib=…   |  err ValueError        (fa[i] = fcn_a2b(tsa[i]))
    bins   K tmin tmax tbin ts    → ok n=<vector length> idx=<bin of every t> inrange=<0|1>
    pmax   ns imax v0 v1 v2       → ok <num> <den>   (parabolic_max(x)[0] as an exact fraction; integers in)
-/

def ratOf (K : Nat) (n : Int) : Rat := mkRat n (2 ^ K)

def ratList? (K : Nat) (s : String) : Option (List Rat) := (intList? s).map (·.map (ratOf K))

def showIb (ib : List (Option Nat)) : String :=
  showList (ib.map fun o => match o with | some j => (j : Int) | none => -1)

def step (t : List String) : String :=
  match t with
  | ["pass1", k, d, th, a, b] =>
    match nat? k, int? d, int? th with
    | some K, some d, some th =>
      match ratList? K a, ratList? K b with
      | some tsa, some tsb => "ok " ++ showIb (pass1 (ratOf K d) (ratOf K th) tsa tsb)
      | _, _ => "bad-op"
    | _, _, _ => "bad-op"
  | ["sync", k, d, th, a, b, f] =>
    match nat? k, int? d, int? th with
    | some K, some d, some th =>
      match ratList? K a, ratList? K b, ratList? K f with
      | some tsa, some tsb, some fa =>
        -- the external intermediate map enters as a table x = tsa[i] ↦ fa[i]
        let fmap : List (Option Nat) → Rat → Rat := fun _ x => ((tsa.zip fa).lookup x).getD 0
        match sync (ratOf K d) (ratOf K th) tsa tsb fmap with
        | .errValueError => "err ValueError"
        | .ok ps => s!"ok ia={showList (ps.map (·.1))} ib={showList (ps.map (·.2))}"
      | _, _, _ => "bad-op"
    | _, _, _ => "bad-op"
  | ["bins", k, tmin, tmax, tbin, ts] =>
    match nat? k, int? tmin, int? tmax, int? tbin with
    | some K, some tmin, some tmax, some tbin =>
      match ratList? K ts with
      | some ts =>
        let n := nbins (ratOf K tmin) (ratOf K tmax) (ratOf K tbin)
        let idx := ts.map (binIndex (ratOf K tmin) (ratOf K tbin))
        let inr := idx.all fun i => decide (0 ≤ i ∧ i < n)
        s!"ok n={n} idx={showList idx} inrange={if inr then 1 else 0}"
      | none => "bad-op"
    | _, _, _, _ => "bad-op"
  | ["pmax", ns, imax, v0, v1, v2] =>
    match nat? ns, nat? imax, int? v0, int? v1, int? v2 with
    | some ns, some imax, some v0, some v1, some v2 =>
      let r := parabolicPeak ns imax (v0 : Rat) (v1 : Rat) (v2 : Rat)
      s!"ok {r.num} {r.den}"
    | _, _, _, _, _ => "bad-op"
  | _ => "bad-op"

def main : IO Unit := run step
