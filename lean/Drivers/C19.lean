import IblVerif.Model.Proto
import IblVerif.Model.SyncTsFull
open IblVerif IblVerif.Proto IblVerif.SyncTs

/-!
Line protocol of C19.  Every time travels as an integer `n` meaning the rational `n / 2^K` (`K` is the first argument
of each request), i.e. the exact value of the float64 the Python code works with.

    pass1  K Δ θ tsa tsb          → ok <ib after the first loop, -1 = unassigned>
    sync   K Δ θ tsa tsb fa       → ok ia=… ib=…   |  err ValueError        (fa[i] = fcn_a2b(tsa[i]))
    bins   K tmin tmax tbin ts    → ok n=<vector length> idx=<bin of every t> inrange=<0|1>
    pmax   ns imax v0 v1 v2       → ok <num> <den>   (parabolic_max(x)[0] as an exact fraction; integers in)
    coarse K tbin tsa tsb         → ok n=<x.shape[0]> lag=<argmax - n + 1> v=<corr at lag-1,lag,lag+1> ties=<number of lags
                                    with the maximal correlation> delta=<num>/<den>     |  err ValueError
    closed K tbin lin tsa tsb q   → ok ia=… ib=… drift=<num>/<den> map=<fcn_a2b(q[k]) as num/den,…> n=… lag=… ties=… delta=…
                                    |  err ValueError  |  undetermined       (the whole function from (tsa, tsb, tbin, linear))
    interp K xs ys q              → ok <interp1d(xs, ys, fill_value="extrapolate")(q[k]) as num/den,…>  |  undetermined
    fit    K xs ys                → ok <slope num/den> <intercept num/den>  |  undetermined      (np.polyfit(xs, ys, 1))
-/

def ratOf (K : Nat) (n : Int) : Rat := mkRat n (2 ^ K)

def ratList? (K : Nat) (s : String) : Option (List Rat) := (intList? s).map (·.map (ratOf K))

def showIb (ib : List (Option Nat)) : String :=
  showList (ib.map fun o => match o with | some j => (j : Int) | none => -1)

def showRat (r : Rat) : String := s!"{r.num}/{r.den}"

def showRats (l : List Rat) : String := if l.isEmpty then "-" else ",".intercalate (l.map showRat)

/-- does the binning over the rationals (the one the theorems are about) put every event where the double-precision
binning does? -/
def ratBinsAgree (tsa tsb : List Rat) (tbin : Rat) : Bool :=
  match listMin (tsa ++ tsb), listMax (tsa ++ tsb) with
  | some tmin, some tmax =>
    nbins tmin tmax tbin == nbinsF (toF tmin) (toF tmax) (toF tbin) &&
      (tsa ++ tsb).all fun t => binIndex tmin tbin t == binIndexF (toF tmin) (toF tbin) (toF t)
  | _, _ => true

def showCoarse (tsa tsb : List Rat) (tbin : Rat) (c : Coarse) : String :=
  s!"n={c.n} lag={c.lag} v={c.v0},{c.v1},{c.v2} ties={c.ties} ratbins={if ratBinsAgree tsa tsb tbin then 1 else 0} delta={showRat c.delta}"

def step (t : List String) : String :=
  match t with
  | ["coarse", k, tb, a, b] =>
    match nat? k, int? tb with
    | some K, some tb =>
      match ratList? K a, ratList? K b with
      | some tsa, some tsb =>
        match coarseF tsa tsb (ratOf K tb) with
        | none => "err ValueError"
        | some c => "ok " ++ showCoarse tsa tsb (ratOf K tb) c
      | _, _ => "bad-op"
    | _, _ => "bad-op"
  | ["closed", k, tb, lin, a, b, q] =>
    match nat? k, int? tb, nat? lin with
    | some K, some tb, some lin =>
      match ratList? K a, ratList? K b, ratList? K q with
      | some tsa, some tsb, some qs =>
        match syncClosedF tsa tsb (ratOf K tb) (lin != 0) with
        | .errValueError => "err ValueError"
        | .undetermined => "undetermined"
        | .ok ps drift nodes c =>
          match mapOf (lin != 0) nodes with
          | none => "undetermined"
          | some f =>
            s!"ok ia={showList (ps.map (·.1))} ib={showList (ps.map (·.2))} drift={showRat drift} map={showRats (qs.map f)} "
              ++ showCoarse tsa tsb (ratOf K tb) c
      | _, _, _ => "bad-op"
    | _, _, _ => "bad-op"
  | ["interp", k, xs, ys, q] =>
    match nat? k with
    | some K =>
      match ratList? K xs, ratList? K ys, ratList? K q with
      | some xs, some ys, some qs =>
        let s := sortNodes (xs.zip ys)
        match qs.mapM (interpEval s) with
        | some vs => "ok " ++ showRats vs
        | none => "undetermined"
      | _, _, _ => "bad-op"
    | none => "bad-op"
  | ["fit", k, xs, ys] =>
    match nat? k with
    | some K =>
      match ratList? K xs, ratList? K ys with
      | some xs, some ys =>
        match fitLine xs ys with
        | some (m, c) => s!"ok {showRat m} {showRat c}"
        | none => "undetermined"
      | _, _ => "bad-op"
    | none => "bad-op"
  | ["pass1", k, d, th, a, b] =>
    match nat? k, int? d, int? th with
    | some K, some d, some th =>
      match ratList? K a, ratList? K b with
      | some tsa, some tsb => "ok " ++ showIb (pass1 (ratOf K d) (ratOf K th) tsa tsb)
      | _, _ => "bad-op"
    | _, _, _ => "bad-op"
  | ["sync", k, d, th, a, b, f] =>
    match nat? k, int? d, int? th with
    | some K, some d, some th =>
      match ratList? K a, ratList? K b, ratList? K f with
      | some tsa, some tsb, some fa =>
        -- the external intermediate map enters as a table x = tsa[i] ↦ fa[i]
        let fmap : List (Option Nat) → Rat → Rat := fun _ x => ((tsa.zip fa).lookup x).getD 0
        match sync (ratOf K d) (ratOf K th) tsa tsb fmap with
        | .errValueError => "err ValueError"
        | .ok ps => s!"ok ia={showList (ps.map (·.1))} ib={showList (ps.map (·.2))}"
      | _, _, _ => "bad-op"
    | _, _, _ => "bad-op"
  | ["bins", k, tmin, tmax, tbin, ts] =>
    match nat? k, int? tmin, int? tmax, int? tbin with
    | some K, some tmin, some tmax, some tbin =>
      match ratList? K ts with
      | some ts =>
        let n := nbins (ratOf K tmin) (ratOf K tmax) (ratOf K tbin)
        let idx := ts.map (binIndex (ratOf K tmin) (ratOf K tbin))
        let inr := idx.all fun i => decide (0 ≤ i ∧ i < n)
        s!"ok n={n} idx={showList idx} inrange={if inr then 1 else 0}"
      | none => "bad-op"
    | _, _, _, _ => "bad-op"
  | ["pmax", ns, imax, v0, v1, v2] =>
    match nat? ns, nat? imax, int? v0, int? v1, int? v2 with
    | some ns, some imax, some v0, some v1, some v2 =>
      let r := parabolicPeak ns imax (v0 : Rat) (v1 : Rat) (v2 : Rat)
      s!"ok {r.num} {r.den}"
    | _, _, _, _, _ => "bad-op"
  | _ => "bad-op"

def main : IO Unit := run step
