import IblVerif.Model.Proto
import IblVerif.Model.Destripe
import IblVerif.Model.DestripeStages
import IblVerif.Model.DestripeSos
open IblVerif IblVerif.Proto IblVerif.Destripe

/-! Line protocol for C05.  Every operation instantiates the definitions of `Model/Destripe.lean` at `Float`;
the external components (spatial / temporal `sosfiltfilt`, `interpolate_bad_channels`, `fk` without collection)
arrive as data measured on the real code (matrices of the linear operators, input/output tables). -/

def envF : Env Float :=
  { ofNat := Nat.toFloat, le := fun a b => decide (a ≤ b), abs := Float.abs, isZero := fun a => a == 0.0,
    cos := Float.cos, pi := 3.141592653589793, eps := 1e-8 }

/-- row-major array → matrix function -/
def matOf (a : Array Float) (nc ns : Nat) : Mat Float := Mat.tab nc ns (fun c t => a.getD (c * ns + t) 0.0)

def flat (nc ns : Nat) (x : Mat Float) : List Float :=
  (List.range nc).flatMap fun c => (List.range ns).map fun t => x.get c t

def showMat (nc ns : Nat) (x : Mat Float) : String := showF64s (flat nc ns x)

def showRes (nc ns : Nat) (r : Except Err (Mat Float)) : String :=
  match r with
  | .ok y => "ok " ++ showMat nc ns y
  | .error .valueError => "err ValueError"
  | .error .notModelled => "err notModelled"

def optNat? (s : String) : Option (Option Nat) := if s = "N" then some none else (nat? s).map some

def coll? (s : String) : Option (Option (Nat → Int)) :=
  if s = "N" then some none else (intList? s).map fun l => some (fun i => l.getD i 0)

def op? (s : String) : Option Operator :=
  match s with
  | "median" => some .median | "average" => some .average | "other" => some .other | _ => none

/-- `n1:bits,bits,…;n2:…` : square matrices of linear operators indexed by their size -/
def matTable? (s : String) : Option (List (Nat × Array Float)) :=
  if s = "-" then some [] else
  (s.splitOn ";").mapM fun part =>
    match part.splitOn ":" with
    | [n, body] => do
      let n ← nat? n
      let m ← f64List? body
      pure (n, m.toArray)
    | _ => none

/-- the linear operator with matrix `m` (`n × n`, row-major): `(M v)[i] = sum_j M[i, j] v[j]` -/
def applyMat (m : Array Float) (n : Nat) (v : Vec Float) : Vec Float :=
  Vec.tab n (fun i => sumTo n (fun j => m.getD (i * n + j) 0.0 * v.get j))

def lOf (tbl : List (Nat × Array Float)) : Nat → Vec Float → Vec Float :=
  fun n v => match tbl.lookup n with
    | some m => applyMat m n v
    | none => Vec.ofFn (fun _ => 0.0 / 0.0)   -- NaN: a size the harness did not supply can never compare equal

/-- table of `fk(·, collection=None)` measured on the real code: entries `n|input bits|output bits` joined by `;` -/
def fkTable? (s : String) : Option (List (Nat × Array Float × Array Float)) :=
  if s = "-" then some [] else
  (s.splitOn ";").mapM fun part =>
    match part.splitOn "|" with
    | [n, i, o] => do
      let n ← nat? n
      let i ← f64List? i
      let o ← f64List? o
      pure (n, i.toArray, o.toArray)
    | _ => none

def fkOf (tbl : List (Nat × Array Float × Array Float)) (ns : Nat) : Nat → Mat Float → Except Err (Mat Float) :=
  fun n y =>
    let key := (flat n ns y).toArray
    match tbl.find? (fun e => e.1 == n && e.2.1.size == key.size &&
        (List.range key.size).all (fun i => (e.2.1.getD i 0.0).toBits == (key.getD i 0.0).toBits)) with
    | some e => .ok (matOf e.2.2 n ns)
    | none => .error .notModelled

/-- second-order sections: 5 numbers `b0 b1 b2 a1 a2` per section -/
def secs? (s : String) : Option (List (Sec Float)) := do
  let l ← f64List? s
  let a := l.toArray
  if a.size % 5 != 0 then none else
  pure ((List.range (a.size / 5)).map fun k =>
    { b0 := a.getD (5 * k) 0.0, b1 := a.getD (5 * k + 1) 0.0, b2 := a.getD (5 * k + 2) 0.0,
      a1 := a.getD (5 * k + 3) 0.0, a2 := a.getD (5 * k + 4) 0.0 })

def spatial? (t : List String) (ns : Nat) : Option ((Nat → Mat Float → Except Err (Mat Float)) × List String) :=
  match t with
  | "car" :: op :: coll :: rest => do
    let op ← op? op
    let coll ← coll? coll
    pure (fun n y => car envF op n ns coll y, rest)
  | "kfilt" :: pad :: tap :: lagc :: padlen :: coll :: ltab :: rest => do
    let pad ← nat? pad
    let tap ← optNat? tap
    let lagc ← optNat? lagc
    let padlen ← nat? padlen
    let coll ← coll? coll
    let ltab ← matTable? ltab
    let s : KSet Float := { ntrPad := pad, ntrTap := tap, lagc := lagc, L := lOf ltab, padlen := padlen }
    pure (fun n y => kfilt envF s n ns coll y, rest)
  | "kfiltsos" :: pad :: tap :: lagc :: coll :: secs :: rest => do
    -- the spatial filter is the MODELLED sosfiltfilt of the given sections (no measured matrix)
    let pad ← nat? pad
    let tap ← optNat? tap
    let lagc ← optNat? lagc
    let coll ← coll? coll
    let secs ← secs? secs
    let edge := sosEdge envF secs
    let s : KSet Float := { ntrPad := pad, ntrTap := tap, lagc := lagc, L := sosL envF secs edge, padlen := edge }
    pure (fun n y => kfilt envF s n ns coll y, rest)
  | _ => none

def step (t : List String) : String :=
  match t with
  | ["adc", ch, cyc, nc] =>
    match nat? ch, nat? cyc, nat? nc with
    | some ch, some cyc, some nc =>
      "ok " ++ ";".intercalate ((List.range nc).map fun c =>
        let s := adcShift ch cyc c
        s!"{s.1}/{s.2}/{adcIndex ch c}")
    | _, _, _ => "bad-op"
  | ["unique", l] =>
    match intList? l with
    | some l => "ok " ++ showList (unique l)
    | none => "bad-op"
  | ["params", fs] =>
    match nat? fs with
    | some fs =>
      let p := defaultKKwargs fs
      s!"ok pad={p.1} tap={p.2.1} lagc={match p.2.2 with | none => "N" | some l => toString l}"
    | none => "bad-op"
  | ["agcwin", l] =>
    match nat? l with
    | some l => s!"ok {agcWin l}"
    | none => "bad-op"
  | ["agcwinq", wn, wd, sn, sd] =>
    match nat? wn, nat? wd, nat? sn, nat? sd with
    | some wn, some wd, some sn, some sd => s!"ok {agcWinQ wn wd sn sd}"
    | _, _, _, _ => "bad-op"
  | ["padidx", nx, pad] =>
    -- rows of the padded array, what stripping returns, and the index map of the functional model
    match nat? nx, nat? pad with
    | some nx, some pad =>
      s!"ok idx={showList (padIdx nx pad)} strip={showList (stripRowsIf pad (padIdx nx pad))} map={showList ((List.range (nxpOf nx pad)).map (mirrorIdx nx pad))}"
    | _, _ => "bad-op"
  | ["taper", nxp, tap] =>
    match nat? nxp, nat? tap with
    | some nxp, some tap => "ok " ++ showF64s ((List.range nxp).map (taper envF nxp tap))
    | _, _ => "bad-op"
  | ["stages", "kfilt", lagc, nx, pad, tap] =>
    match optNat? lagc, nat? nx, nat? pad, optNat? tap with
    | some lagc, some nx, some pad, some tap =>
      let s : KSet Float := { ntrPad := pad, ntrTap := tap, lagc := lagc, L := fun _ v => v, padlen := 0 }
      "ok " ++ toString (kfilt1T envF s nx 1 (Mat.ofFn fun _ _ => 0.0)).2
    | _, _, _, _ => "bad-op"
  | ["sosff", secs, data] =>
    match secs? secs, f64List? data with
    | some secs, some data =>
      let edge := sosEdge envF secs
      if data.length ≤ edge then s!"err ValueError edge={edge}"
      else s!"ok edge={edge} y={showF64s (sosfiltfilt envF secs edge data)}"
    | _, _ => "bad-op"
  | ["fshift", n, s, row] =>
    match nat? n, f64? s, f64List? row with
    | some n, some s, some row =>
      let r := row.toArray
      "ok " ++ showF64s ((List.range n).map (fshiftRow envF n s (Vec.tab n (fun j => r.getD j 0.0))).get)
    | _, _, _ => "bad-op"
  | ["agc", nc, ns, lagc, eps, data] =>
    match nat? nc, nat? ns, nat? lagc, f64? eps, f64List? data with
    | some nc, some ns, some lagc, some eps, some data =>
      let a := agc envF nc ns lagc eps (matOf data.toArray nc ns)
      s!"ok data={showMat nc ns a.data} gain={showMat nc ns a.gain} dead={showList ((List.range nc).map fun c => if a.dead.get c then 1 else 0)}"
    | _, _, _, _, _ => "bad-op"
  | "spatial" :: nc :: ns :: rest =>
    match nat? nc, nat? ns with
    | some nc, some ns =>
      match spatial? rest ns with
      | some (f, [data]) =>
        match f64List? data with
        | some data => showRes nc ns (f nc (matOf data.toArray nc ns))
        | none => "bad-op"
      | _ => "bad-op"
    | _, _ => "bad-op"
  | ["fk", nc, ns, coll, tbl, data] =>
    match nat? nc, nat? ns, coll? coll, fkTable? tbl, f64List? data with
    | some nc, some ns, some coll, some tbl, some data =>
      showRes nc ns (fk (fkOf tbl ns) nc ns coll (matOf data.toArray nc ns))
    | _, _, _, _, _ => "bad-op"
  | "destripe" :: nc :: ns :: labels :: shifts :: hmat :: wmat :: rest =>
    -- labels: N or list; shifts: N (no re-alignment) or `num/den,…`; hmat: ns×ns temporal operator (y = x·Hᵀ, row i of
    -- hmat gives output sample i); wmat: nc×nc interpolation operator or `-`
    match nat? nc, nat? ns with
    | some nc, some ns =>
      let labels : Option (Option (Nat → Nat)) :=
        if labels = "N" then some none else (natList? labels).map fun l => some (fun i => l.getD i 0)
      let shifts : Option (Option (List (Nat × Nat))) :=
        if shifts = "N" then some none else
          ((shifts.splitOn ",").mapM fun (p : String) => match p.splitOn "/" with
            | [a, b] => do pure ((← nat? a), (← nat? b))
            | _ => none).map some
      match labels, shifts, f64List? hmat, f64List? wmat, spatial? rest ns with
      | some labels, some shifts, some hmat, some wmat, some (f, [data]) =>
        match f64List? data with
        | some data =>
          let h := hmat.toArray
          let w := wmat.toArray
          let d : DSet Float :=
            { hp := applyMat h ns,
              shift := shifts.map fun _ => fshiftRow envF ns,
              interp := fun _ x => Mat.tab nc ns (fun c t => sumTo nc (fun j => w.getD (c * nc + j) 0.0 * x.get j t)),
              spatial := f }
          let sh : Nat → Float := match shifts with
            | none => fun _ => 0.0
            | some l => fun c => let p := l.getD c (0, 1); envF.ofNat p.1 / envF.ofNat p.2
          showRes nc ns (destripe d nc ns sh labels (matOf data.toArray nc ns))
        | none => "bad-op"
      | _, _, _, _, _ => "bad-op"
    | _, _ => "bad-op"
  | _ => "bad-op"

def main : IO Unit := run step
