import IblVerif.Model.Proto
import IblVerif.Model.Waveforms
open IblVerif IblVerif.Proto IblVerif.Waveforms

/-!
Line protocol for C13 (parsing / printing only; every computation is a `Model/Waveforms.lean` definition).

  chidx  XS YS R2 PAD
  extract ND HASNAN ADDNAN NS K M  XS YS R2  OFF LEN  SAMPLES PEAKS
  bin    NS NC K M  XS YS R2  SAMPLES CLUSTERS CHANS  MAXWF OFF LEN CS  SCHED CHOICE  LABELS INDICES  MODE
  bounds NS CS SAMPLES          chunk list of `extract_wfs_cbin` and the table rows each job receives: s0,s1,lo,hi per chunk
  tmpl   NNB LEN WFS            `np.nanmedian(wfs, axis=0)` doubled (`template2`), WFS = waveforms ';' rows '|' samples ',' ('n' = NaN)

The test recording is the formula `value(channel c, sample t) = (t*K + c) % M` (the harness writes the same
numbers into the file it hands to the real code).
-/

def showOI : Option Int → String
  | none => "n"
  | some x => toString x

def showWf (w : Wf) : String := "|".intercalate (w.map fun r => ",".intercalate (r.map showOI))
def showWfs (l : List Wf) : String := if l.isEmpty then "-" else ";".intercalate (l.map showWf)

/-- order-sensitive digest of a waveform (only a transport encoding for large cases) -/
def digest (w : Wf) : Nat :=
  w.foldl (fun h r => r.foldl (fun h v =>
    let code : Nat := match v with
      | none => 1
      | some x => if x < 0 then 3 + 2 * x.natAbs else 2 + 2 * x.natAbs
    (h * 1000003 + code) % 2305843009213693951) ((h * 1000003 + 7) % 2305843009213693951)) 17

def showWfsMode (mode : String) (l : List Wf) : String :=
  if mode = "digest" then showList (l.map digest) else showWfs l

def showRows (l : List (List Nat)) : String :=
  if l.isEmpty then "-" else ";".intercalate (l.map showList)

def geomOf (xs ys : List Int) : Array Pt := (xs.zip ys).toArray

def optNat? (s : String) : Option (Option Nat) := if s = "-" then some none else (s.toNat?).map some
def optIntList? (s : String) : Option (Option (List Int)) :=
  if s = "none" then some none else (intList? s).map some

def natLists? (s : String) : Option (List (List Nat)) :=
  if s = "." then some [] else (s.splitOn ";").mapM natList?

def showRow (r : Row) : String := s!"{r.index},{r.sample},{r.cluster},{r.peak},{r.wi},{r.iwc}"

def recArr (nrows ns K M : Nat) : Arr :=
  ⟨nrows, ns, fun c t => some (Int.ofNat ((t * K + c) % M))⟩

def errS (e : Err) : String := "err " ++ e.toString

def optInt? (s : String) : Option (Option Int) := if s = "n" then some none else (s.toInt?).map some
def wfs? (s : String) : Option (List Wf) :=
  if s = "-" then some [] else
  (s.splitOn ";").mapM fun w => (w.splitOn "|").mapM fun r => (r.splitOn ",").mapM optInt?

/-- chunk `i`: bounds `[i*cs, chunkEnd)` and the slice `[lo, hi)` of the (ascending) sample column that `chunkRows` takes -/
def boundsLine (ns cs : Nat) (col : List Int) : String :=
  let n := (chunkStarts ns cs).length
  ";".intercalate ((List.range n).map fun i =>
    let s1 := chunkEnd ns cs n i
    s!"{i * cs},{s1},{searchLeft col ((i * cs : Nat) : Int)},{searchLeft col ((s1 : Nat) : Int)}")

def step (t : List String) : String :=
  match t with
  | ["chidx", xs, ys, r2, pad] =>
    match intList? xs, intList? ys, nat? r2, optNat? pad with
    | some xs, some ys, some r2, some pad =>
      match channelIndex (geomOf xs ys) r2 pad with
      | .ok rows => "ok " ++ showRows rows
      | .error e => errS e
    | _, _, _, _ => "bad-op"
  | ["extract", nd, hasNan, addNan, ns, k, m, xs, ys, r2, off, len, samples, peaks] =>
    match nat? nd, nat? hasNan, nat? addNan, nat? ns, nat? k, nat? m, intList? xs, intList? ys, nat? r2,
          nat? off, nat? len, intList? samples, intList? peaks with
    | some nd, some hasNan, some addNan, some ns, some k, some m, some xs, some ys, some r2,
      some off, some len, some samples, some peaks =>
      match channelIndex (geomOf xs ys) r2 none with
      | .error e => errS e
      | .ok cn =>
        let data := recArr nd ns k m
        let arr := if hasNan = 1 then data.addNan else data
        let arr := if addNan = 1 then arr.addNan else arr
        match extract arr cn (samples.zip peaks) off len with
        | .ok wfs => "ok " ++ showWfs wfs
        | .error e => errS e
    | _, _, _, _, _, _, _, _, _, _, _, _, _ => "bad-op"
  | ["bin", ns, nc, k, m, xs, ys, r2, samples, clusters, chans, maxWf, off, len, cs,
     sched, choice, labels, indices, mode] =>
    match nat? ns, nat? nc, nat? k, nat? m, intList? xs, intList? ys, nat? r2,
          intList? samples, intList? clusters, intList? chans with
    | some ns, some nc, some k, some m, some xs, some ys, some r2, some samples, some clusters, some chans =>
      match nat? maxWf, nat? off, nat? len, nat? cs, natList? sched, natLists? choice,
            optIntList? labels, optIntList? indices with
      | some maxWf, some off, some len, some cs, some sched, some choice,
        some labels, some indices =>
        match channelIndex (geomOf xs ys) r2 none with
        | .error e => errS e
        | .ok cn =>
          let sp : List Spike := (samples.zip (clusters.zip chans)).map fun (s, c, p) => ⟨s, c, p⟩
          let choose : Choose := fun u _ _ => choice.getD ((unitIds sp).idxOf u) []
          let rec_ := recArr nc ns k m
          let lawful := lawfulAll choose sp ns off len maxWf
          match extractBin choose rec_ cn sp off len maxWf cs sched with
          | .error e => errS e ++ s!" lawful={if lawful then 1 else 0}"
          | .ok o =>
            let lrows := loadRows o labels indices
            s!"ok lawful={if lawful then 1 else 0} units={showList (unitIds sp)}" ++
            " table=" ++ (if o.table.isEmpty then "-" else ";".intercalate (o.table.map showRow)) ++
            " chans=" ++ showRows o.chans ++
            " clusters=" ++ (if o.clusters.isEmpty then "-" else
              ";".intercalate (o.clusters.map fun a => s!"{a.cluster},{a.count},{a.first},{a.last}")) ++
            " traces=" ++ showWfsMode mode o.traces ++
            " templates2=" ++ showWfsMode mode o.templates2 ++
            s!" load={showList lrows}"
      | _, _, _, _, _, _, _, _ => "bad-op"
    | _, _, _, _, _, _, _, _, _, _ => "bad-op"
  | ["bounds", ns, cs, samples] =>
    match nat? ns, nat? cs, intList? samples with
    | some ns, some cs, some col =>
      if ns = 0 then "err IndexError" else if cs = 0 then "bad-op" else "ok " ++ boundsLine ns cs col
    | _, _, _ => "bad-op"
  | ["tmpl", nnb, len, wfs] =>
    match nat? nnb, nat? len, wfs? wfs with
    | some nnb, some len, some wfs => "ok " ++ showWfs [template2 nnb len wfs]
    | _, _, _ => "bad-op"
  | _ => "bad-op"

def main : IO Unit := run step
