import IblVerif.Model.Proto
import IblVerif.Model.Geometry
import IblVerif.Model.GeomStagesC08
open IblVerif IblVerif.Proto IblVerif.Geometry

/-! Line protocol for C08 (parsing / printing only; every answer is computed by `IblVerif.Geometry`). -/

def version? : String → Option Version
  | "1" => some .v1 | "2" => some .v2 | "2.4" => some .v24 | "NPultra" => some .ultra | _ => none

def showErr : Err → String
  | .keyError => "err KeyError" | .valueError => "err ValueError" | .indexError => "err IndexError"
  | .offGrid => "offgrid" | .outOfModel => "outofmodel"

def showCol (l : List Int) : String := showList l
def showOpt : Option (List Int) → String
  | none => "absent" | some l => showList l

def showGeom (g : Geom) : String :=
  s!"den={g.shiftDen} shank={showCol g.shank} col={showCol g.col} row={showCol g.row} x={showCol g.x} " ++
  s!"y={showCol g.y} flag={showOpt g.flag} ss={showOpt g.sampleShift} adc={showOpt g.adc} ind={showOpt g.ind}"

/-- `-` = key absent, `@` = key present with an empty value -/
def optStr (s : String) : Option (List Char) := if s = "-" then none else if s = "@" then some [] else some s.toList
def optNat? (s : String) : Option (Option Nat) := if s = "-" then some none else (nat? s).map some
def optInt? (s : String) : Option (Option Int) := if s = "-" then some none else (int? s).map some
def bool? : String → Option Bool
  | "0" => some false | "1" => some true | _ => none

def meta? (sm gm te pt ps sh : String) : Option Meta := do
  let te ← bool? te
  let pt ← optNat? pt
  let ps ← bool? ps
  let sh ← optInt? sh
  pure { shankMap := optStr sm, geomMap := optStr gm, typeEnabled := te, prbType := pt, portSlot := ps, np24Shank := sh }

def showTag : Option Tag → String
  | none => "None" | some .t3A => "3A" | some .t3B1 => "3B1" | some .t3B2 => "3B2"
  | some .np21 => "NP2.1" | some .np24 => "NP2.4" | some .npultra => "NPultra"

def showMajor : Option Version → String
  | none => "None" | some .v1 => "1" | some .v2 => "2" | some .v24 => "2.4" | some .ultra => "NPultra"

def step (t : List String) : String :=
  match t with
  | ["geom", sm, gm, te, pt, ps, sh, srt, nc] =>
    match meta? sm gm te pt ps sh, bool? srt, nat? nc with
    | some m, some srt, some nc =>
      match geometryFromMeta m srt nc with
      | .error e => showErr e
      | .ok none => "none"
      | .ok (some (g, inds)) => "ok " ++ showGeom g ++ " inds=" ++ showList inds
    | _, _, _ => "bad-op"
  | ["geomprog", sm, gm, te, pt, ps, sh, srt] =>   -- the same through the statement program (GeomStages.run ∘ stages)
    match meta? sm gm te pt ps sh, bool? srt with
    | some m, some srt =>
      match mapChannels m.shankMap m.geomMap with
      | .error e => showErr e
      | .ok none => "nomap"
      | .ok (some cm) =>
        match GeomStages.run cm m.major m.np24Shank (GeomStages.stages cm.enc (decide (m.major = some .v1)) srt) with
        | .error e => showErr e
        | .ok (g, inds) => "ok " ++ showGeom g ++ " inds=" ++ showList inds
    | _, _ => "bad-op"
  | ["geomsplit", sm, gm, te, pt, ps, sh, srt, s] =>   -- split_trace_header(geometry_from_meta(...), s)
    match meta? sm gm te pt ps sh, bool? srt, int? s with
    | some m, some srt, some s =>
      match geometryFromMeta m srt with
      | .error e => showErr e
      | .ok none => "none"
      | .ok (some (g, _)) =>
        match restrict g s with
        | .error e => showErr e
        | .ok g => "ok " ++ showGeom g
    | _, _, _ => "bad-op"
  | ["version", te, pt, ps] =>
    match bool? te, optNat? pt, bool? ps with
    | some te, some pt, some ps =>
      let tag := versionTag te pt ps
      showTag tag ++ " " ++ showMajor (tag.map majorOfTag)
    | _, _, _ => "bad-op"
  | ["xy2rc", v, x, y] =>
    match version? v, int? x, int? y with
    | some v, some x, some y =>
      match xy2rc v x y with
      | some (r, c) => s!"ok row={r} col={c}"
      | none => "offgrid"
    | _, _, _ => "bad-op"
  | ["rc2xy", v, r, c] =>
    match version? v, int? r, int? c with
    | some v, some r, some c => let p := rc2xy v r c; s!"ok x={p.1} y={p.2}"
    | _, _, _ => "bad-op"
  | ["trace", v, ns] =>
    match version? v, nat? ns with
    | some v, some ns =>
      match traceHeader v ns with
      | .error e => showErr e
      | .ok g => "ok " ++ showGeom g
    | _, _ => "bad-op"
  | ["dense", v, ns] =>
    match version? v, nat? ns with
    | some v, some ns =>
      match denseLayout v ns with
      | .error e => showErr e
      | .ok g => "ok " ++ showGeom g
    | _, _ => "bad-op"
  | ["tracesplit", v, ns, s] =>     -- split_trace_header(trace_header(v, ns), s)
    match version? v, nat? ns, int? s with
    | some v, some ns, some s =>
      match traceHeader v ns with
      | .error e => showErr e
      | .ok g =>
        match restrict g s with
        | .error e => showErr e
        | .ok g => "ok " ++ showGeom g
    | _, _, _ => "bad-op"
  | ["adc", v, nc] =>
    match version? v, nat? nc with
    | some v, some nc =>
      match adcShifts v nc with
      | .error e => showErr e
      | .ok (ss, adc) => s!"ok den={(adcParams v).2} ss={showCol ss} adc={showCol adc}"
    | _, _ => "bad-op"
  | ["mapch", sm, gm] =>      -- _map_channels_from_meta
    match mapChannels (optStr sm) (optStr gm) with
    | .error e => showErr e
    | .ok none => "none"
    | .ok (some cm) =>
      let enc := match cm.enc with | .shankMap => "shank" | .geomMap => "geom"
      s!"ok enc={enc} c0={showCol cm.c0} c1={showCol cm.c1} c2={showCol cm.c2} c3={showCol cm.c3}"
  | ["find", s] =>
    let ts := findTuples (if s = "-" then [] else s.toList)
    "ok " ++ (if ts.isEmpty then "-" else ";".intercalate (ts.map fun t => ":".intercalate (t.map String.ofList)))
  | _ => "bad-op"

def main : IO Unit := run step
