import IblVerif.Model.Proto
import IblVerif.Model.Venn
import IblVerif.Model.Stack
import IblVerif.Model.SmoothIdx
import IblVerif.Model.Savgol
import IblVerif.Model.Cadzow
import IblVerif.Model.C20CadzowNp1
open IblVerif IblVerif.Proto

/-! Line protocol of C20.  Parsing/printing only, plus the stand-ins for the external components
(`np.linalg.inv` → Gauss–Jordan over `Float`; `cadzow.derank` → an element-wise weighting that the Python side
patches into the real module as well; `ft.lp` → identity / ramp weighting, likewise patched). -/

/-- `a,b,c,d` → `[(a,b),(c,d)]`. -/
def pairs : List Nat → Option (List (Nat × Nat))
  | [] => some []
  | a :: b :: t => (pairs t).map ((a, b) :: ·)
  | _ => none

def intRows (ts : List String) : Option (List (List Int)) := ts.mapM intList?

/-- Stand-in for `np.linalg.inv`: Gauss–Jordan with partial pivoting on a `p × p` table. -/
def invF (p : Nat) (M : Savgol.Table Float) : Savgol.Table Float := Id.run do
  let mut a : Array (Array Float) := Array.ofFn (n := p) fun i =>
    Array.ofFn (n := 2 * p) fun j =>
      if j.val < p then M.get i.val j.val else (if j.val - p = i.val then 1.0 else 0.0)
  for c in [0:p] do
    let mut piv := c
    for r in [c+1:p] do
      if (a[r]!)[c]!.abs > (a[piv]!)[c]!.abs then piv := r
    let tmp := a[c]!
    a := a.set! c a[piv]!
    a := a.set! piv tmp
    let d := (a[c]!)[c]!
    a := a.set! c ((a[c]!).map (· / d))
    for r in [0:p] do
      if r ≠ c then
        let f := (a[r]!)[c]!
        let rowc := a[c]!
        a := a.set! r ((a[r]!).mapIdx fun j v => v - f * rowc[j]!)
  return ⟨(a.toList.map fun row => (row.toList.drop p))⟩

/-- Stand-in weighting used instead of the SVD truncation (small integers, so that sums stay exact). -/
def wgt (A B : Nat) : Float := (1 + (3 * A + 5 * B) % 7).toFloat
def derankStandIn (T : Nat → Nat → Float) : Nat → Nat → Float := fun A B => wgt A B * T A B

def showVennRes : Venn.Res (List Nat) → String
  | .ok r => "ok " ++ showList r
  | .err e => "err " ++ e

/-- `scipy.signal.windows.hann(2 ovx - 1)[t]` in double arithmetic (closed form; compared to 1e-12). -/
def hannF (ovx t : Nat) : Float :=
  0.5 - 0.5 * Float.cos (2.0 * 3.141592653589793 * t.toFloat / (2 * ovx - 2).toFloat)

def showKind : CadzowNp1.Kind → String
  | .first => "first"
  | .last => "last"
  | .mid => "mid"

def nanOrF (s : String) : Option (Option Float) := if s = "n" then some none else (f64? s).map some

def step (t : List String) : String :=
  match t with
  | "venn" :: sbin :: cbin :: fs :: nch :: chunk :: sorters =>
    match nat? sbin, nat? cbin, nat? fs, nat? nch, nat? chunk, sorters.mapM (fun s => (natList? s).bind pairs) with
    | some sbin, some cbin, some fs, some nch, some chunk, some sp =>
      showVennRes (Venn.vennDefaults sp sbin cbin fs nch chunk)
    | _, _, _, _, _, _ => "bad-op"
  | "venng" :: sbin :: cbin :: fs :: nch :: sorters =>
    -- the chunk-free dictionary (global bin grid): what every chunk size that is a multiple of the bin size returns
    match nat? sbin, nat? cbin, nat? fs, nat? nch, sorters.mapM (fun s => (natList? s).bind pairs) with
    | some sbin, some cbin, some fs, some nch, some sp =>
      showVennRes (Venn.vennGlobal sp (if sbin = 0 then Venn.defaultSbin fs else sbin) cbin nch)
    | _, _, _, _, _ => "bad-op"
  | "stack" :: agg :: ns :: word :: rows =>
    match nat? ns, intList? word, intRows rows with
    | some ns, some word, some rows =>
      if agg = "sum" then
        match Stack.stack (Stack.sumCols ns) rows word with
        | none => "err IndexError"
        | some r => s!"ok group={showList r.group} fold={showList r.fold} rows=" ++
            ";".intercalate (r.rows.map showList)
      else
        match Stack.stack (Stack.meanCols ns) rows word with
        | none => "err IndexError"
        | some r => s!"ok group={showList r.group} fold={showList r.fold} rows=" ++
            ";".intercalate (r.rows.map showF64s)
    | _, _, _ => "bad-op"
  | ["svdplan", rank, coll] =>
    match nat? rank, intList? coll with
    | some rank, some coll =>
      "ok " ++ ";".intercalate ((Stack.svdPlan rank coll).map fun q => s!"{q.1}:{showList q.2.1}:{q.2.2}")
    | _, _ => "bad-op"
  | ["collranks", rank, nc, sizes] =>
    match nat? rank, nat? nc, natList? sizes with
    | some rank, some nc, some sizes => "ok " ++ showList (sizes.map fun size => Stack.collRank rank size nc)
    | _, _, _ => "bad-op"
  | ["rollen", n, wl] =>
    match nat? n, nat? wl with
    | some n, some wl =>
      match Smooth.rollingLen n wl with
      | .ok m => s!"ok {m}"
      | .err e => "err " ++ e
    | _, _ => "bad-op"
  | ["rolling", w, x] =>
    match f64List? w, f64List? x with
    | some w, some x =>
      match Smooth.rollingWindow w x with
      | .ok y => "ok " ++ showF64s y
      | .err e => "err " ++ e
    | _, _ => "bad-op"
  | ["lpad", n, pad] =>
    match nat? n, f64? pad with
    | some n, some pad => s!"ok {Smooth.lpadOf n pad}"
    | _, _ => "bad-op"
  | ["lp", f, l, x] =>
    match nat? l, intList? x with
    | some l, some x =>
      let F : List Int → List Int :=
        if f = "ramp" then fun y => (List.range y.length).map (fun i => y.getD i 0 * ((i : Int) + 1)) else id
      match Smooth.lp F x l with
      | .ok y => "ok " ++ showList y
      | .err e => "err " ++ e
    | _, _ => "bad-op"
  | ["savgol", window, polynom, x, y] =>
    match nat? window, nat? polynom, f64List? x, f64List? y with
    | some window, some polynom, some x, some y =>
      match Savgol.savgol invF x y window polynom with
      | .ok r => "ok " ++ showF64s r
      | .err e => "err " ++ e
    | _, _, _, _ => "bad-op"
  | ["sinterp", window, order, sig] =>
    match nat? window, nat? order, (if sig = "-" then some [] else (sig.splitOn ",").mapM nanOrF) with
    | some window, some order, some sig =>
      -- the interpolator stand-in returns the smoothed node values; the nodes are printed next to them
      match Savgol.smoothInterp invF (fun n => n.toFloat) (fun _ sm _ => sm) sig window order with
      | .ok r => s!"ok nodes={showList ((Savgol.goodIdx sig).map (·.1))} sm={showF64s r}"
      | .err e => "err " ++ e
    | _, _, _ => "bad-op"
  | ["traj", x, y] =>
    match intList? x, intList? y with
    | some x, some y =>
      let tr := Cadzow.trajectory x y
      s!"ok shape={tr.rows},{tr.cols} pos=" ++
        (if tr.pos.isEmpty then "-" else ";".intercalate (tr.pos.map fun p => s!"{p.1},{p.2.1},{p.2.2}")) ++
        s!" trcount={showList (Cadzow.trcount tr)}"
    | _, _ => "bad-op"
  | ["denoise", x, y, d] =>
    match intList? x, intList? y, f64List? d with
    | some x, some y, some d =>
      let tr := Cadzow.trajectory x y
      match Cadzow.denoiseCol derankStandIn (fun k => k.toFloat) tr d with
      | .ok r => "ok " ++ showF64s r
      | .err e => "err " ++ e
    | _, _, _ => "bad-op"
  | "denoiseall" :: x :: y :: imax :: niter :: cols =>
    match intList? x, intList? y, nat? imax, nat? niter, cols.mapM f64List? with
    | some x, some y, some imax, some niter, some cols =>
      let tr := Cadzow.trajectory x y
      match Cadzow.denoiseAll derankStandIn (fun k => k.toFloat) tr (Cadzow.imaxOf cols.length imax) cols niter with
      | .ok r => "ok " ++ ";".intercalate (r.map showF64s)
      | .err e => "err " ++ e
    | _, _, _, _, _ => "bad-op"
  | ["derankok", x, y, r] =>
    match intList? x, intList? y, nat? r with
    | some x, some y, some r => if Cadzow.derankRankOk (Cadzow.trajectory x y) r then "ok" else "err IndexError"
    | _, _, _ => "bad-op"
  | ["lpadq", n, num, den] =>
    match nat? n, nat? num, nat? den with
    | some n, some num, some den => s!"ok {Smooth.lpadRat n num den}"
    | _, _, _ => "bad-op"
  | ["sbinq", fs] =>
    match nat? fs with
    | some fs => s!"ok {Venn.defaultSbinQ fs} {Venn.defaultSbin fs}"
    | _ => "bad-op"
  | ["nchunks", mx, chunk, ch] =>
    match nat? mx, nat? chunk, nat? ch with
    | some mx, some chunk, some ch => s!"ok {Venn.numChunks mx chunk} {Venn.chunkOffset ch chunk}"
    | _, _, _ => "bad-op"
  | ["trajshape", n] =>
    match nat? n with
    | some n => s!"ok {Cadzow.nrows n} {Cadzow.ncols n}"
    | _ => "bad-op"
  | ["np1", ntr, nswx, ovx, npad] =>
    match nat? ntr, nat? nswx, nat? ovx, nat? npad with
    | some ntr, some nswx, some ovx, some npad =>
      match CadzowNp1.windows ntr nswx ovx npad with
      | .err e => "err " ++ e
      | .ok ws =>
        "ok win=" ++ (if ws.isEmpty then "-" else ";".intercalate (ws.map fun w => s!"{w.1},{w.2.1},{showKind w.2.2}")) ++
        " gw=" ++ (if ws.isEmpty then "-" else ";".intercalate (ws.map fun w =>
          showF64s ((List.range nswx).map (CadzowNp1.gw (hannF ovx) nswx ovx w.2.2)))) ++
        " weights=" ++ showF64s (CadzowNp1.outputWeights (hannF ovx) ntr nswx ovx npad)
    | _, _, _, _ => "bad-op"
  | ["imax", ns, imax] =>
    match nat? ns, nat? imax with
    | some ns, some imax => s!"ok {Cadzow.imaxOf ns imax}"
    | _, _ => "bad-op"
  | _ => "bad-op"

def main : IO Unit := run step
