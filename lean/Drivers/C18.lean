import IblVerif.Model.Proto
import IblVerif.Model.SpecIdx
open IblVerif IblVerif.Proto IblVerif.SpecIdx

/-! Line protocol for C18.  Parsing/printing and the `Float` instantiation of the external component
(`NumpyFFT Float Cx`: the textbook O(n²) DFT sums standing in for pocketfft); all logic is `Model/SpecIdx.lean`. -/

structure Cx where
  re : Float
  im : Float

instance : Add Cx := ⟨fun a b => ⟨a.re + b.re, a.im + b.im⟩⟩
instance : Mul Cx := ⟨fun a b => ⟨a.re * b.re - a.im * b.im, a.re * b.im + a.im * b.re⟩⟩
instance : OfNat Cx 0 := ⟨⟨0.0, 0.0⟩⟩

def piF : Float := Float.ofBits 4614256656552045848   -- np.pi

def floatFn : RealFn Float := { ofNat := Nat.toFloat, cos := Float.cos, pi := piF }

/-- `exp(sign · 2πi · m / n)` with the argument reduced exactly modulo `n`. -/
def twiddle (sign : Float) (m n : Nat) : Cx :=
  let th := sign * 2.0 * piF * (m % n).toFloat / n.toFloat
  ⟨Float.cos th, Float.sin th⟩

/-- `Σ_{j<n} exp(sign·2πi·j·k/n) · a[j]` -/
def dftSumF (sign : Float) (a : Array Cx) (n k : Nat) : Cx := Id.run do
  let mut acc : Cx := 0
  for j in [0:n] do
    acc := acc + twiddle sign (j * k) n * a.getD j 0
  return acc

def hermF (A : Array Cx) (n k : Nat) : Cx :=
  if k ≤ n / 2 then A.getD k 0 else let z := A.getD (n - k) 0; ⟨z.re, -z.im⟩

def floatFFT : NumpyFFT Float Cx where
  rfft a := let v := (a.map fun r => (⟨r, 0.0⟩ : Cx)).toArray
            (List.range (a.length / 2 + 1)).map fun k => dftSumF (-1.0) v a.length k
  irfft A n := let v := A.toArray
               let h := (List.range n).toArray.map (hermF v n)
               (List.range n).map fun t => (dftSumF 1.0 h n t).re / n.toFloat
  fft a := let v := a.toArray
           (List.range a.length).map fun k => dftSumF (-1.0) v a.length k
  ifft A := let v := A.toArray
            (List.range A.length).map fun t =>
              let s := dftSumF 1.0 v A.length t; ⟨s.re / A.length.toFloat, s.im / A.length.toFloat⟩
  re z := z.re
  ofReal r := ⟨r, 0.0⟩
  conj z := ⟨z.re, -z.im⟩
  expi th := ⟨Float.cos th, Float.sin th⟩

def showRes {α} (f : α → String) : PyRes α → String
  | .val a => "ok " ++ f a
  | .none => "none"
  | .indexError => "err IndexError"
  | .valueError => "err ValueError"

def mode? : String → Option Mode
  | "full" => some .full
  | "same" => some .same
  | _ => some .other

/-- symbolic spectrum entry: (bin index, conjugated?) -/
def showSym (l : List (Nat × Bool)) : String :=
  if l.isEmpty then "-" else ",".intercalate (l.map fun p => toString p.1 ++ (if p.2 then "*" else ""))

def sym (m : Nat) : List (Nat × Bool) := (List.range m).map fun i => (i, false)
def symConj (p : Nat × Bool) : Nat × Bool := (p.1, !p.2)

def cxList? (s : String) : Option (List Cx) := do
  let l ← f64List? s
  let rec go : List Float → List Cx
    | a :: b :: r => ⟨a, b⟩ :: go r
    | _ => []
  pure (go l)
def showCx (l : List Cx) : String := showF64s (l.flatMap fun z => [z.re, z.im])

def step (t : List String) : String :=
  match t with
  | ["nsoptim", n] =>
    match nat? n with
    | some n => (match nsOptim n with | some r => s!"ok {r}" | none => "err IndexError")
    | _ => "bad-op"
  | ["convidx", mode, nsx, nsw] =>
    match mode? mode, nat? nsx, nat? nsw with
    | some m, some nsx, some nsw =>
      let r := convolve idxFFT m (List.replicate nsx 0) (List.replicate nsw 0)
      showRes (fun l => s!"first={l.headD 0} len={l.length} contiguous={l == (List.range l.length).map (· + l.headD 0)}") r
    | _, _, _ => "bad-op"
  | ["conv", mode, x, w] =>
    match mode? mode, f64List? x, f64List? w with
    | some m, some x, some w => showRes showF64s (convolve floatFFT m x w)
    | _, _, _ => "bad-op"
  | ["convspec", mode, x, w] =>     -- exact integers: the right-hand side of `conv_full` / `conv_same_centred`
    match mode? mode, intList? x, intList? w with
    | some m, some x, some w => showRes showList (convSpec m x w)
    | _, _, _ => "bad-op"
  | ["freduce", n] =>
    match nat? n with
    | some n => showRes showSym (freduce (sym n))
    | _ => "bad-op"
  | ["fexpand", ns, m] =>
    match nat? ns, nat? m with
    | some ns, some m => showRes showSym (fexpand symConj (sym m) ns)
    | _, _ => "bad-op"
  | ["fscale", ns, si, one] =>
    match nat? ns, f64? si, nat? one with
    | some ns, some si, some one => "ok " ++ showF64s (fscale floatFn ns si (one == 1))
    | _, _, _ => "bad-op"
  | ["fcncos", b0, b1, xs] =>
    match f64? b0, f64? b1, f64List? xs with
    | some b0, some b1, some xs => "ok " ++ showF64s (xs.map (fcnCosine floatFn b0 b1))
    | _, _, _ => "bad-op"
  | ["lp", si, b0, b1, ts] =>
    match f64? si, f64? b0, f64? b1, f64List? ts with
    | some si, some b0, some b1, some ts => showRes showF64s (lp floatFFT floatFn ts si b0 b1)
    | _, _, _, _ => "bad-op"
  | ["hp", si, b0, b1, ts] =>
    match f64? si, f64? b0, f64? b1, f64List? ts with
    | some si, some b0, some b1, some ts => showRes showF64s (hp floatFFT floatFn ts si b0 b1)
    | _, _, _, _ => "bad-op"
  | ["bp", si, b0, b1, b2, b3, ts] =>
    match f64? si, f64? b0, f64? b1, f64? b2, f64? b3, f64List? ts with
    | some si, some b0, some b1, some b2, some b3, some ts =>
      showRes showF64s (bp floatFFT floatFn ts si b0 b1 b2 b3)
    | _, _, _, _, _, _ => "bad-op"
  | ["dftnk", ns, c] =>
    match nat? ns, nat? c with
    | some ns, some c => s!"ok {dftNk ns (c == 1)}"
    | _, _ => "bad-op"
  | ["dft", c, x] =>
    match nat? c, cxList? x with
    | some c, some x => "ok " ++ showCx (dft floatFFT floatFn x (c == 1))
    | _, _ => "bad-op"
  | ["dft2", nk, nl, r, c, x] =>
    match nat? nk, nat? nl, f64List? r, f64List? c, cxList? x with
    | some nk, some nl, some r, some c, some x =>
      "ok " ++ showCx ((dft2 floatFFT floatFn x r c nk nl).flatMap id)
    | _, _, _, _, _ => "bad-op"
  | _ => "bad-op"

def main : IO Unit := run step
