import IblVerif.Model.Proto
import IblVerif.Model.FShift
import IblVerif.Model.FShiftND
open IblVerif IblVerif.Proto IblVerif.FShift

/-! Line protocol for C07.  Floats travel as IEEE-754 binary64 bit patterns (decimal).  The driver only parses, calls
the model definitions of `Model/FShift.lean` instantiated at `Float`, and prints. -/

instance : NatCast Float := ⟨Nat.toFloat⟩

/-- The `Float` instance of the transcendental operations (the `ℝ` instance is `Analysis/FShift.lean: realTrig`). -/
def floatTrig : Trig Float := ⟨3.141592653589793, Float.cos, Float.sin, Float.atan2⟩

def arr? (s : String) : Option (Array Float) := (f64List? s).map List.toArray
def showArr (a : Array Float) : String := showF64s a.toList

def shift? (kind s : String) : Option (Shift Float) :=
  match kind with
  | "S" => (f64? s).map Shift.scalar
  | "V" => (arr? s).map Shift.perTrace
  | _ => none

def rows? (s : String) : Option (Array (Array Float)) :=
  if s = "-" then some #[] else ((s.splitOn ";").mapM arr?).map List.toArray

def showRows (w : Array (Array Float)) : String :=
  if w.isEmpty then "-" else ";".intercalate (w.toList.map showArr)

def showRes {α} (f : α → String) : Except Err α → String
  | .ok a => "ok " ++ f a
  | .error e => "err " ++ e.toString

/-- `np.argmax` order on IEEE doubles: a NaN is larger than every number and the first NaN wins (`a < b` is the order the
theorems are about; the extra disjunct only matters for NaN samples, which `ℝ` does not have) -/
def floatLt (a b : Float) : Bool := a < b || (b != b && a == a)
def floatIsZero (a : Float) : Bool := a == 0

def showPairs (a : Array (Float × Float)) : String := showArr (a.map (·.1)) ++ " " ++ showArr (a.map (·.2))

def step (t : List String) : String :=
  match t with
  | ["fshiftnd", shape, axis, kind, s, x] =>
    match natList? shape, int? axis, shift? kind s, arr? x with
    | some shape, some axis, some s, some x => showRes showArr (fshiftND floatTrig shape x s axis)
    | _, _, _, _ => "bad-op"
  | ["fshiftfreq", ns, s, re, im] =>
    match nat? ns, f64? s, arr? re, arr? im with
    | some ns, some s, some re, some im => showRes showPairs (fshiftFreq1 floatTrig (re.zip im) ns s)
    | _, _, _, _ => "bad-op"
  | ["pmax2", w] =>
    match rows? w with
    | some w =>
      if w.any (·.size = 0) then "err empty" else
      "ok " ++ showPairs (parabolicMax2 (0.5 : Float) floatIsZero floatLt w)
    | _ => "bad-op"
  | ["corr", a, b] =>
    match arr? a, arr? b with
    | some a, some b => "ok " ++ showArr (correlateSame a b)
    | _, _ => "bad-op"
  | ["corrmax", a, b] =>
    match arr? a, arr? b with
    | some a, some b =>
      if a.size = 0 then "err empty" else
      let r := waveShiftCorrmax floatTrig (0.5 : Float) floatIsZero floatLt a b
      s!"ok {f64Bits r.2} {showArr r.1}"
    | _, _ => "bad-op"
  | ["plan", kind, axis, ns, s, x] =>
    -- execute the stage list (the one the tie proves equal to the translated source) on a trace
    match int? axis, int? ns, f64? s, arr? x with
    | some axis, some ns, some s, some x =>
      match runPlan floatTrig x s (if kind = "freq" then planFreq axis else planReal (kind = "pertrace") axis ns) with
      | some y => "ok " ++ showArr y
      | none => "none"
    | _, _, _, _ => "bad-op"
  | ["fshift1", axis, kind, s, x] =>
    match int? axis, shift? kind s, arr? x with
    | some axis, some s, some x => showRes showArr (fshift1 floatTrig x s axis)
    | _, _, _ => "bad-op"
  | ["fshift2", ncol, axis, kind, s, w] =>
    match nat? ncol, int? axis, shift? kind s, rows? w with
    | some ncol, some axis, some s, some w => showRes showRows (fshift2 floatTrig w ncol s axis)
    | _, _, _, _ => "bad-op"
  | ["roll", m, x] =>
    match int? m, arr? x with
    | some m, some x => "ok " ++ showArr (roll x m)
    | _, _ => "bad-op"
  | ["rfft", x] =>
    match arr? x with
    | some x => let X := rfft floatTrig x
                "ok " ++ showArr (X.map (·.1)) ++ " " ++ showArr (X.map (·.2))
    | _ => "bad-op"
  | ["irfft", n, re, im] =>
    match nat? n, arr? re, arr? im with
    | some n, some re, some im => "ok " ++ showArr (irfft floatTrig (re.zip im) n)
    | _, _, _ => "bad-op"
  | ["dephas", n] =>
    match nat? n with
    | some n => "ok " ++ showArr (Array.ofFn (n := n / 2 + 1) fun k => dephasAngle floatTrig n k.val)
    | _ => "bad-op"
  | ["pmax", x] =>
    match arr? x with
    | some x =>
      if x.size = 0 then "err empty" else
      let r := parabolicMax (0.5 : Float) floatIsZero floatLt x
      s!"ok {f64Bits r.1} {f64Bits r.2}"
    | _ => "bad-op"
  | _ => "bad-op"

def main : IO Unit := run step
